#!/usr/bin/env python3
"""mkprops.py: (re)generate a Properties/Cxx.v file from proved lemmas: every property theorem restates the
statement (copied verbatim from the proof file, so it cannot drift) and is closed by `exact`, followed by
Print Assumptions.  Usage: mkprops.py Cxx  (the table is in PROPS below)."""
import os, re, sys
COQ = os.path.join(os.path.dirname(os.path.dirname(os.path.abspath(__file__))), "coq")


def statement(module, name):
    src = open(os.path.join(COQ, "Proofs", module + ".v")).read()
    m = re.search(r'^(?:Theorem|Lemma|Corollary)\s+' + re.escape(name) + r'\b(.*?)\nProof\.', src, re.S | re.M)
    if not m:
        raise SystemExit("statement of %s.%s not found" % (module, name))
    return m.group(1).rstrip()


def checked_statement(imports, module, name):
    """the statement as Coq prints it (for lemmas proved inside a Section, whose source text lacks the section variables)"""
    import subprocess, tempfile
    tmp = os.path.join(COQ, "zz_check_tmp.v")
    open(tmp, "w").write(imports.strip() + "\nSet Printing Width 120.\nSet Printing Depth 1000.\nCheck %s.%s.\n" % (module, name))
    try:
        p = subprocess.run(["coqc", "-Q", ".", "BCL", "-w", "-notation-overridden,-abstract-large-number", "zz_check_tmp.v"], cwd=COQ,
                           stdout=subprocess.PIPE, stderr=subprocess.STDOUT, text=True, timeout=600)
    finally:
        for ext in (".v", ".vo", ".vok", ".vos", ".glob"):
            try:
                os.remove(os.path.join(COQ, "zz_check_tmp" + ext))
            except OSError:
                pass
        try:
            os.remove(os.path.join(COQ, ".zz_check_tmp.aux"))
        except OSError:
            pass
    out = p.stdout
    m = re.search(re.escape(module + "." + name) + r"\s*:\s*(.*)", out, re.S) or re.search(re.escape(name) + r"\s*:\s*(.*)", out, re.S)
    if not m:
        raise SystemExit("Check %s.%s failed:\n%s" % (module, name, out[-1500:]))
    return " :\n  " + m.group(1).strip()


def gen(pid, header, imports, items, tail=""):
    out = ["(* %s *)" % header.strip(), imports.strip(), ""]
    for item in items:
        new, module, name, comment = item[:4]
        scope = item[4] if len(item) > 4 else None
        if scope == "check":
            st, scope = checked_statement(imports, module, name), None
        else:
            st = statement(module, name)
        if comment:
            out.append("(* %s *)" % comment)
        if scope:
            out.append("Local Open Scope %s." % scope)
        out.append("Theorem %s%s" % (new, st if st.rstrip().endswith(".") else st + "."))
        out.append("Proof. first [exact %s.%s | apply %s.%s]. Qed." % (module, name, module, name))
        if scope:
            out.append("Local Close Scope %s." % scope)
        out.append("Print Assumptions %s." % new)
        out.append("")
    out.append(tail.strip())
    open(os.path.join(COQ, "Properties", pid + ".v"), "w").write("\n".join(out) + "\n")


MARK = "(* ==== generated additions (tools/mkprops.py, table APPEND in tools/propstable.py) ==== *)"


def gen_append(pid, imports, items):
    """for hand-written property files: (re)generate the section after MARK"""
    path = os.path.join(COQ, "Properties", pid + ".v")
    src = open(path).read()
    if MARK in src:
        src = src[:src.index(MARK)].rstrip() + "\n"
    out = [src, MARK, imports.strip(), ""]
    for item in items:
        new, module, name, comment = item[:4]
        scope = item[4] if len(item) > 4 else None
        st = statement(module, name)
        if comment:
            out.append("(* %s *)" % comment)
        if scope:
            out.append("Local Open Scope %s." % scope)
        out.append("Theorem %s%s" % (new, st))
        out.append("Proof. first [exact %s.%s | apply %s.%s]. Qed." % (module, name, module, name))
        if scope:
            out.append("Local Close Scope %s." % scope)
        out.append("Print Assumptions %s." % new)
        out.append("")
    open(path, "w").write("\n".join(out))


if __name__ == "__main__":
    import importlib.util
    spec = importlib.util.spec_from_file_location("propstable", os.path.join(os.path.dirname(os.path.abspath(__file__)), "propstable.py"))
    t = importlib.util.module_from_spec(spec)
    spec.loader.exec_module(t)
    for pid in sys.argv[1:]:
        if pid in t.PROPS:
            gen(pid, *t.PROPS[pid])
        if pid in getattr(t, "APPEND", {}):
            gen_append(pid, *t.APPEND[pid])
        print("wrote Properties/%s.v" % pid)
