#!/usr/bin/env python3
"""mkprops.py: (re)generate a Properties/Cxx.v file from proved lemmas: every property theorem restates the
statement (copied verbatim from the proof file, so it cannot drift) and is closed by `exact`, followed by
Print Assumptions.  Usage: mkprops.py Cxx  (the table is in PROPS below)."""
import os, re, sys
COQ = os.path.join(os.path.dirname(os.path.dirname(os.path.abspath(__file__))), "coq")


def statement(module, name):
    src = open(os.path.join(COQ, "Proofs", module + ".v")).read()
    m = re.search(r'^(?:Theorem|Lemma|Corollary)\s+' + re.escape(name) + r'\b(.*?)\nProof\.', src, re.S | re.M)
    if not m:
        raise SystemExit("statement of %s.%s not found" % (module, name))
    return m.group(1).rstrip()


def gen(pid, header, imports, items, tail=""):
    out = ["(* %s *)" % header.strip(), imports.strip(), ""]
    for item in items:
        new, module, name, comment = item[:4]
        scope = item[4] if len(item) > 4 else None
        st = statement(module, name)
        if comment:
            out.append("(* %s *)" % comment)
        if scope:
            out.append("Local Open Scope %s." % scope)
        out.append("Theorem %s%s" % (new, st))
        out.append("Proof. first [exact %s.%s | apply %s.%s]. Qed." % (module, name, module, name))
        if scope:
            out.append("Local Close Scope %s." % scope)
        out.append("Print Assumptions %s." % new)
        out.append("")
    out.append(tail.strip())
    open(os.path.join(COQ, "Properties", pid + ".v"), "w").write("\n".join(out) + "\n")


if __name__ == "__main__":
    import importlib.util
    spec = importlib.util.spec_from_file_location("propstable", os.path.join(os.path.dirname(os.path.abspath(__file__)), "propstable.py"))
    t = importlib.util.module_from_spec(spec)
    spec.loader.exec_module(t)
    for pid in sys.argv[1:]:
        gen(pid, *t.PROPS[pid])
        print("wrote Properties/%s.v" % pid)
