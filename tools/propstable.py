"""Table for tools/mkprops.py: property id -> (header comment, imports, [(theorem name, proof module, lemma, comment)], tail)."""
PROPS = {}

PROPS["C01"] = ("""C01: Expression evaluation conforms to the language definition.

   Spec/Sem.v states the documented operator semantics organised by operand TYPES (promotion, int wrap
   around, truncated division, string concatenation / repetition / number coercion, equality across all
   types, ordering within numbers and within strings, falsey set); the theorems below say that the VM's
   instruction semantics (Model/Vm.v exec_op, the transcription of machine.go/oplogic.go) IS that
   semantics, for every operator and every pair of operands.  The precedence ladder and the
   equivalence of the one-pass compiler with grammar ; code generator (T2) and of code execution with
   the big-step semantics over names (T1) are stated in Spec/Syntax.v, Model/Compile.v, Spec/AstSem.v and
   are TESTED on every generated program by the suites t1check/t2check; their Coq proofs are in progress
   (DESIGN.md section 0).""",
"""From Coq Require Import ZArith.
From RecordUpdate Require Import RecordSet.
Import RecordSetNotations.
From BCL Require Import Model.Vm Spec.Sem Proofs.VmSpecProofs.
Open Scope N_scope.""",
[("C01_binop_spec", "VmSpecProofs", "C01_binop_spec_inv", "every binary operator on every pair of operand values: the VM computes Sem.binop"),
 ("C01_binop_spec_raw", "VmSpecProofs", "C01_binop_spec_raw", "the same without any side condition (the string + nil cell leaves tosMax alone)"),
 ("C01_unop_spec", "VmSpecProofs", "C01_unop_spec", "unary minus, unary plus, not"),
 ("C01_falsey", "VmSpecProofs", "C01_falsey", "the falsey set used by not / and / or / JFALSE is the documented one"),
 ("C01_jfalse", "VmSpecProofs", "C01_jfalse", "short circuit: the conditional jump is taken iff the operand is falsey, and leaves the operand on the stack"),
 ("C01_int_wrap", "VmSpecProofs", "C01_int_wrap", "int arithmetic wraps at 64 bits", "Z_scope"),
 ("C01_int_div", "VmSpecProofs", "C01_int_div", "int division truncates toward zero; MinInt64 / -1 wraps", "Z_scope"),
],
"""
(* non-vacuity: a program mixing all operator levels and all value kinds *)
From BCL Require Import Model.Api.
Example C01_example :
  match snd (interpret (bs "input") (bs "var s = ""ab"" print 1 + 2 * 3 - 4 / 2 print s + 1.5 + nil print s * 2 == ""abab"" and not 0.0 or 7 print -(1 < 2.0)") false false false) with
  | IRun o rr => rr_res rr = VErr 112 (bs "NEG: invalid type: bool, expected number") /\\ length o = 3%nat
  | _ => False
  end.
Proof. vm_compute. split; reflexivity. Qed.
""")

PROPS["C03"] = ("""C03: Result blocks mirror the definitions in the source.

   The three block instructions implement a stack of open blocks with field maps: SETFIELD creates or
   overwrites exactly one key of the innermost block; ENDBLOCK stores the finished child under type /
   type.name in its parent (the duplicate error iff the key exists) or appends it to the result list at
   toplevel; GETFIELD reads TYPE / NAME of the innermost block, else the nearest enclosing block that
   has the field.  Variables never enter a field map (they live on the operand stack: GETLOCAL/SETLOCAL
   do not touch bstack -- see exec_op).  That the compiler emits exactly these instructions for `def`
   and field assignments is part of T2 (tested by t2check, proof in progress).""",
"""From RecordUpdate Require Import RecordSet.
Import RecordSetNotations.
From BCL Require Import Model.Vm Proofs.VmSpecProofs.
Open Scope N_scope.""",
[("C03_setfield", "VmSpecProofs", "C03_setfield", ""),
 ("C03_setfield_fields", "VmSpecProofs", "C03_setfield_fields", "field maps: the written key holds the new value, every other key is untouched, keys stay unique"),
 ("C03_endblock_nested", "VmSpecProofs", "C03_endblock_nested", ""),
 ("C03_endblock_duplicate_iff", "VmSpecProofs", "C03_endblock_duplicate_iff", ""),
 ("C03_endblock_toplevel", "VmSpecProofs", "C03_endblock_toplevel", ""),
 ("C03_getfield", "VmSpecProofs", "C03_getfield", ""),
 ("C03_block_find_spec", "VmSpecProofs", "C03_block_find_spec", "the nearest enclosing block that has the field"),
],
"""
From BCL Require Import Model.Api.
Example C03_example :
  match snd (interpret (bs "input") (bs "def a ""n"" { x = 1 var v = 2 def b { y = x + v } def b ""m"" { z = TYPE + NAME } x = 3 } def a { } print 1/0 def c { }") false false false) with
  | IRun _ rr => length (rr_blocks rr) = 2%nat /\\ (match rr_res rr with VErr _ _ => True | _ => False end)
                 /\\ match rr_blocks rr with
                    | VBlock _ _ fs :: _ => map fst fs = [bs "x"; bs "b"; bs "b.m"]
                    | _ => False end
  | _ => False
  end.
Proof. vm_compute. repeat split; reflexivity. Qed.
""")

PROPS["C04"] = ("""C04: The bind statement selects exactly the designated blocks.

   Spec/Sem.select is the documented selection rule; the BIND instruction computes it over the completed
   toplevel blocks of the named type, in definition order; a warning is logged iff a binding already
   exists.  That `:all -> struct` and unknown selectors/targets are compile errors is part of the grammar
   (Spec/Syntax.pbind) and of T2 (tested by t2check).""",
"""From RecordUpdate Require Import RecordSet.
Import RecordSetNotations.
From BCL Require Import Model.Vm Spec.Sem Proofs.VmSpecProofs.
Open Scope N_scope.""",
[("C04_bind", "VmSpecProofs", "C04_bind_spec", "for a valid selector/target byte the new binding is what Sem.select prescribes"),
 ("C04_bind_check_order", "VmSpecProofs", "C04_bind_spec_raw", "the exact order of the runtime checks"),
 ("C04_matching_blocks", "VmSpecProofs", "C04_matching_blocks_spec", "candidates: completed toplevel blocks of that type, in definition order"),
 ("C04_matching_blocks_in", "VmSpecProofs", "C04_matching_blocks_in", ""),
 ("C04_warning_iff_rebind", "VmSpecProofs", "C04_warning_iff_rebind", "every bind after the first warns, whatever its outcome"),
 ("C04_select_invalid_iff", "VmSpecProofs", "select_invalid_iff", ""),
],
"""
From BCL Require Import Model.Api.
Example C04_example :
  match snd (interpret (bs "input") (bs "def t ""a"" {} def u {} def t ""b"" {} bind t:last -> struct def t ""c"" {} bind t:all -> slice") false false false) with
  | IRun _ rr => rr_res rr = VOk /\\ length (rr_warn rr) = 1%nat
                 /\\ match rr_binding rr with BSlice [VBlock _ a _; VBlock _ b _; VBlock _ c _] => (a, b, c) = (bs "a", bs "b", bs "c") | _ => False end
  | _ => False
  end.
Proof. vm_compute. repeat split; reflexivity. Qed.
""")

PROPS["C18"] = ("""C18: The command-line tool mirrors the library (argument parsing part).

   Model/Cli.v is the transcription of cmd/bcl/args.go.  Flags may come in any order, before or after
   the file argument, repeated, long or short, or clustered as single letters; usage errors are exactly
   the documented ones; --bdump derives its file name from FILE.  That stdout/stderr/exit status equal the
   library's is checked against the real binary (the OS is outside the model: partial).""",
"""From BCL Require Import Model.Cli Proofs.CliProofs.
Open Scope N_scope.""",
[("C18_flag_order", "CliProofs", "C18_flag_order", ""),
 ("C18_cluster", "CliProofs", "C18_cluster_gen", "a cluster -abc is the same as -a -b -c, for any letters"),
 ("C18_default_stdin", "CliProofs", "C18_default_stdin", "no file argument: standard input"),
 ("C18_bdump_name", "CliProofs", "C18_bdump_name_gen", ""),
 ("C18_err_unknown_letter", "CliProofs", "C18_err_unknown_letter", "usage errors"),
 ("C18_err_unknown_long", "CliProofs", "C18_err_unknown_long", ""),
 ("C18_err_cluster", "CliProofs", "C18_err_cluster", ""),
 ("C18_err_two_files", "CliProofs", "C18_err_two_files", ""),
 ("C18_err_bdump_name", "CliProofs", "C18_err_bdump_name", ""),
 ("C18_err_bload_conflict", "CliProofs", "C18_err_bload_conflict", ""),
 ("C18_fuel_enough", "CliProofs", "parse_args_fuel_enough", "the fuel parse_args gives its loop always suffices"),
],
"""
Example C18_example :
  Cli.parse_args [bs "-dts"; bs "x.bcl"] = Cli.parse_args [bs "x.bcl"; bs "-s"; bs "--trace"; bs "-d"]
  /\\ exit_status true false = 2 /\\ exit_status false true = 1 /\\ exit_status false false = 0.
Proof. vm_compute. repeat split; reflexivity. Qed.
""")

PROPS["C20"] = ("""C20: Layout, comments and redundant parentheses never change meaning (lexer part).

   A '#' comment ends at the next CR or LF and nowhere else (any bytes, including multi-byte and invalid
   UTF-8, quotes and keywords inside); nothing between the quotes of a string literal is layout; any
   amount of any of the eight whitespace characters between tokens produces no token.  Each statement
   holds for every chunking of the input (the *_chunked forms).  That redundant parentheses emit no code
   is part of T2: the AST of Spec/Syntax.v has no parenthesis node, tested by t2check on every program.""",
"""From BCL Require Import Model.Lexer Lib.Strconv Proofs.LexerProofs Proofs.LayoutProofs.
Open Scope N_scope.""",
[("C20_comment_extent", "LayoutProofs", "C20_comment_extent", ""),
 ("C20_comment_extent_eof", "LayoutProofs", "C20_comment_extent_eof", ""),
 ("C20_comment_extent_chunked", "LayoutProofs", "C20_comment_extent_chunked", ""),
 ("C20_string_opaque", "LayoutProofs", "C20_string_opaque", ""),
 ("C20_string_opaque_chunked", "LayoutProofs", "C20_string_opaque_chunked", ""),
 ("C20_unquote_plain", "LayoutProofs", "unquote_plain_gen", "the value of such a literal is its body, byte for byte"),
 ("C20_space_run", "LayoutProofs", "C20_space_run", ""),
 ("C20_space_run_chunked", "LayoutProofs", "C20_space_run_chunked", ""),
 ("C20_ws_chars", "LayoutProofs", "ws_chars_encode", "the eight whitespace characters"),
],
"""
Example C20_example :
  map ttyp (fst (lex [bs "print" ++ [194; 160; 11; 12] ++ bs "1 # not ; a ( token" ++ [13] ++ bs "print ""# ; ( "" "])) = [tPRINT; tINT; tPRINT; tSTR; tEOF].
Proof. vm_compute. reflexivity. Qed.
""")

PROPS["C10"] = ("""C10: Compiled bytecode is well-formed along every path.

   Model/Verify.v is a bytecode verifier (one forward pass; labels = (operand-stack depth, block depth)
   carried to the targets of forward jumps).  C10_check_sound: a program accepted by `verify` can only
   end by RET with both stacks empty, by a documented runtime error, or by the excluded repetition case:
   never a read outside the stack or the constant pool, a failed type assertion on a constant, a jump off
   an instruction boundary, a run off the code, or the "non-empty stack" internal error -- whichever way
   its conditional jumps go, including the operand a particular run skips (C10_both_branches).  The
   depth is the same along all paths into each instruction (C10_depth_unique).  `verify` is run on the
   code the REAL compiler produced for every generated program (certificate checking); that the compiler
   only ever produces verifiable code is the conjunction of T2 and a labelling lemma for the code
   generator, tested on every program, Coq proof in progress.""",
"""From BCL Require Import Model.Vm Model.Verify Model.Api Proofs.OptionsProofs Proofs.VerifyProofs.
Open Scope N_scope.""",
[("C10_check_sound", "VerifyProofs", "C10_check_sound", ""),
 ("C10_terminates", "VerifyProofs", "C10_terminates", "verified code only jumps forward: the fuel the API supplies is never exhausted"),
 ("C10_execute", "VerifyProofs", "C10_execute", ""),
 ("C10_labelling", "VerifyProofs", "verify_labelling", "acceptance yields a consistent labelling of every instruction boundary"),
 ("C10_depth_unique", "VerifyProofs", "C10_depth_unique", "every reachable VM state sits at a labelled boundary with exactly the labelled depths"),
 ("C10_depth_unique_any", "VerifyProofs", "C10_depth_unique_any", ""),
 ("C10_both_branches", "VerifyProofs", "C10_both_branches", "both successors of a conditional jump are checked, also the one a run does not take"),
 ("C10_blocks_balanced", "VerifyProofs", "C10_blocks_balanced", ""),
],
"""
Example C10_example :
  verify (pr_prog (parse_whole (bs "input") (bs "var x = 1 and 2 or 3 def b { f = x and x } print x"))) = true.
Proof. vm_compute. reflexivity. Qed.
""")

PROPS["C17"] = ("""C17: The parser accepts exactly the grammar and reports what it rejects.

   Proved here: a parse ends in an error exactly when a diagnostic was logged (C17_error_iff_log, for every
   token list whatever its shape), the token stream always ends in tEOF or in tERR,tFAIL after which the
   lexer emits nothing (C17_lexer_shape), an accepted parse has consumed the input up to tEOF
   (C17_ok_reaches_eof: a lexical failure ends the parse with an error).  The grammar itself is
   Spec/Syntax.v (`ast_program`); "accepted iff derivable, and then the code is the code generator's" is
   theorem T2, which the check tests on every generated sentence and mutation (suite t2check) and whose Coq
   proof is in progress; C17_resync (a later faulty statement still gets its own diagnostic) is validated by
   the differential run only.""",
"""From BCL Require Import Model.Api Proofs.LineCalcProofs Proofs.LexerProofs Proofs.ParserInvProofs.
Open Scope N_scope.""",
[("C17_error_iff_log", "ParserInvProofs", "C17_error_iff_log", ""),
 ("C17_ok_iff_no_diags", "ParserInvProofs", "C17_ok_iff_no_diags", "acceptance writes no diagnostic; every rejection writes at least one"),
 ("C17_lexer_shape", "ParserInvProofs", "lex_tokens_shape", ""),
 ("C17_lexer_terminates", "ParserInvProofs", "lex_fuel_enough", "the lexer never stops for lack of fuel: its last token is tEOF or tFAIL"),
 ("C17_ok_reaches_eof", "ParserInvProofs", "parse_ok_reaches_eof", ""),
 ("C17_diag_at_token", "ParserInvProofs", "diag_pos_is_token_pos", "every diagnostic is attached to a token of the input"),
],
"""
Example C17_example :
  pr_ok (parse_whole (bs "f") (bs "var x = 1 def b { y = x; z = (y = 2) } print x; bind b -> struct")) = true
  /\ length (pr_diags (parse_whole (bs "f") (bs "print 1 +" ++ [10] ++ bs "print *" ++ [10]))) = 2%nat
  /\ pr_ok (parse_whole (bs "f") (bs "print (1 = 2)")) = false.
Proof. vm_compute. repeat split; reflexivity. Qed.
""")

PROPS["C06"] = ("""C06: Every input ends in a result or an error, never a crash or a hang.

   In the model every Go panic site is an explicit constructor and every loop runs on fuel, so "never
   panics, never hangs" is the unreachability of `Panic _`, `VPanic _` (other than the excluded repetition
   case) and of fuel exhaustion.  Proved: the lexer always terminates within its fuel on every byte
   sequence and every chunking (C06_lexer_total); code accepted by the bytecode verifier runs to RET, to a
   documented runtime error or to the excluded case, within the fuel the API supplies (C06_vm_total);
   LoadProg of any truncated dump is an error, never a panic (C13); Bind never panics (C15).  Validated by
   the differential run only: that the parser's fuel is never exhausted (the model reports `oof`, which
   has never been observed), and that every compiled program passes the verifier (it is checked on every
   program the real compiler produces).  Partial: Go stack exhaustion and allocator failure are outside
   the model; the property excludes them.""",
"""From BCL Require Import Model.Api Model.Verify Proofs.LineCalcProofs Proofs.LexerProofs Proofs.ParserInvProofs Proofs.OptionsProofs Proofs.VerifyProofs.
Open Scope N_scope.""",
[("C06_lexer_total", "ParserInvProofs", "lex_fuel_enough", ""),
 ("C06_lexer_shape", "ParserInvProofs", "lex_tokens_shape", ""),
 ("C06_vm_total", "VerifyProofs", "C10_execute", ""),
 ("C06_vm_no_panic", "VerifyProofs", "C10_check_sound", ""),
 ("C06_error_reported", "ParserInvProofs", "C17_error_iff_log", "malformed input is an error with a diagnostic, not a silent acceptance"),
],
"""
(* the literals and limits that used to panic are errors in the model (and, by the differential run, in the code) *)
Example C06_example :
  map (fun src => pr_ok (parse_whole (bs "f") src)) [bs "print 08"; bs "print 0x"; bs "print 1e999"; bs "print " ++ [34; 92; 113; 34]; bs "print 9223372036854775808"]
  = [false; false; false; false; false]
  /\ match snd (interpret (bs "f") (bs "print ""ab"" * -1") false false false) with IRun _ rr => rr_res rr = VErr 15 (bs "MUL: negative repeat count") | _ => False end.
Proof. vm_compute. split; reflexivity. Qed.
""")

PROPS["C15"] = ("""C15: Bind never panics and never silently drops or coerces data.

   Model/Reflect.v is the transcription of reflect.go (copyBlocks / copyBlock / setField) together with the
   parts of package reflect it relies on (FieldByNameFunc's breadth-first search with annihilation of ambiguous
   names, FieldByIndexErr's pointer indirections, AssignableTo on the value kinds BCL produces).  The harness
   runs it against the real Bind on generated target types (reflect.StructOf + compiled-in named types) and
   blocks.  The theorems:
     total     - Bind returns a value or an error for every target and binding (no panic branch of the model
                 is reachable; the depth bound 64 is the model's recursion fuel, the VM limits nesting to 16);
     errors    - each defect named in the property is an error, and the first faulty field in key order is
                 the one reported;
     faithful  - a nil return means every scalar of the block, recursively every nested block, and a non-empty
                 name were stored unchanged in exported, assignable, pairwise NON-OVERLAPPING fields.  This
                 theorem was false before the repair recorded in known_findings.txt ("fixed: C15 ... embedded"):
                 a promoted field and a nested block stored into the embedded struct overwrote each other;
     slice     - a slice target gets a fresh slice of exactly the bound blocks, or, on any error, nothing.""",
"""From Coq Require Import List Lia Permutation.
From BCL Require Import Model.Reflect Proofs.ReflectProofs.
Open Scope N_scope.""",
[("C15_total", "ReflectProofs", "C15_total", "Bind never panics"),
 ("C15_faithful", "ReflectProofs", "C15_faithful", "nil only if everything was stored unchanged, in distinct non-overlapping exported fields"),
 ("C15_faithful_deep", "ReflectProofs", "C15_faithful_deep", "the same through nested blocks at every level"),
 ("C15_errors_none", "ReflectProofs", "C15_errors_none", "success excludes every defect"),
 ("C15_errors_first", "ReflectProofs", "C15_errors_first", "the first faulty field in sorted key order is the error reported"),
 ("C15_errors_mapping", "ReflectProofs", "C15_errors_mapping", "a missing counterpart"),
 ("C15_errors_unexported", "ReflectProofs", "C15_errors_unexported", "an unexported counterpart"),
 ("C15_errors_nil_value", "ReflectProofs", "C15_errors_nil_value", "a nil value"),
 ("C15_errors_type_mismatch", "ReflectProofs", "C15_errors_type_mismatch", "a type mismatch: no coercion (assignable_no_coercion)"),
 ("C15_errors_block_not_struct", "ReflectProofs", "C15_errors_block_not_struct", "a non-struct destination for a nested block"),
 ("C15_errors_dup_field", "ReflectProofs", "C15_errors_dup_field", "two keys addressing the same or overlapping storage"),
 ("C15_errors_no_binding", "ReflectProofs", "C15_errors_no_binding", "nil binding"),
 ("C15_errors_nil_iface", "ReflectProofs", "C15_errors_nil_iface", "nil target"),
 ("C15_errors_not_pointer", "ReflectProofs", "C15_errors_not_pointer", "non-pointer target"),
 ("C15_errors_nil_pointer", "ReflectProofs", "C15_errors_nil_pointer", "nil pointer target"),
 ("C15_errors_not_struct", "ReflectProofs", "C15_errors_not_struct", "struct binding, pointer to a non-struct"),
 ("C15_errors_not_slice", "ReflectProofs", "C15_errors_not_slice", "slice binding, pointer to a non-slice"),
 ("C15_errors_elem_not_struct", "ReflectProofs", "C15_errors_elem_not_struct", "slice of non-structs"),
 ("C15_errors_type_name", "ReflectProofs", "C15_errors_type_name", "struct type name vs block type"),
 ("C15_slice_atomic", "ReflectProofs", "C15_slice_atomic", "a slice target is replaced as a whole or not at all"),
 ("C15_slice_atomic_total", "ReflectProofs", "C15_slice_atomic_total", ""),
 ("C15_slice_first_error", "ReflectProofs", "C15_slice_first_error", ""),
 ("C15_slice_discards_old", "ReflectProofs", "C15_slice_discards_old", "previous elements never matter"),
],
"""
(* non-vacuity *)
Example C15_example :
  bind (TgtPtr (TStruct [] [Field (bs "Name") true false [] TString; Field (bs "Port") true false [] TInt]) GZero)
       (BdStruct (VBlock (bs "t") (bs "n") [(bs "port", VInt 5)]))
  = BOk (GPtrTo (GStruct [GVal (VStr (bs "n")); GVal (VInt 5)])).
Proof. vm_compute. reflexivity. Qed.
""")

PROPS["C05"] = ("""C05: Unmarshal reproduces configuration values in Go structs.

   C05_bind_roundtrip: for every struct type of the supported family (`fam d`: exported, non-embedded,
   untagged fields of scalar or nested-struct type whose names are pairwise distinct after folding case and
   underscores; nesting depth d <= 64) and every value v of that type, binding the blocks that spell v
   (`blocks_of`: lower-cased field names as keys, nested structs as nested blocks, a field folding to "name"
   as the block name) into a zero target yields exactly v.  The remaining links of the chain -- writing the
   blocks as BCL text, lexing, parsing, executing and `bind` selecting the block -- are exercised end to end
   by the harness (render -> Unmarshal -> DeepEqual, with tags, all admitted spellings of keys and slice
   targets), with the model's Bind as the oracle for rejected shapes; the key-matching rule (tag first,
   then case/underscore folding) is Model/Reflect.find_field, compared with the real matcher on every case.""",
"""From Coq Require Import List Lia.
From BCL Require Import Model.Reflect Proofs.ReflectProofs.
Open Scope N_scope.""",
[("C05_bind_roundtrip", "ReflectProofs", "C05_bind_roundtrip", ""),
 ("C05_slice_order_and_length", "ReflectProofs", "C15_slice_atomic_total", "slice target: length and order of the bound blocks, element i from block i"),
 ("C05_slice_discards_old", "ReflectProofs", "C15_slice_discards_old", "previous elements are discarded"),
 ("C05_key_order_irrelevant", "ReflectProofs", "C16_bind_order_deep", "the outcome does not depend on the order in which the fields are stored in the block"),
],
"""
(* non-vacuity: an ordinary member of the family and a value of it *)
Example C05_example_holds : fam 2 c05_type /\\ inhabits c05_type c05_val.
Proof. split; [exact c05_type_fam | exact c05_val_inhabits]. Qed.
""")

PROPS["C16"] = ("""C16: Same input, same outcome.

   In the model every entry point is a Gallina function, so "repeating a call gives the same outcome" holds by
   construction; what the theorems state is that the three sources of nondeterminism in the Go code cannot
   reach the outcome:
     map iteration order - Bind visits the keys in sorted order, so its result is the same for every order in
                           which the (distinct) keys of a block are enumerated, at every nesting level
                           (C16_bind_order_deep); the parser's identRefs map is used for lookup only (the
                           constant pool order is that of first use: Model/Parser.v has no map at all, and the
                           harness compares dumps byte for byte);
     goroutine schedule  - ParseFile's outcome is the same in every schedule of its three goroutines
                           (C16_schedule_independent = ProtoProofs.C11_result_schedule_independent), and the
                           chunking of the input does not change the compiled program (C16_chunking_irrelevant);
     earlier calls       - no package-level variable is assigned after init and the execution side never
                           assigns through a Prog (tables regenerated from /repo by tools/gentables on every
                           run: C16_no_global_state, C16_prog_readonly).
   The harness repeats parse / execute / unmarshal in one process and across processes with different
   GOMAXPROCS and hash seeds and compares dumps, output, diagnostics, blocks, bindings, targets and errors.""",
"""From Coq Require Import List Lia Permutation String.
From BCL Require Import Model.Api Proofs.ParserInvProofs Model.Proto Proofs.ProtoProofs Model.Reflect Proofs.ReflectProofs.
From BCL Require Gen.GenTables Spec.Pinned Proofs.TieGlobals.
Open Scope N_scope.""",
[("C16_sorted_canonical", "ReflectProofs", "C16_sorted_canonical", "the order in which Bind visits the keys is a function of the key set"),
 ("C16_bind_order", "ReflectProofs", "C16_bind_order", ""),
 ("C16_bind_order_deep", "ReflectProofs", "C16_bind_order_deep", "at every nesting level"),
 ("C16_bind_order_deep_slice", "ReflectProofs", "C16_bind_order_deep_slice", ""),
 ("C16_errors_first", "ReflectProofs", "C15_errors_first", "with several faulty fields the same one is reported: the first in sorted key order"),
 ("C16_schedule_independent", "ProtoProofs", "C11_result_schedule_independent", "ParseFile: every complete schedule gives the same outcome", "nat_scope"),
 ("C16_chunking_irrelevant", "ParserInvProofs", "C07_prog_equal", "the compiled program does not depend on how the input was cut into reads"),
],
"""
(* no state survives a call: tables regenerated from the source on every run *)
Theorem C16_no_global_state :
  forallb (fun p => negb (snd p)) GenTables.globals_written_after_init = true.
Proof. rewrite TieGlobals.tie_globals. exact TieGlobals.no_global_written. Qed.
Print Assumptions C16_no_global_state.

Theorem C16_prog_readonly : GenTables.prog_writes_in_execution = [].
Proof. rewrite TieGlobals.tie_prog_readonly. exact TieGlobals.prog_readonly_in_execution. Qed.
Print Assumptions C16_prog_readonly.

(* non-vacuity: two enumerations of one block *)
Example C16_example :
  let ty := TStruct [] [Field (bs "Name") true false [] TString; Field (bs "Port") true false [] TInt; Field (bs "Host") true false [] TString] in
  bind (TgtPtr ty GZero) (BdStruct (VBlock (bs "t") (bs "n") [(bs "port", VInt 5); (bs "host", VStr (bs "h"))]))
  = bind (TgtPtr ty GZero) (BdStruct (VBlock (bs "t") (bs "n") [(bs "host", VStr (bs "h")); (bs "port", VInt 5)])).
Proof. vm_compute. reflexivity. Qed.
""")


# ---- T1 / T2 (proved; Proofs/T2Expr, T2Proofs, T1Code, T1Vm, T1Expr, T1Proofs, Language) ----------------
def _extend(pid, header_sub, imports_add, items_add, header_new=None, prepend=False):
    h, imp, items, tail = PROPS[pid]
    if header_new is not None:
        h = header_new
    else:
        for a, b in header_sub:
            assert a in h, (pid, a)
            h = h.replace(a, b)
    PROPS[pid] = (h, (imports_add + "\n" + imp) if prepend else (imp + "\n" + imports_add), items + items_add, tail)

_LANG_IMPORTS = """From BCL Require Import Model.Api Model.Compile Spec.Syntax Spec.AstSem Proofs.ParserInvProofs Proofs.T2Expr Proofs.T2Proofs Proofs.T1Expr Proofs.T1Proofs Proofs.Language."""

_T12 = """T2 (the one-pass parser = grammar of Spec/Syntax.v ; code generator of Model/Compile.v)
   and T1 (executing the generated code = the big-step semantics over names of Spec/AstSem.v) are proved
   (Proofs/T2Proofs.v, Proofs/T1Proofs.v) and composed in Proofs/Language.v; the suites t1check/t2check
   still run both statements on every generated program as a test of the extraction."""

_extend("C01", [("""are TESTED on every generated program by the suites t1check/t2check; their Coq proofs are in progress
   (DESIGN.md section 0).""", """are PROVED: C01_language below says that for every accepted source text the run of the compiled program gives
   the result, output, blocks, binding and warnings of the big-step semantics applied to the tree the grammar
   assigns to the text (or stops at one of the two implementation limits).""")],
        _LANG_IMPORTS,
        [("C01_language", "Language", "bcl_language", "parser ; VM = grammar ; big-step semantics, for every source text"),
         ("C01_language_acceptance", "Language", "bcl_accepts_iff", "and the accepted texts are exactly the sentences the generator accepts")])

PROPS["C02"] = ("""C02: Lexical scoping and state flow of variables versus fields.

   The scoping rules are those of Spec/AstSem.v, which works on NAMES: a stack of scopes (toplevel + one per open
   block) searched innermost first for a variable declared EARLIER (`lookup_frames`; `SVar` evaluates the initialiser
   in the environment without the new name), else inside a block a field read from the current or the nearest
   enclosing block that has it (`field_find`) and written to the current block; a redeclaration in the same scope
   and an unknown name at toplevel are static errors (`XStatic`), an unknown name in a block is the runtime error
   `XUnresolved`; an assignment updates exactly the resolved variable (`assign_frames`) or field once and yields
   the value.  The implementation has no names at run time: the compiler resolves identifiers to stack slots
   (parse.go resolveLocal / declVar / endScope), the VM reads and writes slots and field maps.  C02_language
   says the two agree on every accepted source text: result, output, blocks, binding and warnings of the run are
   those the semantics gives to the tree of the text.  C02_static_errors: a text whose tree the code generator
   rejects (redeclaration, own initialiser, unknown name at toplevel, too many locals) is rejected by Parse, and
   conversely.  The simulation relation behind it (Proofs/T1Proofs.v `SR`) states the slot discipline: the compile
   time table of locals is the concatenation of the scopes of the environment, innermost first, and the VM stack
   at every statement boundary holds exactly the values of those variables in that order.""",
_LANG_IMPORTS + "\nOpen Scope N_scope.",
[("C02_language", "Language", "bcl_language", "parser ; VM = grammar ; big-step semantics over names, for every source text"),
 ("C02_static_errors", "Language", "bcl_accepts_iff", "accepted iff a sentence whose tree has no static scoping error"),
 ("C02_tree_semantics", "T1Proofs", "T1_program_iff", "for every tree: ok / runtime error (with its text) / observables coincide"),
],
"""
(* non-vacuity: shadowing, own-initialiser, fields versus variables, embedded assignment *)
Example C02_example :
  match snd (interpret (bs "input") (bs "var x = 1 def b { var x = x + 1; y = x; def c { var x = 10; z = y + x; y = (x = 3) + x } print y } print x") false false false) with
  | IRun o rr => rr_res rr = VOk /\\ print_lines (rr_out rr) = [bs "2" ++ [10]; bs "1" ++ [10]]
  | _ => False
  end.
Proof. vm_compute. split; reflexivity. Qed.
""")

_extend("C03", [("""That the compiler emits exactly these instructions for `def`
   and field assignments is part of T2 (tested by t2check, proof in progress).""", """That the compiler emits exactly these instructions for `def`
   and field assignments, and that the blocks returned are those the definitions of the source denote, is
   C03_language (T1 and T2 composed): rr_blocks = the `results` of the big-step semantics of the tree.""")],
        _LANG_IMPORTS,
        [("C03_language", "Language", "bcl_language", "the blocks (and everything else observable) are those of the semantics of the source's tree")])

_extend("C17", [("""theorem T2, which the check tests on every generated sentence and mutation (suite t2check) and whose Coq
   proof is in progress; C17_resync""", """theorem T2, proved (C17_accepts_iff for token lists, C17_source for source texts, C17_code for the code of
   accepted texts; C17_fuel: the parser's recursion fuel is never the reason for a rejection); C17_resync""")],
        """From BCL Require Import Model.Compile Spec.Syntax Proofs.T2Expr Proofs.T2Proofs Proofs.Language.""",
        [("C17_accepts_iff", "T2Proofs", "T2_accepts_iff", "accepted (no error, no fuel exhaustion, no panic site) iff derivable from the grammar and accepted by the generator"),
         ("C17_source", "Language", "bcl_accepts_iff", "the same for Parse on a source text"),
         ("C17_code", "T2Proofs", "T2_code_equal", "and then code, constants and identifier table are the generator's"),
         ("C17_rejects", "T2Proofs", "T2_core", "on token lists ending in tEOF: not a sentence => error; sentence => same verdict and same emitter state as the generator"),
         ("C17_fuel", "T2Proofs", "T2_accept_no_oof", "an accepted parse never ran out of fuel and hit no panic site")])

_extend("C20", [], """From BCL Require Import Model.Compile Spec.Syntax Proofs.ParserInvProofs Proofs.T2Proofs Proofs.Language.""",
        [("C20_same_tree_same_program", "Language", "same_tree_same_program", "two token lists with the same tree compile to the same code, constants and identifier table"),
         ("C20_paren_is_transparent", "Language", "paren_is_transparent", "'(' e ')' in operand position contributes exactly the tree of e: parentheses leave no node")])

_extend("C20", [("""That redundant parentheses emit no code
   is part of T2: the AST of Spec/Syntax.v has no parenthesis node, tested by t2check on every program.""",
 """That redundant parentheses
   change nothing follows from T2 (proved): the tree of Spec/Syntax.v has no parenthesis node
   (C20_paren_is_transparent) and two token lists with the same tree compile to the same program
   (C20_same_tree_same_program).""")], "", [])
PROPS["C20"] = (PROPS["C20"][0].replace("(lexer part)", ""),) + PROPS["C20"][1:]

_extend("C10", [("""that the compiler
   only ever produces verifiable code is the conjunction of T2 and a labelling lemma for the code
   generator, tested on every program, Coq proof in progress.""", """that compiled code
   is well-formed along the path a run TAKES is also a corollary of T1 and T2 (C10_compiled_runs_clean: executing
   the code Parse produced for any accepted text ends in success, a runtime error of the language, the
   excluded repetition case or one of the two documented limits -- never an internal error or a panic site);
   the stronger all-paths statement for compiled code (every compiled program passes `verify`) remains tested
   on every generated program rather than proved.""")], _LANG_IMPORTS,
        [("C10_compiled_runs_clean", "Language", "compiled_runs_clean", "")])

_extend("C06", [("""Validated by
   the differential run only: that the parser's fuel is never exhausted (the model reports `oof`, which
   has never been observed), and that every compiled program passes the verifier""", """The parser's fuel
   is never exhausted on an accepted input (C06_parser_fuel = T2_accept_no_oof) and a compiled program never
   ends in an internal error or at a panic site (C06_compiled_runs_clean, from T1 and T2).  Validated by
   the differential run only: fuel on REJECTED inputs (the model reports `oof`, never observed), and that
   every compiled program passes the verifier""")],
        "From BCL Require Import Model.Compile Spec.Syntax Spec.AstSem Proofs.T2Expr Proofs.T2Proofs Proofs.T1Expr Proofs.T1Proofs Proofs.Language.",
        [("C06_parser_fuel", "T2Proofs", "T2_accept_no_oof", ""),
         ("C06_compiled_runs_clean", "Language", "compiled_runs_clean", "")])

_extend("C04", [("""That `:all -> struct` and unknown selectors/targets are compile errors is part of the grammar
   (Spec/Syntax.pbind) and of T2 (tested by t2check).""", """That `:all -> struct` and unknown selectors/targets are compile errors is part of the grammar
   (Spec/Syntax.pbind has no production for them) and of T2 (proved: C04_static, accepted iff a sentence);
   C04_language: for every accepted source text the binding and the warnings of the run are those of the
   big-step semantics, whose SBind case is Sem.select over the completed toplevel blocks of that type.""")],
        _LANG_IMPORTS,
        [("C04_language", "Language", "bcl_language", ""),
         ("C04_static", "Language", "bcl_accepts_iff", "")], prepend=True)

# ---- compile_verifies (Proofs/VerifyFrag.v, CompileVerifies.v) and the tree-level C05 chain (Proofs/C05Tree.v) ----
_extend("C10", [("""the stronger all-paths statement for compiled code (every compiled program passes `verify`) remains tested
   on every generated program rather than proved.""", """the all-paths statement for compiled code is C10_compile_verifies / C10_parsed_verifies: the code generator,
   and therefore (T2) the parser, only ever produces programs the verifier accepts -- so by C10_check_sound every
   path through every compiled program, including the operands a particular run skips, is well-formed.  The
   verifier is still run on the code the REAL compiler emits for every generated program (certificate checking),
   which ties that statement to parse.go.""")],
        "From BCL Require Import Proofs.VerifyFrag Proofs.CompileVerifies.",
        [("C10_compile_verifies", "CompileVerifies", "compile_verifies", "every program the code generator accepts passes the verifier"),
         ("C10_parsed_verifies", "CompileVerifies", "parsed_verifies", "every program Parse accepts passes the verifier")])

_extend("C06", [], "From BCL Require Import Proofs.CompileVerifies.",
        [("C06_parsed_verifies", "CompileVerifies", "parsed_verifies", "hence (C06_vm_total) runs to RET or a documented runtime error within the fuel, on every path")])

_extend("C05", [("""   C05_bind_roundtrip: for every struct type""", """   C05_tree_roundtrip (Proofs/C05Tree.v) starts from the syntax tree of the written text: for every struct type of the
   family `bfam d` (as `fam` below, and a nested struct field's type name, if it has one, matches the field name --
   forced by the rule that a struct type's own name must match the block type) and every value v of it (ints in the
   int64 range, no NaN with the sign bit set), the tree `prog_of_block (tree_of ty v bt)` -- one `def` with a field
   assignment `k = literal` per scalar field (negative numbers written with unary minus, -2^63 as -(2^63-1) - 1) and a
   nested `def` per struct field, followed by `bind bt -> struct` -- is accepted by the code generator, the big-step
   semantics binds exactly that block, Bind stores it into a zero target as exactly v (C05_tree_roundtrip), and
   executing the generated code does the same (C05_code_roundtrip, via T1; up to the two VM limits).  The slice
   forms bind `bt:all -> slice` and yield the values in order.  Text -> tokens -> tree (quoting, number printing) is
   exercised by the harness only.  The statement over `fam`/`blocks_of` with an arbitrary nested type name is FALSE
   at tree level (C05_tree_roundtrip_counterexample: such blocks are not producible by any BCL text) and is kept
   only as a statement about Bind:
   C05_bind_roundtrip: for every struct type""")],
        "From BCL Require Import Model.Api Model.Compile Spec.Syntax Spec.AstSem Proofs.T1Expr Proofs.T1Proofs Proofs.C05Tree.",
        [("C05_tree_roundtrip", "C05Tree", "C05_tree_roundtrip_bfam", "value -> tree -> semantics -> Bind = value"),
         ("C05_code_roundtrip", "C05Tree", "C05_code_roundtrip_bfam", "value -> tree -> generated code -> VM -> Bind = value"),
         ("C05_tree_roundtrip_slice", "C05Tree", "C05_tree_roundtrip_slice_bfam", ""),
         ("C05_code_roundtrip_slice", "C05Tree", "C05_code_roundtrip_slice_bfam", ""),
         ("C05_tree_bind_roundtrip", "C05Tree", "tree_bind_roundtrip", ""),
         ("C05_literals", "C05Tree", "eval_lit_expr", "every scalar is denoted by its literal expression"),
         ("C05_run_tree", "C05Tree", "run_prog_of_block", "the semantics of a written block is that block")])

# ---- parser totality on all inputs (Proofs/ParserTotal.v), positions irrelevant to the tree (Proofs/LayoutTree.v) ----
_extend("C06", [("""Validated by
   the differential run only: fuel on REJECTED inputs (the model reports `oof`, never observed), and that
   every compiled program passes the verifier""", """The parser terminates within its fuel and reaches no panic
   site on EVERY input, accepted or rejected (C06_parser_total, C06_parse_total: measure = remaining tokens; the
   two panic sites of parse.go -- an infix token without handler, an empty locals table in defVar -- are
   unreachable).  Every compiled program passes the verifier (C06_parsed_verifies); also checked on the real
   compiler's output""")],
        "From BCL Require Import Proofs.ParserTotal.",
        [("C06_parser_total", "ParserTotal", "parser_total", "every token list the lexer can produce: the parser neither runs out of fuel nor reaches a panic site"),
         ("C06_parse_total", "ParserTotal", "parse_total", "the same for Parse / ParseFile on every chunked source"),
         ("C06_interpret_total", "ParserTotal", "interpret_parser_total", "")])

_extend("C17", [], "From BCL Require Import Proofs.ParserTotal.",
        [("C17_parser_total", "ParserTotal", "parser_total", "rejection is never the model giving up: no fuel exhaustion, no panic site, on any input")])

_extend("C20", [("""   (C20_paren_is_transparent) and two token lists with the same tree compile to the same program
   (C20_same_tree_same_program).""", """   (C20_paren_is_transparent, C20_paren_atom: parentheses around a single-token operand, with fuel) and two
   token lists with the same tree compile to the same program (C20_same_tree_same_program).  The grammar never
   looks at token positions (C20_tree_ignores_positions), so two sources whose token sequences agree in type and
   text -- which is all that layout and comments can leave different, by the byte-level theorems above --
   are accepted together and compile to the same code and constants (C20_layout_irrelevant).  Not proved: the
   general bridge "inserting layout at a token boundary leaves the (type, text) sequence unchanged" for whole
   sources (the byte-level theorems are one-step statements; composing them needs position-shift invariance and
   append-locality of the lexer, see DESIGN.md), and parentheses around arbitrary sub-expressions; both are
   exercised by the re-rendering oracle on every generated program.""")],
        "From BCL Require Import Model.Api Proofs.LayoutTree.",
        [("C20_tree_ignores_positions", "LayoutTree", "ast_ignores_positions", ""),
         ("C20_same_tokens_same_program", "LayoutTree", "same_tokens_same_program", ""),
         ("C20_layout_irrelevant", "LayoutTree", "layout_irrelevant", ""),
         ("C20_paren_atom", "LayoutTree", "paren_atom_closure", "")])

# ---- DiagProofs.v (diagnostics discipline, code positions), C05Tokens.v (token-level writer) ----
APPEND = {}
APPEND["C08"] = ("""(* runtime errors and warnings are located through the position table of the program: one entry per code byte, each the
   end offset of a token of the source, non-decreasing along the code when token positions are *)
From BCL Require Import Model.Parser Proofs.ParserTotal Proofs.CompileVerifies Proofs.DiagProofs.""",
[("C08_code_positions_are_token_positions", "DiagProofs", "prog_positions_are_token_positions", "every entry of the position table is the end offset of a token the lexer delivered"),
 ("C08_code_positions_in_source", "DiagProofs", "prog_positions_in_source", "hence an offset inside the source"),
 ("C08_code_positions_length", "DiagProofs", "prog_positions_length", "one entry per code byte"),
 ("C08_code_positions_sorted", "DiagProofs", "prog_positions_sorted", "jump patching never disturbs the table"),
 ("C08_diag_per_lexical_error", "DiagProofs", "advance_spec", "the parser logs exactly one diagnostic per tERR token it receives, at that token's position"),
])

_extend("C17", [("""C17_resync (a later faulty statement still gets its own diagnostic) is validated by
   the differential run only.""", """resynchronisation is proved in Proofs/DiagProofs.v: every reporting primitive appends exactly one diagnostic
   whatever the panic flag (C17_error_appends_one: parse.go does NOT silence errors in panic mode, so one faulty
   statement may produce several diagnostics -- C17_cascade_example -- which the property allows); `sync` stops at
   the first token that is a statement keyword or the end and changes nothing but the token cursor
   (C17_sync_spec); every toplevel statement starts with the panic flag cleared, at depth 0, on a non-end token
   (C17_statements_start_clean), and a statement that ends in panic has added at least one diagnostic of its own
   (C17_rejected_is_reported): a later faulty statement always gets its own diagnostic.""")],
        "From BCL Require Import Model.Parser Proofs.DiagProofs.",
        [("C17_error_appends_one", "DiagProofs", "error_appends_one", ""),
         ("C17_sync_spec", "DiagProofs", "sync_spec", ""),
         ("C17_sync_spec_clean", "DiagProofs", "sync_spec_clean", ""),
         ("C17_statements_start_clean", "DiagProofs", "toplevel_statements_start_clean", ""),
         ("C17_rejected_is_reported", "DiagProofs", "statement_rejected_is_reported", ""),
         ("C17_log_only_grows", "DiagProofs", "parse_tokens_step_ok", "")])

_extend("C05", [("""   forms bind `bt:all -> slice` and yield the values in order.  Text -> tokens -> tree (quoting, number printing) is
   exercised by the harness only.""", """   forms bind `bt:all -> slice` and yield the values in order.  One level further down (Proofs/C05Tokens.v) the
   writer is defined on TOKENS (`tokens_of_prog`: decimal integers without leading zero, strings quoted with backslash escapes for the quote, the backslash
   and, as backslash-x-HH, every byte outside printable ASCII, negative numbers with unary minus) and the grammar reads its output back as exactly that
   tree (C05_tokens_parse), the one-pass parser accepts it and emits the generator's code, and the round trip
   holds from the token list (C05_token_roundtrip, C05_token_code_roundtrip); literal texts denote their values
   (C05_int_text, C05_quote_text; the text of a float is a premise `parse_float (ftext b) = inr b` per float
   written: float printing is not modelled).  Bytes -> tokens (the lexer on the written text) is exercised by the
   harness only.""")],
        "From BCL Require Import Proofs.LayoutTree Proofs.C05Tokens.",
        [("C05_tokens_parse", "C05Tokens", "tokens_parse", "", "check"),
         ("C05_tokens_parse_slice", "C05Tokens", "tokens_parse_slice", "", "check"),
         ("C05_parser_accepts_written", "C05Tokens", "parser_accepts_written", "", "check"),
         ("C05_token_roundtrip", "C05Tokens", "C05_token_roundtrip", "", "check"),
         ("C05_token_code_roundtrip", "C05Tokens", "C05_token_code_roundtrip", "", "check"),
         ("C05_token_roundtrip_slice", "C05Tokens", "C05_token_roundtrip_slice", "", "check"),
         ("C05_int_text", "C05Tokens", "parse_int_text", ""),
         ("C05_quote_text", "C05Tokens", "unquote_quote_text", "")])

_extend("C02", [], "", [
 ("C02_statement_simulation", "T1Proofs", "stmt_sim", "every statement preserves the slot discipline SR (compile-time table = scopes of the environment, VM stack = values of the live variables)", "check"),
 ("C02_expression_simulation", "T1Expr", "expr_sim", "every expression, including embedded assignments, in evaluation order", "check")])

# ---- lexer-level layout theorems (Proofs/LexFuel.v, LexShift.v, LexLocal.v, LexLayout.v) ----
_extend("C20", [("""Not proved: the
   general bridge "inserting layout at a token boundary leaves the (type, text) sequence unchanged" for whole
   sources (the byte-level theorems are one-step statements; composing them needs position-shift invariance and
   append-locality of the lexer, see DESIGN.md), and parentheses around arbitrary sub-expressions; both are
   exercised by the re-rendering oracle on every generated program.""", """The bridge from bytes to
   tokens is Proofs/LexLayout.v (on top of LexFuel.v: more fuel never changes the lexer's result; LexShift.v: the
   lexer's tokens do not depend on the absolute position; LexLocal.v: chunks never asked for do not matter):
   `layout` is any mix of the eight whitespace characters and '#' comments ended by CR or LF; leading layout
   changes nothing (C20_leading_layout); at an insertion point certified by one computation on the PREFIX
   (`sep_check`: the lexer stands at a token start after the prefix whatever layout character follows) any
   non-empty layout can be replaced by any other, and where the prefix ends in a token without look-ahead also
   removed or inserted (C20_layout_any, C20_layout_any_or_none) -- for every continuation of the source, and the
   compiled code and constants are then equal (C20_layout_any_compiles).  The theorems are universal in the
   layouts and in the continuation; the insertion point is certified per prefix (no syntactic criterion such as
   "the prefix ends in ';'" is proved).  Not proved: parentheses around arbitrary sub-expressions (exercised by
   the re-rendering oracle on every generated program).""")],
        "From BCL Require Import Proofs.LexFuel Proofs.LexShift Proofs.LexLocal Proofs.LexLayout.",
        [("C20_leading_layout", "LexLayout", "leading_layout", ""),
         ("C20_only_layout", "LexLayout", "only_layout", ""),
         ("C20_layout_replace", "LexLayout", "layout_replace", ""),
         ("C20_layout_insertion", "LexLayout", "layout_insertion", ""),
         ("C20_layout_any", "LexLayout", "layout_any", ""),
         ("C20_layout_any_or_none", "LexLayout", "layout_any_or_none", ""),
         ("C20_layout_any_compiles", "LexLayout", "layout_any_compiles", ""),
         ("C20_boundary_check_sound", "LexLayout", "boundary_check_sound", ""),
         ("C20_lexer_fuel_irrelevant", "LexFuel", "lex_run_stable", ""),
         ("C20_lexer_position_irrelevant", "LexShift", "lex_run_shU", "")])

# ---- Limits.v: the two VM limits characterised on the tree ----
_LIM = "From BCL Require Import Proofs.VerifyFrag Proofs.CompileVerifies Proofs.Limits."
_extend("C01", [("""(or stops at one of the two implementation limits).""", """(or stops at one of the two implementation limits).  The limits are
   characterised on the tree (Proofs/Limits.v): `need_prog p` is the number of operand slots the program needs (live
   variables plus the temporaries of its deepest expression, computed structurally), `nest_prog p` its block nesting;
   within 1024 slots and 16 blocks the agreement is EXACT (C01_language_within_limits, no escape clause), and a limit
   error can only occur when the tree exceeds that limit (C01_language_characterised).""")],
        _LIM,
        [("C01_language_within_limits", "Limits", "bcl_language_within_limits", ""),
         ("C01_language_characterised", "Limits", "bcl_language_characterised", ""),
         ("C01_tree_exact_within_limits", "Limits", "T1_exact_within_limits", "")])
_extend("C02", [], _LIM,
        [("C02_language_within_limits", "Limits", "bcl_language_within_limits", "exact agreement (no limit escape) for programs within 1024 slots and 16 nested blocks"),
         ("C02_tree_semantics_within_limits", "Limits", "T1_program_iff_within_limits", "")])
_extend("C03", [], _LIM, [("C03_language_within_limits", "Limits", "bcl_language_within_limits", "")])
_extend("C06", [], _LIM,
        [("C06_limits_are_the_tree_limits", "Limits", "compiled_limit_error", "'stack overflow' / 'too many nested blocks' are reported only for programs whose tree needs more than 1024 slots / 16 nested blocks"),
         ("C06_peak_of_compiled_code", "Limits", "parsed_peak", "the maximal depths over all paths of the compiled code are exactly the tree's needs")])
_extend("C10", [], "From BCL Require Import Proofs.Limits.",
        [("C10_compile_peak", "Limits", "compile_peak", "the verifier's labels of compiled code: maximal operand depth = need_prog, maximal block depth = nest_prog"),
         ("C10_no_limit_below", "Limits", "no_limit_below", "")])

# ---- Parens.v (redundant parentheses), LexMono.v (token positions non-decreasing) ----
_extend("C20", [("""Not proved: parentheses around arbitrary sub-expressions (exercised by
   the re-rendering oracle on every generated program).""", """Redundant parentheses (Proofs/Parens.v): every call of the expression
   grammar consumes a complete expression (C20_paren_subexpr: wrapping exactly the tokens one call consumed in '(' ')'
   gives the same tree at every level), doubled parentheses, parenthesised right-hand sides of var / print / eval /
   assignment / expression statements, and for whole programs C20_paren_program: inserting one pair around a node of
   the parse (the context relation `PT`, whose constructors walk from the root to the parenthesised call; that it is
   exactly "insert a pair around a segment" is `PT_ins`) leaves the tree, hence (C20_parens_irrelevant) the compiled
   code and constants unchanged.  Where parentheses are NOT redundant the trees differ (`ex_not_redundant`).  The
   `PT` witness is a hypothesis; for concrete programs it is built by constructors and reflexivity.""")],
        "From BCL Require Import Proofs.Parens.",
        [("C20_paren_subexpr", "Parens", "paren_subexpr", ""),
         ("C20_paren_subexpr_eq", "Parens", "paren_subexpr_eq", ""),
         ("C20_paren_double", "Parens", "paren_double", ""),
         ("C20_paren_stmt", "Parens", "paren_stmt_kw", ""),
         ("C20_paren_program", "Parens", "paren_program", ""),
         ("C20_parens_irrelevant", "Parens", "parens_irrelevant", ""),
         ("C20_expression_is_complete", "Parens", "pexpr_complete", "")])
APPEND["C08"] = (APPEND["C08"][0] + "\nFrom BCL Require Import Proofs.LexMono.",
                 APPEND["C08"][1] + [("C08_token_positions_sorted", "LexMono", "lex_tpos_mono", "token end offsets are non-decreasing, error tokens included"),
                                     ("C08_code_positions_sorted_all", "LexMono", "prog_positions_sorted_all", "hence the position table of every compiled program is sorted, unconditionally")])

# ---- CliRun.v / CliRunProofs.v: main.run and main() ----
_extend("C18", [("""   library's is checked against the real binary (the OS is outside the model: partial).""", """   library's is checked against the real binary (the OS is outside the model: partial).
   Model/CliRun.v is the transcription of cmd/bcl/main.go (run and main): which library calls are made for the
   parsed flags and in which order, what reaches stdout, which file is written, the exit status; the outside world
   (standard input, readable files, whether the dump target can be created and written) is a parameter.  The real
   binary is compared with this model on every case (exit status, stdout, file written, error or not).  Theorems:
   the tool IS the library call sequence (C18_run_is_interpret: without --bdump/--bload, stdout, result and status
   are exactly those of Interpret with the same options); exit status 0 iff no error, 1 iff some error of run, 2 iff
   a usage error (C18_status_spec, C18_main_status_0/1/2); a successful --bdump only adds the file, a failing one executes nothing and writes
   nothing (C18_bdump_ok_only_writes, C18_bdump_target_fails); --bdump followed by --bload reproduces status, result and execution output
   (C18_bdump_then_bload; size bounds of the dump codec as hypotheses); -d/-t/-s only observe at tool level
   (C18_options_only_observe); flag order and clusters lifted to main (C18_main_flag_order, C18_main_cluster).""")],
        """From BCL Require Import Model.Api Model.DumpLoad Model.CliRun Proofs.CliRunProofs.""",
        [("C18_run_is_interpret", "CliRunProofs", "run_is_interpret", ""),
         ("C18_status_spec", "CliRunProofs", "status_spec", ""),
         ("C18_status_1", "CliRunProofs", "status_1_spec", ""),
         ("C18_main_status_2", "CliRunProofs", "main_status_2", ""),
         ("C18_main_status_1", "CliRunProofs", "main_status_1", ""),
         ("C18_main_status_0", "CliRunProofs", "main_status_0", ""),
         ("C18_bdump_ok_only_writes", "CliRunProofs", "bdump_ok_only_writes", ""),
         ("C18_bdump_target_fails", "CliRunProofs", "bdump_target_fails", ""),
         ("C18_bdump_then_bload", "CliRunProofs", "bdump_then_bload", ""),
         ("C18_options_only_observe", "CliRunProofs", "options_only_observe", ""),
         ("C18_main_flag_order", "CliRunProofs", "cli_flag_order", ""),
         ("C18_main_cluster", "CliRunProofs", "cli_cluster", ""),
         ("C18_never_model_gives_up", "CliRunProofs", "never_model_gives_up", "the model's own failure constructors are unreachable on the source path, except for the excluded repetition case")])
PROPS["C18"] = (PROPS["C18"][0].replace(" (argument parsing part)", ""),) + PROPS["C18"][1:]

# ---- SizeBounds.v: the output-size hypotheses follow from a bound on the input length ----
_SB = "From BCL Require Import Proofs.ParserTotal Proofs.SizeBounds."
_SBNOTE = """   The `_input` forms (Proofs/SizeBounds.v) have as ONLY hypotheses that the source is shorter than 2^56 bytes and that
   it is accepted: the number of constants is at most the number of tokens, the code at most 40 bytes per token, the
   lexer emits at most one token per byte plus two, and the parser never gives up (ParserTotal)."""
_extend("C01", [("""a limit
   error can only occur when the tree exceeds that limit (C01_language_characterised).""", """a limit
   error can only occur when the tree exceeds that limit (C01_language_characterised).
""" + _SBNOTE)], _SB,
        [("C01_language_input", "SizeBounds", "bcl_language_input", ""),
         ("C01_language_within_limits_input", "SizeBounds", "bcl_language_within_limits_input", "")])
_extend("C02", [], _SB, [("C02_language_within_limits_input", "SizeBounds", "bcl_language_within_limits_input", "only hypotheses: input shorter than 2^56 bytes, accepted, within the two VM limits")])
_extend("C03", [], _SB, [("C03_language_within_limits_input", "SizeBounds", "bcl_language_within_limits_input", "")])
_extend("C06", [], _SB, [("C06_compiled_runs_clean_input", "SizeBounds", "compiled_runs_clean_input", ""),
                         ("C06_constants_bounded_by_input", "SizeBounds", "constants_bounded_by_input", ""),
                         ("C06_code_bounded_by_input", "SizeBounds", "code_bounded_by_input", ""),
                         ("C06_token_count", "SizeBounds", "lex_token_count", "")])
_extend("C10", [], _SB, [("C10_parsed_verifies_input", "SizeBounds", "parsed_verifies_input", "every accepted source shorter than 2^56 bytes compiles to code the verifier accepts"),
                         ("C10_parsed_peak_input", "SizeBounds", "parsed_peak_input", "")])
_extend("C18", [], _SB, [("C18_bdump_then_bload_input", "SizeBounds", "bdump_then_bload_input", ""),
                         ("C18_never_model_gives_up_input", "SizeBounds", "never_model_gives_up_input", "")])
APPEND["C09"] = ("""(* the well-formedness Dump needs, from a bound on the input length alone *)
From BCL Require Import Proofs.ParserTotal Proofs.SizeBounds.""",
[("C09_from_parse_input", "SizeBounds", "parse_wf_input", "")])

# ---- LexWrite.v: the lexer reads the writer's text back as the writer's tokens ----
_extend("C05", [("""Bytes -> tokens (the lexer on the written text) is exercised by the
   harness only.""", """The last link, bytes -> tokens, is Proofs/LexWrite.v: for token lists whose
   texts are what the lexer produces for their type (`lexable`: ASCII identifiers that are not keywords, digit strings,
   float texts with a fraction or an exponent, quoted bodies without raw quote / newline, the fixed keywords and
   punctuation) the lexer reads `render ts` (texts joined by any non-empty ASCII white space) back as exactly those
   tokens plus tEOF (C05_lex_render), hence for the writer's output C05_text_roundtrip: the TEXT of a value is accepted
   by Parse, and executing the compiled program and binding the result into a zero target yields exactly the value.
   Premises that remain on the caller: keys and block types are non-keyword ASCII identifiers and each float written
   has a float text that parses to it (`lex_ok`, `gtext_ok`): float printing is not modelled.""")],
        "From BCL Require Import Proofs.LayoutProofs Proofs.LexWrite.",
        [("C05_lex_render", "LexWrite", "lex_render", ""),
         ("C05_lex_render_any_sep", "LexWrite", "lex_render_any_sep", ""),
         ("C05_text_parse", "LexWrite", "text_parse", "", "check"),
         ("C05_text_roundtrip", "LexWrite", "C05_text_roundtrip", "", "check"),
         ("C05_text_roundtrip_slice", "LexWrite", "C05_text_roundtrip_slice", "", "check")])

# ---- DisasmProofs.v: the disassembly tiles the code; the trace lists the instructions executed ----
APPEND["C19"] = ("""(* the disassembly lists each instruction of the compiled program exactly once at its offset, the trace lists exactly
   the instructions executed, and neither can reach a panic site of the disassembler (Proofs/DisasmProofs.v) *)
From Coq Require Import Sorted.
From BCL Require Import Model.Verify Proofs.VerifyProofs Proofs.Limits Proofs.DisasmProofs.""",
[("C19_disasm_total", "DisasmProofs", "disasm_total", ""),
 ("C19_disasm_tiles", "DisasmProofs", "disasm_tiles", "one line per instruction boundary, in order, starting at 0, consecutive offsets differing by the decoded length, the last instruction ending at the end of the code"),
 ("C19_disasm_source", "DisasmProofs", "disasm_source", "for every accepted source shorter than 2^56 bytes"),
 ("C19_interpret_disasm_lines", "DisasmProofs", "interpret_disasm_lines", ""),
 ("C19_never_disasm_panic", "DisasmProofs", "interpret_never_disasm_panic", ""),
 ("C19_run_pc_in_offsets", "DisasmProofs", "run_pc_in_offsets", "every pc at which the VM fetches an opcode is one of the listed offsets"),
 ("C19_trace_lists_instructions", "DisasmProofs", "trace_lists_instructions", "the trace is, in order, one (stack, instruction) pair per step; the instruction line is the disassembly line of that pc"),
 ("C19_trace_source", "DisasmProofs", "trace_source", ""),
])

# ---- TieSync.v: the synchronisation skeleton of the source is the one Model/Proto.v models ----
_SYNC = ("""(* the channel / goroutine / mutex operations of the source, regenerated by tools/gentables on every run, are exactly those
   the transition system of Model/Proto.v was written from (Spec/Pinned.v sync_skeleton) *)
From Coq Require Import List String.
From BCL Require Gen.GenTables Spec.Pinned Proofs.TieSync.""",
         [("%s_sync_skeleton", "TieSync", "tie_sync_skeleton", "")])
APPEND["C11"] = (_SYNC[0], [("C11_sync_skeleton", "TieSync", "tie_sync_skeleton", "")])
APPEND["C12"] = (_SYNC[0], [("C12_sync_skeleton", "TieSync", "tie_sync_skeleton", "")])

# ---- LexSound.v: the lexical grammar is exact; tokens and layout tile the source ----
_LS = "From BCL Require Import Proofs.LayoutProofs Proofs.LayoutTree Proofs.LexLayout Proofs.LexWrite Proofs.LexSound."
_extend("C17", [], _LS,
        [("C17_lexical_grammar_sound", "LexSound", "lex_tokens_lexable", "every token the lexer emits has the shape the lexical grammar gives its type (identifiers, decimal and hex integers, floats with fraction or exponent, quoted strings, keywords, punctuation)"),
         ("C17_lexical_grammar_exact", "LexSound", "lexable'_exact", "and every such text is emitted as that token for some input"),
         ("C17_lexical_grammar_complete", "LexWrite", "lex_render_any_sep", "a sequence of lexable texts separated by white space is read back as exactly those tokens")], prepend=True)
_extend("C20", [], _LS,
        [("C20_lex_tiles", "LexSound", "lex_tiles", "the token texts interleaved with layout (white space and comments) ARE the source: the lexer drops and invents nothing"),
         ("C20_token_substring", "LexSound", "lex_token_substring", "")])
APPEND["C08"] = (APPEND["C08"][0] + "\nFrom BCL Require Import Proofs.LexSound.",
                 APPEND["C08"][1] + [("C08_token_text_at_position", "LexSound", "lex_token_at", "the text of a token (the one a diagnostic quotes) is the source text ending exactly at the token's position")])
