// gentables reads the Go source of wkhere/bcl (directory given as argument) with go/parser
// and writes the table-shaped parts of it as a Coq file: numbering of tokens, opcodes and
// typecodes, the lexer's character tables and keywords, the Pratt rules table, the
// token->opcode switch of binary(), the sync() token set, limits and format constants, the
// operand class of every opcode in the disassembler, and the package-level variables with
// a flag telling whether anything outside init() assigns them.
//
// Only the standard library is used.  If a table is not found in the shape expected the
// tool exits non-zero: a broken tie, reported as such by bin/vcheck.
package main

import (
	"fmt"
	"go/ast"
	"go/parser"
	"go/printer"
	"go/token"
	"os"
	"path/filepath"
	"sort"
	"strconv"
	"strings"
)

var fset = token.NewFileSet()

func exprString(e ast.Expr) string {
	var b strings.Builder
	printer.Fprint(&b, fset, e)
	return b.String()
}
var files = map[string]*ast.File{}
var consts = map[string]int64{}
var constOrder []string
var constGroups = map[string][]string{} // type name -> const names in order

func die(format string, a ...any) {
	fmt.Fprintf(os.Stderr, "gentables: "+format+"\n", a...)
	os.Exit(3)
}

func eval(e ast.Expr, iota int64) (int64, bool) {
	switch x := e.(type) {
	case *ast.BasicLit:
		switch x.Kind {
		case token.INT:
			v, err := strconv.ParseInt(x.Value, 0, 64)
			return v, err == nil
		case token.CHAR:
			r, _, _, err := strconv.UnquoteChar(x.Value[1:len(x.Value)-1], '\'')
			return int64(r), err == nil
		}
	case *ast.Ident:
		if x.Name == "iota" {
			return iota, true
		}
		v, ok := consts[x.Name]
		return v, ok
	case *ast.ParenExpr:
		return eval(x.X, iota)
	case *ast.CallExpr: // conversion like tokenType(3)
		if len(x.Args) == 1 {
			return eval(x.Args[0], iota)
		}
	case *ast.UnaryExpr:
		v, ok := eval(x.X, iota)
		if x.Op == token.SUB {
			return -v, ok
		}
		return v, ok
	case *ast.BinaryExpr:
		a, ok1 := eval(x.X, iota)
		b, ok2 := eval(x.Y, iota)
		if !ok1 || !ok2 {
			return 0, false
		}
		switch x.Op {
		case token.ADD:
			return a + b, true
		case token.SUB:
			return a - b, true
		case token.MUL:
			return a * b, true
		case token.SHL:
			return a << uint(b), true
		case token.QUO:
			if b != 0 {
				return a / b, true
			}
		}
	}
	return 0, false
}

func collectConsts() {
	names := make([]string, 0, len(files))
	for n := range files {
		names = append(names, n)
	}
	sort.Strings(names)
	// two passes so that constants referring to ones in later files resolve
	for pass := 0; pass < 2; pass++ {
		for _, fn := range names {
			for _, d := range files[fn].Decls {
				gd, ok := d.(*ast.GenDecl)
				if !ok || gd.Tok != token.CONST {
					continue
				}
				var lastVals []ast.Expr
				var lastType string
				for i, s := range gd.Specs {
					vs := s.(*ast.ValueSpec)
					if len(vs.Values) > 0 {
						lastVals = vs.Values
						if id, ok := vs.Type.(*ast.Ident); ok {
							lastType = id.Name
						} else if i == 0 {
							lastType = ""
						}
						// an untyped constant inside a typed group (bindAll = 15) stays in the group
					}
					for j, nm := range vs.Names {
						if nm.Name == "_" || j >= len(lastVals) {
							continue
						}
						v, ok := eval(lastVals[j], int64(i))
						if !ok {
							continue
						}
						if _, seen := consts[nm.Name]; !seen {
							constOrder = append(constOrder, nm.Name)
							if lastType != "" {
								constGroups[lastType] = append(constGroups[lastType], nm.Name)
							}
						}
						consts[nm.Name] = v
					}
				}
			}
		}
	}
}

func funcDecl(name string) *ast.FuncDecl {
	recv := ""
	if i := strings.Index(name, "."); i >= 0 {
		recv, name = name[:i], name[i+1:]
	}
	for _, f := range files {
		for _, d := range f.Decls {
			if fd, ok := d.(*ast.FuncDecl); ok && fd.Name.Name == name {
				if recv != "" {
					if fd.Recv == nil || len(fd.Recv.List) != 1 {
						continue
					}
					t := fd.Recv.List[0].Type
					if st, ok := t.(*ast.StarExpr); ok {
						t = st.X
					}
					if identName(t) != recv {
						continue
					}
				}
				if name == "init" && !strings.Contains(fset.Position(fd.Pos()).Filename, "parse.go") {
					continue
				}
				return fd
			}
		}
	}
	die("function %s not found", name)
	return nil
}

func varDecl(name string) ast.Expr {
	for _, f := range files {
		for _, d := range f.Decls {
			if gd, ok := d.(*ast.GenDecl); ok && gd.Tok == token.VAR {
				for _, s := range gd.Specs {
					vs := s.(*ast.ValueSpec)
					for i, n := range vs.Names {
						if n.Name == name && i < len(vs.Values) {
							return vs.Values[i]
						}
					}
				}
			}
		}
	}
	die("var %s not found", name)
	return nil
}

func q(s string) string {
	// Coq string literal: only '"' needs doubling; non-printable bytes do not occur in names
	return `"` + strings.ReplaceAll(s, `"`, `""`) + `"`
}

func identName(e ast.Expr) string {
	switch x := e.(type) {
	case *ast.Ident:
		return x.Name
	case *ast.SelectorExpr:
		return identName(x.X) + "." + x.Sel.Name
	}
	return "?"
}

func strLit(e ast.Expr) (string, bool) {
	switch x := e.(type) {
	case *ast.BasicLit:
		if x.Kind == token.STRING {
			s, err := strconv.Unquote(x.Value)
			return s, err == nil
		}
	case *ast.Ident: // string constant defined elsewhere
		return stringConst(x.Name)
	case *ast.BinaryExpr:
		if x.Op == token.ADD {
			a, ok1 := strLit(x.X)
			b, ok2 := strLit(x.Y)
			return a + b, ok1 && ok2
		}
	}
	return "", false
}

func stringConst(name string) (string, bool) {
	for _, f := range files {
		for _, d := range f.Decls {
			if gd, ok := d.(*ast.GenDecl); ok && gd.Tok == token.CONST {
				for _, s := range gd.Specs {
					vs := s.(*ast.ValueSpec)
					for i, n := range vs.Names {
						if n.Name == name && i < len(vs.Values) {
							return strLit(vs.Values[i])
						}
					}
				}
			}
		}
	}
	return "", false
}

func main() {
	if len(os.Args) != 3 {
		die("usage: gentables REPO_DIR OUT.v")
	}
	dir := os.Args[1]
	matches, _ := filepath.Glob(filepath.Join(dir, "*.go"))
	for _, m := range matches {
		if strings.HasSuffix(m, "_test.go") || strings.HasPrefix(filepath.Base(m), "verif_") {
			continue
		}
		f, err := parser.ParseFile(fset, m, nil, 0)
		if err != nil {
			die("parse %s: %v", m, err)
		}
		files[filepath.Base(m)] = f
	}
	collectConsts()

	var b strings.Builder
	w := func(format string, a ...any) { fmt.Fprintf(&b, format, a...) }
	w("(* GENERATED by tools/gentables from %s -- do not edit. *)\n", dir)
	w("From Coq Require Import List NArith String.\nImport ListNotations.\nOpen Scope string_scope.\nOpen Scope N_scope.\n\n")

	group := func(coqName, typeName string) {
		names := constGroups[typeName]
		if len(names) == 0 {
			die("no constants of type %s", typeName)
		}
		w("Definition %s : list (string * N) :=\n  [", coqName)
		for i, n := range names {
			if i > 0 {
				w(";\n   ")
			}
			w("(%s, %d)", q(n), consts[n])
		}
		w("].\n\n")
	}
	group("token_types", "tokenType")
	group("opcodes", "opcode")
	group("typecodes", "typecode")
	group("bind_selectors", "bindSelector")
	group("bind_targets", "bindTarget")
	group("precedences", "precedence")

	// keywords
	{
		cl, ok := varDecl("keywords").(*ast.CompositeLit)
		if !ok {
			die("keywords: not a composite literal")
		}
		var rows []string
		for _, e := range cl.Elts {
			kv := e.(*ast.KeyValueExpr)
			k, ok := strLit(kv.Key)
			if !ok {
				die("keywords: key")
			}
			rows = append(rows, fmt.Sprintf("(%s, %s)", q(k), q(identName(kv.Value))))
		}
		sort.Strings(rows)
		w("Definition keywords : list (string * string) :=\n  [%s].\n\n", strings.Join(rows, ";\n   "))
	}
	// twoRuneTokens, oneRuneTokens
	{
		cl := varDecl("twoRuneTokens").(*ast.CompositeLit)
		type row struct {
			r1, r2 int64
			t      string
		}
		var rows []row
		for _, e := range cl.Elts {
			kv := e.(*ast.KeyValueExpr)
			r1, ok := eval(kv.Key, 0)
			v := kv.Value.(*ast.CompositeLit)
			r2, ok2 := eval(v.Elts[0], 0)
			if !ok || !ok2 {
				die("twoRuneTokens: entry")
			}
			rows = append(rows, row{r1, r2, identName(v.Elts[1])})
		}
		sort.Slice(rows, func(i, j int) bool { return rows[i].r1 < rows[j].r1 })
		w("Definition two_rune : list (N * (N * string)) :=\n  [")
		for i, r := range rows {
			if i > 0 {
				w("; ")
			}
			w("(%d, (%d, %s))", r.r1, r.r2, q(r.t))
		}
		w("].\n\n")
		cl = varDecl("oneRuneTokens").(*ast.CompositeLit)
		var rows1 []row
		for _, e := range cl.Elts {
			kv := e.(*ast.KeyValueExpr)
			r1, ok := eval(kv.Key, 0)
			if !ok {
				die("oneRuneTokens: entry")
			}
			rows1 = append(rows1, row{r1, 0, identName(kv.Value)})
		}
		sort.Slice(rows1, func(i, j int) bool { return rows1[i].r1 < rows1[j].r1 })
		w("Definition one_rune : list (N * string) :=\n  [")
		for i, r := range rows1 {
			if i > 0 {
				w("; ")
			}
			w("(%d, %s)", r.r1, q(r.t))
		}
		w("].\n\n")
	}
	// isSpace: case list; isEol: char literals of the return expression
	runeSet := func(fn string) []int64 {
		var out []int64
		ast.Inspect(funcDecl(fn).Body, func(n ast.Node) bool {
			switch x := n.(type) {
			case *ast.CaseClause:
				for _, e := range x.List {
					if v, ok := eval(e, 0); ok {
						out = append(out, v)
					}
				}
			case *ast.BinaryExpr:
				if x.Op == token.EQL {
					if v, ok := eval(x.Y, 0); ok {
						out = append(out, v)
					}
				}
			}
			return true
		})
		sort.Slice(out, func(i, j int) bool { return out[i] < out[j] })
		return out
	}
	nlist := func(xs []int64) string {
		ss := make([]string, len(xs))
		for i, x := range xs {
			ss[i] = fmt.Sprint(x)
		}
		return "[" + strings.Join(ss, "; ") + "]"
	}
	w("Definition space_runes : list N := %s.\n", nlist(runeSet("isSpace")))
	w("Definition eol_runes : list N := %s.\n", nlist(runeSet("isEol")))
	for _, n := range []string{"digits", "hexdigits"} {
		s, ok := stringConst(n)
		if !ok {
			die("string constant %s", n)
		}
		w("Definition %s : string := %s.\n", n, q(s))
	}
	w("\n")

	// rules table (parse.go init): every token type gets a row, absent ones the zero value
	{
		rows := map[string][3]string{}
		found := false
		ast.Inspect(funcDecl("init").Body, func(n ast.Node) bool {
			as, ok := n.(*ast.AssignStmt)
			if !ok || len(as.Lhs) != 1 || identName(as.Lhs[0]) != "rules" {
				return true
			}
			cl, ok := as.Rhs[0].(*ast.CompositeLit)
			if !ok {
				die("rules: not a composite literal")
			}
			found = true
			for _, e := range cl.Elts {
				kv, ok := e.(*ast.KeyValueExpr)
				if !ok {
					die("rules: unkeyed entry")
				}
				v := kv.Value.(*ast.CompositeLit)
				if len(v.Elts) != 3 {
					die("rules: entry shape")
				}
				rows[identName(kv.Key)] = [3]string{identName(v.Elts[0]), identName(v.Elts[1]), identName(v.Elts[2])}
			}
			return false
		})
		if !found {
			die("rules table not found in init()")
		}
		w("Definition rules : list (string * (string * string * string)) :=\n  [")
		first := true
		for _, t := range constGroups["tokenType"] {
			if t == "tMAX" {
				continue
			}
			r, ok := rows[t]
			if !ok {
				r = [3]string{"nil", "nil", "precNone"}
			}
			if !first {
				w(";\n   ")
			}
			first = false
			w("(%s, (%s, %s, %s))", q(t), q(r[0]), q(r[1]), q(r[2]))
		}
		w("].\n\n")
	}
	// binary(): token -> opcodes ; sync(): statement-delimiting tokens
	caseTable := func(fn string, withOps bool) {
		var rows []string
		ast.Inspect(funcDecl(fn).Body, func(n ast.Node) bool {
			cc, ok := n.(*ast.CaseClause)
			if !ok {
				return true
			}
			for _, e := range cc.List {
				t := identName(e)
				if !strings.HasPrefix(t, "t") {
					continue
				}
				if !withOps {
					rows = append(rows, q(t))
					continue
				}
				var ops []string
				for _, st := range cc.Body {
					ast.Inspect(st, func(m ast.Node) bool {
						if c, ok := m.(*ast.CallExpr); ok {
							for _, a := range c.Args {
								if id, ok := a.(*ast.Ident); ok && strings.HasPrefix(id.Name, "op") {
									ops = append(ops, q(id.Name))
								}
							}
						}
						return true
					})
				}
				rows = append(rows, fmt.Sprintf("(%s, [%s])", q(t), strings.Join(ops, "; ")))
			}
			return true
		})
		sort.Strings(rows)
		if withOps {
			w("Definition %s_ops : list (string * list string) :=\n  [%s].\n\n", fn, strings.Join(rows, ";\n   "))
		} else {
			w("Definition %s_tokens : list string := [%s].\n\n", fn, strings.Join(rows, "; "))
		}
	}
	caseTable("binary", true)
	caseTable("unary", true)
	caseTable("sync", false)

	// disassembler operand classes
	{
		var rows []string
		ast.Inspect(funcDecl("disasmInstr").Body, func(n ast.Node) bool {
			cc, ok := n.(*ast.CaseClause)
			if !ok {
				return true
			}
			class := "?"
			ast.Inspect(&ast.BlockStmt{List: cc.Body}, func(m ast.Node) bool {
				if c, ok := m.(*ast.CallExpr); ok {
					if id, ok := c.Fun.(*ast.Ident); ok && strings.HasSuffix(id.Name, "Instr") {
						class = id.Name
						for _, a := range c.Args {
							if u, ok := a.(*ast.UnaryExpr); ok && u.Op == token.SUB {
								class += "-"
							}
						}
					}
				}
				return true
			})
			for _, e := range cc.List {
				rows = append(rows, fmt.Sprintf("(%s, %s)", q(identName(e)), q(class)))
			}
			return true
		})
		sort.Strings(rows)
		w("Definition disasm_classes : list (string * string) :=\n  [%s].\n\n", strings.Join(rows, ";\n   "))
	}
	// VM: opcodes guarded by the stack-overflow check
	{
		var ops []string
		ast.Inspect(funcDecl("vm.run").Body, func(n ast.Node) bool {
			ifs, ok := n.(*ast.IfStmt)
			if !ok {
				return true
			}
			be, ok := ifs.Cond.(*ast.BinaryExpr)
			if !ok || identName(be.X) != "vm.tos" || identName(be.Y) != "stackSize" {
				return true
			}
			ast.Inspect(ifs.Body, func(m ast.Node) bool {
				if cc, ok := m.(*ast.CaseClause); ok {
					for _, e := range cc.List {
						ops = append(ops, q(identName(e)))
					}
				}
				return true
			})
			return false
		})
		sort.Strings(ops)
		w("Definition pushing_ops : list string := [%s].\n\n", strings.Join(ops, "; "))
	}
	// numeric constants
	{
		w("Definition constants : list (string * N) :=\n  [")
		first := true
		for _, n := range []string{"stackSize", "blockStackSize", "localsMaxSize", "jumpByteLength",
			"bytecodeMajor", "bytecodeMinor", "tokensBufSize", "lineComment", "eof"} {
			v, ok := consts[n]
			if !ok {
				die("constant %s not found", n)
			}
			if v < 0 {
				continue
			}
			if !first {
				w("; ")
			}
			first = false
			w("(%s, %d)", q(n), v)
		}
		w("].\n")
		m, ok := stringConst("bytecodeMagic")
		if !ok {
			die("bytecodeMagic")
		}
		var ms []int64
		for i := 0; i < len(m); i++ {
			ms = append(ms, int64(m[i]))
		}
		w("Definition magic : list N := %s.\n", nlist(ms))
	}
	// buffer sizes: array lengths and New{Reader,Writer}Size arguments, per function
	{
		var rows []string
		for _, fn := range []string{"Dump", "Load", "ParseFile"} {
			ast.Inspect(funcDecl(fn).Body, func(n ast.Node) bool {
				switch x := n.(type) {
				case *ast.ArrayType:
					if x.Len != nil {
						if v, ok := eval(x.Len, 0); ok {
							rows = append(rows, fmt.Sprintf("(%s, %d)", q(fn+".array"), v))
						}
					}
				case *ast.CallExpr:
					if s, ok := x.Fun.(*ast.SelectorExpr); ok && strings.HasSuffix(s.Sel.Name, "Size") && len(x.Args) == 2 {
						if v, ok := eval(x.Args[1], 0); ok {
							rows = append(rows, fmt.Sprintf("(%s, %d)", q(fn+"."+s.Sel.Name), v))
						}
					}
				}
				return true
			})
		}
		w("Definition buffer_sizes : list (string * N) :=\n  [%s].\n\n", strings.Join(rows, "; "))
	}
	// package-level variables and whether anything outside init assigns them
	{
		globals := map[string]bool{}
		pkgSpecs := map[any]bool{}
		for _, f := range files {
			for _, d := range f.Decls {
				if gd, ok := d.(*ast.GenDecl); ok && gd.Tok == token.VAR {
					for _, s := range gd.Specs {
						pkgSpecs[s] = true
						for _, n := range s.(*ast.ValueSpec).Names {
							globals[n.Name] = false
						}
					}
				}
			}
		}
		// an identifier denotes the package-level variable if it is unresolved within its file (declared in
		// another file) or resolved to a package-level declaration of the same file
		isGlobal := func(id *ast.Ident) bool {
			if _, g := globals[id.Name]; !g {
				return false
			}
			return id.Obj == nil || pkgSpecs[id.Obj.Decl]
		}
		for _, f := range files {
			for _, d := range f.Decls {
				fd, ok := d.(*ast.FuncDecl)
				if !ok || fd.Body == nil || fd.Name.Name == "init" {
					continue
				}
				ast.Inspect(fd.Body, func(n ast.Node) bool {
					switch x := n.(type) {
					case *ast.AssignStmt:
						if x.Tok == token.DEFINE {
							return true
						}
						for _, l := range x.Lhs {
							root := l
							for {
								switch y := root.(type) {
								case *ast.IndexExpr:
									root = y.X
									continue
								case *ast.SelectorExpr:
									root = y.X
									continue
								}
								break
							}
							if id, ok := root.(*ast.Ident); ok && isGlobal(id) {
								globals[id.Name] = true
							}
						}
					case *ast.IncDecStmt:
						if id, ok := x.X.(*ast.Ident); ok && isGlobal(id) {
							globals[id.Name] = true
						}
					}
					return true
				})
			}
		}
		var names []string
		for n := range globals {
			names = append(names, n)
		}
		sort.Strings(names)
		w("Definition globals_written_after_init : list (string * bool) :=\n  [")
		for i, n := range names {
			if i > 0 {
				w("; ")
			}
			w("(%s, %v)", q(n), globals[n])
		}
		w("].\n")
	}

	// the execution side (machine.go, oplogic.go, disasm.go, Execute and printXStats of api.go) never assigns
	// through a Prog: rows (function, assigned expression) for every assignment whose target goes through a
	// parameter or receiver of type Prog / *Prog or through a selector `.prog`
	{
		isProgType := func(e ast.Expr) bool {
			if st, ok := e.(*ast.StarExpr); ok {
				e = st.X
			}
			id, ok := e.(*ast.Ident)
			return ok && id.Name == "Prog"
		}
		var rows []string
		fnames := make([]string, 0, len(files))
		for n := range files {
			fnames = append(fnames, n)
		}
		sort.Strings(fnames)
		for _, fn := range fnames {
			for _, d := range files[fn].Decls {
				fd, ok := d.(*ast.FuncDecl)
				if !ok || fd.Body == nil {
					continue
				}
				execSide := fn == "machine.go" || fn == "oplogic.go" || fn == "disasm.go" ||
					(fn == "api.go" && (fd.Name.Name == "Execute" || fd.Name.Name == "printXStats"))
				if !execSide {
					continue
				}
				progVars := map[string]bool{}
				lists := []*ast.FieldList{fd.Recv, fd.Type.Params}
				for _, fl := range lists {
					if fl == nil {
						continue
					}
					for _, f := range fl.List {
						if isProgType(f.Type) {
							for _, n := range f.Names {
								progVars[n.Name] = true
							}
						}
					}
				}
				through := func(e ast.Expr) bool {
					for {
						switch y := e.(type) {
						case *ast.IndexExpr:
							e = y.X
						case *ast.StarExpr:
							e = y.X
						case *ast.ParenExpr:
							e = y.X
						case *ast.SelectorExpr:
							if y.Sel.Name == "prog" {
								return true
							}
							if id, ok := y.X.(*ast.Ident); ok && progVars[id.Name] {
								return true
							}
							e = y.X
						default:
							return false
						}
					}
				}
				ast.Inspect(fd.Body, func(n ast.Node) bool {
					switch x := n.(type) {
					case *ast.AssignStmt:
						if x.Tok == token.DEFINE {
							return true
						}
						for _, l := range x.Lhs {
							if through(l) {
								rows = append(rows, fmt.Sprintf("(%s, %s)", q(fd.Name.Name), q(exprString(l))))
							}
						}
					case *ast.IncDecStmt:
						if through(x.X) {
							rows = append(rows, fmt.Sprintf("(%s, %s)", q(fd.Name.Name), q(exprString(x.X))))
						}
					}
					return true
				})
			}
		}
		w("Definition prog_writes_in_execution : list (string * string) :=\n  [%s].\n", strings.Join(rows, "; "))
	}

	// the synchronisation skeleton of the library: every channel operation, goroutine start, deferred call and mutex
	// operation, per function (function literals are numbered within their function), in source order.  Model/Proto.v is the
	// transition system of exactly these operations.
	{
		var rows []string
		fnames := make([]string, 0, len(files))
		for n := range files {
			fnames = append(fnames, n)
		}
		sort.Strings(fnames)
		for _, fn := range fnames {
			if strings.HasSuffix(fn, "_test.go") || fn == "verif_export.go" {
				continue
			}
			for _, d := range files[fn].Decls {
				fd, ok := d.(*ast.FuncDecl)
				if !ok || fd.Body == nil {
					continue
				}
				lit := 0
				var walk func(n ast.Node, where string)
				walk = func(n ast.Node, where string) {
					ast.Inspect(n, func(x ast.Node) bool {
						add := func(what string) { rows = append(rows, fmt.Sprintf("(%s, %s)", q(where), q(what))) }
						switch y := x.(type) {
						case *ast.FuncLit:
							lit++
							walk(y.Body, fmt.Sprintf("%s/func%d", fd.Name.Name, lit))
							return false
						case *ast.GoStmt:
							add("go")
						case *ast.DeferStmt:
							add("defer " + exprString(y.Call.Fun))
							return false
						case *ast.SendStmt:
							add("send " + exprString(y.Chan))
						case *ast.UnaryExpr:
							if y.Op == token.ARROW {
								add("recv " + exprString(y.X))
							}
						case *ast.SelectStmt:
							add("select")
						case *ast.CallExpr:
							if id, ok := y.Fun.(*ast.Ident); ok && id.Name == "close" && len(y.Args) == 1 {
								add("close " + exprString(y.Args[0]))
							}
							if se, ok := y.Fun.(*ast.SelectorExpr); ok {
								switch se.Sel.Name {
								case "Lock", "Unlock", "RLock", "RUnlock":
									add(strings.ToLower(se.Sel.Name) + " " + exprString(se.X))
								}
							}
						case *ast.RangeStmt:
							if _, isChan := y.X.(*ast.Ident); isChan && y.Key == nil && y.Value == nil {
								add("range " + exprString(y.X))
							}
						}
						return true
					})
				}
				walk(fd.Body, fd.Name.Name)
			}
		}
		w("Definition sync_skeleton : list (string * string) :=\n  [%s].\n", strings.Join(rows, ";\n   "))
	}

	out := b.String()
	old, _ := os.ReadFile(os.Args[2])
	if string(old) != out {
		if err := os.WriteFile(os.Args[2], []byte(out), 0o644); err != nil {
			die("write: %v", err)
		}
		fmt.Println("changed")
	} else {
		fmt.Println("unchanged")
	}
}
