module verif/gentables

go 1.21
