#!/usr/bin/env python3
"""Builds corpus/v11/*.json ONCE from the pinned (repaired) build: bytecode files of format 1.1 with
their recorded behaviour.  Re-running it re-records; the committed files are what the C14 check uses."""
import json, os, sys
sys.path.insert(0, os.path.dirname(os.path.dirname(os.path.abspath(__file__))))
from vlib import core
from vlib.core import F

SOURCES = {
 "arith": b"print 1+2*3-4/2\nprint 7/-2\nprint 1.5*2\nprint 2 - 0.5\nprint -(3)\nprint +4\nprint 10/4.0\n",
 "compare": b"print 1<2\nprint 2<=2\nprint 3>4\nprint 4>=5\nprint 1==1.0\nprint 1!=2\nprint \"a\"<\"b\"\nprint nil==nil\nprint true==false\n",
 "strings": b'print "a"+"b"\nprint "n"+1\nprint "f"+1.5\nprint "x"+nil\nprint "ab"*3\nprint "\\x41\\n\\u00e9"\n',
 "logic": b"print 1 and 2\nprint 0 and 2\nprint 0 or 3\nprint 1 or 3\nprint not 0\nprint not \"\"\nprint nil or false or 5\nprint 1 and 2 and 3 or 4\n",
 "vars": b"var a = 1\nvar b\nvar c = a + 1\neval a = c * 2\nprint a\nprint b\nprint c\nprint (a = 10) + a\n",
 "blocks": b'def tunnel "prod" {\n host = "h"\n port = 8000 + 1\n on = true\n off = false\n none = nil\n lat = 8.5\n def extras { x = TYPE + "/" + NAME\n y = port }\n def extras "two" { z = -1 }\n}\ndef tunnel { p = 1 }\n',
 "scopes": b"var x = 1\ndef b { var x = x + 1\n print x\n def c { var x = x + 1\n var y = x\n print x + y }\n f = x }\nprint x\n",
 "bind_struct": b'def t "a" { v = 1 }\nbind t -> struct\n',
 "bind_first": b'def t "a" { v = 1 }\ndef t "b" { v = 2 }\nbind t:first -> struct\n',
 "bind_last_slice": b'def t "a" { v = 1 }\ndef t "b" { v = 2 }\nbind t:last -> slice\n',
 "bind_all": b'def t "a" { v = 1 }\ndef u {}\ndef t "b" { v = 2 }\nbind t:all -> slice\n',
 "bind_one_slice": b'def t { v = 1 }\nbind t:1 -> slice\n',
 "bind_warn": b'def t {}\nbind t -> struct\nbind t:first -> slice\nbind t:last -> struct\n',
 "err_div": b"print 1\ndef a { x = 1 }\nprint 1/0\nprint 2\n",
 "err_types": b'print "a" - 1\n',
 "err_unresolved": b"def a { print nosuch }\n",
 "err_dup": b"def a { def b {}\n def b {} }\n",
 "err_bind_none": b"bind t -> struct\n",
 "err_bind_count": b"def t {}\ndef t {}\nbind t -> struct\n",
 "err_neg": b"print -nil\n",
 "popn": b"def b { var a = 1\n var c = 2\n var d = 3\n x = a + c + d }\nvar q = 1\nvar r = 2\n",
 "ints": b"print 240\nprint 241\nprint 2287\nprint 2288\nprint 67823\nprint 67824\nprint 16777216\nprint 4294967296\nprint 9223372036854775807\nprint 0x7f\nprint 017\n",
 "floats": b"print 0.1+0.2\nprint 1e22\nprint 1e23\nprint 5e-324\nprint 1.7976931348623157e308\nprint 100000.0\nprint 1000000.0\nprint 0.0001\nprint 0.00001\nprint \"s\"+1e21\n",
 "longstr": b'var s = "' + b"abcdefghij" * 30 + b'"\nprint s\n',
 "manylines": b"".join(b"var v%d = %d\n" % (i, i) for i in range(120)) + b"print v119 + v0\nprint v5 / 0\n",
 "empty": b"",
 # files whose LAST byte is a line-table entry on a varint size-class boundary
 "lastlf240": b"print 42 #" + b"x" * 230 + b"\n",
 "lastlf241": b"print 42 #" + b"x" * 231 + b"\n",
 "lastlf2287": b"print 42 #" + b"x" * 2277 + b"\n",
 "lastlf2288": b"print 42 #" + b"x" * 2278 + b"\n",
}

# hand-assembled per the documented format: (name, code, consts, positions, lfs)
def hand():
    out = {}
    code = bytes([0x00, 0x09, 0x00, 0x02, 0x09, 0x01, 0x02, 0x09, 0x02, 0x02, 0x09, 0x03, 0x02, 0x09, 0x04, 0x02, 0x09, 0x05, 0x02, 0x00, 0x01])
    consts = [b"i-5", b"b1", b"b0", b"n", b"s" + b"x" * 300, b"f4609434218613702656", b"i-9223372036854775808"]
    out["hand_consts"] = ("hand", code, consts, list(range(0, 2 * len(code), 2)), [3, 9, 300])
    loop = bytes([0x0e, 0x04, 0x00, 0x0f, 0x1b, 0x00, 0x08, 0x1c, 0x0d, 0x03, 0x00, 0x1c, 0x1a, 0x00, 0x0e, 0x1c, 0x02, 0x01])
    out["hand_loop"] = ("", loop, [], [0] * len(loop), [])
    # CONST with a negative int, bools and nil as operands of == ; NOP padding; non-empty stack at RET
    out["hand_internal_err"] = ("x", bytes([0x0c, 0x00, 0x01]), [], [0, 1, 2], [])
    return out


def main():
    ctx = core.Ctx("C14", "quick", 1)
    with core.BuildLock():
        ctx._build_go(); ctx._build_coq([]); ctx._build_modelrun()
    outdir = os.path.join(core.VERIF, "corpus", "v11")
    os.makedirs(outdir, exist_ok=True)
    cases = [dict(id=k, src_hex=v.hex(), name=k + ".bcl", partitions=[[]]) for k, v in SOURCES.items()]
    res, missing, err = ctx.probe("dumpload", cases)
    files = {}
    for k in SOURCES:
        r = res[k]
        assert r["parse"] == "ok" and r["dump_class"] == "ok", (k, r)
        files[k] = bytes.fromhex(r["dump"])
    h = hand()
    enc = ctx.model([("fmtencode", k, F(nm, code, F(*cs), F(*[str(x) for x in pos]), F(*[str(x) for x in lfs])))
                     for k, (nm, code, cs, pos, lfs) in h.items()])
    for k in h:
        files[k] = bytes.fromhex(enc[k])
    raw = [dict(id=k, data_hex=d.hex(), name="corpus", exec=True) for k, d in files.items()]
    rres, _, _ = ctx.probe("loadraw", raw, tag="corpus")
    mres = ctx.model([("loadexec", k, d) for k, d in files.items()])
    n = 0
    for k, d in files.items():
        r = rres[k]
        assert r["class"] == "ok", (k, r)
        e = r["exec"]
        rec = dict(id=k, origin="source" if k in SOURCES else "hand-assembled", source=SOURCES.get(k, b"").decode("utf8", "replace"),
                   dump_hex=d.hex(), parts=r["parts"],
                   expect=dict(Class=e["Class"], Err=e["Err"], Out=e["Out"], Log=e["Log"], Blocks=e["Blocks"], Binding=e["Binding"]),
                   model=mres[k])
        json.dump(rec, open(os.path.join(outdir, k + ".json"), "w"), indent=1)
        n += 1
        print(k, e["Class"], e["Err"][:60], "| model:", mres[k][:60])
    print("wrote", n, "corpus files")

main()
