#!/usr/bin/env python3
"""Regenerates the two machine-made tables of DESIGN.md (between the BEGIN/END markers): the theorems of
Properties/*.v and the seeded changes with the checks that caught them."""
import glob, json, os, re
V = os.path.dirname(os.path.dirname(os.path.abspath(__file__)))


def theorems():
    rows = ["| Property | Theorems in `coq/Properties` (each closed by `exact`/`apply` of a lemma in `coq/Proofs`, `Print Assumptions`: closed) | Non-vacuity |", "|---|---|---|"]
    for f in sorted(glob.glob(os.path.join(V, "coq", "Properties", "C*.v"))):
        src = open(f).read()
        th = re.findall(r'^Theorem\s+([A-Za-z0-9_\']+)', src, re.M)
        ex = re.findall(r'^Example\s+([A-Za-z0-9_\']+)', src, re.M)
        pid = os.path.basename(f)[:-2]
        rows.append("| %s | %s | %s |" % (pid, ", ".join("`%s`" % t for t in th) or "*(none yet: differential oracle only)*", ", ".join("`%s`" % e for e in ex)))
    return "\n".join(rows)


def seeded():
    rows = ["| Change | Files | What it needs to manifest (from the author's note) | Caught by | Reported as |", "|---|---|---|---|---|"]
    for d in sorted(glob.glob(os.path.join(V, "seeded", "*"))):
        if not os.path.exists(os.path.join(d, "meta.json")):
            continue
        m = json.load(open(os.path.join(d, "meta.json")))
        r = json.load(open(os.path.join(d, "result.json"))) if os.path.exists(os.path.join(d, "result.json")) else None
        needs = " ".join(m.get("needs", "").split())
        mm = re.search(r'(?i)(needs?|manifest)[^.]*\.', needs)
        short = (mm.group(0) if mm else needs[:160])[:200]
        caught, what = "not run", ""
        if r:
            cs = [p for p, x in r["results"].items() if x.get("exit") == 1]
            caught = ", ".join(cs) if cs else "**missed**"
            own = r["results"].get(r["property"], {})
            what = (own.get("what") or [""])[0][:110]
        rows.append("| %s | %s | %s | %s | %s |" % (m["id"], ", ".join(m["files"]), short.replace("|", "/"), caught, what.replace("|", "/")))
    return "\n".join(rows)


def main():
    p = os.path.join(V, "DESIGN.md")
    s = open(p).read()
    for tag, body in (("THEOREMS", theorems()), ("SEEDED", seeded())):
        b, e = "<!-- BEGIN %s -->" % tag, "<!-- END %s -->" % tag
        if b in s:
            s = s[:s.index(b) + len(b)] + "\n" + body + "\n" + s[s.index(e):]
    open(p, "w").write(s)


main()
