module verif/harness

go 1.21

require github.com/wkhere/bcl v0.0.0

require github.com/mohae/uvarint v0.0.0-20160208145430-c3f9e62bf2b0 // indirect

replace github.com/wkhere/bcl => /repo
