package main

import (
	"fmt"
	"bytes"
	"io"
	"os"
	"strconv"
	"sync"
	"time"

	"github.com/wkhere/bcl"
)

func init() {
	suites["chunks"] = suiteChunks
	suites["interp"] = suiteInterp
}

// scriptFile is a FileInput delivering data per a read script and counting calls.
// script entries: n >= 0 bytes with nil error; -1 = return (0, EOF) now; -2 = error now;
// -3-n = n bytes together with EOF.  After the script: the rest in one read, then EOF.
type scriptFile struct {
	mu      sync.Mutex
	data    []byte
	script  []int
	i       int
	name    string
	reads   int
	closes  int
	readsAfterClose int
	delay   time.Duration
}

// wrappedEOF: script entry for a read error that wraps io.EOF (far away from the -3-n encodings of "n bytes + EOF")
const wrappedEOF = -1 << 62

type scriptedErr struct{}

func (scriptedErr) Error() string { return "scripted read error" }

func (f *scriptFile) Name() string { return f.name }
func (f *scriptFile) Close() error {
	f.mu.Lock()
	f.closes++
	f.mu.Unlock()
	return nil
}
func (f *scriptFile) Read(p []byte) (int, error) {
	if f.delay > 0 {
		time.Sleep(f.delay)
	}
	f.mu.Lock()
	defer f.mu.Unlock()
	f.reads++
	if f.closes > 0 {
		f.readsAfterClose++
	}
	take := func(n int) int {
		if n > len(f.data) {
			n = len(f.data)
		}
		if n > len(p) {
			n = len(p)
		}
		copy(p, f.data[:n])
		f.data = f.data[n:]
		return n
	}
	if f.i < len(f.script) {
		s := f.script[f.i]
		f.i++
		switch {
		case s >= 0:
			if len(f.data) == 0 {
				return 0, io.EOF
			}
			return take(s), nil
		case s == -1:
			return 0, io.EOF
		case s == -2:
			return 0, scriptedErr{}
		case s == wrappedEOF:
			return 0, fmt.Errorf("scripted read error: %w", io.EOF)
		default:
			n := take(-3 - s)
			f.data = nil
			return n, io.EOF
		}
	}
	if len(f.data) == 0 {
		return 0, io.EOF
	}
	return take(len(f.data)), nil
}

// watchdog is how long a file-variant call may take before it is classed as a hang
// (VERIF_WATCHDOG_S overrides the 10 s default, e.g. for race-detector builds).
func watchdog() time.Duration {
	if v := os.Getenv("VERIF_WATCHDOG_S"); v != "" {
		if n, err := strconv.Atoi(v); err == nil {
			return time.Duration(n) * time.Second
		}
	}
	return 10 * time.Second
}

type parseObs struct {
	Class string // ok | err | panic | hang
	Err   string
	Parts string
	Log   string
	Out   string
}

func parseWhole(src []byte, name string, opts ...bcl.Option) (o parseObs, p *bcl.Prog) {
	var out, log bytes.Buffer
	var err error
	o.Class, o.Err = guard(30*time.Second, func() {
		p, err = bcl.Parse(src, name, append([]bcl.Option{bcl.OptOutput(&out), bcl.OptLogger(&log)}, opts...)...)
	})
	if o.Class == "ok" {
		if err != nil {
			o.Class, o.Err = "err", err.Error()
		} else {
			o.Parts = showParts(p)
		}
	}
	o.Log, o.Out = hx(log.Bytes()), hx(out.Bytes())
	return
}

func parseFile(f *scriptFile, opts ...bcl.Option) (o parseObs, p *bcl.Prog) {
	var out, log bytes.Buffer
	var err error
	o.Class, o.Err = guard(watchdog(), func() {
		p, err = bcl.ParseFile(f, append([]bcl.Option{bcl.OptOutput(&out), bcl.OptLogger(&log)}, opts...)...)
	})
	if o.Class == "ok" {
		if err != nil {
			o.Class, o.Err = "err", err.Error()
		} else {
			o.Parts = showParts(p)
		}
	}
	if o.Class != "hang" {
		o.Log, o.Out = hx(log.Bytes()), hx(out.Bytes())
	}
	return
}

// chunks: ParseFile under each read script vs Parse on the whole input.
func suiteChunks(c M) M {
	src := unhex(str(c["src_hex"]))
	name := str(c["name"])
	whole, _ := parseWhole(src, name)
	r := M{"whole": whole}
	var res []M
	for _, pa := range c["partitions"].([]any) {
		sizes := toInts(pa)
		f := &scriptFile{data: append([]byte(nil), src...), name: name}
		// a partition is a cyclic size list; unroll it into a script long enough for the input
		if len(sizes) > 0 {
			rem := len(src)
			for k := 0; rem > 0 && k < 4*len(src)+8; k++ {
				s := sizes[k%len(sizes)]
				f.script = append(f.script, s)
				if s > 4096 {
					s = 4096
				}
				rem -= s
			}
		}
		script := append([]int(nil), f.script...)
		o, _ := parseFile(f)
		m := M{"sizes": sizes, "class": o.Class, "same": o == whole, "closes": f.closes}
		if o != whole {
			m["obs"] = o
		}
		res = append(res, m)
		// the same script with the last data read delivered TOGETHER with io.EOF (allowed by io.Reader)
		if len(src) > 0 {
			f2 := &scriptFile{data: append([]byte(nil), src...), name: name}
			rem := len(src)
			for _, s := range script {
				take := s
				if take > 4096 {
					take = 4096
				}
				if take >= rem && s >= 0 {
					f2.script = append(f2.script, -3-rem)
					rem = 0
					break
				}
				f2.script = append(f2.script, s)
				rem -= take
			}
			if rem > 0 && rem <= 4096 {
				f2.script = append(f2.script, -3-rem)
				rem = 0
			}
			if rem == 0 {
				o2, _ := parseFile(f2)
				m2 := M{"sizes": append(append([]int(nil), sizes...), -1), "class": o2.Class, "same": o2 == whole, "closes": f2.closes}
				if o2 != whole {
					m2["obs"] = o2
				}
				res = append(res, m2)
			}
		}
	}
	r["parts"] = res
	return r
}
