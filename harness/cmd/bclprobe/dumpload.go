package main

import (
	"bytes"
	"time"

	"github.com/wkhere/bcl"
)

func init() {
	suites["dumpload"] = suiteDumpLoad
	suites["truncate"] = suiteTruncate
	suites["loadraw"] = suiteLoadRaw
}

// loadLabel maps LoadProg's error text to the section label the model uses.
func loadLabel(err error) string {
	if err == nil {
		return ""
	}
	s := err.Error()
	for _, p := range []string{
		"missing magic header", "invalid magic header", "missing bcode major/minor version",
		"invalid bcode major version", "invalid bcode minor version",
		"name size", "name too short", "code size", "code too short", "constants size", "constant",
		"positions size", "position", "lfs size", "lfs",
	} {
		if len(s) >= len(p) && s[:len(p)] == p {
			return p
		}
	}
	return "other:" + s
}

type execObs struct {
	Out, Log, Blocks, Binding, Err string
	Class                          string
}

func execProg(p *bcl.Prog, out, log *bytes.Buffer) execObs {
	var o execObs
	var res []bcl.Block
	var b bcl.Binding
	var err error
	o.Class, _ = guard(20*time.Second, func() { res, b, err = bcl.Execute(p) })
	o.Out, o.Log = hx(out.Bytes()), hx(log.Bytes())
	o.Blocks, o.Binding, o.Err = showBlocks(res), showBinding(b), errStr(err)
	return o
}

func loadOnce(data []byte, sizes []int, name string) (p *bcl.Prog, out, log *bytes.Buffer, class, label string) {
	out, log = new(bytes.Buffer), new(bytes.Buffer)
	var err error
	class, _ = guard(20*time.Second, func() {
		p, err = bcl.LoadProg(&chunkReader{data: append([]byte(nil), data...), sizes: sizes}, name,
			bcl.OptOutput(out), bcl.OptLogger(log))
	})
	if class == "ok" && err != nil {
		class = "err"
		label = loadLabel(err)
	}
	return
}

type closerReader struct{ *chunkReader }

func (closerReader) Close() error { return nil }

// loadOnceOpts: LoadProg with every introspection option switched on (their output is discarded).
func loadOnceOpts(data []byte, sizes []int, name string) (class, label string) {
	var err error
	class, _ = guard(20*time.Second, func() {
		// the reader is also an io.Closer whose Close succeeds (a file): that must not change the verdict
		_, err = bcl.LoadProg(closerReader{&chunkReader{data: append([]byte(nil), data...), sizes: sizes}}, name,
			bcl.OptOutput(discard{}), bcl.OptLogger(discard{}), bcl.OptDisasm(true), bcl.OptStats(true), bcl.OptTrace(true))
	})
	if class == "ok" && err != nil {
		class = "err"
		label = loadLabel(err)
	}
	return
}

// dumpload: parse src, dump; for every partition: load, compare parts, re-dump, disasm, execute.
func suiteDumpLoad(c M) M {
	src := unhex(str(c["src_hex"]))
	name := str(c["name"])
	r := M{}
	var out, log bytes.Buffer
	p, err := bcl.Parse(src, name, bcl.OptOutput(&out), bcl.OptLogger(&log))
	if err != nil {
		r["parse"] = "err"
		return r
	}
	r["parse"] = "ok"
	r["parts"] = showParts(p)
	var dump bytes.Buffer
	var derr error
	class, pm := guard(20*time.Second, func() { derr = p.Dump(&dump) })
	r["dump_class"] = class
	if class != "ok" || derr != nil {
		r["dump_err"] = pm + errStr(derr)
		return r
	}
	r["dump"] = hx(dump.Bytes())

	var dis0 bytes.Buffer
	p0, _, _, _, _ := loadOnce(dump.Bytes(), nil, "loaded:"+name)
	_ = p0
	// disassembly of the original
	pd, _ := bcl.Parse(src, name, bcl.OptOutput(&dis0), bcl.OptLogger(&log), bcl.OptDisasm(true))
	_ = pd
	ex0 := execProg(p, &out, &log)
	r["exec"] = ex0

	var parts []M
	for _, pa := range c["partitions"].([]any) {
		sizes := toInts(pa)
		m := M{"sizes": sizes}
		lp, lout, llog, lclass, label := loadOnce(dump.Bytes(), sizes, "loaded:"+name) // the name comes from the file, not from this argument
		m["class"], m["label"] = lclass, label
		if lclass == "ok" {
			m["parts"] = showParts(lp)
			var d2 bytes.Buffer
			c2, _ := guard(20*time.Second, func() { lp.Dump(&d2) })
			m["redump_same"] = c2 == "ok" && bytes.Equal(d2.Bytes(), dump.Bytes())
			// disasm of the loaded program
			var dis1 bytes.Buffer
			var lp2 *bcl.Prog
			guard(20*time.Second, func() {
				lp2, _ = bcl.LoadProg(&chunkReader{data: append([]byte(nil), dump.Bytes()...), sizes: sizes}, name,
					bcl.OptOutput(&dis1), bcl.OptDisasm(true))
			})
			_ = lp2
			m["disasm_same"] = bytes.Equal(dis0.Bytes(), dis1.Bytes())
			ex1 := execProg(lp, lout, llog)
			m["exec_same"] = ex1 == ex0
			if ex1 != ex0 {
				m["exec"] = ex1
			}
		}
		parts = append(parts, m)
	}
	r["loads"] = parts
	return r
}

// truncate: parse src, dump, LoadProg every proper prefix (or the listed cuts).
func suiteTruncate(c M) M {
	src := unhex(str(c["src_hex"]))
	r := M{}
	var out, log bytes.Buffer
	p, err := bcl.Parse(src, str(c["name"]), bcl.OptOutput(&out), bcl.OptLogger(&log))
	if err != nil {
		r["parse"] = "err"
		return r
	}
	r["parse"] = "ok"
	var dump bytes.Buffer
	class, _ := guard(20*time.Second, func() { p.Dump(&dump) })
	if class != "ok" {
		r["dump_class"] = class
		return r
	}
	d := dump.Bytes()
	r["dump"] = hx(d)
	cuts := toInts(c["cuts"])
	if len(cuts) == 0 {
		for k := 0; k < len(d); k++ {
			cuts = append(cuts, k)
		}
	}
	var res []M
	for _, k := range cuts {
		if k >= len(d) {
			continue
		}
		_, _, _, lclass, label := loadOnce(d[:k], toInts(c["sizes"]), "x")
		m := M{"cut": k, "class": lclass, "label": label}
		if oclass, olabel := loadOnceOpts(d[:k], toInts(c["sizes"]), "x"); oclass != lclass || olabel != label {
			m["opts_class"], m["opts_label"] = oclass, olabel
		}
		res = append(res, m)
	}
	r["cuts"] = res
	// the full dump must load
	_, _, _, fclass, _ := loadOnce(d, toInts(c["sizes"]), "x")
	r["full_class"] = fclass
	return r
}

// loadraw: LoadProg on arbitrary bytes (header sweeps, corpus files).
func suiteLoadRaw(c M) M {
	data := unhex(str(c["data_hex"]))
	p, lout, llog, class, label := loadOnce(data, toInts(c["sizes"]), str(c["name"]))
	r := M{"class": class, "label": label}
	if class == "ok" {
		r["parts"] = showParts(p)
		if c["exec"] == true {
			r["exec"] = execProg(p, lout, llog)
		}
	}
	return r
}
