package main

import (
	"bytes"
	"fmt"
	"io"
	"os"
	"os/exec"
	"path/filepath"
	"sort"
	"strings"
	"time"

	"github.com/wkhere/bcl"
)

func init() {
	suites["cli"] = suiteCli
}

type stdinFile struct{ io.Reader }

func (stdinFile) Name() string { return "/dev/stdin" }
func (stdinFile) Close() error { return nil }

const cliUsage = "usage: bcl"

// cli: run the real binary (env VERIF_BCL_BIN) in a scratch directory and, next to it, the library
// in-process doing what main.run does for the flags the model derived from argv.
func suiteCli(c M) M {
	bin := os.Getenv("VERIF_BCL_BIN")
	var argv []string
	for _, a := range c["argv"].([]any) {
		argv = append(argv, a.(string))
	}
	stdin := unhex(str(c["stdin_hex"]))
	files := map[string][]byte{}
	if fm, ok := c["files"].(map[string]any); ok {
		for k, v := range fm {
			files[k] = unhex(v.(string))
		}
	}
	mk := func() string {
		dir, err := os.MkdirTemp(os.Getenv("VERIF_WORK"), "cli")
		if err != nil {
			panic(err)
		}
		for k, v := range files {
			os.WriteFile(filepath.Join(dir, k), v, 0o644)
		}
		return dir
	}
	listing := func(dir string) map[string]string {
		out := map[string]string{}
		es, _ := os.ReadDir(dir)
		for _, e := range es {
			b, _ := os.ReadFile(filepath.Join(dir, e.Name()))
			out[e.Name()] = hx(b)
		}
		return out
	}
	// 1. the real binary
	dir1 := mk()
	defer os.RemoveAll(dir1)
	cmd := exec.Command(bin, argv...)
	cmd.Dir = dir1
	cmd.Stdin = bytes.NewReader(stdin)
	var so, se bytes.Buffer
	cmd.Stdout, cmd.Stderr = &so, &se
	done := make(chan error, 1)
	cmd.Start()
	go func() { done <- cmd.Wait() }()
	status := 0
	select {
	case err := <-done:
		if ee, ok := err.(*exec.ExitError); ok {
			status = ee.ExitCode()
		} else if err != nil {
			status = -1
		}
	case <-time.After(20 * time.Second):
		cmd.Process.Kill()
		status = -2
	}
	real := M{"status": status, "stdout": hx(so.Bytes()), "stderr": hx(se.Bytes()), "files": listing(dir1)}
	r := M{"real": real}
	// 2. the library in-process, driven by the model's reading of argv
	fl, ok := c["flags"].(map[string]any)
	if !ok {
		return r
	}
	dir2 := mk()
	defer os.RemoveAll(dir2)
	cwd, _ := os.Getwd()
	os.Chdir(dir2)
	defer os.Chdir(cwd)
	var mo, me bytes.Buffer
	mstatus := 0
	b := func(k string) bool { return fl[k] == true }
	func() {
		if b("usage") {
			mstatus = 2
			return
		}
		if b("help") {
			fmt.Fprintln(&mo, cliUsage)
			return
		}
		fail := func(err error) { fmt.Fprintln(&me, err); mstatus = 1 }
		file := str(fl["file"])
		var f bcl.FileInput
		if file == "-" {
			f = stdinFile{bytes.NewReader(stdin)}
		} else {
			of, err := os.Open(file)
			if err != nil {
				fail(err)
				return
			}
			f = of
		}
		var prog *bcl.Prog
		var err error
		if b("bload") {
			prog, err = bcl.LoadProg(f, file, bcl.OptDisasm(b("d")), bcl.OptOutput(&mo), bcl.OptLogger(&me))
			f.Close()
		} else {
			prog, err = bcl.ParseFile(f, bcl.OptDisasm(b("d")), bcl.OptStats(b("s")), bcl.OptOutput(&mo), bcl.OptLogger(&me))
		}
		if err != nil {
			fail(err)
			return
		}
		if b("bdump") {
			bf, err := os.Create(str(fl["bdumpfile"]))
			if err != nil {
				fail(fmt.Errorf("dump: %w", err))
				return
			}
			err = prog.Dump(bf)
			if cerr := bf.Close(); cerr != nil && err == nil {
				err = cerr
			}
			if err != nil {
				fail(fmt.Errorf("dump: %w", err))
				return
			}
		}
		res, binding, err := bcl.Execute(prog, bcl.OptTrace(b("t")), bcl.OptStats(b("s")), bcl.OptOutput(&mo), bcl.OptLogger(&me))
		if err != nil {
			fail(err)
			return
		}
		if b("r") {
			fmt.Fprintf(&mo, "result:  %+v\n", res)
			fmt.Fprintf(&mo, "binding: %+v\n", binding)
		}
	}()
	os.Chdir(cwd)
	r["mirror"] = M{"status": mstatus, "stdout": hx(mo.Bytes()), "stderr": hx(me.Bytes()), "files": listing(dir2)}
	return r
}

var _ = sort.Strings
var _ = strings.TrimSpace
