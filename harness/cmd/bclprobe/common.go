// bclprobe runs the real bcl library (built from /repo's working tree, -tags verif) on
// cases read from stdin (one JSON object per line) and prints one JSON object per case.
// Everything printed is canonical: maps sorted, floats as bit patterns, bytes as hex.
package main

import (
	"bufio"
	"encoding/hex"
	"encoding/json"
	"fmt"
	"io"
	"math"
	"os"
	"runtime/metrics"
	"sort"
	"strconv"
	"strings"
	"sync/atomic"
	"time"

	"github.com/wkhere/bcl"
)

type M = map[string]any

func unhex(s string) []byte {
	b, err := hex.DecodeString(s)
	if err != nil {
		panic("bad hex in case: " + err.Error())
	}
	return b
}

func hx(b []byte) string { return hex.EncodeToString(b) }

// showValue is the canonical text of a constant / field value (same as Suites.show_value).
func showValue(v any) string {
	switch x := v.(type) {
	case nil:
		return "n"
	case bool:
		if x {
			return "b1"
		}
		return "b0"
	case int:
		return fmt.Sprintf("i%d", x)
	case float64:
		if math.IsNaN(x) {
			return "fNaN"
		}
		return fmt.Sprintf("f%d", math.Float64bits(x))
	case string:
		return "s" + hx([]byte(x))
	case bcl.Block:
		return "B" + showBlock(x)
	default:
		return fmt.Sprintf("?%T", v)
	}
}

func showBlock(b bcl.Block) string {
	keys := make([]string, 0, len(b.Fields))
	for k := range b.Fields {
		keys = append(keys, k)
	}
	sort.Strings(keys)
	var sb strings.Builder
	sb.WriteString("{" + hx([]byte(b.Type)) + ":" + hx([]byte(b.Name)))
	for _, k := range keys {
		sb.WriteString(" " + hx([]byte(k)) + "=" + showValue(b.Fields[k]))
	}
	sb.WriteString("}")
	return sb.String()
}

func showBlocks(bs []bcl.Block) string {
	ss := make([]string, len(bs))
	for i, b := range bs {
		ss[i] = showBlock(b)
	}
	return strings.Join(ss, ";")
}

func showBinding(b bcl.Binding) string {
	switch x := b.(type) {
	case nil:
		return "none"
	case bcl.StructBinding:
		return "struct " + showBlock(x.Value)
	case bcl.SliceBinding:
		return "slice " + showBlocks(x.Value)
	default:
		return fmt.Sprintf("?%T", b)
	}
}

func ints(xs []int) string {
	ss := make([]string, len(xs))
	for i, x := range xs {
		ss[i] = fmt.Sprint(x)
	}
	return strings.Join(ss, ",")
}

func showParts(p *bcl.Prog) string {
	name, code, consts, pos, lfs := bcl.VerifParts(p)
	cs := make([]string, len(consts))
	for i, c := range consts {
		cs[i] = showValue(c)
	}
	return "name=" + hx([]byte(name)) + " code=" + hx(code) + " consts=" + strings.Join(cs, ",") +
		" pos=" + ints(pos) + " lfs=" + ints(lfs)
}

// guard runs f under recover and a watchdog; class is "ok", "panic" or "hang".
func guard(timeout time.Duration, f func()) (class string, panicMsg string) {
	done := make(chan string, 1)
	go func() {
		defer func() {
			if r := recover(); r != nil {
				done <- fmt.Sprint("panic: ", r)
				return
			}
			done <- ""
		}()
		f()
	}()
	select {
	case m := <-done:
		if m != "" {
			return "panic", m
		}
		return "ok", ""
	case <-time.After(timeout):
		sawHang.Store(true) // the goroutine cannot be stopped: the process exits after this case (see main)
		return "hang", ""
	}
}

// sawHang: some guarded call did not return; main exits (status 4) once the current case is reported, and the
// caller restarts the probe on the remaining cases.
var sawHang atomic.Bool

// memWatch ends the process (status 5) when its memory exceeds the limit: a call that spins while allocating
// (for instance writing diagnostics for ever) must not take the machine down.  The case being run gets no
// result line; the caller reports it and restarts the probe on the cases after it.
func memWatch(limitMB uint64) {
	samples := []metrics.Sample{{Name: "/memory/classes/total:bytes"}}
	for {
		time.Sleep(50 * time.Millisecond)
		metrics.Read(samples)
		if samples[0].Value.Kind() == metrics.KindUint64 && samples[0].Value.Uint64() > limitMB<<20 {
			fmt.Fprintf(os.Stderr, "RUNAWAY: memory above %d MB while running case %v\n", limitMB, currentID.Load())
			os.Exit(5)
		}
	}
}

var currentID atomic.Value

// chunkReader delivers data in pieces of the given sizes (cyclic; 0 = empty read with nil error).
type chunkReader struct {
	data  []byte
	sizes []int
	i     int
	reads int
}

func (r *chunkReader) Read(p []byte) (int, error) {
	r.reads++
	if len(r.data) == 0 {
		return 0, io.EOF
	}
	n := len(r.data)
	if len(r.sizes) > 0 {
		n = r.sizes[r.i%len(r.sizes)]
		r.i++
	}
	if n > len(r.data) {
		n = len(r.data)
	}
	if n > len(p) {
		n = len(p)
	}
	copy(p, r.data[:n])
	r.data = r.data[n:]
	return n, nil
}

func errStr(err error) string {
	if err == nil {
		return ""
	}
	return err.Error()
}

func toInts(a any) []int {
	if a == nil {
		return nil
	}
	xs := a.([]any)
	r := make([]int, len(xs))
	for i, x := range xs {
		r[i] = int(x.(float64))
	}
	return r
}

func str(a any) string {
	if a == nil {
		return ""
	}
	return a.(string)
}

var suites = map[string]func(c M) M{}

func main() {
	if len(os.Args) < 2 {
		fmt.Fprintln(os.Stderr, "usage: bclprobe SUITE < cases.jsonl")
		os.Exit(2)
	}
	f, ok := suites[os.Args[1]]
	if !ok {
		fmt.Fprintln(os.Stderr, "unknown suite", os.Args[1])
		os.Exit(2)
	}
	limit := uint64(6144)
	if v, err := strconv.ParseUint(os.Getenv("VERIF_MEM_LIMIT_MB"), 10, 64); err == nil && v > 0 {
		limit = v
	}
	currentID.Store("")
	go memWatch(limit)
	in := bufio.NewReaderSize(os.Stdin, 1<<20)
	out := bufio.NewWriterSize(os.Stdout, 1<<20)
	defer out.Flush()
	enc := json.NewEncoder(out)
	for {
		line, err := in.ReadBytes('\n')
		if len(line) > 1 {
			var c M
			if e := json.Unmarshal(line, &c); e != nil {
				fmt.Fprintln(os.Stderr, "bad case:", e)
				os.Exit(2)
			}
			currentID.Store(fmt.Sprint(c["id"]))
			r := f(c)
			r["id"] = c["id"]
			enc.Encode(r)
			out.Flush()
			if sawHang.Load() {
				os.Exit(4)
			}
		}
		if err != nil {
			break
		}
	}
}
