package main

import (
	"bytes"
	"errors"
	"regexp"
	"time"

	"github.com/wkhere/bcl"
)

var reDiag = regexp.MustCompile(`(?m)^line (\d+):(\d+): error(?: at (end|'(?s:.*?)'))?: `)

type interpObs struct {
	Class   string
	Err     string
	Out     string
	Log     string
	Blocks  string
	Binding string
	Parts   string
	Altered string `json:",omitempty"`
}

// interp: Parse (+ parts) then Execute, with the given options.
// failingWriter: an output writer on which every write fails (a full disk, a closed pipe)
type failingWriter struct{}

func (failingWriter) Write(p []byte) (int, error) { return 0, errNoSpace }

var errNoSpace = errors.New("no space left on device")

// interleaveParse: interpret parses otherProgram between Parse and Execute (set by suiteInterp for opts containing 'I')
var interleaveParse bool

const otherProgram = "# other\n\n\n\nvar q = 1\n\n\n\n\n\n\ndef other \"o\" {\n  a = 1\n\n\n  b = 2\n}\n\n\n\n\nprint q +\n\n"

// failOut: the next interpret call uses a failing output writer (set by suiteInterp for opts containing 'F')
var failOut bool

func interpret(src []byte, name string, disasm, trace, stats bool) (o interpObs) {
	var out, log bytes.Buffer
	opts := []bcl.Option{bcl.OptOutput(&out), bcl.OptLogger(&log), bcl.OptDisasm(disasm), bcl.OptTrace(trace), bcl.OptStats(stats)}
	if failOut {
		opts[0] = bcl.OptOutput(failingWriter{})
	}
	var p *bcl.Prog
	var err error
	var res []bcl.Block
	var b bcl.Binding
	src = append([]byte(nil), src...) // a private buffer, overwritten below
	o.Class, o.Err = guard(30*time.Second, func() {
		p, err = bcl.Parse(src, name, opts...)
		if err != nil {
			return
		}
		o.Parts = showParts(p)
		if interleaveParse {
			// an unrelated parse between compiling and running: nothing of it may reach the first program
			bcl.Parse([]byte(otherProgram), "other", bcl.OptOutput(discard{}), bcl.OptLogger(discard{}))
		}
		res, b, err = bcl.Execute(p, opts...)
	})
	if o.Class == "ok" && err != nil {
		o.Class, o.Err = "err", err.Error()
	}
	o.Out, o.Log = hx(out.Bytes()), hx(log.Bytes())
	o.Blocks, o.Binding = showBlocks(res), showBinding(b)
	if p != nil && o.Parts != "" {
		// executing a Prog does not alter it
		if after := showParts(p); after != o.Parts {
			o.Altered = "the Prog differs after Execute"
		}
		// the outcome is a function of the input BYTES: it does not change when the caller reuses its buffer
		for i := range src {
			src[i] = 'Z'
		}
		switch {
		case showParts(p) != o.Parts && o.Altered == "":
			o.Altered = "the Prog changes when the caller's input buffer is overwritten"
		case showBlocks(res) != o.Blocks:
			o.Altered = "the returned blocks change when the caller's input buffer is overwritten"
		case showBinding(b) != o.Binding:
			o.Altered = "the returned binding changes when the caller's input buffer is overwritten"
		}
	}
	return
}

// execSeq: Parse once, then Execute the same Prog once per option string of seq; each step reports what that
// execution appended to the output writer and what it returned.
func execSeq(src []byte, name string, seq []string) []M {
	var out, log bytes.Buffer
	var steps []M
	p, err := bcl.Parse(append([]byte(nil), src...), name, bcl.OptOutput(&out), bcl.OptLogger(&log))
	if err != nil {
		return nil
	}
	for _, opts := range seq {
		has := func(ch byte) bool { return bytes.IndexByte([]byte(opts), ch) >= 0 }
		mark, lmark := out.Len(), log.Len()
		var res []bcl.Block
		var b bcl.Binding
		var xerr error
		class, pm := guard(30*time.Second, func() {
			if has('W') {
				// this execution is given writers of its own; later executions must be unaffected by that
				var o2, l2 bytes.Buffer
				res, b, xerr = bcl.Execute(p, bcl.OptOutput(&o2), bcl.OptLogger(&l2))
				return
			}
			res, b, xerr = bcl.Execute(p, bcl.OptOutput(&out), bcl.OptLogger(&log), bcl.OptTrace(has('t')), bcl.OptStats(has('s')))
		})
		st := M{"opts": opts, "class": class, "out": hx(out.Bytes()[mark:]), "log": hx(log.Bytes()[lmark:]), "blocks": showBlocks(res), "binding": showBinding(b)}
		if class != "ok" {
			st["err"] = pm
		} else if xerr != nil {
			st["err"] = xerr.Error()
		}
		steps = append(steps, st)
	}
	return steps
}

// stickyOptions: a call that sets every option, then a call that sets only its own writers: nothing of the first call
// may show in the second, and the first call's writers must stay untouched.
func stickyOptions(src []byte, name string) M {
	var o1, l1, o2, l2 bytes.Buffer
	var p1, p2 *bcl.Prog
	var e1, e2 error
	class, pm := guard(30*time.Second, func() {
		p1, e1 = bcl.Parse(append([]byte(nil), src...), name, bcl.OptOutput(&o1), bcl.OptLogger(&l1), bcl.OptDisasm(true), bcl.OptStats(true), bcl.OptTrace(true))
		if e1 == nil {
			_, _, e1 = bcl.Execute(p1, bcl.OptOutput(&o1), bcl.OptLogger(&l1), bcl.OptStats(true), bcl.OptTrace(true))
		}
	})
	if class != "ok" {
		return M{"class": class, "err": pm}
	}
	n1, m1 := o1.Len(), l1.Len()
	class, pm = guard(30*time.Second, func() {
		p2, e2 = bcl.Parse(append([]byte(nil), src...), name, bcl.OptOutput(&o2), bcl.OptLogger(&l2))
		if e2 == nil {
			_, _, e2 = bcl.Execute(p2, bcl.OptOutput(&o2), bcl.OptLogger(&l2))
		}
	})
	if class != "ok" {
		return M{"class": class, "err": pm}
	}
	return M{"class": "ok", "first_touched": o1.Len() != n1 || l1.Len() != m1, "second_out": hx(o2.Bytes()), "second_log": hx(l2.Bytes()),
		"second_err": errStr(e2)}
}

func suiteInterp(c M) M {
	src := unhex(str(c["src_hex"])) // a fresh buffer per case: interpret overwrites it afterwards
	opts := str(c["opts"])
	has := func(ch byte) bool { return bytes.IndexByte([]byte(opts), ch) >= 0 }
	failOut, interleaveParse = has('F'), has('I')
	o := interpret(src, str(c["name"]), has('d'), has('t'), has('s'))
	failOut, interleaveParse = false, false
	r := M{"obs": o}
	if c["sticky"] == true {
		r["sticky"] = stickyOptions(src, str(c["name"]))
	}
	if seq, ok := c["seq"].([]any); ok {
		var ss []string
		for _, x := range seq {
			ss = append(ss, str(x))
		}
		r["seq"] = execSeq(src, str(c["name"]), ss)
	}
	return r
}
