package main

import (
	"bytes"
	"regexp"
	"time"

	"github.com/wkhere/bcl"
)

var reDiag = regexp.MustCompile(`(?m)^line (\d+):(\d+): error(?: at (end|'(?s:.*?)'))?: `)

type interpObs struct {
	Class   string
	Err     string
	Out     string
	Log     string
	Blocks  string
	Binding string
	Parts   string
}

// interp: Parse (+ parts) then Execute, with the given options.
func interpret(src []byte, name string, disasm, trace, stats bool) (o interpObs) {
	var out, log bytes.Buffer
	opts := []bcl.Option{bcl.OptOutput(&out), bcl.OptLogger(&log), bcl.OptDisasm(disasm), bcl.OptTrace(trace), bcl.OptStats(stats)}
	var p *bcl.Prog
	var err error
	var res []bcl.Block
	var b bcl.Binding
	o.Class, o.Err = guard(30*time.Second, func() {
		p, err = bcl.Parse(src, name, opts...)
		if err != nil {
			return
		}
		o.Parts = showParts(p)
		res, b, err = bcl.Execute(p, opts...)
	})
	if o.Class == "ok" && err != nil {
		o.Class, o.Err = "err", err.Error()
	}
	o.Out, o.Log = hx(out.Bytes()), hx(log.Bytes())
	o.Blocks, o.Binding = showBlocks(res), showBinding(b)
	return
}

func suiteInterp(c M) M {
	src := unhex(str(c["src_hex"]))
	opts := str(c["opts"])
	has := func(ch byte) bool { return bytes.IndexByte([]byte(opts), ch) >= 0 }
	o := interpret(src, str(c["name"]), has('d'), has('t'), has('s'))
	return M{"obs": o}
}
