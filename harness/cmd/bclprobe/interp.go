package main

import (
	"bytes"
	"regexp"
	"time"

	"github.com/wkhere/bcl"
)

var reDiag = regexp.MustCompile(`(?m)^line (\d+):(\d+): error(?: at (end|'(?s:.*?)'))?: `)

type interpObs struct {
	Class   string
	Err     string
	Out     string
	Log     string
	Blocks  string
	Binding string
	Parts   string
	Altered string `json:",omitempty"`
}

// interp: Parse (+ parts) then Execute, with the given options.
func interpret(src []byte, name string, disasm, trace, stats bool) (o interpObs) {
	var out, log bytes.Buffer
	opts := []bcl.Option{bcl.OptOutput(&out), bcl.OptLogger(&log), bcl.OptDisasm(disasm), bcl.OptTrace(trace), bcl.OptStats(stats)}
	var p *bcl.Prog
	var err error
	var res []bcl.Block
	var b bcl.Binding
	src = append([]byte(nil), src...) // a private buffer, overwritten below
	o.Class, o.Err = guard(30*time.Second, func() {
		p, err = bcl.Parse(src, name, opts...)
		if err != nil {
			return
		}
		o.Parts = showParts(p)
		res, b, err = bcl.Execute(p, opts...)
	})
	if o.Class == "ok" && err != nil {
		o.Class, o.Err = "err", err.Error()
	}
	o.Out, o.Log = hx(out.Bytes()), hx(log.Bytes())
	o.Blocks, o.Binding = showBlocks(res), showBinding(b)
	if p != nil && o.Parts != "" {
		// executing a Prog does not alter it
		if after := showParts(p); after != o.Parts {
			o.Altered = "the Prog differs after Execute"
		}
		// the outcome is a function of the input BYTES: it does not change when the caller reuses its buffer
		for i := range src {
			src[i] = 'Z'
		}
		switch {
		case showParts(p) != o.Parts && o.Altered == "":
			o.Altered = "the Prog changes when the caller's input buffer is overwritten"
		case showBlocks(res) != o.Blocks:
			o.Altered = "the returned blocks change when the caller's input buffer is overwritten"
		case showBinding(b) != o.Binding:
			o.Altered = "the returned binding changes when the caller's input buffer is overwritten"
		}
	}
	return
}

// execSeq: Parse once, then Execute the same Prog once per option string of seq; each step reports what that
// execution appended to the output writer and what it returned.
func execSeq(src []byte, name string, seq []string) []M {
	var out, log bytes.Buffer
	var steps []M
	p, err := bcl.Parse(append([]byte(nil), src...), name, bcl.OptOutput(&out), bcl.OptLogger(&log))
	if err != nil {
		return nil
	}
	for _, opts := range seq {
		has := func(ch byte) bool { return bytes.IndexByte([]byte(opts), ch) >= 0 }
		mark := out.Len()
		var res []bcl.Block
		var b bcl.Binding
		var xerr error
		class, pm := guard(30*time.Second, func() {
			res, b, xerr = bcl.Execute(p, bcl.OptOutput(&out), bcl.OptLogger(&log), bcl.OptTrace(has('t')), bcl.OptStats(has('s')))
		})
		st := M{"opts": opts, "class": class, "out": hx(out.Bytes()[mark:]), "blocks": showBlocks(res), "binding": showBinding(b)}
		if class != "ok" {
			st["err"] = pm
		} else if xerr != nil {
			st["err"] = xerr.Error()
		}
		steps = append(steps, st)
	}
	return steps
}

func suiteInterp(c M) M {
	src := unhex(str(c["src_hex"])) // a fresh buffer per case: interpret overwrites it afterwards
	opts := str(c["opts"])
	has := func(ch byte) bool { return bytes.IndexByte([]byte(opts), ch) >= 0 }
	o := interpret(src, str(c["name"]), has('d'), has('t'), has('s'))
	r := M{"obs": o}
	if seq, ok := c["seq"].([]any); ok {
		var ss []string
		for _, x := range seq {
			ss = append(ss, str(x))
		}
		r["seq"] = execSeq(src, str(c["name"]), ss)
	}
	return r
}
