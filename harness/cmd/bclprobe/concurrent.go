package main

import (
	"fmt"
	"bytes"
	"sort"
	"strings"
	"sync"
	"time"

	"github.com/wkhere/bcl"
)

func init() {
	suites["concurrent"] = suiteConcurrent
}

type lockedBuf struct {
	mu sync.Mutex
	b  bytes.Buffer
}

func (l *lockedBuf) Write(p []byte) (int, error) {
	l.mu.Lock()
	defer l.mu.Unlock()
	return l.b.Write(p)
}

type runObs struct{ Out, Blocks, Binding, Err, Parts, Log string }

func sortedLines(s string) string {
	ls := strings.Split(s, "\n")
	sort.Strings(ls)
	return strings.Join(ls, "\n")
}

// concurrent: (a) N goroutines interpret different programs at once; (b) N goroutines execute ONE
// shared Prog whose writers are safe for concurrent use.  Everything is compared with sequential runs.
func suiteConcurrent(c M) M {
	var progs [][]byte
	for _, h := range c["progs"].([]any) {
		progs = append(progs, unhex(h.(string)))
	}
	n := int(c["n"].(float64))
	r := M{}
	if c["cold"] == true {
		// the very first parses / binds of this process happen concurrently (lazily initialised shared state shows here)
		var wg0 sync.WaitGroup
		for k := 0; k < 8; k++ {
			wg0.Add(1)
			go func(k int) {
				defer wg0.Done()
				src := progs[k%len(progs)]
				interpret(src, "input", false, false, false)
				var t1 Tunnel
				bcl.Unmarshal([]byte("def tunnel \"x\" { host = \"h\"\n port = 1 }\nbind tunnel -> struct"), &t1, bcl.OptOutput(discard{}), bcl.OptLogger(discard{}))
				var t2 []Other
				bcl.Unmarshal([]byte("def other { solo = true }\nbind other:all -> slice"), &t2, bcl.OptOutput(discard{}), bcl.OptLogger(discard{}))
			}(k)
		}
		wg0.Wait()
	}
	seq := make([]runObs, len(progs))
	for i, src := range progs {
		o := interpret(src, "input", false, false, false)
		seq[i] = runObs{o.Out, o.Blocks, o.Binding, o.Err, o.Parts, o.Log}
	}
	// concurrent Unmarshal of independent inputs into independent targets
	var wgu sync.WaitGroup
	var umu sync.Mutex
	udiff := 0
	for k := 0; k < n; k++ {
		wgu.Add(1)
		go func(k int) {
			defer wgu.Done()
			var t1 Tunnel
			e1 := bcl.Unmarshal([]byte(fmt.Sprintf("def tunnel \"x%d\" { host = \"h\"\n port = %d }\nbind tunnel -> struct", k, k)), &t1, bcl.OptOutput(discard{}), bcl.OptLogger(discard{}))
			var t2 []Foo_Bar
			e2 := bcl.Unmarshal([]byte("def foo_bar \"a\" { x_y = 3 }\ndef foo_bar { xy = 4 }\nbind foo_bar:all -> slice"), &t2, bcl.OptOutput(discard{}), bcl.OptLogger(discard{}))
			if e1 != nil || e2 != nil || t1.Port != k || t1.Name != fmt.Sprintf("x%d", k) || len(t2) != 2 || t2[0].X_Y != 3 || t2[1].X_Y != 4 {
				umu.Lock()
				udiff++
				umu.Unlock()
			}
		}(k)
	}
	wgu.Wait()
	r["u_diff"] = udiff
	// (a) independent calls
	var wg sync.WaitGroup
	diffA := 0
	var mu sync.Mutex
	class, pm := guard(60*time.Second, func() {
		for k := 0; k < n; k++ {
			for i, src := range progs {
				wg.Add(1)
				go func(i int, src []byte) {
					defer wg.Done()
					o := interpret(src, "input", false, false, false)
					if (runObs{o.Out, o.Blocks, o.Binding, o.Err, o.Parts, o.Log}) != seq[i] {
						mu.Lock()
						diffA++
						mu.Unlock()
					}
				}(i, src)
			}
		}
		wg.Wait()
	})
	r["a_class"], r["a_panic"], r["a_diff"] = class, pm, diffA
	// (b) one shared Prog
	diffB := 0
	outMismatch := 0
	class, pm = guard(60*time.Second, func() {
		for i, src := range progs {
			out, log := &lockedBuf{}, &lockedBuf{}
			p, err := bcl.Parse(src, "input", bcl.OptOutput(out), bcl.OptLogger(log))
			if err != nil {
				continue
			}
			var dump0 bytes.Buffer
			p.Dump(&dump0)
			var wg2 sync.WaitGroup
			for k := 0; k < n; k++ {
				wg2.Add(1)
				go func() {
					defer wg2.Done()
					res, b, err := bcl.Execute(p)
					if showBlocks(res) != seq[i].Blocks || showBinding(b) != seq[i].Binding || errStr(err) != seq[i].Err {
						mu.Lock()
						diffB++
						mu.Unlock()
					}
				}()
			}
			wg2.Wait()
			want := strings.Repeat(string(unhex(seq[i].Out)), n)
			if sortedLines(out.b.String()) != sortedLines(want) {
				outMismatch++
			}
			// warnings belong to each execution: n executions log n times what one logs
			// (a warning is written in several pieces, so concurrent executions may interleave within a line: compare the
			// number of warnings and the total amount of text, not the lines)
			wantLog := strings.Repeat(string(unhex(seq[i].Log)), n)
			if strings.Count(log.b.String(), "WARNING") != strings.Count(wantLog, "WARNING") || len(log.b.String()) != len(wantLog) {
				outMismatch++
			}
			var dump1 bytes.Buffer
			p.Dump(&dump1)
			if !bytes.Equal(dump0.Bytes(), dump1.Bytes()) {
				diffB += 1000
			}
		}
	})
	r["b_class"], r["b_panic"], r["b_diff"], r["b_out"] = class, pm, diffB, outMismatch
	return r
}
