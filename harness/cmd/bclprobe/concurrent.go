package main

import (
	"bytes"
	"sort"
	"strings"
	"sync"
	"time"

	"github.com/wkhere/bcl"
)

func init() {
	suites["concurrent"] = suiteConcurrent
}

type lockedBuf struct {
	mu sync.Mutex
	b  bytes.Buffer
}

func (l *lockedBuf) Write(p []byte) (int, error) {
	l.mu.Lock()
	defer l.mu.Unlock()
	return l.b.Write(p)
}

type runObs struct{ Out, Blocks, Binding, Err, Parts, Log string }

func sortedLines(s string) string {
	ls := strings.Split(s, "\n")
	sort.Strings(ls)
	return strings.Join(ls, "\n")
}

// concurrent: (a) N goroutines interpret different programs at once; (b) N goroutines execute ONE
// shared Prog whose writers are safe for concurrent use.  Everything is compared with sequential runs.
func suiteConcurrent(c M) M {
	var progs [][]byte
	for _, h := range c["progs"].([]any) {
		progs = append(progs, unhex(h.(string)))
	}
	n := int(c["n"].(float64))
	seq := make([]runObs, len(progs))
	for i, src := range progs {
		o := interpret(src, "input", false, false, false)
		seq[i] = runObs{o.Out, o.Blocks, o.Binding, o.Err, o.Parts, o.Log}
	}
	r := M{}
	// (a) independent calls
	var wg sync.WaitGroup
	diffA := 0
	var mu sync.Mutex
	class, pm := guard(60*time.Second, func() {
		for k := 0; k < n; k++ {
			for i, src := range progs {
				wg.Add(1)
				go func(i int, src []byte) {
					defer wg.Done()
					o := interpret(src, "input", false, false, false)
					if (runObs{o.Out, o.Blocks, o.Binding, o.Err, o.Parts, o.Log}) != seq[i] {
						mu.Lock()
						diffA++
						mu.Unlock()
					}
				}(i, src)
			}
		}
		wg.Wait()
	})
	r["a_class"], r["a_panic"], r["a_diff"] = class, pm, diffA
	// (b) one shared Prog
	diffB := 0
	outMismatch := 0
	class, pm = guard(60*time.Second, func() {
		for i, src := range progs {
			out, log := &lockedBuf{}, &lockedBuf{}
			p, err := bcl.Parse(src, "input", bcl.OptOutput(out), bcl.OptLogger(log))
			if err != nil {
				continue
			}
			var dump0 bytes.Buffer
			p.Dump(&dump0)
			var wg2 sync.WaitGroup
			for k := 0; k < n; k++ {
				wg2.Add(1)
				go func() {
					defer wg2.Done()
					res, b, err := bcl.Execute(p)
					if showBlocks(res) != seq[i].Blocks || showBinding(b) != seq[i].Binding || errStr(err) != seq[i].Err {
						mu.Lock()
						diffB++
						mu.Unlock()
					}
				}()
			}
			wg2.Wait()
			want := strings.Repeat(string(unhex(seq[i].Out)), n)
			if sortedLines(out.b.String()) != sortedLines(want) {
				outMismatch++
			}
			// warnings belong to each execution: n executions log n times what one logs
			// (a warning is written in several pieces, so concurrent executions may interleave within a line: compare the
			// number of warnings and the total amount of text, not the lines)
			wantLog := strings.Repeat(string(unhex(seq[i].Log)), n)
			if strings.Count(log.b.String(), "WARNING") != strings.Count(wantLog, "WARNING") || len(log.b.String()) != len(wantLog) {
				outMismatch++
			}
			var dump1 bytes.Buffer
			p.Dump(&dump1)
			if !bytes.Equal(dump0.Bytes(), dump1.Bytes()) {
				diffB += 1000
			}
		}
	})
	r["b_class"], r["b_panic"], r["b_diff"], r["b_out"] = class, pm, diffB, outMismatch
	return r
}
