package main

import (
	"runtime"
	"strings"
	"time"

	"github.com/wkhere/bcl"
)

func init() {
	suites["proto"] = suiteProto
}

// proto: ParseFile / InterpretFile / UnmarshalFile under a read script; counters and goroutine hygiene.
// script entries: [kind, n] with kind "d" (n bytes), "z" (0 bytes, nil), "D" (n bytes + EOF), "e" (EOF), "x" (error).
func suiteProto(c M) M {
	src := unhex(str(c["src_hex"]))
	var script []int
	for _, e := range c["script"].([]any) {
		p := e.([]any)
		n := int(p[1].(float64))
		switch p[0].(string) {
		case "d":
			script = append(script, n)
		case "z":
			script = append(script, 0)
		case "D":
			script = append(script, -3-n)
		case "e":
			script = append(script, -1)
		case "x":
			script = append(script, -2)
		case "w": // a read error that WRAPS io.EOF: still an error, not the end of the input
			script = append(script, wrappedEOF)
		}
	}
	api := str(c["api"])
	delay := time.Duration(0)
	if d, ok := c["delay_us"].(float64); ok {
		delay = time.Duration(d) * time.Microsecond
	}
	runtime.GC()
	g0 := runtime.NumGoroutine()
	f := &scriptFile{data: append([]byte(nil), src...), script: script, name: "f", delay: delay}
	var o parseObs
	switch api {
	case "interpret":
		var err error
		o.Class, o.Err = guard(watchdog(), func() {
			_, _, err = bcl.InterpretFile(f, bcl.OptOutput(discard{}), bcl.OptLogger(discard{}))
		})
		if o.Class == "ok" && err != nil {
			o.Class, o.Err = "err", err.Error()
		}
	case "unmarshal":
		var err error
		var target struct{ X int }
		o.Class, o.Err = guard(watchdog(), func() {
			err = bcl.UnmarshalFile(f, &target, bcl.OptOutput(discard{}), bcl.OptLogger(discard{}))
		})
		if o.Class == "ok" && err != nil {
			o.Class, o.Err = "err", err.Error()
		}
	default:
		o, _ = parseFile(f)
	}
	// Close and goroutine exit may trail the return by a moment: allow a grace period
	closes, g1 := 0, 0
	for i := 0; i < 200; i++ {
		f.mu.Lock()
		closes = f.closes
		f.mu.Unlock()
		g1 = runtime.NumGoroutine()
		if closes >= 1 && g1 <= g0 {
			break
		}
		time.Sleep(5 * time.Millisecond)
	}
	time.Sleep(2 * time.Millisecond)
	f.mu.Lock()
	closes = f.closes
	reads := f.reads
	rac := f.readsAfterClose
	f.mu.Unlock()
	kind := "nil"
	switch {
	case o.Class == "hang" || o.Class == "panic":
		kind = o.Class
	case strings.HasPrefix(o.Err, "scripted read error"):
		kind = "read"
	case o.Err == "combined errors from parse":
		kind = "parse"
	case o.Class == "err":
		kind = "other:" + o.Err
	}
	leaked := g1 - g0
	if leaked < 0 {
		leaked = 0
	}
	return M{"result": kind, "closes": closes, "reads": reads, "reads_after_close": rac, "leaked": leaked}
}

type discard struct{}

func (discard) Write(p []byte) (int, error) { return len(p), nil }
