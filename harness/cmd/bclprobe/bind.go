package main

import (
	"fmt"
	"math"
	"reflect"
	"strconv"
	"strings"
	"time"

	"github.com/wkhere/bcl"
)

func init() {
	suites["bind"] = suiteBind
	suites["unmarshal"] = suiteUnmarshal
}

// compiled-in named types (reflect.StructOf cannot name a type); vlib/p_bind.py mirrors their shapes
type Tunnel struct {
	Name   string
	Host   string
	Port   int
	On     bool
	Extras Extras
}
type Extras struct {
	MaxLatency float64
	Note       string
}
type Foo_Bar struct {
	Name string
	X_Y  int
}
type Inner struct {
	Deep   int
	Shared string
}
type Other struct {
	Shared string
	Solo   bool
}
type inner struct {
	Low  int
	Name string
}

type WithInner struct {
	inner
	Port int
}

// two different struct types that print the same ("main.Listener") and differ in their tag layout: anything keyed by
// the type's name instead of its identity mixes them up
func listenerType1() reflect.Type {
	type Listener struct {
		Name  string
		Port  int `bcl:"listen"`
		Iface string
	}
	return reflect.TypeOf(Listener{})
}
func listenerType2() reflect.Type {
	type Listener struct {
		Iface string `bcl:"listen"`
		Name  string
		Port  int
	}
	return reflect.TypeOf(Listener{})
}

var namedTypes = map[string]reflect.Type{
	"Listener#1": listenerType1(), "Listener#2": listenerType2(),
	"WithInner": reflect.TypeOf(WithInner{}),
	"Tunnel": reflect.TypeOf(Tunnel{}), "Extras": reflect.TypeOf(Extras{}), "Foo_Bar": reflect.TypeOf(Foo_Bar{}),
	"Inner": reflect.TypeOf(Inner{}), "Other": reflect.TypeOf(Other{}), "inner": reflect.TypeOf(inner{}),
}

var otherKinds = map[string]reflect.Type{
	"int8": reflect.TypeOf(int8(0)), "int32": reflect.TypeOf(int32(0)), "int64": reflect.TypeOf(int64(0)),
	"uint": reflect.TypeOf(uint(0)), "uint8": reflect.TypeOf(uint8(0)), "float32": reflect.TypeOf(float32(0)),
	"complex128": reflect.TypeOf(complex128(0)), "map": reflect.TypeOf(map[string]any{}), "array": reflect.TypeOf([2]int{}),
	"func": reflect.TypeOf(func() {}), "chan": reflect.TypeOf(make(chan int)), "uintptr": reflect.TypeOf(uintptr(0)),
	"bytes": reflect.TypeOf([]byte(nil)), "rune": reflect.TypeOf(rune(0)),
}

type errorIface interface{ Error() string }

func buildType(d M) reflect.Type {
	switch k := str(d["k"]); k {
	case "int":
		return reflect.TypeOf(int(0))
	case "float64":
		return reflect.TypeOf(float64(0))
	case "string":
		return reflect.TypeOf("")
	case "bool":
		return reflect.TypeOf(false)
	case "iface":
		return reflect.TypeOf((*any)(nil)).Elem()
	case "ifaceN":
		return reflect.TypeOf((*errorIface)(nil)).Elem()
	case "ptr":
		return reflect.PointerTo(buildType(d["elem"].(M)))
	case "slice":
		return reflect.SliceOf(buildType(d["elem"].(M)))
	case "named":
		return namedTypes[str(d["name"])]
	case "struct":
		var fs []reflect.StructField
		for _, f := range d["fields"].([]any) {
			fd := f.(M)
			sf := reflect.StructField{Name: str(fd["n"]), Type: buildType(fd["t"].(M))}
			if tag := str(fd["tag"]); tag != "" {
				sf.Tag = reflect.StructTag(`bcl:` + strconv.Quote(tag))
			}
			if fd["emb"] == true {
				sf.Anonymous = true
			}
			if r := sf.Name[0]; !(r >= 'A' && r <= 'Z') {
				sf.PkgPath = "verif/harness"
			}
			fs = append(fs, sf)
		}
		return reflect.StructOf(fs)
	default:
		if t, ok := otherKinds[k]; ok {
			return t
		}
		panic("unknown type kind " + k)
	}
}

func buildValue(d any) any {
	switch x := d.(type) {
	case string:
		switch x[0] {
		case 'n':
			return nil
		case 'b':
			return x == "b1"
		case 'i':
			n, _ := strconv.ParseInt(x[1:], 10, 64)
			return int(n)
		case 'f':
			n, _ := strconv.ParseUint(x[1:], 10, 64)
			return math.Float64frombits(n)
		case 's':
			return string(unhex(x[1:]))
		}
	case map[string]any:
		return buildBlock(x)
	}
	panic(fmt.Sprint("bad value ", d))
}

func buildBlock(d M) bcl.Block {
	b := bcl.Block{Type: str(d["t"]), Name: str(d["n"]), Fields: map[string]any{}}
	if fs, ok := d["f"].([]any); ok {
		for _, kv := range fs {
			p := kv.([]any)
			b.Fields[p[0].(string)] = buildValue(p[1])
		}
	}
	return b
}

// showGo prints a target value tree the way Suites.show_goval does.
func showGo(v reflect.Value) string {
	switch v.Kind() {
	case reflect.Int:
		if v.Type() == reflect.TypeOf(int(0)) {
			return fmt.Sprintf("i%d", v.Int())
		}
		return "o"
	case reflect.Float64:
		if math.IsNaN(v.Float()) {
			return "fNaN"
		}
		return fmt.Sprintf("f%d", math.Float64bits(v.Float()))
	case reflect.String:
		return "s" + hx([]byte(v.String()))
	case reflect.Bool:
		if v.Bool() {
			return "b1"
		}
		return "b0"
	case reflect.Interface:
		if v.IsNil() {
			return "nil"
		}
		if v.NumMethod() > 0 {
			return "nil?"
		}
		return "I" + showValue(v.Elem().Interface())
	case reflect.Pointer:
		if v.IsNil() {
			return "nilptr"
		}
		return "&" + showGo(v.Elem())
	case reflect.Slice:
		if v.Type().Elem().Kind() == reflect.Uint8 {
			return "o"
		}
		ss := make([]string, v.Len())
		for i := range ss {
			ss[i] = showGo(v.Index(i))
		}
		return "[" + strings.Join(ss, " ") + "]"
	case reflect.Struct:
		ss := make([]string, v.NumField())
		for i := range ss {
			ss[i] = showGo(v.Field(i))
		}
		return "{" + strings.Join(ss, " ") + "}"
	default:
		return "o"
	}
}

func bindErrLabel(err error) string {
	s := err.Error()
	for _, p := range [][2]string{
		{"no binding", "no-binding"}, {"bind target: expected pointer", "not-pointer"},
		{"bind target: pointer deref: expected struct", "not-struct"}, {"bind target: pointer deref: expected slice", "not-slice"},
		{"bind target: slice element deref", "elem-not-struct"}, {"unknown binding type", "unknown-binding"},
		{"mismatch: struct type", "type-name"}, {"field mapping for", "mapping"}, {"found field", "unexported"},
		{"type mismatch for the mapped field", "type-mismatch"}, {"reflect: indirection through nil pointer", "nil-embedded"},
	} {
		if strings.HasPrefix(s, p[0]) {
			if p[1] == "unexported" && strings.Contains(s, "can't be set") {
				return "cannot-set"
			}
			return p[1]
		}
	}
	switch {
	case strings.HasPrefix(s, "block ") && strings.Contains(s, "expected struct"):
		return "block-not-struct"
	case strings.HasPrefix(s, "block.") && strings.Contains(s, "is nil"):
		return "nil-value"
	case strings.HasPrefix(s, "both block."):
		return "dup-field"
	}
	return "other:" + s
}

type strangeBinding struct{ bcl.StructBinding }

// prefill stores previous content in every settable scalar of a struct value, recursively through struct fields
// (pointers, slices, interfaces stay nil): 77, 7.5, "stale", true.
func prefill(v reflect.Value) {
	switch v.Kind() {
	case reflect.Struct:
		for i := 0; i < v.NumField(); i++ {
			prefill(v.Field(i))
		}
	case reflect.Int:
		if v.CanSet() && v.Type() == reflect.TypeOf(int(0)) {
			v.SetInt(77)
		}
	case reflect.Float64:
		if v.CanSet() {
			v.SetFloat(7.5)
		}
	case reflect.String:
		if v.CanSet() {
			v.SetString("stale")
		}
	case reflect.Bool:
		if v.CanSet() {
			v.SetBool(true)
		}
	}
}

// bind: Bind(target, binding) on a target built from the type description; zero or previous contents.
func suiteBind(c M) M {
	if n, ok := c["repeat"].(float64); ok && n > 1 {
		// determinism (C16): the same call on fresh targets, many times; Go randomises map iteration per range
		delete(c, "repeat")
		seen := map[string]int{}
		var first M
		for i := 0; i < int(n); i++ {
			r := suiteBind(c)
			if first == nil {
				first = r
			}
			seen[fmt.Sprint(r["class"], "|", r["obs"], "|", r["errtext"], "|", r["after"])]++
		}
		first["distinct"] = len(seen)
		if len(seen) > 1 {
			first["outcomes"] = seen
		}
		return first
	}
	t := buildType(c["type"].(M))
	var binding bcl.Binding
	switch str(c["bkind"]) {
	case "struct":
		binding = bcl.StructBinding{Value: buildBlock(c["blocks"].([]any)[0].(M))}
	case "slice":
		var bs []bcl.Block
		for _, b := range c["blocks"].([]any) {
			bs = append(bs, buildBlock(b.(M)))
		}
		binding = bcl.SliceBinding{Value: bs}
	case "unknown":
		binding = &bcl.StructBinding{}
	}
	var target any
	var ptr reflect.Value
	switch str(c["mode"]) {
	case "nil":
		target = nil
	case "value":
		target = reflect.New(t).Elem().Interface()
	case "nilptr":
		target = reflect.Zero(reflect.PointerTo(t)).Interface()
	default:
		ptr = reflect.New(t)
		if n, ok := c["prev"].(float64); ok && t.Kind() == reflect.Slice {
			ptr.Elem().Set(reflect.MakeSlice(t, int(n), int(n)))
		}
		if c["prefill"] == true && t.Kind() == reflect.Struct {
			prefill(ptr.Elem())
		}
		target = ptr.Interface()
	}
	before := ""
	if ptr.IsValid() {
		before = showGo(ptr.Elem())
	}
	var err error
	class, pm := guard(10*time.Second, func() { err = bcl.Bind(target, binding) })
	r := M{"class": class}
	if class != "ok" {
		r["panic"] = pm
		return r
	}
	if err != nil {
		r["obs"] = "err " + bindErrLabel(err)
		r["errtext"] = err.Error()
		if ptr.IsValid() {
			r["unchanged"] = showGo(ptr.Elem()) == before
			r["after"] = showGo(ptr.Elem()) // the target after a failed Bind is part of the outcome too
		}
		return r
	}
	if ptr.IsValid() {
		r["obs"] = "ok " + showGo(ptr.Elem())
	} else {
		r["obs"] = "ok?"
	}
	return r
}

// unmarshal: bcl.Unmarshal(src, &target) for a target type description.
func suiteUnmarshal(c M) M {
	t := buildType(c["type"].(M))
	ptr := reflect.New(t)
	if n, ok := c["prev"].(float64); ok && t.Kind() == reflect.Slice {
		ptr.Elem().Set(reflect.MakeSlice(t, int(n), int(n)))
	}
	if c["prefill"] == true && t.Kind() == reflect.Struct {
		prefill(ptr.Elem())
	}
	var err error
	class, pm := guard(20*time.Second, func() {
		err = bcl.Unmarshal(unhex(str(c["src_hex"])), ptr.Interface(), bcl.OptOutput(discard{}), bcl.OptLogger(discard{}))
	})
	r := M{"class": class, "panic": pm}
	if class == "ok" {
		if err != nil {
			r["obs"] = "err " + err.Error()
		} else {
			r["obs"] = "ok " + showGo(ptr.Elem())
		}
	}
	return r
}
