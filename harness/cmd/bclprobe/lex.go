package main

import (
	"fmt"
	"regexp"
	"strconv"
	"strings"
	"time"

	"github.com/wkhere/bcl"
)

func init() {
	suites["lex"] = suiteLex
	suites["linecol"] = suiteLineCol
}

var reUnknown = regexp.MustCompile(`^unknown char U\+([0-9A-F]+)`)
var reSyntax = regexp.MustCompile("(?s)^invalid syntax `(.*)`$")
var reExpected = regexp.MustCompile(`^expected char (.+) to start token`)

// lexErrKind maps the lexer's error text to the model's error kind.
func lexErrKind(s string) string {
	if m := reUnknown.FindStringSubmatch(s); m != nil {
		n, _ := strconv.ParseInt(m[1], 16, 64)
		return fmt.Sprintf("unknown-%d", n)
	}
	if m := reSyntax.FindStringSubmatch(s); m != nil {
		return "syntax-" + hx([]byte(m[1]))
	}
	if m := reExpected.FindStringSubmatch(s); m != nil {
		r, _, _, err := strconv.UnquoteChar(m[1][1:len(m[1])-1], '\'')
		if err == nil {
			return fmt.Sprintf("expected-%d", r)
		}
		return "expected-?"
	}
	switch s {
	case "need more digits after a dot":
		return "dot"
	case "need more digits for an exponent":
		return "exp"
	case "unterminated quoted string":
		return "unterminated"
	}
	return "other:" + s
}

func showTokens(toks []bcl.VerifToken, lfs []int) string {
	ss := make([]string, len(toks))
	for i, t := range toks {
		body := hx([]byte(t.Val))
		if t.TypName == "tERR" {
			body = lexErrKind(t.Err)
		}
		ss[i] = fmt.Sprintf("%s:%s:%d", t.TypName, body, t.Pos)
	}
	return "toks=" + strings.Join(ss, ",") + " lfs=" + ints(lfs)
}

// lex: the lexer alone over the given chunks.
func suiteLex(c M) M {
	var chunks []string
	for _, h := range c["chunks"].([]any) {
		chunks = append(chunks, string(unhex(h.(string))))
	}
	var toks []bcl.VerifToken
	var lfs []int
	class, pm := guard(20*time.Second, func() { toks, lfs = bcl.VerifLex(chunks) })
	r := M{"class": class}
	if class == "ok" {
		r["obs"] = showTokens(toks, lfs)
	} else {
		r["panic"] = pm
	}
	return r
}

func suiteLineCol(c M) M {
	l, col := bcl.VerifLineCol(toInts(c["lfs"]), int(c["pos"].(float64)))
	return M{"obs": fmt.Sprintf("%d:%d", l, col)}
}
