(* Sem.v: what the README documents about values and operators, organised by the TYPES of the
   operands (not by the case order of machine.go), the falsey set, and the selection rule of the
   bind statement.  Independent of the opcode numbering and of the VM's stack discipline.

   "Number arithmetics use int or float operations depending on the values involved; if any of
    the operands is float, then the int part is transparently converted to float."
   "Strings can be concatenated with the plus. If the right side of such plus is a number, it will
    be transparently converted to string. However, the number plus string is an error."
   "asterisk: the left side must be a string and right side just an int; the result is repeating
    the string given times."
   "Equality comparisons are allowed between all types, including mixing them. Values of
    different non-number types are not equal."
   "Order comparisons are allowed between numbers and between strings, but not between mixed types."
   "falsey: false, nil, empty string, and zero." *)
From BCL Require Export Model.Value Lib.Float.
Open Scope N_scope.

Inductive bop := BAdd | BSub | BMul | BDiv | BEq | BLt | BGt.

Inductive bres :=
| RVal (v : value)
| RTypeError            (* "<OP>: invalid types: a, b" *)
| RDivZero              (* "division by int zero" *)
| RNegRepeat            (* negative repeat count *)
| RExcluded.            (* repetition result beyond 2^20 bytes: outside the property *)

Definition falsey (v : value) : bool :=
  match v with
  | VBool false => true
  | VNil => true
  | VStr [] => true
  | VInt 0 => true
  | VFloat f => f_is_zero f          (* 0.0 and -0.0 *)
  | _ => false
  end.

(* 64-bit two's complement wrap-around of Go's int *)
Definition wrap (z : Z) : Z := ((z + 2^63) mod 2^64 - 2^63)%Z.

Definition int_op (o : bop) (x y : Z) : bres :=
  match o with
  | BAdd => RVal (VInt (wrap (x + y)))
  | BSub => RVal (VInt (wrap (x - y)))
  | BMul => RVal (VInt (wrap (x * y)))
  | BDiv => if (y =? 0)%Z then RDivZero else RVal (VInt (wrap (Z.quot x y)))     (* truncated division *)
  | BEq => RVal (VBool (x =? y)%Z)
  | BLt => RVal (VBool (x <? y)%Z)
  | BGt => RVal (VBool (y <? x)%Z)
  end.

Definition float_op (o : bop) (x y : N) : bres :=
  match o with
  | BAdd => RVal (VFloat (f_add x y))
  | BSub => RVal (VFloat (f_sub x y))
  | BMul => RVal (VFloat (f_mul x y))
  | BDiv => RVal (VFloat (f_div x y))        (* IEEE: x/0.0 is an infinity or NaN, not an error *)
  | BEq => RVal (VBool (f_eq x y))
  | BLt => RVal (VBool (f_lt x y))
  | BGt => RVal (VBool (f_gt x y))
  end.

Fixpoint repeat_str (n : nat) (s : bytes) : bytes := match n with O => [] | S k => s ++ repeat_str k s end.

Definition binop (o : bop) (a b : value) : bres :=
  match a, b with
  (* numbers: int x int stays int; anything with a float is promoted *)
  | VInt x, VInt y => int_op o x y
  | VInt x, VFloat y => float_op o (f_of_int x) y
  | VFloat x, VInt y => if match o with BDiv => (y =? 0)%Z | _ => false end then RDivZero      (* the divisor is an int zero *)
                        else float_op o x (f_of_int y)
  | VFloat x, VFloat y => float_op o x y
  (* strings *)
  | VStr x, VStr y =>
    match o with
    | BAdd => RVal (VStr (x ++ y))
    | BLt => RVal (VBool (bytes_ltb x y))
    | BGt => RVal (VBool (bytes_ltb y x))
    | BEq => RVal (VBool (bytes_eqb x y))
    | _ => RTypeError
    end
  | VStr x, VInt y =>
    match o with
    | BAdd => RVal (VStr (x ++ dec_of_Z y))
    | BMul => if (y <? 0)%Z then RNegRepeat
              else if (1048576 <? Z.of_N (nlen x) * y)%Z then RExcluded
              else match x with [] => RVal (VStr []) | _ => RVal (VStr (repeat_str (Z.to_nat y) x)) end
    | BEq => RVal (VBool false)
    | _ => RTypeError
    end
  | VStr x, VFloat y =>
    match o with
    | BAdd => RVal (VStr (x ++ f_fmt_f y))
    | BEq => RVal (VBool false)
    | _ => RTypeError
    end
  | VStr x, VNil =>
    match o with BAdd => RVal (VStr x) | BEq => RVal (VBool false) | _ => RTypeError end
  (* two blocks are never comparable; everything else: equality only *)
  | VBlock _ _ _, VBlock _ _ _ => RTypeError
  | _, _ =>
    match o with
    | BEq => RVal (VBool match a, b with
                        | VNil, VNil => true
                        | VBool x, VBool y => Bool.eqb x y
                        | _, _ => false          (* different non-number types are not equal *)
                        end)
    | _ => RTypeError
    end
  end.

Inductive uop := UNeg | UPlus | UNot.
Definition unop (o : uop) (a : value) : bres :=
  match o, a with
  | UNot, _ => RVal (VBool (falsey a))
  | UNeg, VInt x => RVal (VInt (wrap (- x)))
  | UNeg, VFloat f => RVal (VFloat (f_neg f))
  | UPlus, VInt _ | UPlus, VFloat _ => RVal a
  | _, _ => RTypeError
  end.

(* Python-style short circuit: the value of `a and b` / `a or b` given the value of a and a
   (lazy) value of b *)
Definition and_val (a : value) (b : unit -> value) : value := if falsey a then a else b tt.
Definition or_val (a : value) (b : unit -> value) : value := if falsey a then b tt else a.

(* ---- bind: which of the completed toplevel blocks of the named type are selected ---- *)
Inductive selector := SelOne | SelFirst | SelLast | SelAll.
Inductive tgt := TStructTgt | TSliceTgt.
Inductive sel_res :=
| SStruct (b : value) | SSlice (l : list value)
| SNoBlocks | SNotExactlyOne (n : N) | SInvalid.     (* SInvalid: all -> struct, a compile error *)

Definition select (s : selector) (t : tgt) (blocks_of_type : list value) : sel_res :=
  match blocks_of_type with
  | [] => SNoBlocks
  | first :: _ =>
    let n := nlen blocks_of_type in
    let lst := last blocks_of_type first in
    match s, t with
    | SelOne, _ => if n =? 1 then match t with TStructTgt => SStruct first | TSliceTgt => SSlice [first] end
                   else SNotExactlyOne n
    | SelFirst, TStructTgt => SStruct first
    | SelFirst, TSliceTgt => SSlice [first]
    | SelLast, TStructTgt => SStruct lst
    | SelLast, TSliceTgt => SSlice [lst]
    | SelAll, TSliceTgt => SSlice blocks_of_type
    | SelAll, TStructTgt => SInvalid
    end
  end.
