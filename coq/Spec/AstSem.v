(* AstSem.v: big-step semantics of BCL over NAMES (no slots, no bytecode): the language definition
   side of theorem T1 ("executing the generated code = this semantics").

   - variables live in a stack of scopes (toplevel + one per open block); an identifier denotes the
     innermost variable declared EARLIER, else inside a block a field: read from the current block
     or the nearest enclosing one that has it (TYPE / NAME read the current block's type and name),
     written to the current block;
   - `var x = e` evaluates e before x exists; leaving a block drops its variables;
   - operators: Spec/Sem.v; `and`/`or` short-circuit and return an operand; evaluation is strictly
     left to right; an assignment yields the assigned value;
   - def: the finished block is stored in its parent under `type` / `type.name` (an error if that key
     exists) or appended to the result list at toplevel; bind: Spec/Sem.select over the completed
     toplevel blocks of that type, a warning if a binding already exists.
   Not part of this semantics: the implementation limits (operand stack 1024, block nesting 16), see T1. *)
From BCL Require Export Spec.Syntax Spec.Sem.
From BCL Require Import Model.Vm.      (* only for fmt_v: Go's fmt %v of a value *)
Open Scope N_scope.

Definition frame := list (bytes * value).                    (* newest first *)
Record oblock := { ob_typ : bytes; ob_name : bytes; ob_fields : list (bytes * value) }.

Record env := mkEnv {
  scopes : list frame;             (* innermost first; never empty *)
  oblocks : list oblock;           (* open blocks, innermost first *)
  results : list value;            (* completed toplevel blocks, newest first *)
  binding_ : option sel_res;       (* the current binding: SStruct / SSlice *)
  output : list bytes;             (* printed lines, newest first *)
  warnings : N
}.

Inductive rerr :=
| XTypes (op : bytes) (a b : value)          (* "<OP>: invalid types: ta, tb" *)
| XType1 (op : bytes) (a : value)            (* "NEG|UNPLUS: invalid type: t, expected number" *)
| XDivZero | XNegRepeat | XExcluded
| XUnresolved (x : bytes)
| XDupChild (k : bytes)
| XBindNone (t : bytes) | XBindCount (n : N) (t : bytes)
| XStatic.                                   (* a compile-time error: not a sentence of the language *)

Inductive res (A : Type) := ROk (a : A) | RErr (e : rerr).
Arguments ROk {A}. Arguments RErr {A}.

Fixpoint lookup_frames (x : bytes) (fs : list frame) : option value :=
  match fs with
  | [] => None
  | f :: r => match fields_get x f with Some v => Some v | None => lookup_frames x r end
  end.
Fixpoint assign_frames (x : bytes) (v : value) (fs : list frame) : option (list frame) :=
  match fs with
  | [] => None
  | f :: r => match fields_get x f with
              | Some _ => Some (fields_set x v f :: r)
              | None => match assign_frames x v r with Some r' => Some (f :: r') | None => None end
              end
  end.
Fixpoint field_find (x : bytes) (bs_ : list oblock) : option value :=
  match bs_ with
  | [] => None
  | b :: r => match fields_get x (ob_fields b) with Some v => Some v | None => field_find x r end
  end.

Definition set_scopes (e : env) (s : list frame) : env := mkEnv s (oblocks e) (results e) (binding_ e) (output e) (warnings e).
Definition set_oblocks (e : env) (b : list oblock) : env := mkEnv (scopes e) b (results e) (binding_ e) (output e) (warnings e).

Definition bop_name (o : bop) : bytes :=
  bs match o with BAdd => "ADD" | BSub => "SUB" | BMul => "MUL" | BDiv => "DIV" | BEq => "EQ" | BLt => "LT" | BGt => "GT" end.

Definition lift_binop (o : bop) (a b : value) : res value :=
  match binop o a b with
  | RVal v => ROk v
  | RTypeError => RErr (XTypes (bop_name o) a b)
  | RDivZero => RErr XDivZero
  | RNegRepeat => RErr XNegRepeat
  | RExcluded => RErr XExcluded
  end.
Definition vnot (v : value) : value := VBool (falsey v).

Definition apply_binop (o : bino) (a b : value) : res value :=
  match o with
  | OAdd => lift_binop BAdd a b | OSub => lift_binop BSub a b | OMul => lift_binop BMul a b | ODiv => lift_binop BDiv a b
  | OEq => lift_binop BEq a b
  | ONe => match lift_binop BEq a b with ROk v => ROk (vnot v) | e => e end
  | OLt => lift_binop BLt a b
  | OGt => lift_binop BGt a b
  | OLe => match lift_binop BGt a b with ROk v => ROk (vnot v) | e => e end      (* a <= b  is  not (a > b) *)
  | OGe => match lift_binop BLt a b with ROk v => ROk (vnot v) | e => e end
  end.

Fixpoint eval (e : expr) (en : env) : res value * env :=
  match e with
  | ELit v => (ROk v, en)
  | EId x =>
    match lookup_frames x (scopes en) with
    | Some v => (ROk v, en)
    | None =>
      match oblocks en with
      | [] => (RErr XStatic, en)                          (* unknown name at toplevel *)
      | b :: _ =>
        if is_lit x "TYPE" then (ROk (VStr (ob_typ b)), en)
        else if is_lit x "NAME" then (ROk (VStr (ob_name b)), en)
        else match field_find x (oblocks en) with
             | Some v => (ROk v, en)
             | None => (RErr (XUnresolved x), en)
             end
      end
    end
  | EAsg x e1 =>
    (* which of variable / field x denotes is decided before e1 is evaluated (e1 cannot declare anything) *)
    match lookup_frames x (scopes en), oblocks en with
    | None, [] => (RErr XStatic, en)
    | _, _ =>
      match eval e1 en with
      | (ROk v, en1) =>
        match assign_frames x v (scopes en1) with
        | Some s' => (ROk v, set_scopes en1 s')
        | None =>
          match oblocks en1 with
          | b :: up => (ROk v, set_oblocks en1 ({| ob_typ := ob_typ b; ob_name := ob_name b;
                                                  ob_fields := fields_set x v (ob_fields b) |} :: up))
          | [] => (RErr XStatic, en1)
          end
        end
      | other => other
      end
    end
  | EBin o a b =>
    match eval a en with
    | (ROk va, en1) =>
      match eval b en1 with
      | (ROk vb, en2) => (apply_binop o va vb, en2)
      | other => other
      end
    | other => other
    end
  | EAnd a b =>
    match eval a en with
    | (ROk va, en1) => if falsey va then (ROk va, en1) else eval b en1
    | other => other
    end
  | EOr a b =>
    match eval a en with
    | (ROk va, en1) => if falsey va then eval b en1 else (ROk va, en1)
    | other => other
    end
  | ENot a => match eval a en with (ROk v, en1) => (ROk (vnot v), en1) | other => other end
  | ENeg a =>
    match eval a en with
    | (ROk v, en1) => (match unop UNeg v with RVal r => ROk r | _ => RErr (XType1 (bs "NEG") v) end, en1)
    | other => other
    end
  | EPos a =>
    match eval a en with
    | (ROk v, en1) => (match unop UPlus v with RVal r => ROk r | _ => RErr (XType1 (bs "UNPLUS") v) end, en1)
    | other => other
    end
  end.

Definition sel_of (s : bsel) : selector := match s with BSone => SelOne | BSfirst => SelFirst | BSlast => SelLast | BSall => SelAll end.
Definition tgt_of (t : btgt) : tgt := match t with BTstruct => TStructTgt | BTslice => TSliceTgt end.

Fixpoint exec (st : stmt) (en : env) {struct st} : res unit * env :=
  match st with
  | SVar x init =>
    match scopes en with
    | cur :: outer =>
      match fields_get x cur with
      | Some _ => (RErr XStatic, en)                     (* already present in this scope *)
      | None =>
        match (match init with Some e => eval e en | None => (ROk VNil, en) end) with
        | (ROk v, en1) =>
          match scopes en1 with
          | cur1 :: outer1 => (ROk tt, set_scopes en1 (((x, v) :: cur1) :: outer1))
          | [] => (RErr XStatic, en1)
          end
        | (RErr e, en1) => (RErr e, en1)
        end
      end
    | [] => (RErr XStatic, en)
    end
  | SPrint e =>
    match eval e en with
    | (ROk v, en1) => (ROk tt, mkEnv (scopes en1) (oblocks en1) (results en1) (binding_ en1) ((fmt_v v ++ [10]) :: output en1) (warnings en1))
    | (RErr x, en1) => (RErr x, en1)
    end
  | SEval e | SExpr e => match eval e en with (ROk _, en1) => (ROk tt, en1) | (RErr x, en1) => (RErr x, en1) end
  | SDef typ name body =>
    let en0 := mkEnv ([] :: scopes en) ({| ob_typ := typ; ob_name := name; ob_fields := [] |} :: oblocks en)
                     (results en) (binding_ en) (output en) (warnings en) in
    let fix go (l : list stmt) (a : env) : res unit * env :=
      match l with
      | [] => (ROk tt, a)
      | x :: r => match exec x a with (ROk _, a1) => go r a1 | other => other end
      end in
    match go body en0 with
    | (ROk _, en1) =>
      match oblocks en1, scopes en1 with
      | b :: up, _ :: outer =>
        let blk := VBlock (ob_typ b) (ob_name b) (ob_fields b) in
        match up with
        | parent :: up' =>
          let k := block_key (ob_typ b) (ob_name b) in
          match fields_get k (ob_fields parent) with
          | Some _ => (RErr (XDupChild k), en1)
          | None => (ROk tt, mkEnv outer ({| ob_typ := ob_typ parent; ob_name := ob_name parent;
                                            ob_fields := fields_set k blk (ob_fields parent) |} :: up')
                                   (results en1) (binding_ en1) (output en1) (warnings en1))
          end
        | [] => (ROk tt, mkEnv outer [] (blk :: results en1) (binding_ en1) (output en1) (warnings en1))
        end
      | _, _ => (RErr XStatic, en1)
      end
    | other => other
    end
  | SBind typ sel tg =>
    let w := match binding_ en with Some _ => warnings en + 1 | None => warnings en end in
    let blocks := filter (fun b => match b with VBlock t _ _ => bytes_eqb t typ | _ => false end) (rev (results en)) in
    let en1 := mkEnv (scopes en) (oblocks en) (results en) (binding_ en) (output en) w in
    match select (sel_of sel) (tgt_of tg) blocks with
    | SNoBlocks => (RErr (XBindNone typ), en1)
    | SNotExactlyOne n => (RErr (XBindCount n typ), en1)
    | SInvalid => (RErr XStatic, en1)
    | r => (ROk tt, mkEnv (scopes en1) (oblocks en1) (results en1) (Some r) (output en1) w)
    end
  end.

Fixpoint exec_all (l : list stmt) (en : env) : res unit * env :=
  match l with
  | [] => (ROk tt, en)
  | x :: r => match exec x en with (ROk _, en1) => exec_all r en1 | other => other end
  end.

Definition env0 : env := mkEnv [[]] [] [] None [] 0.
Definition run_program (p : list stmt) : res unit * env := exec_all p env0.
