(* Format.v: the documented bytecode file format, version 1.1 (prog.go's format comment, the
   sqlite4 varint wiki, typecode.go), written as an encoder and an INDEPENDENT decoder straight
   from the documentation -- no bufio, no scratch buffers, no Go control flow.

     2B magic FC 6C, 1B major = 1, 1B minor = 1
     uvarint n + n bytes            program name
     uvarint n + n bytes            code
     uvarint n + n typed values     constants:  00 nil | 01 int (zig-free two's complement as uvarint)
                                                | 02 float (8 bytes IEEE-754 big endian)
                                                | 03 str (uvarint length + bytes) | 04 bool (1 byte)
     uvarint n + n uvarints         source positions, one per code byte
     uvarint n + n uvarints         line table (offsets of newlines)
   uvarint = sqlite4 varint (big endian), jump operands inside the code are 16 bit big endian. *)
From BCL Require Export Model.Value.
Open Scope N_scope.

Record file := { f_name : bytes; f_code : bytes; f_consts : list value; f_pos : list N; f_lfs : list N }.

(* big endian, k bytes *)
Fixpoint bige (k : nat) (n : N) : bytes :=
  match k with O => [] | S k' => (n / 256 ^ N.of_nat k') mod 256 :: bige k' n end.
Fixpoint unbige (l : bytes) (acc : N) : N := match l with [] => acc | b :: r => unbige r (acc * 256 + b) end.

(* sqlite4 varint, as in the wiki text *)
Definition varint (v : N) : bytes :=
  if v <=? 240 then [v]
  else if v <=? 2287 then [(v - 240) / 256 + 241; (v - 240) mod 256]
  else if v <=? 67823 then [249; (v - 2288) / 256; (v - 2288) mod 256]
  else if v <=? 16777215 then 250 :: bige 3 v
  else if v <=? 4294967295 then 251 :: bige 4 v
  else if v <=? 1099511627775 then 252 :: bige 5 v
  else if v <=? 281474976710655 then 253 :: bige 6 v
  else if v <=? 72057594037927935 then 254 :: bige 7 v
  else 255 :: bige 8 v.

Fixpoint splitn {A} (k : nat) (l : list A) : option (list A * list A) :=
  match k with
  | O => Some ([], l)
  | S k' => match l with
            | [] => None
            | x :: r => match splitn k' r with Some (a, b) => Some (x :: a, b) | None => None end
            end
  end.

Definition unvarint (l : bytes) : option (N * bytes) :=
  match l with
  | [] => None
  | a0 :: r =>
    if a0 <=? 240 then Some (a0, r)
    else if a0 <=? 248 then match r with a1 :: r' => Some (240 + 256 * (a0 - 241) + a1, r') | _ => None end
    else if a0 =? 249 then match r with a1 :: a2 :: r' => Some (2288 + 256 * a1 + a2, r') | _ => None end
    else match splitn (N.to_nat (a0 - 247)) r with
         | Some (bs_, r') => Some (unbige bs_ 0, r')
         | None => None
         end
  end.

Definition enc_value (v : value) : bytes :=
  match v with
  | VNil => [0]
  | VInt z => 1 :: varint (Z.to_N (z mod 2^64)%Z)
  | VFloat b => 2 :: bige 8 b
  | VStr s => 3 :: varint (nlen s) ++ s
  | VBool b => [4; if b then 1 else 0]
  | VBlock _ _ _ => []        (* blocks are never constants *)
  end.

Definition encode (f : file) : bytes :=
  [252; 108; 1; 1]
  ++ varint (nlen (f_name f)) ++ f_name f
  ++ varint (nlen (f_code f)) ++ f_code f
  ++ varint (nlen (f_consts f)) ++ flat_map enc_value (f_consts f)
  ++ varint (nlen (f_pos f)) ++ flat_map varint (f_pos f)
  ++ varint (nlen (f_lfs f)) ++ flat_map varint (f_lfs f).

(* ---- the independent decoder ---- *)
Definition dec_value (l : bytes) : option (value * bytes) :=
  match l with
  | 0 :: r => Some (VNil, r)
  | 1 :: r => match unvarint r with
              | Some (u, r') => Some (VInt (if u <? 2^63 then Z.of_N u else (Z.of_N u - 2^64)%Z), r')
              | None => None end
  | 2 :: r => match splitn 8 r with Some (b, r') => Some (VFloat (unbige b 0), r') | None => None end
  | 3 :: r => match unvarint r with
              | Some (n, r') => match splitn (N.to_nat n) r' with
                                | Some (s, r'') => Some (VStr s, r'') | None => None end
              | None => None end
  | 4 :: b :: r => Some (VBool (negb (b =? 0)), r)
  | _ => None
  end.

Fixpoint dec_many {A} (f : bytes -> option (A * bytes)) (n : nat) (l : bytes) : option (list A * bytes) :=
  match n with
  | O => Some ([], l)
  | S n' => match f l with
            | Some (x, r) => match dec_many f n' r with Some (xs, r') => Some (x :: xs, r') | None => None end
            | None => None
            end
  end.

Definition dec_counted {A} (f : bytes -> option (A * bytes)) (l : bytes) : option (list A * bytes) :=
  match unvarint l with Some (n, r) => dec_many f (N.to_nat n) r | None => None end.
Definition dec_blob (l : bytes) : option (bytes * bytes) :=
  match unvarint l with Some (n, r) => splitn (N.to_nat n) r | None => None end.

(* minor versions 0 and 1 of major 1 are accepted *)
Definition decode (l : bytes) : option (file * bytes) :=
  match l with
  | 252 :: 108 :: 1 :: mnr :: r0 =>
    if 1 <? mnr then None else
    match dec_blob r0 with
    | Some (name, r1) =>
      match dec_blob r1 with
      | Some (code, r2) =>
        match dec_counted dec_value r2 with
        | Some (consts, r3) =>
          match dec_counted unvarint r3 with
          | Some (pos, r4) =>
            match dec_counted unvarint r4 with
            | Some (lfs, r5) => Some ({| f_name := name; f_code := code; f_consts := consts; f_pos := pos; f_lfs := lfs |}, r5)
            | None => None end
          | None => None end
        | None => None end
      | None => None end
    | None => None end
  | _ => None
  end.
