(* Pinned.v: the tables of the documented language and of bytecode format 1.1, written down
   once (hand-maintained, NOT regenerated).  Proofs/Tie*.v prove that the tables extracted from
   the current Go source (Gen/GenTables.v) are equal to these; the model and the theorems are
   about these. *)
From Coq Require Import List NArith String.
Import ListNotations.
Open Scope string_scope.
Open Scope N_scope.

Definition token_types : list (string * N) :=
  [("tFAIL", 0);
   ("tEOF", 1);
   ("tERR", 2);
   ("tINT", 3);
   ("tFLOAT", 4);
   ("tSTR", 5);
   ("tIDENT", 6);
   ("tVAR", 7);
   ("tDEF", 8);
   ("tEVAL", 9);
   ("tPRINT", 10);
   ("tBIND", 11);
   ("tTRUE", 12);
   ("tFALSE", 13);
   ("tNIL", 14);
   ("tEQ", 15);
   ("tLCURLY", 16);
   ("tRCURLY", 17);
   ("tLPAREN", 18);
   ("tRPAREN", 19);
   ("tOR", 20);
   ("tAND", 21);
   ("tNOT", 22);
   ("tEE", 23);
   ("tBE", 24);
   ("tLT", 25);
   ("tLE", 26);
   ("tGT", 27);
   ("tGE", 28);
   ("tPLUS", 29);
   ("tMINUS", 30);
   ("tSTAR", 31);
   ("tSLASH", 32);
   ("tCOLON", 33);
   ("tARROW", 34);
   ("tSEMICOLON", 35);
   ("tMAX", 36)].

Definition opcodes : list (string * N) :=
  [("opNOP", 0);
   ("opRET", 1);
   ("opPRINT", 2);
   ("opSETLOCAL", 3);
   ("opGETLOCAL", 4);
   ("opDEFBLOCK", 5);
   ("opENDBLOCK", 6);
   ("opSETFIELD", 7);
   ("opGETFIELD", 8);
   ("opCONST", 9);
   ("opNIL", 10);
   ("opZERO", 11);
   ("opONE", 12);
   ("opTRUE", 13);
   ("opFALSE", 14);
   ("opNOT", 15);
   ("opEQ", 16);
   ("opLT", 17);
   ("opGT", 18);
   ("opADD", 19);
   ("opSUB", 20);
   ("opMUL", 21);
   ("opDIV", 22);
   ("opNEG", 23);
   ("opUNPLUS", 24);
   ("opJUMP", 25);
   ("opLOOP", 26);
   ("opJFALSE", 27);
   ("opPOP", 28);
   ("opPOPN", 29);
   ("opBIND", 30)].

Definition typecodes : list (string * N) :=
  [("typeNIL", 0);
   ("typeINT", 1);
   ("typeFLOAT", 2);
   ("typeSTR", 3);
   ("typeBOOL", 4)].

Definition bind_selectors : list (string * N) :=
  [("bindOne", 1);
   ("bindFirst", 2);
   ("bindLast", 3);
   ("bindAll", 15)].

Definition bind_targets : list (string * N) :=
  [("bindStruct", 16);
   ("bindSlice", 32)].

Definition precedences : list (string * N) :=
  [("precNone", 0);
   ("precAssign", 1);
   ("precOr", 2);
   ("precAnd", 3);
   ("precNot", 4);
   ("precEq", 5);
   ("precCmp", 6);
   ("precTerm", 7);
   ("precFactor", 8);
   ("precUnary", 9);
   ("precCall", 10);
   ("precPrimary", 11)].

Definition keywords : list (string * string) :=
  [("and", "tAND");
   ("bind", "tBIND");
   ("def", "tDEF");
   ("eval", "tEVAL");
   ("false", "tFALSE");
   ("nil", "tNIL");
   ("not", "tNOT");
   ("or", "tOR");
   ("print", "tPRINT");
   ("true", "tTRUE");
   ("var", "tVAR")].

Definition two_rune : list (N * (N * string)) :=
  [(33, (61, "tBE")); (45, (62, "tARROW")); (60, (61, "tLE")); (61, (61, "tEE")); (62, (61, "tGE"))].

Definition one_rune : list (N * string) :=
  [(40, "tLPAREN"); (41, "tRPAREN"); (42, "tSTAR"); (43, "tPLUS"); (45, "tMINUS"); (47, "tSLASH"); (58, "tCOLON"); (59, "tSEMICOLON"); (60, "tLT"); (61, "tEQ"); (62, "tGT"); (123, "tLCURLY"); (125, "tRCURLY")].

Definition space_runes : list N := [9; 10; 11; 12; 13; 32; 133; 160].
Definition eol_runes : list N := [10; 13].
Definition digits : string := "0123456789".
Definition hexdigits : string := "0123456789abcdefABCDEF".

Definition rules : list (string * (string * string * string)) :=
  [("tFAIL", ("nil", "nil", "precNone"));
   ("tEOF", ("nil", "nil", "precNone"));
   ("tERR", ("nil", "nil", "precNone"));
   ("tINT", ("intLit", "nil", "precNone"));
   ("tFLOAT", ("floatLit", "nil", "precNone"));
   ("tSTR", ("stringLit", "nil", "precNone"));
   ("tIDENT", ("identRef", "nil", "precNone"));
   ("tVAR", ("nil", "nil", "precNone"));
   ("tDEF", ("nil", "nil", "precNone"));
   ("tEVAL", ("nil", "nil", "precNone"));
   ("tPRINT", ("nil", "nil", "precNone"));
   ("tBIND", ("nil", "nil", "precNone"));
   ("tTRUE", ("boolLit", "nil", "precNone"));
   ("tFALSE", ("boolLit", "nil", "precNone"));
   ("tNIL", ("nilLit", "nil", "precNone"));
   ("tEQ", ("nil", "nil", "precNone"));
   ("tLCURLY", ("nil", "nil", "precNone"));
   ("tRCURLY", ("nil", "nil", "precNone"));
   ("tLPAREN", ("parens", "nil", "precNone"));
   ("tRPAREN", ("nil", "nil", "precNone"));
   ("tOR", ("nil", "boolOr", "precOr"));
   ("tAND", ("nil", "boolAnd", "precAnd"));
   ("tNOT", ("boolNot", "nil", "precNone"));
   ("tEE", ("nil", "binary", "precEq"));
   ("tBE", ("nil", "binary", "precEq"));
   ("tLT", ("nil", "binary", "precCmp"));
   ("tLE", ("nil", "binary", "precCmp"));
   ("tGT", ("nil", "binary", "precCmp"));
   ("tGE", ("nil", "binary", "precCmp"));
   ("tPLUS", ("unary", "binary", "precTerm"));
   ("tMINUS", ("unary", "binary", "precTerm"));
   ("tSTAR", ("nil", "binary", "precFactor"));
   ("tSLASH", ("nil", "binary", "precFactor"));
   ("tCOLON", ("nil", "nil", "precNone"));
   ("tARROW", ("nil", "nil", "precNone"));
   ("tSEMICOLON", ("nil", "nil", "precNone"))].

Definition binary_ops : list (string * list string) :=
  [("tBE", ["opEQ"; "opNOT"]);
   ("tEE", ["opEQ"]);
   ("tGE", ["opLT"; "opNOT"]);
   ("tGT", ["opGT"]);
   ("tLE", ["opGT"; "opNOT"]);
   ("tLT", ["opLT"]);
   ("tMINUS", ["opSUB"]);
   ("tPLUS", ["opADD"]);
   ("tSLASH", ["opDIV"]);
   ("tSTAR", ["opMUL"])].

Definition unary_ops : list (string * list string) :=
  [("tMINUS", ["opNEG"]);
   ("tPLUS", ["opUNPLUS"])].

Definition sync_tokens : list string := ["tDEF"; "tEVAL"; "tPRINT"; "tVAR"].

Definition disasm_classes : list (string * string) :=
  [("opADD", "simpleInstr");
   ("opBIND", "bindInstr");
   ("opCONST", "constInstr");
   ("opDEFBLOCK", "blockInstr");
   ("opDIV", "simpleInstr");
   ("opENDBLOCK", "simpleInstr");
   ("opEQ", "simpleInstr");
   ("opFALSE", "simpleInstr");
   ("opGETFIELD", "constInstr");
   ("opGETLOCAL", "varbyteargInstr");
   ("opGT", "simpleInstr");
   ("opJFALSE", "jumpInstr");
   ("opJUMP", "jumpInstr");
   ("opLOOP", "jumpInstr-");
   ("opLT", "simpleInstr");
   ("opMUL", "simpleInstr");
   ("opNEG", "simpleInstr");
   ("opNIL", "simpleInstr");
   ("opNOP", "simpleInstr");
   ("opNOT", "simpleInstr");
   ("opONE", "simpleInstr");
   ("opPOP", "simpleInstr");
   ("opPOPN", "varbyteargInstr");
   ("opPRINT", "simpleInstr");
   ("opRET", "simpleInstr");
   ("opSETFIELD", "constInstr");
   ("opSETLOCAL", "varbyteargInstr");
   ("opSUB", "simpleInstr");
   ("opTRUE", "simpleInstr");
   ("opUNPLUS", "simpleInstr");
   ("opZERO", "simpleInstr")].

Definition pushing_ops : list string := ["opCONST"; "opFALSE"; "opGETFIELD"; "opGETLOCAL"; "opNIL"; "opONE"; "opTRUE"; "opZERO"].

Definition constants : list (string * N) :=
  [("stackSize", 1024); ("blockStackSize", 16); ("localsMaxSize", 1024); ("jumpByteLength", 2); ("bytecodeMajor", 1); ("bytecodeMinor", 1); ("tokensBufSize", 10); ("lineComment", 35)].
Definition magic : list N := [252; 108].
Definition buffer_sizes : list (string * N) :=
  [("Dump.NewWriterSize", 4096); ("Dump.array", 96); ("Load.NewReaderSize", 4096); ("Load.array", 2); ("ParseFile.array", 4096)].

Definition globals_written_after_init : list (string * bool) :=
  [("_opcode_index", false); ("_tokenType_index", false); ("_typecode_index", false); ("blockType", false); ("keywords", false); ("oneRuneTokens", false); ("rules", false); ("twoRuneTokens", false)].

(* assignments through a Prog in machine.go, oplogic.go, disasm.go and Execute/printXStats of api.go: none
   ("executing a Prog does not alter it", C16; "one Prog may be executed concurrently", C12) *)
Definition prog_writes_in_execution : list (string * string) := [].

(* the synchronisation skeleton of the library (channel operations, goroutine starts, deferred calls, mutex operations, per
   function, in source order): Model/Proto.v is the transition system of these operations -- reader = ParseFile/func1,
   parser side = ParseFile/func2 + nextToken, lexer = newLexer's goroutine (run, emit, emitError, next), line table mutex =
   add / lineColAt, caller = ParseFile *)
Definition sync_skeleton : list (string * string) :=
  [("Parse", "send c");
   ("Parse", "close c");
   ("ParseFile", "go");
   ("ParseFile/func1", "defer f.Close");
   ("ParseFile/func1", "send rerr");
   ("ParseFile/func1", "send rerr");
   ("ParseFile/func1", "select");
   ("ParseFile/func1", "send inpc");
   ("ParseFile/func1", "recv done");
   ("ParseFile/func1", "send rerr");
   ("ParseFile/func1", "close inpc");
   ("ParseFile", "go");
   ("ParseFile/func2", "close done");
   ("ParseFile/func2", "send perr");
   ("ParseFile", "recv rerr");
   ("ParseFile", "recv perr");
   ("newLexer", "go");
   ("nextToken", "recv l.tokens");
   ("run", "close l.tokens");
   ("emit", "send l.tokens");
   ("emitError", "send l.tokens");
   ("next", "recv l.inputs");
   ("add", "lock lc.mu");
   ("add", "defer lc.mu.Unlock");
   ("lineColAt", "lock lc.mu");
   ("lineColAt", "defer lc.mu.Unlock");
   ("blockStmt", "defer p.endBlock");
   ("blockStmt", "defer p.endScope")].
