(* Syntax.v: abstract syntax of BCL and the grammar as an executable recogniser that builds the AST.

   This is the language definition side of theorem T2 ("the one-pass Pratt parser of parse.go =
   this grammar ; the code generator of Model/Compile.v").  It knows nothing about bytecode,
   jump patching, panic mode or error recovery: `ast_program` either returns the tree of a
   sentence or None.

   Expression grammar (README + the precedence ladder of parse.go:261-322), lowest to highest:
     assignment  x = e          only where an expression may START: statement level, after '(',
                                and on the right of another assignment; right associative
     or          a or b         the parser nests these to the right (semantically associative)
     and         a and b
     not         not a          operand extends over ==, <, +, * ... but not over and/or
     equality    == !=          left associative
     ordering    < <= > >=      left associative
     additive    + -            left associative
     multiplic.  * /            left associative
     unary       - +            operand is a unary or primary expression
     primary     literal | identifier | ( e )
   Statements: var x [= e] | def T ["name"] { item* } | eval e | print e | bind T[:sel] -> tgt,
   inside a block additionally a bare expression; each optionally followed by one ';'. *)
From BCL Require Export Model.Lexer Lib.Strconv Model.Value.
Open Scope N_scope.

Inductive bino := OAdd | OSub | OMul | ODiv | OEq | ONe | OLt | OLe | OGt | OGe.

Inductive expr :=
| ELit (v : value)                 (* int, float, string literal (converted), true, false, nil *)
| EId (x : bytes)                  (* variable or field reference *)
| EAsg (x : bytes) (e : expr)
| EBin (o : bino) (a b : expr)
| EAnd (a b : expr) | EOr (a b : expr)
| ENot (a : expr) | ENeg (a : expr) | EPos (a : expr).

Inductive bsel := BSone | BSfirst | BSlast | BSall.
Inductive btgt := BTstruct | BTslice.

Inductive stmt :=
| SVar (x : bytes) (init : option expr)
| SEval (e : expr)
| SPrint (e : expr)
| SExpr (e : expr)                                   (* bare expression, blocks only *)
| SDef (typ name : bytes) (body : list stmt)
| SBind (typ : bytes) (sel : bsel) (tgt : btgt).

(* binding powers as in the ladder above *)
Definition lvl_assign := 1%nat.  Definition lvl_or := 2%nat.  Definition lvl_and := 3%nat.
Definition lvl_not := 4%nat.  Definition lvl_eq := 5%nat.  Definition lvl_cmp := 6%nat.
Definition lvl_term := 7%nat.  Definition lvl_factor := 8%nat.  Definition lvl_unary := 9%nat.

Definition binop_of (t : tok) : option (bino * nat) :=
  match t with
  | tEE => Some (OEq, lvl_eq) | tBE => Some (ONe, lvl_eq)
  | tLT => Some (OLt, lvl_cmp) | tLE => Some (OLe, lvl_cmp) | tGT => Some (OGt, lvl_cmp) | tGE => Some (OGe, lvl_cmp)
  | tPLUS => Some (OAdd, lvl_term) | tMINUS => Some (OSub, lvl_term)
  | tSTAR => Some (OMul, lvl_factor) | tSLASH => Some (ODiv, lvl_factor)
  | _ => None
  end.

(* binding power of a token in infix position (0 = not an infix operator) *)
Definition infix_lvl (t : tok) : nat :=
  match t with
  | tOR => lvl_or | tAND => lvl_and
  | _ => match binop_of t with Some (_, l) => l | None => 0%nat end
  end.

Definition hd_typ (ts : list token) : tok := match ts with t :: _ => ttyp t | [] => tEOF end.

(* expressions at level q: Some (tree, rest) | None *)
Fixpoint pexpr (fuel : nat) (q : nat) (ts : list token) {struct fuel} : option (expr * list token) :=
  match fuel with
  | O => None
  | S f =>
    let can_assign := (q <=? lvl_assign)%nat in
    let pre :=
      match ts with
      | [] => None
      | t :: r =>
        match ttyp t with
        | tINT => match parse_int (tval t) with inr z => Some (ELit (VInt z), r) | inl _ => None end
        | tFLOAT => match parse_float (tval t) with inr b => Some (ELit (VFloat b), r) | inl _ => None end
        | tSTR => match unquote (tval t) with Some s => Some (ELit (VStr s), r) | None => None end
        | tTRUE => Some (ELit (VBool true), r)
        | tFALSE => Some (ELit (VBool false), r)
        | tNIL => Some (ELit VNil, r)
        | tIDENT =>
          if can_assign && tok_eqb (hd_typ r) tEQ then
            match pexpr f lvl_assign (tl r) with
            | Some (e, r') => Some (EAsg (tval t) e, r')
            | None => None
            end
          else Some (EId (tval t), r)
        | tLPAREN =>
          match pexpr f lvl_assign r with
          | Some (e, r') => match r' with
                            | c :: r'' => if tok_eqb (ttyp c) tRPAREN then Some (e, r'') else None
                            | [] => None end
          | None => None
          end
        | tMINUS => match pexpr f lvl_unary r with Some (e, r') => Some (ENeg e, r') | None => None end
        | tPLUS => match pexpr f lvl_unary r with Some (e, r') => Some (EPos e, r') | None => None end
        | tNOT => match pexpr f lvl_not r with Some (e, r') => Some (ENot e, r') | None => None end
        | _ => None
        end
      end in
    match pre with
    | None => None
    | Some (e0, r0) =>
      match ploop f q e0 r0 with
      | Some (e, r) => if can_assign && tok_eqb (hd_typ r) tEQ then None   (* "invalid assignment target" *)
                       else Some (e, r)
      | None => None
      end
    end
  end
with ploop (fuel : nat) (q : nat) (lhs : expr) (ts : list token) {struct fuel} : option (expr * list token) :=
  match fuel with
  | O => None
  | S f =>
    let t := hd_typ ts in
    if (0 <? infix_lvl t)%nat && (q <=? infix_lvl t)%nat then
      match t with
      | tAND => match pexpr f lvl_and (tl ts) with
                | Some (rhs, r) => ploop f q (EAnd lhs rhs) r | None => None end
      | tOR => match pexpr f lvl_or (tl ts) with
               | Some (rhs, r) => ploop f q (EOr lhs rhs) r | None => None end
      | _ => match binop_of t with
             | Some (o, l) => match pexpr f (S l) (tl ts) with
                              | Some (rhs, r) => ploop f q (EBin o lhs rhs) r | None => None end
             | None => None
             end
      end
    else Some (lhs, ts)
  end.

Definition skip_semi (ts : list token) : list token :=
  match ts with t :: r => if tok_eqb (ttyp t) tSEMICOLON then r else ts | [] => [] end.

Definition pbind (ts : list token) : option (stmt * list token) :=
  match ts with
  | ty :: r =>
    if negb (tok_eqb (ttyp ty) tIDENT) then None else
    let '(sel, r1) :=
      match r with
      | c :: s :: r' =>
        if tok_eqb (ttyp c) tCOLON then
          if tok_eqb (ttyp s) tINT then (if bytes_eqb (tval s) [49] then Some BSone else None, r')
          else if tok_eqb (ttyp s) tIDENT then
            ((if is_lit (tval s) "first" then Some BSfirst else if is_lit (tval s) "last" then Some BSlast
              else if is_lit (tval s) "all" then Some BSall else None), r')
          else (None, r')
        else (Some BSone, r)
      | _ => (Some BSone, r)
      end in
    match sel, r1 with
    | Some sl, a :: tg :: r2 =>
      if tok_eqb (ttyp a) tARROW && tok_eqb (ttyp tg) tIDENT then
        let tgo := if is_lit (tval tg) "struct" then Some BTstruct else if is_lit (tval tg) "slice" then Some BTslice else None in
        match tgo with
        | Some BTstruct => match sl with BSall => None | _ => Some (SBind (tval ty) sl BTstruct, r2) end
        | Some BTslice => Some (SBind (tval ty) sl BTslice, r2)
        | None => None
        end
      else None
    | _, _ => None
    end
  | [] => None
  end.

(* statements; in_block selects whether a bare expression is a statement *)
Fixpoint pstmt (fuel : nat) (in_block : bool) (ts : list token) {struct fuel} : option (stmt * list token) :=
  match fuel with
  | O => None
  | S f =>
    match ts with
    | [] => None
    | t :: r =>
      match ttyp t with
      | tVAR =>
        match r with
        | x :: r1 =>
          if tok_eqb (ttyp x) tIDENT then
            if tok_eqb (hd_typ r1) tEQ then
              match pexpr f lvl_assign (tl r1) with
              | Some (e, r2) => Some (SVar (tval x) (Some e), r2) | None => None end
            else Some (SVar (tval x) None, r1)
          else None
        | [] => None
        end
      | tPRINT => match pexpr f lvl_assign r with Some (e, r1) => Some (SPrint e, r1) | None => None end
      | tEVAL => match pexpr f lvl_assign r with Some (e, r1) => Some (SEval e, r1) | None => None end
      | tBIND => pbind r
      | tDEF =>
        match r with
        | ty :: r1 =>
          if negb (tok_eqb (ttyp ty) tIDENT) then None else
          let '(nm, r2) :=
            match r1 with
            | s :: r' => if tok_eqb (ttyp s) tSTR then (unquote (tval s), r') else (Some [], r1)
            | [] => (Some [], r1)
            end in
          match nm, r2 with
          | Some name, l :: r3 =>
            if tok_eqb (ttyp l) tLCURLY then
              match pitems f r3 with
              | Some (body, r4) =>
                match r4 with
                | c :: r5 => if tok_eqb (ttyp c) tRCURLY then Some (SDef (tval ty) name body, r5) else None
                | [] => None
                end
              | None => None
              end
            else None
          | _, _ => None
          end
        | [] => None
        end
      | _ => if in_block then
               match pexpr f lvl_assign ts with Some (e, r1) => Some (SExpr e, r1) | None => None end
             else None
      end
    end
  end
with pitems (fuel : nat) (ts : list token) {struct fuel} : option (list stmt * list token) :=
  match fuel with
  | O => None
  | S f =>
    match hd_typ ts with
    | tRCURLY | tEOF | tFAIL => Some ([], ts)
    | _ => match pstmt f true ts with
           | Some (s, r) => match pitems f (skip_semi r) with
                            | Some (ss, r') => Some (s :: ss, r') | None => None end
           | None => None
           end
    end
  end.

Fixpoint ptop (fuel : nat) (ts : list token) : option (list stmt) :=
  match fuel with
  | O => None
  | S f =>
    match ts with
    | [t] => if tok_eqb (ttyp t) tEOF then Some [] else None
    | [] => None
    | _ => match pstmt f false ts with
           | Some (s, r) => match ptop f (skip_semi r) with Some ss => Some (s :: ss) | None => None end
           | None => None
           end
    end
  end.

(* the tree of a token list (which must end in tEOF), or None if it is not a sentence *)
Definition ast_program (ts : list token) : option (list stmt) := ptop (4 * length ts + 8) ts.
