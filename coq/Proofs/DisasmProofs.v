(* DisasmProofs.v: the disassembler (Model/Api.v disasm / disasm_instr, Go: disasm.go) on verified code (C19).

   1. disasm_total      verify p = true  ->  disasm p = Some _ : no panic site of the disassembler is reachable
   2. disasm_tiles      one line per instruction boundary of the verifier's table, in order, each line starting
                        with the %04d offset of its instruction followed by a blank; the offsets start at 0, are
                        strictly increasing, consecutive ones differ by the encoded length of the instruction,
                        and the last instruction (RET) ends at the end of the code; every pc of every run of the
                        VM is one of the offsets
   3. source level      every accepted source below 2^56 bytes: disasm answers, tiles, and interpret never
                        emits the disasm-panic marker
   4. trace hook        every instruction line emitted by the trace hook is the disassembler's line of an
                        instruction boundary *)
From RecordUpdate Require Import RecordSet.
From Coq Require Import Lia ZifyN ZifyNat ZifyBool List Bool Sorted.
From BCL Require Import Model.Api Model.Verify Proofs.OptionsProofs Proofs.VerifyProofs Proofs.VerifyFrag
  Proofs.Limits Proofs.C05Tokens Proofs.SizeBounds.
Import RecordSetNotations ListNotations.
Open Scope N_scope.

(* ---------------------------------------------------------------------------------------- *)
(* 0. the classes of the opcodes                                                             *)
(* ---------------------------------------------------------------------------------------- *)
Lemma dc_NOP : disasm_class opNOP = DSimple.         Proof. reflexivity. Qed.
Lemma dc_RET : disasm_class opRET = DSimple.         Proof. reflexivity. Qed.
Lemma dc_PRINT : disasm_class opPRINT = DSimple.     Proof. reflexivity. Qed.
Lemma dc_SETLOCAL : disasm_class opSETLOCAL = DVarbyte. Proof. reflexivity. Qed.
Lemma dc_GETLOCAL : disasm_class opGETLOCAL = DVarbyte. Proof. reflexivity. Qed.
Lemma dc_DEFBLOCK : disasm_class opDEFBLOCK = DBlock.   Proof. reflexivity. Qed.
Lemma dc_ENDBLOCK : disasm_class opENDBLOCK = DSimple.  Proof. reflexivity. Qed.
Lemma dc_SETFIELD : disasm_class opSETFIELD = DConst.   Proof. reflexivity. Qed.
Lemma dc_GETFIELD : disasm_class opGETFIELD = DConst.   Proof. reflexivity. Qed.
Lemma dc_CONST : disasm_class opCONST = DConst.      Proof. reflexivity. Qed.
Lemma dc_NIL : disasm_class opNIL = DSimple.         Proof. reflexivity. Qed.
Lemma dc_ZERO : disasm_class opZERO = DSimple.       Proof. reflexivity. Qed.
Lemma dc_ONE : disasm_class opONE = DSimple.         Proof. reflexivity. Qed.
Lemma dc_TRUE : disasm_class opTRUE = DSimple.       Proof. reflexivity. Qed.
Lemma dc_FALSE : disasm_class opFALSE = DSimple.     Proof. reflexivity. Qed.
Lemma dc_NOT : disasm_class opNOT = DSimple.         Proof. reflexivity. Qed.
Lemma dc_EQ : disasm_class opEQ = DSimple.           Proof. reflexivity. Qed.
Lemma dc_LT : disasm_class opLT = DSimple.           Proof. reflexivity. Qed.
Lemma dc_GT : disasm_class opGT = DSimple.           Proof. reflexivity. Qed.
Lemma dc_ADD : disasm_class opADD = DSimple.         Proof. reflexivity. Qed.
Lemma dc_SUB : disasm_class opSUB = DSimple.         Proof. reflexivity. Qed.
Lemma dc_MUL : disasm_class opMUL = DSimple.         Proof. reflexivity. Qed.
Lemma dc_DIV : disasm_class opDIV = DSimple.         Proof. reflexivity. Qed.
Lemma dc_NEG : disasm_class opNEG = DSimple.         Proof. reflexivity. Qed.
Lemma dc_UNPLUS : disasm_class opUNPLUS = DSimple.   Proof. reflexivity. Qed.
Lemma dc_JUMP : disasm_class opJUMP = DJump true.    Proof. reflexivity. Qed.
Lemma dc_LOOP : disasm_class opLOOP = DJump false.   Proof. reflexivity. Qed.
Lemma dc_JFALSE : disasm_class opJFALSE = DJump true. Proof. reflexivity. Qed.
Lemma dc_POP : disasm_class opPOP = DSimple.         Proof. reflexivity. Qed.
Lemma dc_POPN : disasm_class opPOPN = DVarbyte.      Proof. reflexivity. Qed.
Lemma dc_BIND : disasm_class opBIND = DBind.         Proof. reflexivity. Qed.

(* ---------------------------------------------------------------------------------------- *)
(* 1. the encoded length of an instruction, by the operand layout of the VM                  *)
(* ---------------------------------------------------------------------------------------- *)
(* opcode; then: nothing | one uvarint | two uvarints | a uvarint and a byte | two bytes.
   None: the code ends inside the instruction.  Unknown opcodes have length 1. *)
Definition instr_len (r : bytes) : option N :=
  match r with
  | [] => None
  | instr :: args =>
    match disasm_class instr with
    | DSimple | DUnknown => Some 1
    | DConst | DVarbyte => match uv_dec args with Some (_, n) => Some (1 + N.of_nat n) | None => None end
    | DBlock =>
      match uv_dec args with
      | Some (_, n1) => match uv_dec (skipn n1 args) with
                        | Some (_, n2) => Some (1 + N.of_nat n1 + N.of_nat n2)
                        | None => None end
      | None => None end
    | DJump _ => match args with _ :: _ :: _ => Some 3 | _ => None end
    | DBind =>
      match uv_dec args with
      | Some (_, n) => match nth_opt args n with Some _ => Some (1 + N.of_nat n + 1) | None => None end
      | None => None end
    end
  end.

(* the line of the instruction at offset o: the offset as %04d, a blank, the rest *)
Definition starts_at (o : N) (line : bytes) : Prop := exists rest, line = d04 o ++ bs " " ++ rest.

Ltac fin_di H :=
  inversion H; subst; split; [eexists; rewrite <- !app_assoc; reflexivity | eexists; split; [reflexivity | lia]].

(* whenever disasm_instr answers: the line starts with the offset, the next offset is o + length *)
Lemma disasm_instr_some p o r line next :
  disasm_instr p o r = Some (line, next) ->
  starts_at o line /\ exists sz, instr_len r = Some sz /\ next = o + sz.
Proof.
  unfold disasm_instr, instr_len, starts_at. destruct r as [|instr args]; [discriminate|]. cbv zeta.
  set (head2 := if (0 <? o) && _ then _ else _).
  intros H. destruct (disasm_class instr) as [| | | |fwd| |].
  - fin_di H.
  - destruct (uv_dec args) as [[idx n]|]; [|discriminate]. destruct (get_const p idx); [|discriminate].
    fin_di H.
  - destruct (uv_dec args) as [[idx n]|]; [|discriminate].
    fin_di H.
  - destruct (uv_dec args) as [[ti n1]|]; [|discriminate]. destruct (uv_dec (skipn n1 args)) as [[ni n2]|]; [|discriminate].
    destruct (get_const p ti); [|discriminate]. destruct (get_const p ni); [|discriminate].
    fin_di H.
  - destruct args as [|b0 [|b1 r]]; try discriminate.
    fin_di H.
  - destruct (uv_dec args) as [[idx n]|]; [|discriminate]. destruct (get_const p idx); [|discriminate].
    destruct (nth_opt args n); [|discriminate].
    fin_di H.
  - fin_di H.
Qed.

(* ---------------------------------------------------------------------------------------- *)
(* 2. what the verifier accepts, the disassembler prints                                     *)
(* ---------------------------------------------------------------------------------------- *)
Ltac use_consts :=
  repeat match goal with
         | C : const_ok ?p ?i = true |- _ =>
           unfold const_ok in C; destruct (get_const p i) eqn:?; [clear C|discriminate C]
         | C : const_is_str ?p ?i = true |- _ => apply const_str in C; destruct C as [? C]
         end.
Ltac di_go :=
  use_consts; unfold disasm_instr; cbv zeta;
  rewrite ?dc_NOP, ?dc_PRINT, ?dc_SETLOCAL, ?dc_GETLOCAL, ?dc_DEFBLOCK, ?dc_ENDBLOCK, ?dc_SETFIELD, ?dc_GETFIELD,
    ?dc_CONST, ?dc_NIL, ?dc_ZERO, ?dc_ONE, ?dc_TRUE, ?dc_FALSE, ?dc_NOT, ?dc_EQ, ?dc_LT, ?dc_GT, ?dc_ADD, ?dc_SUB,
    ?dc_MUL, ?dc_DIV, ?dc_NEG, ?dc_UNPLUS, ?dc_JUMP, ?dc_JFALSE, ?dc_POP, ?dc_POPN, ?dc_BIND;
  repeat match goal with
         | U : uv_dec ?a = Some _ |- context [uv_dec ?a] => rewrite U
         | U : get_const ?p ?i = Some _ |- context [get_const ?p ?i] => rewrite U
         | U : nth_opt ?a ?n = Some _ |- context [nth_opt ?a ?n] => rewrite U
         end;
  eexists; apply f_equal; apply f_equal2; [reflexivity|lia].

Lemma vstep_disasm p o r d b size next newp :
  vstep p o r d b = Some (size, next, newp) ->
  exists line, disasm_instr p o r = Some (line, o + size).
Proof.
  intros Hv. unfold vstep in Hv. destruct r as [|instr args]; [discriminate|]. cbv zeta in Hv.
  next_test Hv E. { split_or E; subst instr; inv_some Hv; subst size next newp; di_go. }
  clear E. next_test Hv E. { apply N.eqb_eq in E; subst instr; inv_some Hv; subst size next newp; di_go. }
  clear E. next_test Hv E. { split_or E; subst instr; inv_some Hv; subst size next newp; di_go. }
  clear E. next_test Hv E. { split_or E; subst instr; inv_some Hv; subst size next newp; di_go. }
  clear E. next_test Hv E. { split_or E; subst instr; inv_some Hv; subst size next newp; di_go. }
  clear E. next_test Hv E. { apply N.eqb_eq in E; subst instr; inv_some Hv; subst size next newp; di_go. }
  clear E. next_test Hv E. { apply N.eqb_eq in E; subst instr; inv_some Hv; subst size next newp; di_go. }
  clear E. next_test Hv E. { apply N.eqb_eq in E; subst instr; inv_some Hv; subst size next newp; di_go. }
  clear E. next_test Hv E. { apply N.eqb_eq in E; subst instr; inv_some Hv; subst size next newp; conds; di_go. }
  clear E. next_test Hv E. { apply N.eqb_eq in E; subst instr; inv_some Hv; subst size next newp; conds; di_go. }
  clear E. next_test Hv E. { apply N.eqb_eq in E; subst instr; inv_some Hv; subst size next newp; conds; di_go. }
  clear E. next_test Hv E. { apply N.eqb_eq in E; subst instr; inv_some Hv; subst size next newp; di_go. }
  clear E. next_test Hv E. { apply N.eqb_eq in E; subst instr; inv_some Hv; subst size next newp; di_go. }
  clear E. next_test Hv E.
  { apply N.eqb_eq in E; subst instr. destruct args as [|b0 [|b1 r]]; try discriminate Hv.
    inv_some Hv; subst size next newp; di_go. }
  clear E. next_test Hv E.
  { apply N.eqb_eq in E; subst instr. destruct args as [|b0 [|b1 r]]; try discriminate Hv.
    inv_some Hv; subst size next newp; di_go. }
  clear E. next_test Hv E; [|discriminate Hv].
  apply N.eqb_eq in E; subst instr; inv_some Hv; subst size next newp; di_go.
Qed.

Lemma disasm_ret p o args : exists line, disasm_instr p o (opRET :: args) = Some (line, o + 1).
Proof. unfold disasm_instr. cbv zeta. rewrite dc_RET. eexists. reflexivity. Qed.

Lemma vstep_len p o r d b size next newp :
  vstep p o r d b = Some (size, next, newp) -> instr_len r = Some size.
Proof.
  intros Hv. destruct (vstep_disasm _ _ _ _ _ _ _ _ Hv) as [line H].
  apply disasm_instr_some in H. destruct H as [_ (sz & H1 & H2)]. rewrite H1. f_equal. lia.
Qed.

Lemma ret_len args : instr_len (opRET :: args) = Some 1.
Proof. unfold instr_len. rewrite dc_RET. reflexivity. Qed.

Lemma instr_len_pos r sz : instr_len r = Some sz -> 1 <= sz.
Proof.
  unfold instr_len. destruct r as [|instr args]; [discriminate|]. intros H.
  assert (G : match instr_len (instr :: args) with Some s => 1 <= s | None => True end).
  { unfold instr_len. cascade; try exact I; lia. }
  unfold instr_len in G. rewrite H in G. exact G.
Qed.

(* ---------------------------------------------------------------------------------------- *)
(* 3. the instruction boundaries of a code, by decoding lengths (no verifier involved)        *)
(* ---------------------------------------------------------------------------------------- *)
Fixpoint offsets_from (fuel : nat) (o : N) (r : bytes) : option (list N) :=
  match r with
  | [] => Some []
  | _ =>
    match fuel with
    | O => None
    | S f =>
      match instr_len r with
      | Some sz => match offsets_from f (o + sz) (skipn (N.to_nat sz) r) with
                   | Some l => Some (o :: l)
                   | None => None end
      | None => None end
    end
  end.
(* None: the code ends inside an instruction *)
Definition code_offsets (p : prog) : option (list N) := offsets_from (S (length (g_code p))) 0 (g_code p).

Lemma offsets_from_cons f o x r :
  offsets_from (S f) o (x :: r) =
  match instr_len (x :: r) with
  | Some sz => match offsets_from f (o + sz) (skipn (N.to_nat sz) (x :: r)) with
               | Some l => Some (o :: l)
               | None => None end
  | None => None end.
Proof. reflexivity. Qed.

Lemma disasm_loop_cons f p o x r acc :
  disasm_loop (S f) p o (x :: r) acc =
  match disasm_instr p o (x :: r) with
  | Some (line, next) => disasm_loop f p next (skipn (N.to_nat (next - o)) (x :: r)) (line :: acc)
  | None => None
  end.
Proof. reflexivity. Qed.

Lemma disasm_loop_nil f p o acc : disasm_loop f p o [] acc = Some (frev acc).
Proof. destruct f; reflexivity. Qed.

Lemma frev_cons {A} (x : A) l : frev (x :: l) = frev l ++ [x].
Proof. rewrite !frev_eq. reflexivity. Qed.

(* l is the disassembler's line for the instruction at offset o of p *)
Definition is_line (p : prog) (o : N) (l : bytes) : Prop :=
  exists next, disasm_instr p o (code_at p o) = Some (l, next).

Lemma is_line_starts p o l : is_line p o l -> starts_at o l.
Proof. intros [next H]. apply disasm_instr_some in H. exact (proj1 H). Qed.

Lemma is_line_fun p o l1 l2 : is_line p o l1 -> is_line p o l2 -> l1 = l2.
Proof. intros [n1 H1] [n2 H2]. rewrite H1 in H2. inversion H2. reflexivity. Qed.

Lemma Forall2_imp {A B} (R R' : A -> B -> Prop) l1 l2 :
  (forall a b, R a b -> R' a b) -> Forall2 R l1 l2 -> Forall2 R' l1 l2.
Proof. intros H. induction 1; constructor; auto. Qed.

(* the verifier's walk and the disassembler's loop visit the same offsets *)
Lemma lwalk_disasm : forall fuel p o r cur pd L,
  lwalk fuel p o r cur pd = Some L -> r = code_at p o ->
  forall fuel' acc, (length r < fuel')%nat ->
    offsets_from fuel' o r = Some (map fst L) /\
    exists ls, disasm_loop fuel' p o r acc = Some (frev acc ++ ls) /\ Forall2 (is_line p) (map fst L) ls.
Proof.
  induction fuel as [|f IH]; intros p o r cur pd L H Hr fuel' acc Hf; [discriminate H|].
  rewrite lwalk_S in H. destruct (pend_at o pd) as [here pd1].
  destruct (pick cur here) as [[d b]|]; [|discriminate H].
  destruct r as [|instr rest]; [discriminate H|].
  destruct fuel' as [|f']; [lia|]. rewrite offsets_from_cons, disasm_loop_cons.
  destruct (instr =? opRET) eqn:Eret.
  - destruct ((d =? 0) && (b =? 0) && _ && _) eqn:H4; [|discriminate H]. inversion H; subst L; clear H.
    apply andb_prop in H4. destruct H4 as [H4 _]. apply andb_prop in H4. destruct H4 as [_ H3].
    destruct rest; [|discriminate H3]. apply N.eqb_eq in Eret. subst instr.
    rewrite ret_len. destruct (disasm_ret p o []) as [line Hd]. rewrite Hd.
    replace (o + 1 - o) with 1 by lia. change (skipn (N.to_nat 1) [opRET]) with (@nil N).
    rewrite disasm_loop_nil, frev_cons. cbn [map fst]. split.
    + replace (offsets_from f' (o + 1) []) with (Some (@nil N)) by (destruct f'; reflexivity). reflexivity.
    + exists [line]. split; [reflexivity|]. constructor; [|constructor].
      exists (o + 1). rewrite <- Hr. exact Hd.
  - destruct (vstep p o (instr :: rest) d b) as [[[size next] newp]|] eqn:Ev; [|discriminate H].
    pose proof (vstep_size _ _ _ _ _ _ _ _ Ev) as Hs. cbv zeta in H.
    destruct (forallb _ _); [|discriminate H].
    destruct (lwalk f p _ _ next _) as [L'|] eqn:EL'; [|discriminate H]. inversion H; subst L; clear H.
    rewrite (vstep_len _ _ _ _ _ _ _ _ Ev).
    destruct (vstep_disasm _ _ _ _ _ _ _ _ Ev) as [line Hd]. rewrite Hd.
    replace (o + size - o) with size by lia.
    destruct (IH _ _ _ _ _ _ EL' (eq_trans (f_equal (skipn (N.to_nat size)) Hr) (code_at_skip p o size))
                 f' (line :: acc)) as [I1 (ls & I2 & I3)].
    { rewrite skipn_length. cbn [length] in *. lia. }
    rewrite I1, I2, frev_cons, <- app_assoc. cbn [map fst]. split; [reflexivity|].
    exists (line :: ls). split; [reflexivity|]. constructor; [|exact I3].
    exists (o + size). rewrite <- Hr. exact Hd.
Qed.

Definition header (p : prog) : list bytes :=
  match g_name p with
  | [] => []
  | nm => [bs "== " ++ nm ++ bs " ==" ++ [10]]
  end.

Lemma disasm_header p : disasm p =
  match disasm_loop (S (length (g_code p))) p 0 (g_code p) [] with
  | Some ls => Some (header p ++ ls)
  | None => None end.
Proof. unfold disasm, header. destruct (disasm_loop _ _ _ _ _); [|reflexivity]. destruct (g_name p); reflexivity. Qed.

(* 1+2, in terms of the verifier's table *)
Lemma plabels_disasm p L : plabels p = Some L ->
  code_offsets p = Some (map fst L) /\
  exists ls, disasm p = Some (header p ++ ls) /\ Forall2 (is_line p) (map fst L) ls.
Proof.
  unfold plabels. destruct (nlen (g_pos p) =? nlen (g_code p)); [|discriminate]. intros H.
  destruct (lwalk_disasm _ _ _ _ _ _ _ H eq_refl (S (length (g_code p))) [] (Nat.lt_succ_diag_r _)) as [H1 (ls & H2 & H3)].
  split; [exact H1|]. exists ls. rewrite disasm_header, H2. split; [reflexivity | exact H3].
Qed.

(* ---------------------------------------------------------------------------------------- *)
(* Goal 1: the disassembler does not panic on verified code                                  *)
(* ---------------------------------------------------------------------------------------- *)
Theorem disasm_total : forall p, verify p = true -> exists ls, disasm p = Some ls.
Proof.
  intros p Hv. apply verify_plabels in Hv. destruct Hv as [L HL].
  destruct (plabels_disasm p L HL) as [_ (ls & H & _)]. eexists. exact H.
Qed.
Print Assumptions disasm_total.

(* ---------------------------------------------------------------------------------------- *)
(* 4. the decoded boundaries tile the code                                                   *)
(* ---------------------------------------------------------------------------------------- *)
Lemma nth_opt_lt {A} (l : list A) i v : nth_opt l i = Some v -> (i < length l)%nat.
Proof.
  revert i. induction l as [|x l IH]; intros i H; [destruct i; discriminate|].
  destruct i; cbn [nth_opt length] in *; [lia|]. apply IH in H. lia.
Qed.

Lemma some_inj {A} (a b : A) : Some a = Some b -> a = b.
Proof. intros H. inversion H. reflexivity. Qed.

Lemma instr_len_le r sz : instr_len r = Some sz -> 1 <= sz <= nlen r.
Proof.
  unfold instr_len. destruct r as [|instr args]; [discriminate|]. rewrite nlen_cons. unfold nlen.
  destruct (disasm_class instr) as [| | | |fwd| |]; intros H.
  - apply some_inj in H. lia.
  - destruct (uv_dec args) as [[x n]|] eqn:U; [|discriminate]. apply EncodingProofs.uv_dec_le in U. apply some_inj in H. lia.
  - destruct (uv_dec args) as [[x n]|] eqn:U; [|discriminate]. apply EncodingProofs.uv_dec_le in U. apply some_inj in H. lia.
  - destruct (uv_dec args) as [[x n]|] eqn:U; [|discriminate]. apply EncodingProofs.uv_dec_le in U.
    destruct (uv_dec (skipn n args)) as [[x2 n2]|] eqn:U2; [|discriminate]. apply EncodingProofs.uv_dec_le in U2.
    rewrite skipn_length in U2. apply some_inj in H. lia.
  - destruct args as [|b0 [|b1 r]]; try discriminate. apply some_inj in H. cbn [length]. lia.
  - destruct (uv_dec args) as [[x n]|] eqn:U; [|discriminate]. apply EncodingProofs.uv_dec_le in U.
    destruct (nth_opt args n) eqn:U2; [|discriminate]. apply nth_opt_lt in U2. apply some_inj in H. lia.
  - apply some_inj in H. lia.
Qed.

(* l lists instruction boundaries of p: at each of them an instruction can be decoded, the next entry is
   the offset just after it, and the instruction at the last entry ends where the code ends *)
Definition chain (p : prog) (l : list N) : Prop :=
  forall i x, nth_error l i = Some x ->
    exists sz, instr_len (code_at p x) = Some sz /\
      match nth_error l (S i) with
      | Some x' => x' = x + sz
      | None => x + sz = nlen (g_code p)
      end.

Lemma code_at_nil p o : o <= nlen (g_code p) -> code_at p o = [] -> o = nlen (g_code p).
Proof.
  unfold code_at, nlen. intros H E. apply (f_equal (@length N)) in E. rewrite skipn_length in E. cbn [length] in E. lia.
Qed.

Lemma offsets_from_chain p : forall fuel o l,
  offsets_from fuel o (code_at p o) = Some l -> o <= nlen (g_code p) ->
  chain p l /\ match l with [] => o = nlen (g_code p) | x :: _ => x = o end.
Proof.
  induction fuel as [|f IH]; intros o l H Ho.
  - cbn [offsets_from] in H. destruct (code_at p o) eqn:E; [|discriminate H]. inversion H; subst l.
    split; [intros [|i] x Hx; discriminate Hx | apply code_at_nil; assumption].
  - destruct (code_at p o) as [|c r] eqn:E.
    + cbn [offsets_from] in H. inversion H; subst l.
      split; [intros [|i] x Hx; discriminate Hx | apply code_at_nil; assumption].
    + rewrite offsets_from_cons in H. destruct (instr_len (c :: r)) as [sz|] eqn:El; [|discriminate H].
      pose proof (instr_len_le _ _ El) as Hsz. rewrite <- E, code_at_skip in H.
      destruct (offsets_from f (o + sz) (code_at p (o + sz))) as [l'|] eqn:E'; [|discriminate H].
      inversion H; subst l; clear H.
      assert (Hle : o + sz <= nlen (g_code p)).
      { assert (nlen (c :: r) = nlen (g_code p) - o) by (rewrite <- E; unfold code_at; rewrite nlen_skipn; lia). lia. }
      destruct (IH _ _ E' Hle) as [I1 I2]. split; [|reflexivity].
      intros [|i] x Hx.
      * cbn [nth_error] in Hx. inversion Hx; subst x. exists sz. rewrite E. split; [exact El|].
        cbn [nth_error]. destruct l' as [|y l'']; cbn [nth_error]; lia.
      * cbn [nth_error] in Hx. destruct (I1 i x Hx) as (s & J1 & J2). exists s. split; [exact J1|exact J2].
Qed.

Lemma chain_tl p a l : chain p (a :: l) -> chain p l.
Proof. intros H i x Hx. exact (H (S i) x Hx). Qed.

Lemma chain_sorted p l : chain p l -> StronglySorted N.lt l.
Proof.
  intros H. apply Sorted_StronglySorted; [intros x y z; apply N.lt_trans|].
  induction l as [|a l IH]; [constructor|]. constructor; [apply IH; eapply chain_tl; exact H|].
  destruct l as [|b l]; constructor. destruct (H 0%nat a eq_refl) as (sz & H1 & H2). cbn [nth_error] in H2.
  apply instr_len_le in H1. lia.
Qed.

Lemma sorted_nodup l : StronglySorted N.lt l -> NoDup l.
Proof.
  induction 1 as [|a l H IH Hf]; constructor; [|exact IH].
  intros Hin. rewrite Forall_forall in Hf. specialize (Hf a Hin). lia.
Qed.

(* ---------------------------------------------------------------------------------------- *)
(* 5. reading the offset back from a line                                                    *)
(* ---------------------------------------------------------------------------------------- *)
Fixpoint read_dec (l : bytes) (a : N) : N :=
  match l with
  | c :: r => if (48 <=? c) && (c <=? 57) then read_dec r (a * 10 + (c - 48)) else a
  | [] => a
  end.
(* the decimal number a line starts with *)
Definition line_offset (l : bytes) : N := read_dec l 0.

Lemma read_dec_zeros k l : read_dec (repeat 48 k ++ l) 0 = read_dec l 0.
Proof. induction k as [|k IH]; [reflexivity|]. cbn [repeat app read_dec]. exact IH. Qed.

Lemma read_dec_digits D : Forall dig D -> forall l a, read_dec (D ++ l) a = read_dec l (fold_left dstep D a).
Proof.
  induction 1 as [|c D [H1 H2] HD IH]; intros l a; [reflexivity|]. cbn [app read_dec fold_left].
  assert (E : (48 <=? c) && (c <=? 57) = true) by lia. rewrite E. apply IH.
Qed.

Lemma line_offset_d04 o rest : line_offset (d04 o ++ bs " " ++ rest) = o.
Proof.
  unfold line_offset, d04, pad_left, dec_of_N.
  destruct (dec_digits_spec (N.to_nat (N.size o)) o []) as (D & E1 & E2 & E3 & _).
  { rewrite N2Nat.id. pose proof (N.size_gt o). lia. }
  rewrite E1, app_nil_r, <- app_assoc, read_dec_zeros, (read_dec_digits D E2), E3. reflexivity.
Qed.

Lemma starts_at_offset o line : starts_at o line -> line_offset line = o.
Proof. intros [rest ->]. apply line_offset_d04. Qed.

Lemma Forall2_starts_offsets offs ls : Forall2 starts_at offs ls -> map line_offset ls = offs.
Proof. induction 1 as [|o l offs ls H _ IH]; [reflexivity|]. cbn [map]. rewrite IH, (starts_at_offset _ _ H). reflexivity. Qed.

(* ---------------------------------------------------------------------------------------- *)
(* Goal 2: the disassembly lists each instruction exactly once, at its offset, in order       *)
(* ---------------------------------------------------------------------------------------- *)
Lemma Forall2_len {A B} (R : A -> B -> Prop) l1 l2 : Forall2 R l1 l2 -> length l1 = length l2.
Proof. induction 1; [reflexivity|]. cbn [length]. congruence. Qed.

Lemma code_offsets_chain p offs : code_offsets p = Some offs ->
  chain p offs /\ StronglySorted N.lt offs /\ NoDup offs /\ (offs <> [] -> exists more, offs = 0 :: more).
Proof.
  unfold code_offsets. intros H.
  destruct (offsets_from_chain p (S (length (g_code p))) 0 offs) as [H1 H2]; [exact H | lia |].
  pose proof (chain_sorted p offs H1) as H3.
  split; [exact H1|]. split; [exact H3|]. split; [apply sorted_nodup; exact H3|].
  intros Hne. destruct offs as [|x more]; [congruence|]. subst x. exists more. reflexivity.
Qed.

(* with the verifier's table L (Proofs/Limits.v plabels): its offsets, in the order of the table, are the
   decoded boundaries, and the disassembly has one line for each, in this order *)
Theorem disasm_tiles_labels : forall p L, plabels p = Some L ->
  let offs := map fst L in
  code_offsets p = Some offs /\
  exists ls, disasm p = Some (header p ++ ls) /\
    length ls = length L /\
    Forall2 starts_at offs ls /\              (* line i = %04d of offset i, a blank, the rest *)
    map line_offset ls = offs /\
    (exists more, offs = 0 :: more) /\ StronglySorted N.lt offs /\ NoDup offs /\ chain p offs /\
    Forall2 (is_line p) offs ls.            (* line i is disasm_instr at offset i *)
Proof.
  intros p L HL offs. destruct (plabels_disasm p L HL) as [H1 (ls & H2 & H3)]. fold offs in H1, H3.
  pose proof (Forall2_imp _ _ _ _ (is_line_starts p) H3) as H3'.
  split; [exact H1|]. exists ls. split; [exact H2|].
  split; [rewrite <- (Forall2_len _ _ _ H3); unfold offs; apply map_length|].
  split; [exact H3'|]. split; [apply Forall2_starts_offsets; exact H3'|].
  destruct (code_offsets_chain p offs H1) as (C1 & C2 & C3 & C4).
  split; [|split; [exact C2|split; [exact C3|split; [exact C1|exact H3]]]].
  apply C4. destruct (plabels_well_labelled p L HL) as [[H0 _] _].
  intros E. apply (in_map fst) in H0. fold offs in H0. rewrite E in H0. destruct H0.
Qed.
Print Assumptions disasm_tiles_labels.

Theorem disasm_tiles : forall p, verify p = true ->
  exists offs ls,
    code_offsets p = Some offs /\                 (* the instruction boundaries, by decoding lengths *)
    disasm p = Some (header p ++ ls) /\
    length ls = length offs /\
    Forall2 starts_at offs ls /\
    map line_offset ls = offs /\
    (exists more, offs = 0 :: more) /\ StronglySorted N.lt offs /\ NoDup offs /\ chain p offs /\
    Forall2 (is_line p) offs ls.            (* line i is disasm_instr at offset i *)
Proof.
  intros p Hv. apply verify_plabels in Hv. destruct Hv as [L HL].
  destruct (disasm_tiles_labels p L HL) as [H1 (ls & H2 & H3 & H4)].
  exists (map fst L), ls. split; [exact H1|]. split; [exact H2|]. split; [rewrite map_length; exact H3|exact H4].
Qed.
Print Assumptions disasm_tiles.

(* the instructions the VM executes are among them: every state of every run (any hook) of verified
   code is at a decoded boundary, with the code from there as its remaining code *)
Theorem run_pc_in_offsets : forall p offs, verify p = true -> code_offsets p = Some offs ->
  forall tr m, reachable p tr m -> In (pc m) offs /\ rest m = code_at p (pc m).
Proof.
  intros p offs Hv Ho tr m Hr. apply verify_plabels in Hv. destruct Hv as [L HL].
  destruct (plabels_disasm p L HL) as [H1 _]. rewrite Ho in H1. apply some_inj in H1. subst offs.
  destruct (plabels_well_labelled p L HL) as [HW _].
  destruct (reachable_agrees p L tr m HW Hr) as (R1 & R2 & _).
  split; [|exact R1]. apply (in_map fst) in R2. exact R2.
Qed.
Print Assumptions run_pc_in_offsets.

(* ---------------------------------------------------------------------------------------- *)
(* Goal 3: at source level                                                                   *)
(* ---------------------------------------------------------------------------------------- *)
(* every accepted source below 2^56 bytes: the disassembler answers and tiles the compiled code *)
Theorem disasm_source : forall name src,
  nlen src < 2^56 -> pr_ok (parse_whole name src) = true ->
  let p := pr_prog (parse_whole name src) in
  exists offs ls,
    code_offsets p = Some offs /\
    disasm p = Some (header p ++ ls) /\
    length ls = length offs /\
    Forall2 starts_at offs ls /\
    map line_offset ls = offs /\
    (exists more, offs = 0 :: more) /\ StronglySorted N.lt offs /\ NoDup offs /\ chain p offs /\
    Forall2 (is_line p) offs ls.            (* line i is disasm_instr at offset i *)
Proof. intros name src H Hok p. apply disasm_tiles, parsed_verifies_input; assumption. Qed.
Print Assumptions disasm_source.

Corollary disasm_source_total : forall name src,
  nlen src < 2^56 -> pr_ok (parse_whole name src) = true ->
  exists ls, disasm (pr_prog (parse_whole name src)) = Some ls.
Proof. intros name src H Hok. apply disasm_total, parsed_verifies_input; assumption. Qed.

(* the run itself emits no ODisasm entry *)
Lemma hook_no_disasm p t : forall m, Forall (fun e => is_disasm e = false) (hook p t m).
Proof.
  destruct t; intros m; [|constructor]. unfold hook, trace_lines.
  destruct (disasm_instr p (pc m) (rest m)) as [[l n]|]; repeat constructor.
Qed.

Lemma execute_no_disasm p t s : filter is_disasm (rr_out (execute p t s)) = [].
Proof.
  rewrite execute_unfold.
  pose proof (run_fuel_Forall (fun e => is_disasm e = false) p (hook p t)
                (fun _ => eq_refl) (hook_no_disasm p t) (run_bound p) (init_vm p) (Forall_nil _)) as H.
  destruct (run_fuel (run_bound p) p (hook p t) (init_vm p)) as [m r]. cbn [fst] in H.
  cbv zeta. cbn [rr_out]. rewrite filter_app, filter_frev, (filter_none _ _ H).
  destruct s; [apply filter_map_tag|]; reflexivity.
Qed.

(* the ODisasm entries of the output of Interpret are exactly the lines of the disassembly (with the
   option), none without it: the panic branch of interpret is never taken *)
Theorem interpret_disasm_lines : forall name src d t s, nlen src < 2^56 ->
  match snd (interpret name src d t s) with
  | IRun out _ =>
    exists ls, disasm (pr_prog (parse_whole name src)) = Some ls /\
               filter is_disasm out = if d then map (fun l => (ODisasm, l)) ls else []
  | IParseErr _ out => filter is_disasm out = []
  | IModelFail _ => True
  end.
Proof.
  intros name src d t s Hlen. unfold interpret.
  destruct (pr_oof (parse_whole name src)); [exact I|].
  destruct (pr_panic (parse_whole name src)); [exact I|].
  destruct (pr_ok (parse_whole name src)) eqn:Hok; cbn [negb snd].
  - destruct (disasm_source_total name src Hlen Hok) as [ls Hd]. exists ls. split; [exact Hd|].
    rewrite Hd, !filter_app, execute_no_disasm, app_nil_r.
    replace (filter is_disasm (if s then map (fun l => (OStats, l)) (pstats_lines (pr_stats (parse_whole name src))) else []))
      with (@nil (otag * bytes)) by (destruct s; [rewrite filter_map_tag|]; reflexivity).
    rewrite app_nil_r. destruct d; [apply filter_map_tag_all|]; reflexivity.
  - destruct s; [apply filter_map_tag|]; reflexivity.
Qed.
Print Assumptions interpret_disasm_lines.

(* a line of the disassembly is never the marker: it starts with a digit or with '=' *)
Lemma d04_head o x : exists c r, d04 o ++ x = c :: r /\ dig c.
Proof.
  unfold d04, pad_left, dec_of_N.
  destruct (dec_digits_spec (N.to_nat (N.size o)) o []) as (D & E1 & E2 & _ & E4).
  { rewrite N2Nat.id. pose proof (N.size_gt o). lia. }
  rewrite E1, app_nil_r.
  destruct (4 - length D)%nat as [|k]; cbn [repeat app].
  - destruct E4 as [[_ ->]|(c & r & -> & Hc)].
    + eexists _, _. split; [reflexivity|]. unfold dig. lia.
    + inversion E2 as [|? ? Hd ?]; subst. eexists _, _. split; [reflexivity|exact Hd].
  - eexists _, _. split; [reflexivity|]. unfold dig. lia.
Qed.

Definition panic_marker : bytes := bs "<disasm panic>".

Lemma starts_at_not_marker o line : starts_at o line -> line <> panic_marker.
Proof.
  intros [rest ->] E. destruct (d04_head o (bs " " ++ rest)) as (c & r & E1 & [H1 H2]).
  rewrite E1 in E. unfold panic_marker in E. change (bs "<disasm panic>") with (60 :: bs "disasm panic>") in E.
  inversion E. lia.
Qed.

Lemma header_not_marker p : ~ In panic_marker (header p).
Proof.
  unfold header. destruct (g_name p) as [|c nm]; [intros []|]. intros [E|[]]. discriminate E.
Qed.

Theorem interpret_never_disasm_panic : forall name src d t s, nlen src < 2^56 ->
  ~ In (ODisasm, panic_marker) (io_out (snd (interpret name src d t s))).
Proof.
  intros name src d t s Hlen Hin.
  assert (Hf : In (ODisasm, panic_marker) (filter is_disasm (io_out (snd (interpret name src d t s)))))
    by (apply filter_In; split; [exact Hin|reflexivity]).
  pose proof (interpret_disasm_lines name src d t s Hlen) as H.
  assert (Hok : pr_ok (parse_whole name src) = true \/ io_kind (snd (interpret name src d t s)) <> 1).
  { unfold interpret. destruct (pr_oof _); [right; discriminate|]. destruct (pr_panic _); [right; discriminate|].
    destruct (pr_ok _); [left; reflexivity | right; discriminate]. }
  destruct (snd (interpret name src d t s)) as [ds out|out rr|w]; cbn [io_out] in Hf.
  - rewrite H in Hf. destruct Hf.
  - destruct Hok as [Hok|Hk]; [|apply Hk; reflexivity].
    destruct H as (ls & Hd & Hfl). rewrite Hfl in Hf. destruct d; [|destruct Hf].
    apply in_map_iff in Hf. destruct Hf as (l & El & Hl). inversion El; subst l.
    destruct (disasm_source name src Hlen Hok) as (offs & ls' & _ & Hd' & _ & HF & _).
    rewrite Hd in Hd'. apply some_inj in Hd'. subst ls. apply in_app_or in Hl. destruct Hl as [Hl|Hl].
    + exact (header_not_marker _ Hl).
    + clear Hd Hfl. induction HF as [|o l offs ls' Hs _ IH]; [destruct Hl|]. destruct Hl as [->|Hl].
      * exact (starts_at_not_marker _ _ Hs eq_refl).
      * exact (IH Hl).
  - destruct Hf.
Qed.
Print Assumptions interpret_never_disasm_panic.

(* ---------------------------------------------------------------------------------------- *)
(* Goal 4: the trace hook prints the disassembler's line of the instruction about to run      *)
(* ---------------------------------------------------------------------------------------- *)
(* printStack *)
Definition stack_line (m : vm) : bytes :=
  bs "             " ++ dec_of_N (tos m) ++ bs ": " ++
  flat_map (fun v => bs "[ " ++ fmt_v v ++ bs " ]") (frev (stack m)) ++ [10].

Lemma trace_lines_eq p m : trace_lines p m =
  match disasm_instr p (pc m) (rest m) with
  | Some (line, _) => [(OTrace, line); (OTrace, stack_line m)]
  | None => [(OTrace, panic_marker); (OTrace, stack_line m)]
  end.
Proof. reflexivity. Qed.

Lemma Forall2_nth_error {A B} (R : A -> B -> Prop) l1 l2 : Forall2 R l1 l2 ->
  forall i a, nth_error l1 i = Some a -> exists b, nth_error l2 i = Some b /\ R a b.
Proof.
  induction 1 as [|a0 b0 l1 l2 H _ IH]; intros [|i] a Hi; try discriminate Hi.
  - inversion Hi; subst a0. exists b0. split; [reflexivity|exact H].
  - exact (IH i a Hi).
Qed.

(* the instruction of offs/ls that a state is at *)
Definition at_instr (p : prog) (offs : list N) (ls : list bytes) (m : vm) (line : bytes) : Prop :=
  exists i, nth_error offs i = Some (pc m) /\ nth_error ls i = Some line /\ is_line p (pc m) line.

(* at every state of every run of verified code the hook emits (newest first) the line of the disassembly
   for the instruction at pc, and the stack; never the marker *)
Theorem trace_hook_line : forall p offs ls, verify p = true ->
  code_offsets p = Some offs -> disasm p = Some (header p ++ ls) ->
  forall tr m, reachable p tr m ->
  exists line, at_instr p offs ls m line /\ trace_lines p m = [(OTrace, line); (OTrace, stack_line m)].
Proof.
  intros p offs ls Hv Ho Hd tr m Hr.
  destruct (run_pc_in_offsets p offs Hv Ho tr m Hr) as [Hin Hrest].
  destruct (disasm_tiles p Hv) as (offs' & ls' & T1 & T2 & _ & _ & _ & _ & _ & _ & _ & T3).
  rewrite Ho in T1. apply some_inj in T1. subst offs'. rewrite Hd in T2. apply some_inj, app_inv_head in T2. subst ls'.
  apply In_nth_error in Hin. destruct Hin as [i Hi].
  destruct (Forall2_nth_error _ _ _ T3 i _ Hi) as (line & Hl & Hline).
  exists line. split; [exists i; repeat split; assumption|].
  rewrite trace_lines_eq, Hrest. destruct Hline as [next Hn]. rewrite Hn. reflexivity.
Qed.
Print Assumptions trace_hook_line.

(* one step of the trace, in output order / newest first *)
Definition step_out (x : vm * bytes) : list (otag * bytes) := [(OTrace, stack_line (fst x)); (OTrace, snd x)].
Definition step_rev (x : vm * bytes) : list (otag * bytes) := [(OTrace, snd x); (OTrace, stack_line (fst x))].
Definition step_ok (p : prog) (offs : list N) (ls : list bytes) (x : vm * bytes) : Prop :=
  reachable p (trace_lines p) (fst x) /\ at_instr p offs ls (fst x) (snd x).

Lemma filter_trace_print x l : filter is_trace ((OPrint, x) :: l) = filter is_trace l.
Proof. reflexivity. Qed.

Lemma run_trace_steps p offs ls : verify p = true ->
  code_offsets p = Some offs -> disasm p = Some (header p ++ ls) ->
  forall fuel m steps, reachable p (trace_lines p) m ->
    filter is_trace (vout m) = flat_map step_rev steps -> Forall (step_ok p offs ls) steps ->
    exists steps', filter is_trace (vout (fst (run_fuel fuel p (trace_lines p) m))) = flat_map step_rev steps' /\
                   Forall (step_ok p offs ls) steps'.
Proof.
  intros Hv Ho Hd. induction fuel as [|f IH]; intros m steps Hr Hm Hs.
  - exists steps. split; assumption.
  - rewrite run_fuel_S. cbv zeta. rewrite rest_setout.
    destruct (trace_hook_line p offs ls Hv Ho Hd _ m Hr) as (line & Hat & Htr).
    assert (H0 : filter is_trace (trace_lines p m ++ vout m) = flat_map step_rev ((m, line) :: steps)).
    { rewrite filter_app, Hm, Htr. reflexivity. }
    assert (H1 : Forall (step_ok p offs ls) ((m, line) :: steps)) by (constructor; [split; assumption|exact Hs]).
    destruct (rest m) as [|instr r] eqn:Er.
    + eexists. split; [exact H0|exact H1].
    + destruct (instr =? opRET) eqn:Eret.
      * destruct (tos _ =? 0); eexists; (split; [exact H0|exact H1]).
      * destruct (exec_op p instr _) as [c rr] eqn:E.
        pose proof E as E'. apply exec_op_shape in E'. destruct E' as [_ E']. rewrite vout_advance, vout_setout in E'.
        assert (Hc : filter is_trace (vout c) = flat_map step_rev ((m, line) :: steps)).
        { destruct E' as [E' | [x E']]; rewrite E'; [|rewrite filter_trace_print]; exact H0. }
        destruct rr; try (eexists; split; [exact Hc|exact H1]).
        apply (IH c ((m, line) :: steps)); [|exact Hc|exact H1].
        apply (reach_step p (trace_lines p) m c Hr). unfold step1. rewrite Er, Eret, E. reflexivity.
Qed.

Lemma rev_flat_map_steps steps : rev (flat_map step_rev steps) = flat_map step_out (rev steps).
Proof.
  induction steps as [|x steps IH]; [reflexivity|].
  cbn [flat_map rev]. rewrite flat_map_app. cbn [flat_map]. rewrite app_nil_r.
  change (step_rev x ++ flat_map step_rev steps) with ((OTrace, snd x) :: (OTrace, stack_line (fst x)) :: flat_map step_rev steps).
  cbn [rev]. rewrite IH, <- !app_assoc. reflexivity.
Qed.

(* the OTrace entries of the output of Execute with the trace option are, in order, one pair per step:
   the stack, then the disassembly line of the instruction at the pc of that step - which is a line of
   disasm p at the index of that pc among the instruction boundaries *)
Theorem trace_lists_instructions : forall p s offs ls, verify p = true ->
  code_offsets p = Some offs -> disasm p = Some (header p ++ ls) ->
  exists steps : list (vm * bytes),
    filter is_trace (rr_out (execute p true s)) = flat_map step_out steps /\
    Forall (step_ok p offs ls) steps.
Proof.
  intros p s offs ls Hv Ho Hd. rewrite execute_unfold. unfold hook.
  destruct (run_trace_steps p offs ls Hv Ho Hd (run_bound p) (init_vm p) [] (reach_init _ _) eq_refl (Forall_nil _))
    as (steps & H1 & H2).
  destruct (run_fuel (run_bound p) p (trace_lines p) (init_vm p)) as [m r]. cbn [fst] in H1.
  cbv zeta. cbn [rr_out]. exists (rev steps). split.
  - rewrite filter_app, filter_frev, H1, frev_eq, rev_flat_map_steps.
    replace (filter is_trace (if s then map (fun l => (OStats, l)) (xstats_lines m) else []))
      with (@nil (otag * bytes)) by (destruct s; [rewrite filter_map_tag|]; reflexivity).
    apply app_nil_r.
  - apply Forall_rev. exact H2.
Qed.
Print Assumptions trace_lists_instructions.

(* in particular the trace never shows the marker *)
Corollary trace_never_disasm_panic : forall p s, verify p = true ->
  ~ In (OTrace, panic_marker) (rr_out (execute p true s)).
Proof.
  intros p s Hv Hin. destruct (disasm_tiles p Hv) as (offs & ls & T1 & T2 & _).
  destruct (trace_lists_instructions p s offs ls Hv T1 T2) as (steps & H1 & H2).
  assert (Hf : In (OTrace, panic_marker) (filter is_trace (rr_out (execute p true s))))
    by (apply filter_In; split; [exact Hin|reflexivity]).
  rewrite H1 in Hf. apply in_flat_map in Hf. destruct Hf as (x & Hx & Hi).
  rewrite Forall_forall in H2. destruct (H2 x Hx) as [_ (i & _ & _ & Hl)].
  destruct Hi as [E|[E|[]]].
  - apply (f_equal (fun e => hd 0 (snd e))) in E. lazy in E. discriminate E.
  - inversion E as [E']. apply is_line_starts in Hl. exact (starts_at_not_marker _ _ Hl E').
Qed.
Print Assumptions trace_never_disasm_panic.

(* the same for compiled programs *)
Corollary trace_source : forall name src s,
  nlen src < 2^56 -> pr_ok (parse_whole name src) = true ->
  let p := pr_prog (parse_whole name src) in
  exists offs ls steps,
    code_offsets p = Some offs /\ disasm p = Some (header p ++ ls) /\
    filter is_trace (rr_out (execute p true s)) = flat_map step_out steps /\
    Forall (step_ok p offs ls) steps.
Proof.
  intros name src s H Hok p. pose proof (parsed_verifies_input name src H Hok) as Hv. fold p in Hv.
  destruct (disasm_tiles p Hv) as (offs & ls & T1 & T2 & _).
  destruct (trace_lists_instructions p s offs ls Hv T1 T2) as (steps & H1 & H2).
  exists offs, ls, steps. repeat split; assumption.
Qed.
Print Assumptions trace_source.

(* ---------------------------------------------------------------------------------------- *)
(* concrete checks                                                                           *)
(* ---------------------------------------------------------------------------------------- *)
(* non-vacuity (ex_p: the compiled example of Proofs/VerifyProofs.v, with and/or jumps and blocks): its
   boundaries, the offsets read back from its disassembly (the header line reads as 0), and the offsets read
   back from the instruction lines of its trace (the two jumped-over stretches 13-14 and 40-41 are missing) *)
Definition ex_offs : list N :=
  [0; 1; 4; 5; 7; 10; 13; 14; 16; 19; 21; 24; 25; 27; 29; 30; 33; 34; 37; 40; 41; 43; 45; 46; 47; 48; 50; 52; 53; 55; 56; 58].
Definition is_instr_line (e : otag * bytes) : bool := (47 <? hd 0 (snd e)) && (hd 0 (snd e) <? 58).
Example ex_tiles :
  verify ex_p = true /\
  code_offsets ex_p = Some ex_offs /\
  option_map (map line_offset) (disasm ex_p) = Some (0 :: ex_offs) /\
  nlen (g_code ex_p) = 59 /\
  map (fun e => line_offset (snd e)) (filter is_instr_line (filter is_trace (rr_out (execute ex_p true false)))) =
    [0; 1; 4; 5; 7; 10; 16; 19; 21; 24; 25; 27; 29; 30; 33; 34; 37; 43; 45; 46; 47; 48; 50; 52; 53; 55; 56; 58].
Proof. vm_compute. repeat split. Qed.

(* the panic sites of the model are real: outside verified code each of them is reached *)
Definition raw (code : bytes) (cs : list value) : prog :=
  {| g_name := []; g_code := code; g_consts := cs; g_pos := repeat 0 (length code); g_lfs := [] |}.
Example ex_panic_sites :
  disasm (raw [opCONST; 3; opRET] []) = None /\            (* constant index out of range *)
  disasm (raw [opCONST] []) = None /\                      (* code ends inside the operand *)
  disasm (raw [opJUMP; 0] []) = None /\                    (* code ends inside the jump offset *)
  disasm (raw [opBIND; 0] [VStr []]) = None /\             (* code ends before the selector byte *)
  disasm (raw [opDEFBLOCK; 0] [VStr []]) = None /\         (* second operand missing *)
  verify (raw [opCONST; 3; opRET] []) = false.
Proof. vm_compute. repeat split. Qed.

(* verify is sufficient, not necessary: LOOP and unknown opcodes are printed, but rejected by the verifier *)
Example ex_unverified_total :
  (exists ls, disasm (raw [opLOOP; 0; 3; 77; opRET] []) = Some ls) /\ verify (raw [opLOOP; 0; 3; 77; opRET] []) = false.
Proof. split; [eexists|]; vm_compute; reflexivity. Qed.
