(* LexLayout.v: inserting layout (white space, '#' comment lines) at a token boundary leaves the
   (type, text) sequence of the tokens unchanged -- the bridge between the one-step layout facts
   of LayoutProofs.v and `layout_irrelevant` of LayoutTree.v. *)
From Coq Require Import Lia ZifyN ZifyNat ZifyBool List.
From BCL Require Import Model.Lexer Model.Api Proofs.LineCalcProofs Proofs.LexerProofs Proofs.LayoutProofs
  Proofs.ParserInvProofs Proofs.LayoutTree Proofs.LexFuel Proofs.LexShift Proofs.LexLocal.
Import ListNotations.
Open Scope N_scope.

Ltac Zify.zify_post_hook ::= Z.div_mod_to_equations.

(* ------------------------------------------------------------------ *)
(* 1. the bytes of a white-space rune                                   *)

Lemma is_space_cases : forall r, is_space (Z.of_N r) = true ->
  r = 32 \/ r = 9 \/ r = 11 \/ r = 12 \/ r = 10 \/ r = 13 \/ r = 133 \/ r = 160.
Proof. intros r. unfold is_space, zin. cbn [existsb]. lia. Qed.

Lemma space_rune_bytes : forall b0 l,
  is_space (Z.of_N (fst (decode_rune (b0 :: l)))) = true ->
  exists p rest', ws_char p /\ b0 :: l = p ++ rest'.
Proof.
  intros b0 l H. apply is_space_cases in H.
  assert (Err : fst (rune_error, 1%nat) = 32 \/ fst (rune_error, 1%nat) = 9 \/ fst (rune_error, 1%nat) = 11 \/
                fst (rune_error, 1%nat) = 12 \/ fst (rune_error, 1%nat) = 10 \/ fst (rune_error, 1%nat) = 13 \/
                fst (rune_error, 1%nat) = 133 \/ fst (rune_error, 1%nat) = 160 -> False)
    by (cbn [fst]; unfold rune_error; lia).
  destruct (lead_info_cases b0) as
    [[Hb HL]|[[Hb HL]|[[Hb HL]|[[Hb HL]|[[Hb HL]|[[Hb HL]|[[Hb HL]|[[Hb HL]|[Hb HL]]]]]]]]];
    unfold decode_rune in H; rewrite HL in H; cbn [N.eqb Pos.eqb] in H.
  - cbn [fst] in H. exists [b0], l. split; [|reflexivity].
    unfold ws_char, ws_chars. cbn [In].
    destruct H as [->|[->|[->|[->|[->|[->|H]]]]]]; try tauto. exfalso. lia.
  - exfalso. auto.
  - destruct l as [|b1 l1]; [exfalso; auto|].
    destruct (in_range 128 191 b1) eqn:E1; cbn [negb fst snd] in H; [|exfalso; auto].
    unfold in_range in E1.
    assert (b0 = 194 /\ (b1 = 133 \/ b1 = 160)) as [-> Hb1] by lia.
    exists [194; b1], l1. split; [|reflexivity].
    unfold ws_char, ws_chars. cbn [In]. destruct Hb1 as [->| ->]; tauto.
  - exfalso. destruct l as [|b1 [|b2 l2]]; auto.
    { destruct (in_range 160 191 b1); auto. }
    destruct (in_range 160 191 b1) eqn:E1; cbn [negb fst snd] in H; auto.
    destruct (is_cont b2) eqn:E2; cbn [negb fst snd] in H; auto.
    unfold is_cont, in_range in *. lia.
  - exfalso. destruct l as [|b1 [|b2 l2]]; auto.
    { destruct (in_range 128 159 b1); auto. }
    destruct (in_range 128 159 b1) eqn:E1; cbn [negb fst snd] in H; auto.
    destruct (is_cont b2) eqn:E2; cbn [negb fst snd] in H; auto.
    unfold is_cont, in_range in *. lia.
  - exfalso. destruct l as [|b1 [|b2 l2]]; auto.
    { destruct (in_range 128 191 b1); auto. }
    destruct (in_range 128 191 b1) eqn:E1; cbn [negb fst snd] in H; auto.
    destruct (is_cont b2) eqn:E2; cbn [negb fst snd] in H; auto.
    unfold is_cont, in_range in *. lia.
  - exfalso. destruct l as [|b1 [|b2 [|b3 l3]]]; auto.
    { destruct (in_range 144 191 b1); auto. }
    { destruct (in_range 144 191 b1); auto. destruct (is_cont b2); auto. }
    destruct (in_range 144 191 b1) eqn:E1; cbn [negb fst snd] in H; auto.
    destruct (is_cont b2) eqn:E2; cbn [negb fst snd] in H; auto.
    destruct (is_cont b3) eqn:E3; cbn [negb fst snd] in H; auto.
    unfold is_cont, in_range in *. lia.
  - exfalso. destruct l as [|b1 [|b2 [|b3 l3]]]; auto.
    { destruct (in_range 128 191 b1); auto. }
    { destruct (in_range 128 191 b1); auto. destruct (is_cont b2); auto. }
    destruct (in_range 128 191 b1) eqn:E1; cbn [negb fst snd] in H; auto.
    destruct (is_cont b2) eqn:E2; cbn [negb fst snd] in H; auto.
    destruct (is_cont b3) eqn:E3; cbn [negb fst snd] in H; auto.
    unfold is_cont, in_range in *. lia.
  - exfalso. destruct l as [|b1 [|b2 [|b3 l3]]]; auto.
    { destruct (in_range 128 143 b1); auto. }
    { destruct (in_range 128 143 b1); auto. destruct (is_cont b2); auto. }
    destruct (in_range 128 143 b1) eqn:E1; cbn [negb fst snd] in H; auto.
    destruct (is_cont b2) eqn:E2; cbn [negb fst snd] in H; auto.
    destruct (is_cont b3) eqn:E3; cbn [negb fst snd] in H; auto.
    unfold is_cont, in_range in *. lia.
Qed.

Lemma ws_char_len : forall p, ws_char p -> (1 <= length p)%nat.
Proof.
  intros p Hp. unfold ws_char, ws_chars in Hp. cbn [In] in Hp.
  repeat (destruct Hp as [<-|Hp]; [cbn; lia|]). contradiction.
Qed.

(* every input is a maximal run of white-space characters followed by something else *)
Lemma ws_split : forall rest, exists parts rest',
  rest = concat parts ++ rest' /\ Forall ws_char parts /\ is_space (peek_rune rest') = false.
Proof.
  intros rest. remember (length rest) as n eqn:En. revert rest En.
  induction n as [n IH] using lt_wf_ind. intros rest En.
  destruct (is_space (peek_rune rest)) eqn:E.
  - destruct rest as [|b0 l]; [discriminate E|]. cbn [peek_rune] in E.
    destruct (space_rune_bytes b0 l E) as (p & rest1 & Hp & Er).
    pose proof (ws_char_len p Hp) as Hl.
    destruct (IH (length rest1)) with (rest := rest1) as (parts & rest' & E1 & F & S); [|reflexivity|].
    { subst n. rewrite Er, app_length. lia. }
    exists (p :: parts), rest'. cbn [concat]. rewrite <- app_assoc, <- E1.
    repeat split; auto.
  - exists [], rest. repeat split; auto.
Qed.

(* ------------------------------------------------------------------ *)
(* 2. layout                                                            *)

Definition nocrlf (body : bytes) : Prop := forall b, In b body -> b <> 10 /\ b <> 13.

(* any sequence of white-space characters (the eight of Spec/Pinned.v, UTF-8 encoded) and of
   comment lines: '#', any bytes but CR and LF, then CR or LF *)
Inductive layout : bytes -> Prop :=
| layout_nil : layout []
| layout_ws : forall p l, ws_char p -> layout l -> layout (p ++ l)
| layout_comment : forall body e l, nocrlf body -> (e = 10 \/ e = 13) -> layout l ->
    layout (35 :: body ++ e :: l).

(* at the very end of a source the last comment needs no line end *)
Definition layout_end (ws : bytes) : Prop :=
  layout ws \/ exists l body, layout l /\ nocrlf body /\ ws = l ++ 35 :: body.

(* the same, cut the way the lexer takes it: (white space* comment)* white space+ *)
Inductive lay : bytes -> Prop :=
| lay_ws : forall parts, parts <> [] -> Forall ws_char parts -> lay (concat parts)
| lay_comment : forall parts body e l, Forall ws_char parts -> nocrlf body -> (e = 10 \/ e = 13) ->
    lay (e :: l) -> lay (concat parts ++ 35 :: body ++ e :: l).

Lemma lay_cons_ws : forall p l, ws_char p -> lay l -> lay (p ++ l).
Proof.
  intros p l Hp H. destruct H as [parts Hne F|parts body e l F Hb He H].
  - change (p ++ concat parts) with (concat (p :: parts)). apply lay_ws; [discriminate|].
    constructor; assumption.
  - rewrite app_assoc. change (p ++ concat parts) with (concat (p :: parts)).
    apply lay_comment; auto.
Qed.

Lemma eol_ws_char : forall e, e = 10 \/ e = 13 -> ws_char [e].
Proof. intros e [-> | ->]; unfold ws_char, ws_chars; cbn [In]; tauto. Qed.

Lemma layout_lay : forall ws, layout ws -> ws = [] \/ lay ws.
Proof.
  induction 1 as [|p l Hp Hl IH|body e l Hb He Hl IH]; [left; reflexivity|right|right].
  - destruct IH as [->|IH]; [|apply lay_cons_ws; assumption].
    rewrite app_nil_r. rewrite <- (app_nil_r p). change (p ++ []) with (concat [p]).
    apply lay_ws; [discriminate|]. constructor; [assumption|constructor].
  - change (35 :: body ++ e :: l) with (concat [] ++ 35 :: body ++ e :: l).
    apply lay_comment; auto.
    destruct IH as [->|IH].
    + change [e] with (concat [[e]]). apply lay_ws; [discriminate|].
      constructor; [apply eol_ws_char; assumption|constructor].
    + change (e :: l) with ([e] ++ l). apply lay_cons_ws; [apply eol_ws_char; assumption|exact IH].
Qed.

(* ------------------------------------------------------------------ *)
(* 3. the lexer steps over layout                                       *)

(* from c, j steps that go on reach c', at a token start, with `rest` unread and no new token *)
Definition lands (f : nat) (c : cur) (j : nat) (c' : cur) (rest : bytes) : Prop :=
  lex_steps j f c = Some c' /\ before c' = [] /\ unread c' = rest /\ out c' = out c.

Ltac len := unfold U in *;
  repeat (first [progress cbn [length] in * | rewrite app_length in * ]); unfold bytes in *; lia.

Lemma lands_0 : forall f c, before c = [] -> lands f c 0 c (unread c).
Proof. intros. repeat split; auto. Qed.

Lemma lands_trans : forall f c j c' r j' c'' r',
  lands f c j c' r -> lands f c' j' c'' r' -> lands f c (j + j') c'' r'.
Proof.
  intros f c j c' r j' c'' r' (H1 & _ & _ & O1) (H2 & B2 & U2 & O2).
  repeat split; auto; [eapply lex_steps_app; eassumption|congruence].
Qed.

Lemma lands_1 : forall f c g rest w,
  fst (lex_start f c) = true -> abs (snd (lex_start f c)) = (g, [], rest, w, out c) ->
  exists c', lands f c 1 c' rest.
Proof.
  intros f c g rest w Hgo Habs. unfold lands. cbn [lex_steps].
  destruct (lex_start f c) as [go c1]. cbn [fst snd] in *. subst go. exists c1.
  rewrite abs_unread in Habs. injection Habs as _ H2 H3 _ H5. auto.
Qed.

Lemma step_space : forall f c parts rest,
  unread c = concat parts ++ rest -> parts <> [] -> Forall ws_char parts ->
  is_space (peek_rune rest) = false -> (U c < f)%nat ->
  exists c', lands f c 1 c' rest.
Proof.
  intros f c parts rest Hu Hne F Hs Hf.
  assert (Hl : (length parts <= f)%nat).
  { pose proof (length_parts_le parts F). unfold U in Hf. rewrite Hu, app_length in Hf.
    unfold bytes in *. lia. }
  destruct (C20_space_run_chunked parts rest c f Hu Hne F Hs Hl) as [Hgo Habs].
  eapply lands_1; eassumption.
Qed.

Lemma step_comment : forall f c body tail,
  unread c = 35 :: body ++ tail -> eol_or_end tail -> nocrlf body -> (U c < f)%nat ->
  exists c', lands f c 1 c' tail.
Proof.
  intros f c body tail Hu Ht Hb Hf.
  assert (Hl : (length body + 1 <= f)%nat).
  { unfold U in Hf. rewrite Hu in Hf. cbn [length] in Hf. rewrite app_length in Hf. lia. }
  destruct (C20_comment_lex_start_chunked body tail c f Hu Ht Hb Hl) as [Hgo Habs].
  eapply lands_1; eassumption.
Qed.

Lemma peek_hash : forall x, is_space (peek_rune (35 :: x)) = false.
Proof. intros. reflexivity. Qed.

Lemma lay_lands : forall ws, lay ws -> forall parts0 post' c f,
  Forall ws_char parts0 -> is_space (peek_rune post') = false ->
  unread c = ws ++ concat parts0 ++ post' -> (U c < f)%nat ->
  exists j c', lands f c j c' post'.
Proof.
  induction 1 as [parts Hne F|parts body e l F Hb He Hl IH]; intros parts0 post' c f F0 Hs Hu Hf.
  - rewrite app_assoc, <- concat_app in Hu.
    destruct (step_space f c (parts ++ parts0) post' Hu) as (c' & H); auto.
    + destruct parts; [congruence|discriminate].
    + apply Forall_app. split; assumption.
    + exists 1%nat, c'. exact H.
  - set (tail := concat parts0 ++ post') in *.
    assert (Hc : forall c1, unread c1 = 35 :: body ++ (e :: l) ++ tail -> (U c1 < f)%nat ->
                 exists j c', lands f c1 j c' post').
    { intros c1 Hu1 Hf1.
      destruct (step_comment f c1 body ((e :: l) ++ tail) Hu1) as (c2 & H2); auto.
      { right. exists e, (l ++ tail). split; [reflexivity|exact He]. }
      destruct H2 as (S2 & B2 & U2 & O2).
      destruct (IH parts0 post' c2 f F0 Hs U2) as (j & c' & H3).
      { unfold U in *. rewrite U2. rewrite Hu1 in Hf1. len. }
      exists (1 + j)%nat, c'. eapply lands_trans; [|exact H3]. repeat split; eauto. }
    destruct parts as [|p parts].
    + apply Hc; [|exact Hf]. rewrite Hu. cbn [concat app]. rewrite <- app_assoc. reflexivity.
    + destruct (step_space f c (p :: parts) (35 :: body ++ (e :: l) ++ tail)) as (c1 & H1); auto.
      * rewrite Hu, <- !app_assoc. cbn [app]. rewrite <- app_assoc. reflexivity.
      * discriminate.
      * destruct H1 as (S1 & B1 & U1 & O1).
        destruct (Hc c1 U1) as (j & c' & H2).
        { unfold U in *. rewrite U1. rewrite Hu in Hf. len. }
        exists (1 + j)%nat, c'. eapply lands_trans; [|exact H2]. repeat split; eauto.
Qed.

(* from a token start the lexer steps over any layout, and over the white space after it *)
Lemma layout_lands : forall ws parts0 post' c f,
  layout ws -> Forall ws_char parts0 -> is_space (peek_rune post') = false ->
  before c = [] -> unread c = ws ++ concat parts0 ++ post' -> (U c < f)%nat ->
  exists j c', lands f c j c' post'.
Proof.
  intros ws parts0 post' c f HL F0 Hs B Hu Hf.
  destruct (layout_lay ws HL) as [->|HY]; [|eapply lay_lands; eassumption].
  cbn [app] in Hu. destruct parts0 as [|p parts0].
  - exists 0%nat, c. cbn [concat app] in Hu. rewrite <- Hu. apply lands_0; assumption.
  - destruct (step_space f c (p :: parts0) post' Hu) as (c' & H); auto; [discriminate|].
    exists 1%nat, c'. exact H.
Qed.

Lemma layout_end_lands : forall ws c f,
  layout_end ws -> before c = [] -> unread c = ws -> (U c < f)%nat ->
  exists j c', lands f c j c' [].
Proof.
  intros ws c f [HL|(l & body & HL & Hb & ->)] B Hu Hf.
  - apply (layout_lands ws [] [] c f); auto. cbn [concat app]. rewrite app_nil_r. exact Hu.
  - destruct (layout_lands l [] (35 :: body) c f HL (Forall_nil _) (peek_hash body) B Hu Hf) as (j & c1 & H1).
    pose proof H1 as (S1 & B1 & U1 & O1).
    destruct (step_comment f c1 body []) as (c2 & H2); auto.
    + rewrite app_nil_r. exact U1.
    + left; reflexivity.
    + unfold U in *. rewrite U1. rewrite Hu in Hf. len.
    + exists (j + 1)%nat, c2. eapply lands_trans; eassumption.
Qed.

(* confluence: whatever the layout in front, the lexer comes to the same place *)
Lemma layout_confluence : forall ws1 ws2 post c1 c2 f1 f2,
  layout ws1 -> layout ws2 -> unread c1 = ws1 ++ post -> unread c2 = ws2 ++ post ->
  before c1 = [] -> before c2 = [] -> (U c1 < f1)%nat -> (U c2 < f2)%nat ->
  exists j1 j2 c1' c2' rest, lands f1 c1 j1 c1' rest /\ lands f2 c2 j2 c2' rest.
Proof.
  intros ws1 ws2 post c1 c2 f1 f2 HL1 HL2 Hu1 Hu2 B1 B2 Hf1 Hf2.
  destruct (ws_split post) as (parts0 & post' & E & F0 & Hs). rewrite E in Hu1, Hu2.
  destruct (layout_lands ws1 parts0 post' c1 f1 HL1 F0 Hs B1 Hu1 Hf1) as (j1 & c1' & H1).
  destruct (layout_lands ws2 parts0 post' c2 f2 HL2 F0 Hs B2 Hu2 Hf2) as (j2 & c2' & H2).
  exists j1, j2, c1', c2', post'. split; assumption.
Qed.

Lemma layout_end_confluence : forall ws1 ws2 c1 c2 f1 f2,
  layout_end ws1 -> layout_end ws2 -> unread c1 = ws1 -> unread c2 = ws2 ->
  before c1 = [] -> before c2 = [] -> (U c1 < f1)%nat -> (U c2 < f2)%nat ->
  exists j1 j2 c1' c2' rest, lands f1 c1 j1 c1' rest /\ lands f2 c2 j2 c2' rest.
Proof.
  intros ws1 ws2 c1 c2 f1 f2 HL1 HL2 Hu1 Hu2 B1 B2 Hf1 Hf2.
  destruct (layout_end_lands ws1 c1 f1 HL1 B1 Hu1 Hf1) as (j1 & c1' & H1).
  destruct (layout_end_lands ws2 c2 f2 HL2 B2 Hu2 Hf2) as (j2 & c2' & H2).
  exists j1, j2, c1', c2', []. split; assumption.
Qed.

Lemma layout_app : forall a b, layout a -> layout b -> layout (a ++ b).
Proof.
  intros a b Ha Hb. induction Ha as [|p l Hp Hl IH|body e l Hbd He Hl IH]; [exact Hb| |].
  - rewrite <- app_assoc. apply layout_ws; assumption.
  - cbn [app]. rewrite <- app_assoc. cbn [app]. apply layout_comment; assumption.
Qed.

(* ------------------------------------------------------------------ *)
(* 4. whole sources                                                     *)

(* the bounds `lex` gives itself, and the cursor its run reaches after k steps that go on *)
Definition bound (src : bytes) : nat := S (S (total_len [src])).
Definition reaches (src : bytes) (k : nat) (c : cur) : Prop :=
  lex_steps k (bound src) (init_cur [src]) = Some c.

Lemma init_U : forall src, U (init_cur [src]) = total_len [src].
Proof. intros. rewrite total_len_concat. reflexivity. Qed.

Lemma lex_out : forall src, fst (lex [src]) = rev (out (lex_run (bound src) (bound src) (init_cur [src]))).
Proof. intros. unfold lex. cbn [fst]. apply frev_eq. Qed.

(* two runs that come to the same place with the same tokens so far give the same tokens *)
Lemma join : forall src1 src2 k1 k2 c1 c2 j1 j2 c1' c2' rest,
  reaches src1 k1 c1 -> reaches src2 k2 c2 ->
  lands (bound src1) c1 j1 c1' rest -> lands (bound src2) c2 j2 c2' rest ->
  map nopos (out c1) = map nopos (out c2) ->
  map nopos (fst (lex [src1])) = map nopos (fst (lex [src2])).
Proof.
  intros src1 src2 k1 k2 c1 c2 j1 j2 c1' c2' rest R1 R2 (S1 & B1 & U1 & O1) (S2 & B2 & U2 & O2) HO.
  pose proof (lex_steps_app _ _ _ _ _ _ R1 S1) as T1.
  pose proof (lex_steps_app _ _ _ _ _ _ R2 S2) as T2.
  set (m := S (length rest)).
  assert (E1 : lex_run (bound src1) (bound src1) (init_cur [src1]) = lex_run m m c1').
  { apply (lex_run_from [src1] (k1 + j1)); auto using init_inv, init_BG.
    - rewrite init_U. unfold bound. lia.
    - unfold U. rewrite U1. subst m. lia.
    - unfold U. rewrite U1. subst m. lia. }
  assert (E2 : lex_run (bound src2) (bound src2) (init_cur [src2]) = lex_run m m c2').
  { apply (lex_run_from [src2] (k2 + j2)); auto using init_inv, init_BG.
    - rewrite init_U. unfold bound. lia.
    - unfold U. rewrite U2. subst m. lia.
    - unfold U. rewrite U2. subst m. lia. }
  rewrite !lex_out, E1, E2, !map_rev. f_equal.
  apply (lex_run_shU m m c1' c2'). unfold ShU. rewrite B1, B2, U1, U2, O1, O2. auto.
Qed.

Lemma reaches_U : forall src k c, reaches src k c -> (U c < bound src)%nat.
Proof.
  intros src k c H.
  destruct (lex_steps_progress [src] k (bound src) _ c (init_inv [src]) (init_BG [src])
              ltac:(unfold bound; lia) H) as (_ & _ & HU).
  rewrite init_U in HU. unfold bound. lia.
Qed.

(* 4a. The general statement, with a synchronisation point given on both sides: after k1 steps
   on the first source and k2 steps on the second the lexer stands at a token start, with the
   respective layout and then `post` unread, and has emitted the same tokens up to positions. *)
Theorem layout_sync : forall pre1 pre2 ws1 ws2 post k1 k2 c1 c2,
  layout ws1 -> layout ws2 ->
  reaches (pre1 ++ ws1 ++ post) k1 c1 -> before c1 = [] -> unread c1 = ws1 ++ post ->
  reaches (pre2 ++ ws2 ++ post) k2 c2 -> before c2 = [] -> unread c2 = ws2 ++ post ->
  map nopos (out c1) = map nopos (out c2) ->
  map nopos (fst (lex [pre1 ++ ws1 ++ post])) = map nopos (fst (lex [pre2 ++ ws2 ++ post])).
Proof.
  intros pre1 pre2 ws1 ws2 post k1 k2 c1 c2 HL1 HL2 R1 B1 U1 R2 B2 U2 HO.
  destruct (layout_confluence ws1 ws2 post c1 c2 _ _ HL1 HL2 U1 U2 B1 B2
              (reaches_U _ _ _ R1) (reaches_U _ _ _ R2))
    as (j1 & j2 & c1' & c2' & rest & L1 & L2).
  eapply join; eassumption.
Qed.
Print Assumptions layout_sync.

(* the same at the end of the sources, where the last comment may lack its line end *)
Theorem layout_sync_end : forall pre1 pre2 ws1 ws2 k1 k2 c1 c2,
  layout_end ws1 -> layout_end ws2 ->
  reaches (pre1 ++ ws1) k1 c1 -> before c1 = [] -> unread c1 = ws1 ->
  reaches (pre2 ++ ws2) k2 c2 -> before c2 = [] -> unread c2 = ws2 ->
  map nopos (out c1) = map nopos (out c2) ->
  map nopos (fst (lex [pre1 ++ ws1])) = map nopos (fst (lex [pre2 ++ ws2])).
Proof.
  intros pre1 pre2 ws1 ws2 k1 k2 c1 c2 HL1 HL2 R1 B1 U1 R2 B2 U2 HO.
  destruct (layout_end_confluence ws1 ws2 c1 c2 _ _ HL1 HL2 U1 U2 B1 B2
              (reaches_U _ _ _ R1) (reaches_U _ _ _ R2))
    as (j1 & j2 & c1' & c2' & rest & L1 & L2).
  eapply join; eassumption.
Qed.
Print Assumptions layout_sync_end.

Lemma init_unread : forall src, unread (init_cur [src]) = src.
Proof. intros. unfold unread, init_cur. cbn [after pending concat app]. apply app_nil_r. Qed.

(* 4b. leading layout: nothing to synchronise *)
Theorem leading_layout : forall ws post, layout ws ->
  map nopos (fst (lex [ws ++ post])) = map nopos (fst (lex [post])).
Proof.
  intros ws post HL.
  apply (layout_sync [] [] ws [] post 0 0 (init_cur [ws ++ post]) (init_cur [post]));
    auto using layout_nil, init_unread; reflexivity.
Qed.
Print Assumptions leading_layout.

(* a source that is nothing but layout has no token but tEOF *)
Theorem only_layout : forall ws, layout_end ws ->
  map nopos (fst (lex [ws])) = map nopos (fst (lex [[]])).
Proof.
  intros ws HL.
  apply (layout_sync_end [] [] ws [] 0 0 (init_cur [ws]) (init_cur [[]]));
    auto using init_unread; try reflexivity. left. apply layout_nil.
Qed.

(* ------------------------------------------------------------------ *)
(* 4c. a synchronisation point that depends on the prefix only          *)

(* The lexer is given `pre ++ d` as the window and an (empty) chunk still to come.  `boundary pre d`:
   after some steps it stands at a token start with exactly d unread in the window and has not
   asked for the chunk: the tokens of `pre` are complete and were recognised by looking no
   further than d.  For concrete pre and d this is checked by computation (see the examples);
   d = [] for a prefix ending in a token that needs no look-ahead ( ; { } ( ) : + * / ), d = the
   first character after any other token. *)
Definition start (A : bytes) : cur :=
  {| before := []; after := A; gpos := 0; width := 0; pending := [[]]; lfs := newlines_at A 0; out := [] |}.

Definition boundary_at (pre d : bytes) (k : nat) (c : cur) : Prop :=
  lex_steps k (S (S (length (pre ++ d)))) (start (pre ++ d)) = Some c /\
  before c = [] /\ after c = d /\ pending c = [[]].
Definition boundary (pre d : bytes) : Prop := exists k c, boundary_at pre d k c.

Lemma start_inv : forall A, Inv [A; []] (start A).
Proof.
  intros A. exists A. unfold start. cbn [before after gpos width pending lfs out concat app].
  repeat split; auto; try (cbn; lia).
  - intros tk rest E. discriminate E.
  - exists 1%nat. reflexivity.
Qed.

Lemma start_BG : forall A, BG (start A).
Proof. intros. unfold BG, start, nlen. cbn. lia. Qed.

Lemma start_U : forall A, U (start A) = length A.
Proof. intros. unfold U, unread, start. cbn [after pending concat app]. rewrite app_nil_r. reflexivity. Qed.

Lemma start_R : forall A Y, R (swap [Y] (start A)) (init_cur [A ++ Y]).
Proof.
  intros. unfold R, abs, swap, start, init_cur. cbn [before after gpos width pending out concat app].
  rewrite !app_nil_r. reflexivity.
Qed.

(* whatever follows pre ++ d, the run of `lex` comes to that point with the same tokens *)
Lemma boundary_reaches : forall pre d k c, boundary_at pre d k c ->
  forall Y, exists c', reaches ((pre ++ d) ++ Y) k c' /\
    before c' = [] /\ unread c' = d ++ Y /\ out c' = out c.
Proof.
  intros pre d k c (HS & HB & HA & HP) Y. set (A := pre ++ d) in *.
  set (f := bound (A ++ Y)).
  assert (Hf : (length A < f)%nat).
  { unfold f, bound. rewrite total_len_concat. cbn [concat]. rewrite !app_length. lia. }
  rewrite (lex_steps_fuel [A; []] k _ f (start A) (start_inv A) (start_BG A)) in HS
    by (rewrite start_U; lia).
  destruct (lex_steps_unseen k f (start A) c HS) as [_ HW].
  { unfold plen. rewrite HP. reflexivity. }
  { discriminate. }
  destruct (lex_steps_resp k f _ _ _ (start_R A Y) (HW [Y])) as (c' & HS' & HR).
  exists c'. split; [exact HS'|].
  apply R_fields in HR. destruct HR as (_ & E2 & E3 & _ & E5).
  unfold swap in E2, E3, E5. cbn [before after pending out concat] in E2, E3, E5.
  rewrite app_nil_r in E3. unfold unread. rewrite <- E2, <- E3, <- E5, HA. auto.
Qed.

(* The main theorem.  At a boundary, the layout that follows -- d and whatever layout comes after
   it -- can be replaced by any other layout that begins with d; when d = [], by any layout or
   by none. *)
Theorem layout_replace : forall pre d ws1 ws2 post,
  boundary pre d -> layout (d ++ ws1) -> layout (d ++ ws2) ->
  map nopos (fst (lex [pre ++ d ++ ws1 ++ post])) = map nopos (fst (lex [pre ++ d ++ ws2 ++ post])).
Proof.
  intros pre d ws1 ws2 post (k & c & HB) HL1 HL2.
  destruct (boundary_reaches pre d k c HB (ws1 ++ post)) as (c1 & R1 & B1 & U1 & O1).
  destruct (boundary_reaches pre d k c HB (ws2 ++ post)) as (c2 & R2 & B2 & U2 & O2).
  rewrite <- !app_assoc in R1, R2. rewrite app_assoc in U1, U2.
  rewrite (app_assoc d ws1 post), (app_assoc d ws2 post).
  apply (layout_sync pre pre (d ++ ws1) (d ++ ws2) post k k c1 c2); auto;
    try (rewrite <- app_assoc; assumption). congruence.
Qed.
Print Assumptions layout_replace.

Theorem layout_replace_end : forall pre d ws1 ws2,
  boundary pre d -> layout_end (d ++ ws1) -> layout_end (d ++ ws2) ->
  map nopos (fst (lex [pre ++ d ++ ws1])) = map nopos (fst (lex [pre ++ d ++ ws2])).
Proof.
  intros pre d ws1 ws2 (k & c & HB) HL1 HL2.
  destruct (boundary_reaches pre d k c HB ws1) as (c1 & R1 & B1 & U1 & O1).
  destruct (boundary_reaches pre d k c HB ws2) as (c2 & R2 & B2 & U2 & O2).
  rewrite <- !app_assoc in R1, R2.
  apply (layout_sync_end pre pre (d ++ ws1) (d ++ ws2) k k c1 c2); auto. congruence.
Qed.
Print Assumptions layout_replace_end.

(* insertion of layout after a token that needs no look-ahead *)
Corollary layout_insertion : forall pre ws post,
  boundary pre [] -> layout ws ->
  map strip (fst (lex [pre ++ ws ++ post])) = map strip (fst (lex [pre ++ post])).
Proof.
  intros pre ws post HB HL. apply nopos_strip.
  apply (layout_replace pre [] ws [] post HB); [exact HL|apply layout_nil].
Qed.

(* insertion of more layout where there is some already *)
Corollary layout_extension : forall pre d ws post,
  boundary pre d -> layout d -> layout ws ->
  map strip (fst (lex [pre ++ d ++ ws ++ post])) = map strip (fst (lex [pre ++ d ++ post])).
Proof.
  intros pre d ws post HB Hd HL. apply nopos_strip.
  apply (layout_replace pre d ws [] post HB); [apply layout_app; assumption|rewrite app_nil_r; exact Hd].
Qed.

(* ------------------------------------------------------------------ *)
(* 5. the compiled program                                              *)

Theorem layout_replace_compiles : forall n1 n2 pre d ws1 ws2 post,
  boundary pre d -> layout (d ++ ws1) -> layout (d ++ ws2) ->
  let src1 := pre ++ d ++ ws1 ++ post in
  let src2 := pre ++ d ++ ws2 ++ post in
  pr_ok (parse_whole n1 src1) = true -> pr_oof (parse_whole n1 src1) = false ->
  pr_panic (parse_whole n1 src1) = false ->
  pr_ok (parse_whole n2 src2) = true /\ pr_oof (parse_whole n2 src2) = false /\
  pr_panic (parse_whole n2 src2) = false /\
  g_code (pr_prog (parse_whole n1 src1)) = g_code (pr_prog (parse_whole n2 src2)) /\
  g_consts (pr_prog (parse_whole n1 src1)) = g_consts (pr_prog (parse_whole n2 src2)).
Proof.
  intros n1 n2 pre d ws1 ws2 post HB HL1 HL2 src1 src2.
  apply layout_irrelevant. apply nopos_strip. apply layout_replace; assumption.
Qed.
Print Assumptions layout_replace_compiles.

Theorem leading_layout_compiles : forall n1 n2 ws post, layout ws ->
  pr_ok (parse_whole n1 (ws ++ post)) = true -> pr_oof (parse_whole n1 (ws ++ post)) = false ->
  pr_panic (parse_whole n1 (ws ++ post)) = false ->
  pr_ok (parse_whole n2 post) = true /\ pr_oof (parse_whole n2 post) = false /\
  pr_panic (parse_whole n2 post) = false /\
  g_code (pr_prog (parse_whole n1 (ws ++ post))) = g_code (pr_prog (parse_whole n2 post)) /\
  g_consts (pr_prog (parse_whole n1 (ws ++ post))) = g_consts (pr_prog (parse_whole n2 post)).
Proof.
  intros n1 n2 ws post HL. apply layout_irrelevant. apply nopos_strip. apply leading_layout. exact HL.
Qed.

(* ------------------------------------------------------------------ *)
(* 6. `boundary` by computation, examples                               *)

Definition at_boundary (d : bytes) (c : cur) : bool :=
  match before c, pending c with
  | [], [[]] => if list_eq_dec N.eq_dec (after c) d then true else false
  | _, _ => false
  end.

Fixpoint find_boundary (n fuel : nat) (d : bytes) (c : cur) : bool :=
  at_boundary d c ||
  match n with
  | O => false
  | S n' => let '(go, c1) := lex_start fuel c in if go then find_boundary n' fuel d c1 else false
  end.

Definition boundary_check (pre d : bytes) : bool :=
  let n := S (S (length (pre ++ d))) in find_boundary n n d (start (pre ++ d)).

Lemma at_boundary_sound : forall d c, at_boundary d c = true ->
  before c = [] /\ after c = d /\ pending c = [[]].
Proof.
  intros d c. unfold at_boundary.
  destruct (before c) as [|? ?]; [|discriminate].
  destruct (pending c) as [|[|? ?] [|? ?]]; try discriminate.
  destruct (list_eq_dec N.eq_dec (after c) d); [auto|discriminate].
Qed.

Lemma find_boundary_sound : forall n fuel d c, find_boundary n fuel d c = true ->
  exists k c', lex_steps k fuel c = Some c' /\ before c' = [] /\ after c' = d /\ pending c' = [[]].
Proof.
  induction n as [|n IH]; intros fuel d c H; cbn [find_boundary] in H;
    apply Bool.orb_true_iff in H; destruct H as [H|H].
  - exists 0%nat, c. split; [reflexivity|apply at_boundary_sound; exact H].
  - discriminate.
  - exists 0%nat, c. split; [reflexivity|apply at_boundary_sound; exact H].
  - destruct (lex_start fuel c) as [go c1] eqn:E. destruct go; [|discriminate].
    destruct (IH fuel d c1 H) as (k & c' & HS & HR).
    exists (S k), c'. split; [|exact HR]. cbn [lex_steps]. rewrite E. exact HS.
Qed.

Theorem boundary_check_sound : forall pre d, boundary_check pre d = true -> boundary pre d.
Proof.
  intros pre d H. apply find_boundary_sound in H. destruct H as (k & c & H). exists k, c. exact H.
Qed.

(* after a token that needs no look-ahead *)
Example boundary_semicolon : boundary (bs "x = 1;") [].
Proof. apply boundary_check_sound. vm_compute. reflexivity. Qed.
Example boundary_block : boundary (bs "def f(a) { print a; }") [].
Proof. apply boundary_check_sound. vm_compute. reflexivity. Qed.
(* after any other token, up to the first layout character *)
Example boundary_ident_space : boundary (bs "var x") (bs " ").
Proof. apply boundary_check_sound. vm_compute. reflexivity. Qed.
Example boundary_number_lf : boundary (bs "x = 12") [10].
Proof. apply boundary_check_sound. vm_compute. reflexivity. Qed.
Example boundary_string_hash : boundary (bs "print ""a b""") [35].
Proof. apply boundary_check_sound. vm_compute. reflexivity. Qed.
(* not in the middle of a token, of a string, of a comment; not where look-ahead is needed *)
Example boundary_negative :
  boundary_check (bs "x") [] = false /\ boundary_check (bs "a <") [] = false /\
  boundary_check (bs "print ""a;") [] = false /\ boundary_check (bs "# c;") [] = false /\
  boundary_check (bs "x = 1") (bs ".") = false.
Proof. vm_compute. repeat split. Qed.

Example layout_example :
  layout (bs "  " ++ [9; 194; 160] ++ bs "# a comment; ""x"" " ++ [13; 10] ++ bs "#" ++ [10] ++ bs "  ").
Proof.
  repeat first
    [ apply layout_nil
    | apply (layout_ws [32]); [unfold ws_char, ws_chars; cbn [In]; tauto|]
    | apply (layout_ws [9]); [unfold ws_char, ws_chars; cbn [In]; tauto|]
    | apply (layout_ws [10]); [unfold ws_char, ws_chars; cbn [In]; tauto|]
    | apply (layout_ws [194; 160]); [unfold ws_char, ws_chars; cbn [In]; tauto|]
    | apply (layout_comment (bs " a comment; ""x"" ") 13);
        [intros b Hb; cbn in Hb; repeat (destruct Hb as [<-|Hb]; [split; discriminate|]); contradiction|tauto|]
    | apply (layout_comment [] 10); [intros b []|tauto|] ].
Qed.

(* instances: any layout after `x = 1;`, before anything; any layout after the blank in `var x y` *)
Example insertion_after_semicolon : forall ws post, layout ws ->
  map strip (fst (lex [bs "x = 1;" ++ ws ++ post])) = map strip (fst (lex [bs "x = 1;" ++ post])).
Proof. intros. apply layout_insertion; [apply boundary_semicolon|assumption]. Qed.

Example extension_after_ident : forall ws post, layout ws ->
  map strip (fst (lex [bs "var x" ++ bs " " ++ ws ++ post])) = map strip (fst (lex [bs "var x" ++ bs " " ++ post])).
Proof.
  intros. apply layout_extension; [apply boundary_ident_space| |assumption].
  apply (layout_ws [32] []); [unfold ws_char, ws_chars; cbn [In]; tauto|apply layout_nil].
Qed.

(* the boundary hypothesis cannot be dropped: `a b` and `ab` *)
Example boundary_needed :
  map strip (fst (lex [bs "a" ++ bs " " ++ bs "b"])) <> map strip (fst (lex [bs "a" ++ bs "b"])).
Proof. vm_compute. discriminate. Qed.

(* a concrete check of the statement on both sides *)
Example layout_replace_instance :
  map strip (fst (lex [bs "x = 1;" ++ bs "  # one" ++ [10] ++ bs "y = ""a # b"";" ++ [10]])) =
  map strip (fst (lex [bs "x = 1;" ++ bs "y = ""a # b"";" ++ bs " # trailing"])).
Proof. vm_compute. reflexivity. Qed.

(* ------------------------------------------------------------------ *)
(* 7. any layout for any other                                          *)

(* Between two sources that differ in the layout after `pre`, the first layout character may
   differ as well (`x y` and `x<LF>y`).  One computation on `pre` covers all of them: for each of
   the nine ways a layout can begin -- the eight white-space characters and '#' -- the lexer comes
   to a boundary after `pre`, with the same tokens. *)
Definition first_runes : list bytes := ws_chars ++ [[35]].

Lemma layout_first : forall ws, layout ws -> ws <> [] -> exists d r, In d first_runes /\ ws = d ++ r.
Proof.
  intros ws [|p l Hp Hl|body e l Hb He Hl] Hne; [congruence| |].
  - exists p, l. split; [|reflexivity]. unfold first_runes. apply in_or_app. left. exact Hp.
  - exists [35], (body ++ e :: l). split; [|reflexivity]. unfold first_runes. apply in_or_app.
    right. left. reflexivity.
Qed.

Fixpoint find_boundary_cur (n fuel : nat) (d : bytes) (c : cur) : option (nat * cur) :=
  if at_boundary d c then Some (0%nat, c) else
  match n with
  | O => None
  | S n' => let '(go, c1) := lex_start fuel c in
            if go then match find_boundary_cur n' fuel d c1 with
                       | Some (k, c') => Some (S k, c') | None => None end
            else None
  end.

Definition boundary_cur (pre d : bytes) : option (nat * cur) :=
  let n := S (S (length (pre ++ d))) in find_boundary_cur n n d (start (pre ++ d)).

Lemma find_boundary_cur_sound : forall n fuel d c k c', find_boundary_cur n fuel d c = Some (k, c') ->
  lex_steps k fuel c = Some c' /\ before c' = [] /\ after c' = d /\ pending c' = [[]].
Proof.
  induction n as [|n IH]; intros fuel d c k c' H; cbn [find_boundary_cur] in H;
    destruct (at_boundary d c) eqn:EA.
  - injection H as <- <-. split; [reflexivity|apply at_boundary_sound; exact EA].
  - discriminate.
  - injection H as <- <-. split; [reflexivity|apply at_boundary_sound; exact EA].
  - destruct (lex_start fuel c) as [go c1] eqn:E. destruct go; [|discriminate].
    destruct (find_boundary_cur n fuel d c1) as [[k1 c1']|] eqn:E1; [|discriminate].
    injection H as <- <-. destruct (IH fuel d c1 k1 c1' E1) as (HS & HR).
    split; [|exact HR]. cbn [lex_steps]. rewrite E. exact HS.
Qed.

Lemma boundary_cur_sound : forall pre d k c, boundary_cur pre d = Some (k, c) -> boundary_at pre d k c.
Proof. intros pre d k c H. apply find_boundary_cur_sound in H. exact H. Qed.

Lemma tok_eqb_eq : forall a b, tok_eqb a b = true -> a = b.
Proof. intros a b H. destruct a, b; try reflexivity; discriminate H. Qed.

Definition tok_same (a b : token) : bool :=
  tok_eqb (ttyp a) (ttyp b) && (if list_eq_dec N.eq_dec (tval a) (tval b) then true else false) &&
  match terr a, terr b with None, None => true | _, _ => false end.

Fixpoint outs_same (l1 l2 : list token) : bool :=
  match l1, l2 with
  | [], [] => true
  | a :: r1, b :: r2 => tok_same a b && outs_same r1 r2
  | _, _ => false
  end.

Lemma outs_same_sound : forall l1 l2, outs_same l1 l2 = true -> map nopos l1 = map nopos l2.
Proof.
  induction l1 as [|a l1 IH]; intros [|b l2] H; try discriminate H; [reflexivity|].
  cbn [outs_same] in H. apply andb_prop in H. destruct H as [H1 H2].
  cbn [map]. rewrite (IH _ H2). f_equal.
  unfold tok_same in H1. apply andb_prop in H1. destruct H1 as [H1 H3].
  apply andb_prop in H1. destruct H1 as [H0 H1]. apply tok_eqb_eq in H0.
  destruct (list_eq_dec N.eq_dec (tval a) (tval b)) as [Ev|]; [|discriminate H1].
  unfold nopos. rewrite H0, Ev. destruct (terr a), (terr b); try discriminate H3. reflexivity.
Qed.

(* `none` = true: the layout after pre may also be empty (pre ends in a token without look-ahead) *)
Definition sep_check (none : bool) (pre : bytes) : bool :=
  match boundary_cur pre [32] with
  | None => false
  | Some (_, c0) =>
      forallb (fun d => match boundary_cur pre d with
                        | Some (_, c) => outs_same (out c) (out c0) | None => false end)
              (if none then [] :: first_runes else first_runes)
  end.

Lemma sep_check_sound : forall none pre, sep_check none pre = true ->
  exists O, forall d, In d (if none then [] :: first_runes else first_runes) ->
    exists k c, boundary_at pre d k c /\ map nopos (out c) = O.
Proof.
  intros none pre H. unfold sep_check in H.
  destruct (boundary_cur pre [32]) as [[k0 c0]|]; [|discriminate H].
  exists (map nopos (out c0)). intros d Hd.
  rewrite forallb_forall in H. specialize (H d Hd).
  destruct (boundary_cur pre d) as [[k c]|] eqn:E; [|discriminate H].
  exists k, c. split; [apply boundary_cur_sound; exact E|apply outs_same_sound; exact H].
Qed.

Lemma sync_two : forall pre d1 d2 r1 r2 post k1 k2 c1 c2,
  boundary_at pre d1 k1 c1 -> boundary_at pre d2 k2 c2 -> map nopos (out c1) = map nopos (out c2) ->
  layout (d1 ++ r1) -> layout (d2 ++ r2) ->
  map nopos (fst (lex [pre ++ (d1 ++ r1) ++ post])) = map nopos (fst (lex [pre ++ (d2 ++ r2) ++ post])).
Proof.
  intros pre d1 d2 r1 r2 post k1 k2 c1 c2 HB1 HB2 HO HL1 HL2.
  destruct (boundary_reaches pre d1 k1 c1 HB1 (r1 ++ post)) as (c1' & R1 & B1 & U1 & O1).
  destruct (boundary_reaches pre d2 k2 c2 HB2 (r2 ++ post)) as (c2' & R2 & B2 & U2 & O2).
  rewrite <- !app_assoc in R1, R2. rewrite app_assoc in U1, U2.
  apply (layout_sync pre pre (d1 ++ r1) (d2 ++ r2) post k1 k2 c1' c2'); auto;
    try (rewrite <- app_assoc; assumption). congruence.
Qed.

(* after pre, any non-empty layout is as good as any other *)
Theorem layout_any : forall pre ws1 ws2 post,
  sep_check false pre = true -> layout ws1 -> ws1 <> [] -> layout ws2 -> ws2 <> [] ->
  map strip (fst (lex [pre ++ ws1 ++ post])) = map strip (fst (lex [pre ++ ws2 ++ post])).
Proof.
  intros pre ws1 ws2 post H HL1 N1 HL2 N2. apply nopos_strip.
  destruct (sep_check_sound false pre H) as (O & HO).
  destruct (layout_first ws1 HL1 N1) as (d1 & r1 & I1 & E1).
  destruct (layout_first ws2 HL2 N2) as (d2 & r2 & I2 & E2).
  destruct (HO d1 I1) as (k1 & c1 & HB1 & O1). destruct (HO d2 I2) as (k2 & c2 & HB2 & O2).
  subst ws1 ws2. eapply sync_two; eauto. congruence.
Qed.
Print Assumptions layout_any.

(* ... and after a token without look-ahead, as good as none *)
Theorem layout_any_or_none : forall pre ws1 ws2 post,
  sep_check true pre = true -> layout ws1 -> layout ws2 ->
  map strip (fst (lex [pre ++ ws1 ++ post])) = map strip (fst (lex [pre ++ ws2 ++ post])).
Proof.
  intros pre ws1 ws2 post H HL1 HL2. apply nopos_strip.
  destruct (sep_check_sound true pre H) as (O & HO).
  assert (G : forall ws, layout ws -> exists d r, In d ([] :: first_runes) /\ ws = d ++ r).
  { intros ws HL. destruct ws as [|b ws'] eqn:E.
    - exists [], []. split; [left; reflexivity|reflexivity].
    - rewrite <- E in *. destruct (layout_first ws HL) as (d & r & I & E'); [congruence|].
      exists d, r. split; [right; exact I|exact E']. }
  destruct (G ws1 HL1) as (d1 & r1 & I1 & E1). destruct (G ws2 HL2) as (d2 & r2 & I2 & E2).
  destruct (HO d1 I1) as (k1 & c1 & HB1 & O1). destruct (HO d2 I2) as (k2 & c2 & HB2 & O2).
  subst ws1 ws2. eapply sync_two; eauto. congruence.
Qed.
Print Assumptions layout_any_or_none.

Theorem layout_any_compiles : forall n1 n2 pre ws1 ws2 post,
  sep_check false pre = true -> layout ws1 -> ws1 <> [] -> layout ws2 -> ws2 <> [] ->
  let src1 := pre ++ ws1 ++ post in
  let src2 := pre ++ ws2 ++ post in
  pr_ok (parse_whole n1 src1) = true -> pr_oof (parse_whole n1 src1) = false ->
  pr_panic (parse_whole n1 src1) = false ->
  pr_ok (parse_whole n2 src2) = true /\ pr_oof (parse_whole n2 src2) = false /\
  pr_panic (parse_whole n2 src2) = false /\
  g_code (pr_prog (parse_whole n1 src1)) = g_code (pr_prog (parse_whole n2 src2)) /\
  g_consts (pr_prog (parse_whole n1 src1)) = g_consts (pr_prog (parse_whole n2 src2)).
Proof.
  intros n1 n2 pre ws1 ws2 post H HL1 N1 HL2 N2 src1 src2.
  apply layout_irrelevant. apply layout_any; assumption.
Qed.

Theorem layout_any_or_none_compiles : forall n1 n2 pre ws1 ws2 post,
  sep_check true pre = true -> layout ws1 -> layout ws2 ->
  let src1 := pre ++ ws1 ++ post in
  let src2 := pre ++ ws2 ++ post in
  pr_ok (parse_whole n1 src1) = true -> pr_oof (parse_whole n1 src1) = false ->
  pr_panic (parse_whole n1 src1) = false ->
  pr_ok (parse_whole n2 src2) = true /\ pr_oof (parse_whole n2 src2) = false /\
  pr_panic (parse_whole n2 src2) = false /\
  g_code (pr_prog (parse_whole n1 src1)) = g_code (pr_prog (parse_whole n2 src2)) /\
  g_consts (pr_prog (parse_whole n1 src1)) = g_consts (pr_prog (parse_whole n2 src2)).
Proof.
  intros n1 n2 pre ws1 ws2 post H HL1 HL2 src1 src2.
  apply layout_irrelevant. apply layout_any_or_none; assumption.
Qed.
Print Assumptions layout_any_or_none_compiles.

(* after an identifier, a number, a string, a keyword, an operator with look-ahead: any non-empty
   layout; after ; { } ( ) : + * / also none; never inside a token, a string or a comment *)
Example sep_examples :
  sep_check false (bs "var x") = true /\ sep_check false (bs "x = 12") = true /\
  sep_check false (bs "x = 1.5e3") = true /\ sep_check false (bs "print ""a # b""") = true /\
  sep_check false (bs "a <") = true /\ sep_check false (bs "a and") = true /\
  sep_check true (bs "x = 1;") = true /\ sep_check true (bs "def f(") = true /\
  sep_check true (bs "def f(a) {") = true /\ sep_check true (bs "a +") = true /\
  sep_check true [] = true /\
  sep_check true (bs "var x") = false /\ sep_check true (bs "a <") = false /\
  sep_check false (bs "print ""a") = false /\ sep_check false (bs "x # c") = false.
Proof. vm_compute. repeat split. Qed.

Example any_after_ident : forall ws1 ws2 post, layout ws1 -> ws1 <> [] -> layout ws2 -> ws2 <> [] ->
  map strip (fst (lex [bs "var x" ++ ws1 ++ post])) = map strip (fst (lex [bs "var x" ++ ws2 ++ post])).
Proof. intros. apply layout_any; try assumption. vm_compute. reflexivity. Qed.
