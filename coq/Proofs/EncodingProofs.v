(* EncodingProofs.v: round trips and totality/prefix facts for Model/Encoding.v *)
From Coq Require Import Lia ZifyN ZifyNat ZifyBool.
From BCL Require Import Model.Encoding.
Open Scope N_scope.
Ltac Zify.zify_post_hook ::= Z.div_mod_to_equations.

(* ---------- take / firstn ---------- *)

Lemma take_spec {A} : forall k (l : list A),
  take k l = if (k <=? length l)%nat then Some (firstn k l) else None.
Proof.
  induction k as [|k IH]; intros l.
  - reflexivity.
  - destruct l as [|x r]; [reflexivity|].
    cbn [take length firstn]. rewrite IH.
    change (S k <=? S (length r))%nat with (k <=? length r)%nat.
    destruct (k <=? length r)%nat; reflexivity.
Qed.

Lemma firstn_app_exact {A} (l r : list A) : firstn (length l) (l ++ r) = l.
Proof. induction l; cbn; congruence. Qed.

Lemma skipn_app_exact {A} (l r : list A) : skipn (length l) (l ++ r) = r.
Proof. induction l; cbn; congruence. Qed.

Lemma take_app_exact {A} (l r : list A) : take (length l) (l ++ r) = Some l.
Proof.
  rewrite take_spec, app_length.
  destruct (length l <=? length l + length r)%nat eqn:E; [|lia].
  rewrite firstn_app_exact. reflexivity.
Qed.

Lemma take_some {A} k (l t : list A) :
  take k l = Some t -> (k <= length l)%nat /\ t = firstn k l.
Proof.
  rewrite take_spec. destruct (k <=? length l)%nat eqn:E; [|discriminate].
  intros H. inversion H. split; [lia|reflexivity].
Qed.

Lemma take_total {A} k (l : list A) :
  (k <= length l)%nat -> take k l = Some (firstn k l).
Proof.
  intros H. rewrite take_spec. destruct (k <=? length l)%nat eqn:E; [reflexivity|lia].
Qed.

Lemma take_prefix {A} k (l e t : list A) :
  take k l = Some t -> take k (l ++ e) = Some t.
Proof.
  intros H. apply take_some in H. destruct H as [Hk ->].
  rewrite take_total by (rewrite app_length; lia).
  rewrite firstn_app. replace (k - length l)%nat with O by lia.
  cbn [firstn]. rewrite app_nil_r. reflexivity.
Qed.

(* ---------- big endian ---------- *)

Lemma fold_be_acc : forall l a, fold_left (fun a b => a * 256 + b) l a
                               = a * 256 ^ N.of_nat (length l) + from_be l.
Proof.
  unfold from_be. induction l as [|b l IH]; intros a; cbn [fold_left length].
  - cbn. lia.
  - rewrite IH. rewrite (IH (0 * 256 + b)).
    rewrite Nat2N.inj_succ, N.pow_succ_r'. lia.
Qed.

Lemma be_length k n : length (be k n) = k.
Proof. induction k; cbn [be length]; congruence. Qed.

Lemma from_be_be_mod : forall k n, from_be (be k n) = n mod 256 ^ N.of_nat k.
Proof.
  induction k as [|k IH]; intros n.
  - cbn. rewrite N.mod_1_r. reflexivity.
  - cbn [be]. unfold from_be. cbn [fold_left].
    rewrite fold_be_acc, be_length, IH.
    rewrite Nat2N.inj_succ, N.pow_succ_r'.
    set (P := 256 ^ N.of_nat k).
    assert (HP : 0 < P) by (apply N.neq_0_lt_0, N.pow_nonzero; lia).
    rewrite (N.mul_comm 256 P), N.mod_mul_r by lia.
    lia.
Qed.

Theorem from_be_be : forall k n, n < 256 ^ N.of_nat k -> from_be (be k n) = n.
Proof. intros k n H. rewrite from_be_be_mod, N.mod_small by exact H. reflexivity. Qed.

Lemma bytes_be k n : Forall (fun b => b < 256) (be k n).
Proof. induction k; cbn [be]; constructor; auto. apply N.mod_lt. lia. Qed.

(* ---------- uvarint ---------- *)

Lemma dec_enc_be k c x rest :
  (3 <= k <= 8)%nat -> c = N.of_nat k + 247 -> x < 256 ^ N.of_nat k ->
  uv_dec ((c :: be k x) ++ rest) = Some (x, S k).
Proof.
  intros Hk -> Hx. cbn [app uv_dec].
  destruct (N.of_nat k + 247 <=? 240) eqn:E1; [lia|].
  destruct (N.of_nat k + 247 <=? 248) eqn:E2; [lia|].
  destruct (N.of_nat k + 247 =? 249) eqn:E3; [lia|].
  replace (N.to_nat (N.of_nat k + 247 - 247)) with k by lia.
  rewrite <- (be_length k x) at 1. rewrite take_app_exact.
  rewrite from_be_be by exact Hx. reflexivity.
Qed.

Lemma dec_249 a1 a2 r : uv_dec (249 :: a1 :: a2 :: r) = Some (2288 + 256 * a1 + a2, 3%nat).
Proof. reflexivity. Qed.

Theorem uvarint_roundtrip : forall x rest, x < 2^64 ->
  uv_dec (uv_enc x ++ rest) = Some (x, length (uv_enc x)).
Proof.
  intros x rest Hx. unfold uv_enc.
  destruct (x <? 241) eqn:C1.
  { cbn [app uv_dec length]. destruct (x <=? 240) eqn:E; [reflexivity|lia]. }
  destruct (x <? 2288) eqn:C2.
  { cbn [app uv_dec length].
    destruct ((x - 240) / 256 + 241 <=? 240) eqn:E1; [lia|].
    destruct ((x - 240) / 256 + 241 <=? 248) eqn:E2; [|lia].
    f_equal. f_equal. lia. }
  destruct (x <? 67824) eqn:C3.
  { cbn [app length]. rewrite dec_249. f_equal. f_equal. lia. }
  destruct (x <? 2^24) eqn:C4.
  { cbn [length]. rewrite be_length. apply dec_enc_be; [lia|reflexivity|]. cbn. lia. }
  destruct (x <? 2^32) eqn:C5.
  { cbn [length]. rewrite be_length. apply dec_enc_be; [lia|reflexivity|]. cbn. lia. }
  destruct (x <? 2^40) eqn:C6.
  { cbn [length]. rewrite be_length. apply dec_enc_be; [lia|reflexivity|]. cbn. lia. }
  destruct (x <? 2^48) eqn:C7.
  { cbn [length]. rewrite be_length. apply dec_enc_be; [lia|reflexivity|]. cbn. lia. }
  destruct (x <? 2^56) eqn:C8.
  { cbn [length]. rewrite be_length. apply dec_enc_be; [lia|reflexivity|]. cbn. lia. }
  cbn [length]. rewrite be_length. apply dec_enc_be; [lia|reflexivity|]. cbn. lia.
Qed.
Print Assumptions uvarint_roundtrip.

Theorem uv_enc_length : forall x, (1 <= length (uv_enc x) <= 9)%nat.
Proof.
  intros x. unfold uv_enc.
  repeat match goal with
  | |- context [if ?c then _ else _] => destruct c
  end; cbn [length]; rewrite ?be_length; lia.
Qed.
Print Assumptions uv_enc_length.

Theorem uv_enc_bytes : forall x, x < 2^64 -> Forall (fun b => b < 256) (uv_enc x).
Proof.
  intros x Hx. unfold uv_enc.
  destruct (x <? 241) eqn:C1.
  { repeat constructor. lia. }
  destruct (x <? 2288) eqn:C2.
  { repeat constructor; lia. }
  destruct (x <? 67824) eqn:C3.
  { repeat constructor; lia. }
  repeat match goal with
  | |- context [if ?c then _ else _] => destruct c
  end; (constructor; [lia|apply bytes_be]).
Qed.
Print Assumptions uv_enc_bytes.

Lemma uv_size_cons b0 r r' : uv_size (b0 :: r) = uv_size (b0 :: r').
Proof. reflexivity. Qed.

Lemma uv_size_const c r : 249 <= c <= 255 -> uv_size (c :: r) = N.to_nat (c - 246).
Proof.
  intros H. cbn [uv_size].
  destruct (c <=? 240) eqn:E1; [lia|].
  destruct (c <=? 248) eqn:E2; [lia|]. reflexivity.
Qed.

Theorem uv_size_enc : forall x rest, x < 2^64 ->
  uv_size (uv_enc x ++ rest) = length (uv_enc x).
Proof.
  intros x rest Hx. unfold uv_enc.
  destruct (x <? 241) eqn:C1.
  { cbn [app uv_size length]. destruct (x <=? 240) eqn:E; [reflexivity|lia]. }
  destruct (x <? 2288) eqn:C2.
  { cbn [app uv_size length].
    destruct ((x - 240) / 256 + 241 <=? 240) eqn:E1; [lia|].
    destruct ((x - 240) / 256 + 241 <=? 248) eqn:E2; [reflexivity|lia]. }
  destruct (x <? 67824) eqn:C3.
  { reflexivity. }
  repeat match goal with
  | |- context [if ?c then _ else _] => destruct c
  end; cbn [app length]; rewrite be_length, uv_size_const by lia; reflexivity.
Qed.
Print Assumptions uv_size_enc.

(* the bytes < 256 hypothesis of the task statement is not needed *)
Theorem uv_dec_total : forall p, (uv_size p <= length p)%nat ->
  exists x n, uv_dec p = Some (x, n) /\ n = uv_size p.
Proof.
  intros p H. destruct p as [|b0 r]; [cbn in H; lia|].
  cbn [uv_size uv_dec length] in *.
  destruct (b0 <=? 240) eqn:E1; [eauto|].
  destruct (b0 <=? 248) eqn:E2.
  { destruct r as [|a1 r]; [cbn in H; lia|]. eauto. }
  destruct (b0 =? 249) eqn:E3.
  { apply N.eqb_eq in E3. subst b0.
    destruct r as [|a1 [|a2 r]]; cbn in H; try lia. eauto. }
  rewrite take_total by lia.
  eexists _, _. split; [reflexivity|]. lia.
Qed.
Print Assumptions uv_dec_total.

Lemma uv_dec_le : forall p x n, uv_dec p = Some (x, n) -> (1 <= n <= length p)%nat.
Proof.
  intros p x n H. destruct p as [|b0 r]; [discriminate|].
  cbn [uv_dec length] in *.
  destruct (b0 <=? 240); [inversion H; lia|].
  destruct (b0 <=? 248).
  { destruct r; inversion H. cbn [length]. lia. }
  destruct (b0 =? 249).
  { destruct r as [|a1 [|a2 r]]; inversion H. cbn [length]. lia. }
  destruct (take (N.to_nat (b0 - 247)) r) eqn:T; [|discriminate].
  apply take_some in T. inversion H. lia.
Qed.

Lemma uv_dec_size : forall p x n, uv_dec p = Some (x, n) -> n = uv_size p.
Proof.
  intros p x n H. destruct p as [|b0 r]; [discriminate|].
  cbn [uv_dec uv_size] in *.
  destruct (b0 <=? 240) eqn:E1; [inversion H; lia|].
  destruct (b0 <=? 248) eqn:E2.
  { destruct r; inversion H. reflexivity. }
  destruct (b0 =? 249) eqn:E3.
  { destruct r as [|a1 [|a2 r]]; inversion H. lia. }
  destruct (take (N.to_nat (b0 - 247)) r) eqn:T; [|discriminate].
  inversion H. lia.
Qed.

Theorem uv_dec_prefix : forall p ext x n,
  uv_dec p = Some (x, n) -> uv_dec (p ++ ext) = Some (x, n).
Proof.
  intros p ext x n H. destruct p as [|b0 r]; [discriminate|].
  cbn [app uv_dec] in *.
  destruct (b0 <=? 240); [exact H|].
  destruct (b0 <=? 248).
  { destruct r; [discriminate|exact H]. }
  destruct (b0 =? 249).
  { destruct r as [|a1 [|a2 r]]; try discriminate. exact H. }
  destruct (take (N.to_nat (b0 - 247)) r) eqn:T; [|discriminate].
  rewrite (take_prefix _ _ ext _ T). exact H.
Qed.
Print Assumptions uv_dec_prefix.

Theorem uv_size_prefix : forall p ext, p <> [] -> uv_size (p ++ ext) = uv_size p.
Proof. intros p ext H. destruct p; [congruence|reflexivity]. Qed.
Print Assumptions uv_size_prefix.

(* ---------- two's complement ---------- *)

Theorem i64_u64_roundtrip : forall z, (-2^63 <= z < 2^63)%Z ->
  u64_to_i64 (i64_to_u64 z) = z.
Proof.
  intros z Hz. unfold u64_to_i64, i64_to_u64.
  change (2^63)%Z with 9223372036854775808%Z in *.
  change (2^64)%Z with 18446744073709551616%Z in *.
  change (2^63) with 9223372036854775808.
  destruct (Z.to_N (z mod 18446744073709551616) <? 9223372036854775808) eqn:E; lia.
Qed.
Print Assumptions i64_u64_roundtrip.

Theorem i64_to_u64_lt : forall z, i64_to_u64 z < 2^64.
Proof.
  intros z. unfold i64_to_u64.
  change (2^64)%Z with 18446744073709551616%Z.
  change (2^64) with 18446744073709551616. lia.
Qed.
Print Assumptions i64_to_u64_lt.

(* ---------- values ---------- *)

Definition wf_value (v : value) : Prop :=
  match v with
  | VNil => True
  | VBool _ => True
  | VInt z => (-2^63 <= z < 2^63)%Z
  | VFloat b => b < 2^64
  | VStr s => nlen s < 2^64
  | VBlock _ _ _ => False
  end.

(* the scratch buffer is big enough for v *)
Definition plen_ok (plen : N) (v : value) : Prop :=
  match v with VStr s => 1 + 9 + nlen s <= plen | _ => True end.

Theorem value_roundtrip : forall v plen rest, wf_value v -> plen_ok plen v ->
  exists b, value_enc plen v = Ok b /\ value_dec (b ++ rest) = Ok (v, length b).
Proof.
  intros v plen rest Hwf Hp. destruct v as [| b | z | bits | s | ty nm fs];
    cbn [wf_value plen_ok] in *.
  - (* nil *) eexists. split; reflexivity.
  - (* bool *) eexists. split; [reflexivity|]. destruct b; reflexivity.
  - (* int *)
    eexists. split; [reflexivity|].
    cbn [app value_dec]. change (1 =? 1) with true. cbv iota.
    rewrite uvarint_roundtrip by apply i64_to_u64_lt.
    rewrite i64_u64_roundtrip by exact Hwf. reflexivity.
  - (* float *)
    eexists. split; [reflexivity|].
    cbn [app value_dec]. change (2 =? 1) with false. change (2 =? 2) with true. cbv iota.
    rewrite <- (be_length 8 bits) at 1. rewrite take_app_exact.
    rewrite from_be_be by exact Hwf.
    cbn [length]. rewrite be_length. reflexivity.
  - (* str *)
    cbn [value_enc].
    pose proof (uv_enc_length (nlen s)) as HL.
    destruct (plen <? 1 + nlen (uv_enc (nlen s)) + nlen s) eqn:E.
    { unfold nlen in *. lia. }
    eexists. split; [reflexivity|].
    cbn [app value_dec].
    change (3 =? 1) with false. change (3 =? 2) with false. change (3 =? 3) with true.
    cbv iota.
    rewrite <- app_assoc. rewrite uvarint_roundtrip by exact Hwf.
    rewrite skipn_app_exact.
    replace (N.to_nat (nlen s)) with (length s) by (unfold nlen; lia).
    rewrite take_app_exact.
    cbn [length]. rewrite app_length. reflexivity.
  - contradiction.
Qed.
Print Assumptions value_roundtrip.
