(* Tie obligation: no package-level variable of the library is assigned outside init(). *)
From Coq Require Import List Bool String.
From BCL Require Gen.GenTables Spec.Pinned.
Lemma tie_globals : GenTables.globals_written_after_init = Pinned.globals_written_after_init.
Proof. reflexivity. Qed.
Lemma no_global_written : forallb (fun p => negb (snd p)) Pinned.globals_written_after_init = true.
Proof. reflexivity. Qed.
(* Tie obligation: the execution side never assigns through a Prog. *)
Lemma tie_prog_readonly : GenTables.prog_writes_in_execution = Pinned.prog_writes_in_execution.
Proof. reflexivity. Qed.
Lemma prog_readonly_in_execution : Pinned.prog_writes_in_execution = nil.
Proof. reflexivity. Qed.
