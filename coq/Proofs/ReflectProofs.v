(* ReflectProofs.v: proofs about the model of Bind (Model/Reflect.v).
   C16 (key order irrelevant), C15 (totality, errors, faithfulness, slice atomicity), C05 (round trip). *)
From Coq Require Import Lia Permutation Sorted Bool.
From BCL Require Import Model.Reflect.
Open Scope N_scope.

(* ================================================================== *)
(** * bytes_eqb / bytes_ltb : decidable equality and a strict total order *)
Section BytesOrder.

Lemma bytes_eqb_refl : forall a, bytes_eqb a a = true.
Proof. induction a as [|x a IH]; cbn; [reflexivity|]. rewrite N.eqb_refl, IH. reflexivity. Qed.

Lemma bytes_eqb_eq : forall a b, bytes_eqb a b = true <-> a = b.
Proof.
  induction a as [|x a IH]; destruct b as [|y b]; cbn; split; intro H; try congruence; try reflexivity.
  - apply andb_true_iff in H. destruct H as [H1 H2]. apply N.eqb_eq in H1. apply IH in H2. congruence.
  - inversion H; subst. rewrite N.eqb_refl. apply bytes_eqb_refl.
Qed.

Lemma bytes_eqb_neq : forall a b, bytes_eqb a b = false <-> a <> b.
Proof.
  intros a b. split; intro H.
  - intro E. apply bytes_eqb_eq in E. congruence.
  - destruct (bytes_eqb a b) eqn:E; [|reflexivity]. apply bytes_eqb_eq in E. contradiction.
Qed.

Lemma bytes_eqb_sym : forall a b, bytes_eqb a b = bytes_eqb b a.
Proof.
  intros a b. destruct (bytes_eqb a b) eqn:E.
  - apply bytes_eqb_eq in E. subst. symmetry. apply bytes_eqb_refl.
  - symmetry. apply bytes_eqb_neq. apply bytes_eqb_neq in E. congruence.
Qed.

Lemma bytes_ltb_irrefl : forall a, bytes_ltb a a = false.
Proof. induction a as [|x a IH]; cbn; [reflexivity|]. rewrite N.ltb_irrefl. exact IH. Qed.

Lemma bytes_ltb_trans : forall a b c, bytes_ltb a b = true -> bytes_ltb b c = true -> bytes_ltb a c = true.
Proof.
  induction a as [|x a IH]; intros [|y b] [|z c] Hab Hbc; cbn in *; try congruence.
  destruct (N.ltb_spec x y) as [Hxy|Hxy].
  - destruct (N.ltb_spec y z) as [Hyz|Hyz].
    + destruct (N.ltb_spec x z); [reflexivity|lia].
    + destruct (N.ltb_spec z y) as [Hzy|Hzy]; [congruence|].
      assert (y = z) by lia. subst. destruct (N.ltb_spec x z); [reflexivity|lia].
  - destruct (N.ltb_spec y x) as [Hyx|Hyx]; [congruence|].
    assert (x = y) by lia. subst y.
    destruct (N.ltb_spec x z) as [Hxz|Hxz]; [reflexivity|].
    destruct (N.ltb_spec z x) as [Hzx|Hzx]; [congruence|].
    eapply IH; eassumption.
Qed.

Lemma bytes_ltb_asym : forall a b, bytes_ltb a b = true -> bytes_ltb b a = false.
Proof.
  intros a b H. destruct (bytes_ltb b a) eqn:E; [|reflexivity].
  pose proof (bytes_ltb_trans _ _ _ H E) as K. rewrite bytes_ltb_irrefl in K. discriminate.
Qed.

Lemma bytes_ltb_total : forall a b, bytes_ltb a b = false -> bytes_ltb b a = false -> a = b.
Proof.
  induction a as [|x a IH]; intros [|y b] H1 H2; cbn in *; try congruence.
  destruct (N.ltb_spec x y); [congruence|]. destruct (N.ltb_spec y x); [congruence|].
  assert (x = y) by lia. subst. f_equal. apply IH; assumption.
Qed.

(* trichotomy in one statement *)
Lemma bytes_ltb_trichotomy : forall a b,
  (bytes_ltb a b = true /\ bytes_eqb a b = false /\ bytes_ltb b a = false) \/
  (bytes_ltb a b = false /\ bytes_eqb a b = true /\ bytes_ltb b a = false) \/
  (bytes_ltb a b = false /\ bytes_eqb a b = false /\ bytes_ltb b a = true).
Proof.
  intros a b. destruct (bytes_ltb a b) eqn:E1.
  - left. split; [reflexivity|]. split; [|apply bytes_ltb_asym; exact E1].
    apply bytes_eqb_neq. intro; subst. rewrite bytes_ltb_irrefl in E1. discriminate.
  - destruct (bytes_ltb b a) eqn:E2.
    + right; right. split; [reflexivity|]. split; [|reflexivity].
      apply bytes_eqb_neq. intro; subst. rewrite bytes_ltb_irrefl in E2. discriminate.
    + right; left. split; [reflexivity|]. split; [|reflexivity].
      apply bytes_eqb_eq. apply bytes_ltb_total; assumption.
Qed.

End BytesOrder.

(* ================================================================== *)
(** * C16: sorting the keys makes the enumeration order irrelevant *)
Section SortedCanonical.

Lemma insert_key_comm : forall k1 v1 k2 v2 l, k1 <> k2 ->
  insert_key k1 v1 (insert_key k2 v2 l) = insert_key k2 v2 (insert_key k1 v1 l).
Proof.
  intros k1 v1 k2 v2 l Hne.
  assert (Hx : bytes_ltb k1 k2 = true /\ bytes_ltb k2 k1 = false \/ bytes_ltb k1 k2 = false /\ bytes_ltb k2 k1 = true).
  { destruct (bytes_ltb_trichotomy k1 k2) as [(A & B & C)|[(A & B & C)|(A & B & C)]]; auto.
    apply bytes_eqb_eq in B. contradiction. }
  induction l as [|[k' v'] r IH]; cbn.
  - destruct Hx as [[A B]|[A B]]; rewrite A, B; reflexivity.
  - destruct (bytes_ltb k2 k') eqn:E2; destruct (bytes_ltb k1 k') eqn:E1; cbn; rewrite ?E1, ?E2.
    + destruct Hx as [[A B]|[A B]]; rewrite A, B; reflexivity.
    + (* k2 < k', not k1 < k' : so k2 < k1 *)
      destruct Hx as [[A B]|[A B]]; rewrite A.
      * rewrite (bytes_ltb_trans _ _ _ A E2) in E1. discriminate.
      * reflexivity.
    + destruct Hx as [[A B]|[A B]]; rewrite B.
      * reflexivity.
      * rewrite (bytes_ltb_trans _ _ _ B E1) in E2. discriminate.
    + rewrite IH. reflexivity.
Qed.

Lemma NoDup_swap_hd {A} (x y : A) l : NoDup (x :: y :: l) -> x <> y.
Proof. intros H E. inversion H as [|? ? Hn _]; subst. apply Hn. left. reflexivity. Qed.

Lemma sorted_fields_cons : forall kv l,
  sorted_fields (kv :: l) = insert_key (fst kv) (snd kv) (sorted_fields l).
Proof. reflexivity. Qed.

Theorem C16_sorted_canonical : forall l1 l2,
  Permutation l1 l2 -> NoDup (map fst l1) -> sorted_fields l1 = sorted_fields l2.
Proof.
  intros l1 l2 HP. induction HP as [|x l l' HP IH|x y l|l l' l'' HP1 IH1 HP2 IH2]; intros Hnd.
  - reflexivity.
  - rewrite !sorted_fields_cons. inversion Hnd; subst. rewrite IH by assumption. reflexivity.
  - rewrite !sorted_fields_cons. cbn in Hnd. apply insert_key_comm. apply NoDup_swap_hd in Hnd. congruence.
  - rewrite IH1 by assumption. apply IH2.
    eapply Permutation_NoDup; [|exact Hnd]. apply Permutation_map. exact HP1.
Qed.

Lemma insert_key_perm : forall k v l, Permutation (insert_key k v l) ((k, v) :: l).
Proof.
  intros k v l. induction l as [|[k' v'] r IH]; cbn; [apply Permutation_refl|].
  destruct (bytes_ltb k k'); [apply Permutation_refl|].
  eapply perm_trans; [apply perm_skip; exact IH|apply perm_swap].
Qed.

Lemma sorted_fields_perm : forall l, Permutation (sorted_fields l) l.
Proof.
  induction l as [|[k v] r IH]; [constructor|]. rewrite sorted_fields_cons.
  eapply perm_trans; [apply insert_key_perm|]. apply perm_skip. exact IH.
Qed.

Lemma sorted_fields_in : forall l kv, In kv (sorted_fields l) <-> In kv l.
Proof.
  intros l kv. split; apply Permutation_in; [|apply Permutation_sym]; apply sorted_fields_perm.
Qed.

(* the result is indeed sorted (not needed for canonicity, recorded for the record) *)
Definition key_le (a b : bytes * value) : Prop := bytes_ltb (fst b) (fst a) = false.

Lemma insert_key_sorted : forall k v l, StronglySorted key_le l -> StronglySorted key_le (insert_key k v l).
Proof.
  intros k v l H. induction H as [|[k' v'] r Hr IH Hall]; cbn.
  - constructor; constructor.
  - destruct (bytes_ltb k k') eqn:E.
    + constructor; [constructor; assumption|]. constructor.
      * unfold key_le; cbn. apply bytes_ltb_asym. exact E.
      * rewrite Forall_forall in *. intros [k2 v2] Hin. specialize (Hall _ Hin).
        unfold key_le in *; cbn in *.
        destruct (bytes_ltb k2 k) eqn:E2; [|reflexivity].
        rewrite (bytes_ltb_trans _ _ _ E2 E) in Hall. discriminate.
    + constructor; [exact IH|].
      rewrite Forall_forall in *. intros kv Hin.
      apply (Permutation_in _ (insert_key_perm k v r)) in Hin. destruct Hin as [<-|Hin].
      * unfold key_le; cbn. exact E.
      * apply Hall. exact Hin.
Qed.

Lemma sorted_fields_sorted : forall l, StronglySorted key_le (sorted_fields l).
Proof. induction l as [|[k v] r IH]; [constructor|]. rewrite sorted_fields_cons. apply insert_key_sorted. exact IH. Qed.

End SortedCanonical.

(* ================================================================== *)
(** * copy_block unfolded into top-level helpers *)
Section Helpers.
Variable rec : gotype -> goval -> value -> bres.     (* the recursive call copy_block fu order *)
Variable tname : bytes.
Variable fs : list field.

Definition state := (goval * list (list nat))%type.

Definition leaf_cb (x : value) (ft : gotype) (fv : goval) : bres :=
  match x with
  | VBlock _ _ _ => rec ft fv x
  | _ => if assignable x ft then BOk (GVal x) else BErr ETypeMismatch
  end.

Definition set_field_ (name : bytes) (x : value) (optional : bool) (st : state) : berr + bool + state :=
  match find_field fs name with
  | None => inl (inl EMapping)
  | Some (path, fld) =>
    if negb (fexp fld) then inl (inl EUnexported)
    else match x with
         | VNil => inl (inl ENilValue)
         | _ =>
           if negb optional && existsb (path_overlap path) (snd st) then inl (inl EDupField)
           else
             let used' := if optional then snd st else path :: snd st in
             match update_path (2 * length path + 2) (TStruct tname fs) (fst st) path (leaf_cb x) with
             | BOk cur' => inr (cur', used')
             | BErr e => inl (inl e)
             | BPanic => inl (inr true)
             end
         end
  end.

Fixpoint fields_loop_ (kvs : list (bytes * value)) (st : state) : bres :=
  match kvs with
  | [] => BOk (fst st)
  | (k, x) :: more =>
    match set_field_ k x false st with
    | inr st' => fields_loop_ more st'
    | inl (inl e) => BErr e
    | inl (inr _) => BPanic
    end
  end.

Definition copy_body (order : list (bytes * value) -> list (bytes * value))
                     (v : goval) (btype bname : bytes) (bfields : list (bytes * value)) : bres :=
  if negb (is_empty tname) && negb (unsnake_eq tname btype) then BErr ETypeName
  else
    let st0 := (GStruct (as_struct v fs), []) in
    match set_field_ (bs "Name") (VStr bname) (is_empty bname) st0 with
    | inr st1 => fields_loop_ (order bfields) st1
    | inl (inl EMapping) => if is_empty bname then fields_loop_ (order bfields) st0 else BErr EMapping
    | inl (inl e) => BErr e
    | inl (inr _) => BPanic
    end.
End Helpers.

Lemma copy_block_unfold : forall fu order tname fs v bt bn bf,
  copy_block (S fu) order (TStruct tname fs) v (VBlock bt bn bf)
  = copy_body (copy_block fu order) tname fs order v bt bn bf.
Proof. intros. reflexivity. Qed.

Lemma copy_block_not_struct : forall fu order t v bt bn bf,
  (forall n fs, t <> TStruct n fs) ->
  copy_block (S fu) order t v (VBlock bt bn bf) = BErr EBlockNotStruct.
Proof. intros fu order t v bt bn bf H. destruct t; try reflexivity. exfalso. eapply H. reflexivity. Qed.

Lemma copy_block_not_block : forall fu order t v x,
  (forall bt bn bf, x <> VBlock bt bn bf) ->
  copy_block (S fu) order t v x = BErr EBadBlockValue.
Proof. intros fu order t v x H. destruct x; try reflexivity. exfalso. eapply H. reflexivity. Qed.

(* C16 at the level of bind *)
Theorem C16_bind_order : forall tg t n l1 l2,
  Permutation l1 l2 -> NoDup (map fst l1) ->
  bind tg (BdStruct (VBlock t n l1)) = bind tg (BdStruct (VBlock t n l2)).
Proof.
  intros tg t n l1 l2 HP Hnd.
  assert (H : forall ty v, copy_block 64 sorted_fields ty v (VBlock t n l1)
                         = copy_block 64 sorted_fields ty v (VBlock t n l2)).
  { intros ty v. change 64%nat with (S 63).
    destruct ty as [| | | | k | e | t' | t' | tn fs];
      try (rewrite !copy_block_not_struct by (intros; discriminate); reflexivity).
    rewrite !copy_block_unfold. unfold copy_body.
    rewrite (C16_sorted_canonical l1 l2 HP Hnd). reflexivity. }
  unfold bind, copy_blocks.
  destruct tg as [|ty v|ty|ty v]; [reflexivity|reflexivity|reflexivity|].
  rewrite H. reflexivity.
Qed.

(* ================================================================== *)
(** * Index paths: what find_field returns always fits the struct type *)

(* [path_in fs path fld]: following [path] from a struct with fields [fs], through embedded
   structs (or pointers to them) only, ends at field [fld] *)
Inductive path_in : list field -> list nat -> field -> Prop :=
| PI_here : forall fs i fld, nth_error fs i = Some fld -> path_in fs [i] fld
| PI_emb : forall fs i f sub rest fld,
    nth_error fs i = Some f -> femb f = true -> struct_fields (ftyp f) = Some sub ->
    path_in sub rest fld -> path_in fs (i :: rest) fld.

Lemma path_in_nonempty : forall fs p fld, path_in fs p fld -> exists i r, p = i :: r.
Proof. intros fs p fld H. destruct H; eauto. Qed.

Definition reach (fs0 : list field) (p : list nat) (sub : list field) : Prop :=
  forall rest fld, path_in sub rest fld -> path_in fs0 (p ++ rest) fld.

Lemma reach_nil : forall fs, reach fs [] fs.
Proof. intros fs rest fld H. exact H. Qed.

Lemma reach_step : forall fs0 p sub i f sub',
  reach fs0 p sub -> nth_error sub i = Some f -> femb f = true -> struct_fields (ftyp f) = Some sub' ->
  reach fs0 (p ++ [i]) sub'.
Proof.
  intros fs0 p sub i f sub' Hr Hn He Hs rest fld Hp.
  rewrite <- app_assoc. cbn. apply Hr. eapply PI_emb; eassumption.
Qed.

Lemma scan_fields_spec : forall m path fs i ms nx,
  scan_fields m path fs i = (ms, nx) ->
  (forall p f, In (p, f) ms -> exists j, p = path ++ [i + j]%nat /\ nth_error fs j = Some f) /\
  (forall p sub, In (p, sub) nx -> exists j f, p = path ++ [i + j]%nat /\ nth_error fs j = Some f /\
                                   femb f = true /\ struct_fields (ftyp f) = Some sub).
Proof.
  intros m path fs. induction fs as [|f r IH]; intros i ms nx H; cbn in H.
  - inversion H; subst. split; intros ? ? [].
  - destruct (scan_fields m path r (S i)) as [ms' nx'] eqn:E.
    destruct (IH _ _ _ E) as [IH1 IH2].
    assert (K1 : forall p f0, In (p, f0) ms' -> exists j, p = path ++ [i + j]%nat /\ nth_error (f :: r) j = Some f0).
    { intros p f0 Hin. destruct (IH1 _ _ Hin) as (j & -> & Hj). exists (S j). split; [|exact Hj].
      do 2 f_equal. lia. }
    assert (K2 : forall p sub, In (p, sub) nx' -> exists j f0, p = path ++ [i + j]%nat /\
               nth_error (f :: r) j = Some f0 /\ femb f0 = true /\ struct_fields (ftyp f0) = Some sub).
    { intros p sub Hin. destruct (IH2 _ _ Hin) as (j & f0 & -> & Hj & He & Hs). exists (S j), f0.
      repeat split; try assumption. do 2 f_equal. lia. }
    destruct (m (fname_ f)).
    + inversion H; subst. split; [|exact K2].
      intros p f0 [Hin|Hin]; [|apply K1; exact Hin].
      inversion Hin; subst. exists 0%nat. split; [|reflexivity]. do 2 f_equal. lia.
    + destruct (femb f) eqn:Ee.
      * destruct (struct_fields (ftyp f)) as [sub0|] eqn:Es.
        -- inversion H; subst. split; [exact K1|].
           intros p sub [Hin|Hin]; [|apply K2; exact Hin].
           inversion Hin; subst. exists 0%nat, f. repeat split; try assumption. do 2 f_equal. lia.
        -- inversion H; subst. split; assumption.
      * inversion H; subst. split; assumption.
Qed.

Lemma bfs_path_ok : forall fs0 fuel m level p f,
  (forall q sub, In (q, sub) level -> reach fs0 q sub) ->
  bfs fuel m level = Some (p, f) -> path_in fs0 p f.
Proof.
  intros fs0 fuel. induction fuel as [|fu IH]; intros m level p f Hlev H; cbn in H; [discriminate|].
  destruct level as [|l0 lrest] eqn:El; [discriminate|]. rewrite <- El in *. clear El l0 lrest.
  set (res := map (fun pf => scan_fields m (fst pf) (snd pf) 0) level) in *.
  assert (Hms : forall q g, In (q, g) (flat_map fst res) -> path_in fs0 q g).
  { intros q g Hin. apply in_flat_map in Hin. destruct Hin as ([ms nx] & Hres & Hin).
    unfold res in Hres. apply in_map_iff in Hres. destruct Hres as ([q0 sub] & Hs & Hl).
    cbn in Hs, Hin. destruct (scan_fields_spec _ _ _ _ _ _ Hs) as [S1 _].
    destruct (S1 _ _ Hin) as (j & -> & Hj). cbn in Hj.
    specialize (Hlev _ _ Hl). apply Hlev. apply PI_here. exact Hj. }
  assert (Hnx : forall q sub, In (q, sub) (flat_map snd res) -> reach fs0 q sub).
  { intros q sub' Hin. apply in_flat_map in Hin. destruct Hin as ([ms nx] & Hres & Hin).
    unfold res in Hres. apply in_map_iff in Hres. destruct Hres as ([q0 sub] & Hs & Hl).
    cbn in Hs, Hin. destruct (scan_fields_spec _ _ _ _ _ _ Hs) as [_ S2].
    destruct (S2 _ _ Hin) as (j & g & -> & Hj & He & Hsf). cbn in Hj.
    eapply reach_step; try eassumption. apply Hlev. exact Hl. }
  destruct (flat_map fst res) as [|one [|two more]] eqn:Em.
  - eapply IH; [|exact H]. exact Hnx.
  - inversion H; subst. apply Hms. left. reflexivity.
  - discriminate.
Qed.

Lemma tagged_lookup_path_ok : forall fs0 fs i name acc p f,
  (forall j g, nth_error fs j = Some g -> nth_error fs0 (i + j) = Some g) ->
  (forall p f, acc = Some (p, f) -> path_in fs0 p f) ->
  tagged_lookup fs i name acc = Some (p, f) -> path_in fs0 p f.
Proof.
  intros fs0 fs. induction fs as [|g r IH]; intros i name acc p f Hoff Hacc H; cbn in H.
  - apply Hacc. exact H.
  - eapply IH; [| |exact H].
    + intros j g' Hj. replace (S i + j)%nat with (i + S j)%nat by lia. apply Hoff. exact Hj.
    + intros p' f' Hp'.
      destruct (negb (match ftag g with [] => true | _ :: _ => false end) && bytes_eqb (ftag g) name).
      * injection Hp' as <- <-. apply PI_here. specialize (Hoff 0%nat g eq_refl).
        rewrite Nat.add_0_r in Hoff. exact Hoff.
      * apply Hacc. exact Hp'.
Qed.

Theorem find_field_path_ok : forall fs name p f,
  find_field fs name = Some (p, f) -> path_in fs p f.
Proof.
  intros fs name p f H. unfold find_field in H.
  destruct (if has_tags fs then tagged_lookup fs 0 name None else None) as [[p' f']|] eqn:E.
  - inversion H; subst. destruct (has_tags fs); [|discriminate].
    eapply tagged_lookup_path_ok; [| |exact E].
    + intros j g Hj. exact Hj.
    + intros ? ? K; discriminate.
  - unfold field_by_name_func in H. eapply bfs_path_ok; [|exact H].
    intros q sub [Hin|[]]. inversion Hin; subst. apply reach_nil.
Qed.

(* ================================================================== *)
(** * Fuel needed by update_path: two steps per path element suffice *)

Lemma struct_fields_inv : forall t sub, struct_fields t = Some sub ->
  (exists n, t = TStruct n sub) \/ (exists n, t = TPtr (TStruct n sub)).
Proof.
  intros t sub H. destruct t; try discriminate.
  - destruct t; try discriminate. inversion H; subst. right. eauto.
  - inversion H; subst. left. eauto.
Qed.

(* each path element costs one TStruct step and at most one TPtr step; Bind supplies
   2 * length path + 2 *)
Lemma update_path_nopanic : forall sub path fld, path_in sub path fld ->
  forall fuel n v f, (2 * length path <= fuel)%nat ->
  (forall fv, f (ftyp fld) fv <> BPanic) ->
  update_path fuel (TStruct n sub) v path f <> BPanic.
Proof.
  intros sub path fld H.
  induction H as [fs i fld Hn|fs i g sub rest fld Hn He Hs Hp IH]; intros fuel n v f Hfuel Hf.
  - cbn [length] in Hfuel. destruct fuel as [|[|fu]]; [lia|lia|]. cbn [update_path]. rewrite Hn.
    destruct (f (ftyp fld) (nth i (as_struct v fs) GZero)) eqn:E; try discriminate.
    exfalso. eapply Hf. exact E.
  - destruct (path_in_nonempty _ _ _ Hp) as (j & r' & ->). cbn [length] in Hfuel, IH.
    destruct fuel as [|fu]; [lia|]. cbn [update_path]. rewrite Hn.
    destruct (struct_fields_inv _ _ Hs) as [[n' E]|[n' E]]; rewrite E in *.
    + assert (K : update_path fu (TStruct n' sub) (nth i (as_struct v fs) GZero) (j :: r') f <> BPanic).
      { apply IH; [lia|exact Hf]. }
      destruct (update_path fu (TStruct n' sub) (nth i (as_struct v fs) GZero) (j :: r') f); congruence.
    + destruct fu as [|fu]; [lia|]. cbn [update_path].
      destruct (nth i (as_struct v fs) GZero) as [| | | | | |inner]; try discriminate.
      assert (K : update_path fu (TStruct n' sub) inner (j :: r') f <> BPanic).
      { apply IH; [lia|exact Hf]. }
      destruct (update_path fu (TStruct n' sub) inner (j :: r') f); congruence.
Qed.

(* ================================================================== *)
(** * C15_total: Bind never panics (blocks nested at most 64 deep -- the fuel of copy_block) *)

Fixpoint bdepth (v : value) : nat :=
  match v with
  | VBlock _ _ fs =>
    S ((fix go (l : list (bytes * value)) : nat :=
          match l with
          | [] => 0%nat
          | kv :: r => Nat.max (match kv with (_, x) => bdepth x end) (go r)
          end) fs)
  | _ => 0%nat
  end.

Lemma bdepth_in : forall t n fs k x, In (k, x) fs -> (S (bdepth x) <= bdepth (VBlock t n fs))%nat.
Proof.
  intros t n fs k x Hin. cbn [bdepth]. apply le_n_S.
  induction fs as [|[k' x'] r IH]; [destruct Hin|].
  destruct Hin as [E|Hin].
  - inversion E; subst. lia.
  - specialize (IH Hin). lia.
Qed.

Lemma bdepth_block_pos : forall t n fs, (1 <= bdepth (VBlock t n fs))%nat.
Proof. intros. cbn [bdepth]. lia. Qed.

Definition depth_ok (b : bindarg) : Prop :=
  match b with
  | BdStruct v => (bdepth v <= 64)%nat
  | BdSlice l => Forall (fun v => (bdepth v <= 64)%nat) l
  | _ => True
  end.

Definition order_sub (order : list (bytes * value) -> list (bytes * value)) : Prop :=
  forall l kv, In kv (order l) -> In kv l.

Lemma sorted_fields_sub : order_sub sorted_fields.
Proof. intros l kv H. apply sorted_fields_in. exact H. Qed.

Lemma set_field_nopanic : forall rec tname fs name x optional st b,
  (forall ft fv, leaf_cb rec x ft fv <> BPanic) ->
  set_field_ rec tname fs name x optional st <> inl (inr b).
Proof.
  intros rec tname fs name x optional st b Hcb. unfold set_field_.
  destruct (find_field fs name) as [[path fld]|] eqn:Ef; [|discriminate].
  destruct (negb (fexp fld)); [discriminate|].
  apply find_field_path_ok in Ef.
  assert (K : update_path (2 * length path + 2) (TStruct tname fs) (fst st) path (leaf_cb rec x) <> BPanic).
  { eapply update_path_nopanic; [exact Ef|lia|]. intros fv. apply Hcb. }
  destruct x; try discriminate;
    (destruct (negb optional && existsb (path_overlap path) (snd st)); [discriminate|]);
    destruct (update_path (2 * length path + 2) (TStruct tname fs) (fst st) path _); try discriminate; congruence.
Qed.

Lemma fields_loop_nopanic : forall rec tname fs kvs st,
  (forall k x ft fv, In (k, x) kvs -> leaf_cb rec x ft fv <> BPanic) ->
  fields_loop_ rec tname fs kvs st <> BPanic.
Proof.
  intros rec tname fs kvs. induction kvs as [|[k x] more IH]; intros st Hcb; cbn [fields_loop_].
  - discriminate.
  - destruct (set_field_ rec tname fs k x false st) as [[e|b]|st'] eqn:E.
    + discriminate.
    + exfalso. eapply set_field_nopanic; [|exact E].
      intros ft fv. eapply Hcb. left. reflexivity.
    + apply IH. intros k' x' ft fv Hin. eapply Hcb. right. exact Hin.
Qed.

Lemma copy_block_nopanic : forall order, order_sub order ->
  forall fu t v blk, (1 <= fu)%nat -> (bdepth blk <= fu)%nat ->
  copy_block fu order t v blk <> BPanic.
Proof.
  intros order Hord fu. induction fu as [|fu IH]; intros t v blk H1 Hd; [lia|].
  destruct blk as [| | | | |bt bn bf]; try (rewrite copy_block_not_block by (intros; discriminate); discriminate).
  destruct t as [| | | | k | e | t' | t' | tn fs];
    try (rewrite copy_block_not_struct by (intros; discriminate); discriminate).
  rewrite copy_block_unfold. unfold copy_body.
  destruct (negb (is_empty tn) && negb (unsnake_eq tn bt)); [discriminate|].
  assert (Hleaf : forall k x ft fv, In (k, x) (order bf) ->
                  leaf_cb (copy_block fu order) x ft fv <> BPanic).
  { intros k x ft fv Hin. apply Hord in Hin. pose proof (bdepth_in bt bn bf k x Hin) as Hb.
    unfold leaf_cb. destruct x as [| | | | |xt xn xf];
      try (destruct (assignable _ ft); discriminate).
    pose proof (bdepth_block_pos xt xn xf). apply IH; lia. }
  assert (Hloop : forall st, fields_loop_ (copy_block fu order) tn fs (order bf) st <> BPanic).
  { intros st. apply fields_loop_nopanic. intros k x ft fv Hin. eapply Hleaf; eassumption. }
  destruct (set_field_ (copy_block fu order) tn fs (bs "Name") (VStr bn) (is_empty bn) _) as [[e|b]|st'] eqn:E.
  - destruct e; try discriminate. destruct (is_empty bn); [apply Hloop|discriminate].
  - exfalso. eapply set_field_nopanic; [|exact E].
    intros ft fv. unfold leaf_cb. destruct (assignable (VStr bn) ft); discriminate.
  - apply Hloop.
Qed.

Definition elems_ (fu : nat) (order : list (bytes * value) -> list (bytes * value)) (et : gotype) (efs : list field) :=
  fix elems (l : list value) : bres :=
    match l with
    | [] => BOk (GSlice [])
    | blk :: more =>
      match copy_block fu order et (zero_struct efs) blk with
      | BOk e => match elems more with BOk (GSlice es) => BOk (GSlice (e :: es)) | o => o end
      | o => o
      end
    end.

Lemma copy_blocks_slice : forall order n efs v0 blks,
  copy_blocks order (TgtPtr (TSlice (TStruct n efs)) v0) (BdSlice blks) =
  match elems_ 64 order (TStruct n efs) efs blks with BOk sl => BOk (GPtrTo sl) | o => o end.
Proof. reflexivity. Qed.

Lemma elems_shape : forall fu order et efs blks,
  match elems_ fu order et efs blks with
  | BOk w => exists l, w = GSlice l
  | BErr _ => True
  | BPanic => exists blk, In blk blks /\ copy_block fu order et (zero_struct efs) blk = BPanic
  end.
Proof.
  intros fu order et efs blks. induction blks as [|blk more IH]; cbn [elems_].
  - eauto.
  - destruct (copy_block fu order et (zero_struct efs) blk) eqn:E.
    + fold (elems_ fu order et efs more). destruct (elems_ fu order et efs more) as [w| |].
      * destruct IH as [l ->]. eauto.
      * exact I.
      * destruct IH as (b & Hin & Hb). exists b. split; [right; exact Hin|exact Hb].
    + exact I.
    + exists blk. split; [left; reflexivity|exact E].
Qed.

Theorem C15_total : forall tg b, depth_ok b -> bind tg b <> BPanic.
Proof.
  intros tg b Hb. unfold bind.
  destruct b as [|blk|blks|]; [discriminate| | |].
  - destruct tg as [|t v|t|t v]; cbn [copy_blocks]; try discriminate.
    + destruct t; discriminate.
    + cbn in Hb.
      assert (K : copy_block 64 sorted_fields t v blk <> BPanic).
      { apply copy_block_nopanic; [exact sorted_fields_sub|lia|exact Hb]. }
      destruct t; try discriminate.
      destruct (copy_block 64 sorted_fields (TStruct tname fs) v blk); congruence.
  - destruct tg as [|t v|t|t v]; try (cbn [copy_blocks]; discriminate).
    + cbn [copy_blocks]. destruct t; discriminate.
    + destruct t as [| | | | k | e | t' | et | tn fs]; try (cbn [copy_blocks]; discriminate).
      destruct et as [| | | | k | e | t' | t' | n efs]; try (cbn [copy_blocks]; discriminate).
      rewrite copy_blocks_slice.
      pose proof (elems_shape 64 sorted_fields (TStruct n efs) efs blks) as K.
      destruct (elems_ 64 sorted_fields (TStruct n efs) efs blks); try discriminate.
      destruct K as (blk & Hin & Hp). exfalso. revert Hp.
      cbn in Hb. rewrite Forall_forall in Hb.
      apply copy_block_nopanic; [exact sorted_fields_sub|lia|apply Hb; exact Hin].
  - destruct tg as [|t v|t|t v]; cbn [copy_blocks]; try discriminate.
    destruct t; discriminate.
Qed.

(* deep embedding: update_path now gets 2 * length path + 2 fuel, enough for every path the
   breadth-first search can return (at most 16 entries) *)
Fixpoint emb_chain (k : nat) : gotype :=
  match k with
  | O => TStruct [] [Field (bs "X") true false [] TInt]
  | S k' => TStruct [] [Field (bs "E") true true [] (emb_chain k')]
  end.
Fixpoint emb_chain_ptr (k : nat) : gotype :=
  match k with
  | O => TStruct [] [Field (bs "X") true false [] TInt]
  | S k' => TStruct [] [Field (bs "E") true true [] (TPtr (emb_chain_ptr k'))]
  end.

Definition is_ok (r : bres) : bool := match r with BOk _ => true | _ => false end.

Example C15_total_deep_embedding :
  is_ok (bind (TgtPtr (emb_chain 7) GZero) (BdStruct (VBlock [] [] [(bs "x", VInt 1)]))) = true /\
  is_ok (bind (TgtPtr (emb_chain 15) GZero) (BdStruct (VBlock [] [] [(bs "x", VInt 1)]))) = true /\
  bind (TgtPtr (emb_chain_ptr 15) GZero) (BdStruct (VBlock [] [] [(bs "x", VInt 1)])) = BErr ENilEmbedded.
Proof. split; [|split]; vm_compute; reflexivity. Qed.

(* residual artefact of the model (not a panic): the breadth-first search has fuel 16, so a field
   promoted through 16 or more levels of embedding is not found, where Go would find it *)
Example C15_bfs_fuel_artefact :
  bind (TgtPtr (emb_chain 16) GZero) (BdStruct (VBlock [] [] [(bs "x", VInt 1)])) = BErr EMapping.
Proof. vm_compute. reflexivity. Qed.

(* an ordinary input *)
Definition ex_inner := TStruct (bs "Inner") [Field (bs "Host") true false [] TString; Field (bs "Port") true false [] TInt].
Definition ex_limits := TStruct (bs "Limits") [Field (bs "Max") true false [] TInt].
Definition ex_type := TStruct (bs "Server")
  [Field (bs "Name") true false [] TString; Field (bs "Inner") true true [] ex_inner;
   Field (bs "Ratio") true false (bs "r") TFloat64; Field (bs "Any") true false [] (TIface true);
   Field (bs "Sub") true false [] (TPtr ex_inner); Field (bs "hidden") false false [] TBool;
   Field (bs "Limits") true false [] ex_limits].
Definition ex_block := VBlock (bs "server") (bs "main")
  [(bs "port", VInt 80); (bs "r", VFloat 0); (bs "host", VStr (bs "h"));
   (bs "limits", VBlock (bs "limits") [] [(bs "max", VInt 9)])].

Example C15_total_example :
  depth_ok (BdStruct ex_block) /\ bind (TgtPtr ex_type GZero) (BdStruct ex_block) <> BPanic.
Proof.
  assert (H2 : depth_ok (BdStruct ex_block)) by (cbn; lia).
  split; [exact H2|]. apply C15_total; assumption.
Qed.

(* ================================================================== *)
(** * C15_slice_atomic *)

Lemma Forall2_len : forall {A B} (R : A -> B -> Prop) a b, Forall2 R a b -> length a = length b.
Proof. intros A B R a b H. induction H; cbn; congruence. Qed.

Lemma elems_ok : forall fu order et efs blks w,
  elems_ fu order et efs blks = BOk w ->
  exists l, w = GSlice l /\ Forall2 (fun blk e => copy_block fu order et (zero_struct efs) blk = BOk e) blks l.
Proof.
  intros fu order et efs blks. induction blks as [|blk more IH]; intros w H; cbn [elems_] in H.
  - inversion H; subst. exists []. split; [reflexivity|constructor].
  - destruct (copy_block fu order et (zero_struct efs) blk) as [e| |] eqn:E; try discriminate.
    fold (elems_ fu order et efs more) in H.
    destruct (elems_ fu order et efs more) as [w'| |] eqn:E2; try discriminate.
    destruct (IH _ eq_refl) as (l & -> & HF). inversion H; subst.
    exists (e :: l). split; [reflexivity|]. constructor; assumption.
Qed.

(* the first element that fails determines the error; nothing is produced *)
Lemma elems_err : forall fu order et efs pre blk post es e,
  Forall2 (fun b x => copy_block fu order et (zero_struct efs) b = BOk x) pre es ->
  copy_block fu order et (zero_struct efs) blk = BErr e ->
  elems_ fu order et efs (pre ++ blk :: post) = BErr e.
Proof.
  intros fu order et efs pre blk post es e HF Hb. induction HF as [|b x pre es Hbx HF IH]; cbn [app elems_].
  - rewrite Hb. reflexivity.
  - rewrite Hbx. fold (elems_ fu order et efs (pre ++ blk :: post)). rewrite IH. reflexivity.
Qed.

Theorem C15_slice_atomic : forall et v0 blks,
  match bind (TgtPtr (TSlice et) v0) (BdSlice blks) with
  | BErr _ => True                                   (* no new value: the old slice stays *)
  | BOk w => exists n efs l, et = TStruct n efs /\ w = GPtrTo (GSlice l) /\ length l = length blks /\
             forall i blk, nth_error blks i = Some blk ->
               exists e, nth_error l i = Some e /\ copy_block 64 sorted_fields et (zero_struct efs) blk = BOk e
  | BPanic => exists n efs blk, et = TStruct n efs /\ In blk blks /\
              copy_block 64 sorted_fields et (zero_struct efs) blk = BPanic
  end.
Proof.
  intros et v0 blks. unfold bind.
  destruct et as [| | | | k | e | t' | t' | n efs]; try exact I.
  rewrite copy_blocks_slice.
  pose proof (elems_shape 64 sorted_fields (TStruct n efs) efs blks) as K.
  destruct (elems_ 64 sorted_fields (TStruct n efs) efs blks) as [w| |] eqn:E.
  - destruct (elems_ok _ _ _ _ _ _ E) as (l & -> & HF). exists n, efs, l.
    split; [reflexivity|]. split; [reflexivity|]. split.
    + symmetry. eapply Forall2_len. exact HF.
    + clear E K. induction HF as [|b x bl xl Hbx HF IH]; intros i blk Hi.
      * destruct i; discriminate.
      * destruct i as [|i]; cbn in Hi.
        -- inversion Hi; subst. exists x. split; [reflexivity|exact Hbx].
        -- apply IH. exact Hi.
  - exact I.
  - destruct K as (blk & Hin & Hp). exists n, efs, blk. auto.
Qed.

(* the previous content of the slice never matters *)
Theorem C15_slice_discards_old : forall et v0 v1 blks,
  bind (TgtPtr (TSlice et) v0) (BdSlice blks) = bind (TgtPtr (TSlice et) v1) (BdSlice blks).
Proof. intros. reflexivity. Qed.

(* with the hypotheses of C15_total the third case disappears *)
Corollary C15_slice_atomic_total : forall et v0 blks,
  Forall (fun v => (bdepth v <= 64)%nat) blks ->
  (exists e, bind (TgtPtr (TSlice et) v0) (BdSlice blks) = BErr e) \/
  (exists n efs l, et = TStruct n efs /\
     bind (TgtPtr (TSlice et) v0) (BdSlice blks) = BOk (GPtrTo (GSlice l)) /\
     Forall2 (fun blk e => copy_block 64 sorted_fields et (zero_struct efs) blk = BOk e) blks l).
Proof.
  intros et v0 blks Hd.
  pose proof (C15_total (TgtPtr (TSlice et) v0) (BdSlice blks) Hd) as Hnp.
  destruct (bind (TgtPtr (TSlice et) v0) (BdSlice blks)) as [w|e|] eqn:E.
  - right. unfold bind in E.
    destruct et as [| | | | k | e | t' | t' | n efs]; try discriminate.
    rewrite copy_blocks_slice in E.
    destruct (elems_ 64 sorted_fields (TStruct n efs) efs blks) as [w'| |] eqn:E2; try discriminate.
    destruct (elems_ok _ _ _ _ _ _ E2) as (l & -> & HF). inversion E; subst. exists n, efs, l. auto.
  - left. eauto.
  - congruence.
Qed.

(* an error in element i is the result, whatever the other elements are *)
Theorem C15_slice_first_error : forall n efs v0 pre blk post es e,
  Forall2 (fun b x => copy_block 64 sorted_fields (TStruct n efs) (zero_struct efs) b = BOk x) pre es ->
  copy_block 64 sorted_fields (TStruct n efs) (zero_struct efs) blk = BErr e ->
  bind (TgtPtr (TSlice (TStruct n efs)) v0) (BdSlice (pre ++ blk :: post)) = BErr e.
Proof.
  intros n efs v0 pre blk post es e HF Hb. unfold bind. rewrite copy_blocks_slice.
  rewrite (elems_err _ _ _ _ _ _ _ _ _ HF Hb). reflexivity.
Qed.

(* ================================================================== *)
(** * C15_errors (a)-(c): the target / binding checks *)

Theorem C15_errors_no_binding : forall tg, bind tg BdNone = BErr ENoBinding.
Proof. reflexivity. Qed.

Theorem C15_errors_nil_iface : forall b, b <> BdNone -> bind TgtNilIface b = BErr ENotPointer.
Proof. intros b H. destruct b; try reflexivity. congruence. Qed.

Theorem C15_errors_not_pointer : forall t v b, b <> BdNone -> (forall t', t <> TPtr t') ->
  bind (TgtValue t v) b = BErr ENotPointer.
Proof.
  intros t v b H Ht. destruct b; try congruence; destruct t; try reflexivity; exfalso; eapply Ht; reflexivity.
Qed.

(* a typed nil pointer (or a pointer passed by value, nil in the model): Elem() is invalid *)
Theorem C15_errors_nil_pointer : forall t,
  (forall x, bind (TgtNilPtr t) (BdStruct x) = BErr ENotStruct) /\
  (forall l, bind (TgtNilPtr t) (BdSlice l) = BErr ENotSlice) /\
  bind (TgtNilPtr t) BdUnknown = BErr EUnknownBinding.
Proof. intros t. repeat split. Qed.

Theorem C15_errors_not_struct : forall t v x, (forall n fs, t <> TStruct n fs) ->
  bind (TgtPtr t v) (BdStruct x) = BErr ENotStruct.
Proof. intros t v x H. destruct t; try reflexivity. exfalso. eapply H. reflexivity. Qed.

Theorem C15_errors_not_slice : forall t v l, (forall et, t <> TSlice et) ->
  bind (TgtPtr t v) (BdSlice l) = BErr ENotSlice.
Proof. intros t v l H. destruct t; try reflexivity. exfalso. eapply H. reflexivity. Qed.

Theorem C15_errors_elem_not_struct : forall et v l, (forall n fs, et <> TStruct n fs) ->
  bind (TgtPtr (TSlice et) v) (BdSlice l) = BErr EElemNotStruct.
Proof. intros et v l H. destruct et; try reflexivity. exfalso. eapply H. reflexivity. Qed.

Theorem C15_errors_unknown_binding : forall t v, bind (TgtPtr t v) BdUnknown = BErr EUnknownBinding.
Proof. reflexivity. Qed.

Theorem C15_errors_bad_block_value : forall n fs v x, (forall bt bn bf, x <> VBlock bt bn bf) ->
  bind (TgtPtr (TStruct n fs) v) (BdStruct x) = BErr EBadBlockValue.
Proof.
  intros n fs v x H. unfold bind. cbn [copy_blocks]. change 64%nat with (S 63).
  rewrite copy_block_not_block by exact H. reflexivity.
Qed.

Theorem C15_errors_type_name : forall n fs v bt bn bf, n <> [] -> unsnake_eq n bt = false ->
  bind (TgtPtr (TStruct n fs) v) (BdStruct (VBlock bt bn bf)) = BErr ETypeName.
Proof.
  intros n fs v bt bn bf Hn Hu. unfold bind. cbn [copy_blocks]. change 64%nat with (S 63).
  rewrite copy_block_unfold. unfold copy_body. rewrite Hu. destruct n; [congruence|]. reflexivity.
Qed.

(* no coercions between the scalar kinds *)
Lemma assignable_no_coercion : forall z b s f,
  assignable (VInt z) TFloat64 = false /\ assignable (VInt z) TString = false /\ assignable (VInt z) TBool = false /\
  assignable (VFloat f) TInt = false /\ assignable (VFloat f) TString = false /\ assignable (VFloat f) TBool = false /\
  assignable (VStr s) TInt = false /\ assignable (VStr s) TFloat64 = false /\ assignable (VStr s) TBool = false /\
  assignable (VBool b) TInt = false /\ assignable (VBool b) TFloat64 = false /\ assignable (VBool b) TString = false.
Proof. intros. repeat split. Qed.

Lemma assignable_other : forall x t,
  match t with TOther _ | TIface false | TPtr _ | TSlice _ | TStruct _ _ => assignable x t = false | _ => True end.
Proof. intros x t. destruct t as [| | | | k | [|] | t' | t' | n fs]; try exact I; reflexivity. Qed.

Lemma assignable_not_struct_fields : forall x t, assignable x t = true -> struct_fields t = None.
Proof. intros x t H. destruct t as [| | | | k | [|] | t' | t' | n fs]; try reflexivity; discriminate. Qed.

(* ================================================================== *)
(** * Well-shaped target values, lookup along index paths, and what update_path does *)

Definition is_leaf (v : goval) : bool := match v with GStruct _ | GPtrTo _ => false | _ => true end.

(* struct values have one entry per field (recursively); GZero etc. stand for any zero/opaque content *)
Inductive shaped : gotype -> goval -> Prop :=
| sh_struct : forall n fs l, Forall2 (fun f x => shaped (ftyp f) x) fs l -> shaped (TStruct n fs) (GStruct l)
| sh_ptr : forall t v, shaped t v -> shaped (TPtr t) (GPtrTo v)
| sh_leaf : forall t v, is_leaf v = true -> shaped t v.

Definition shp (f : field) (x : goval) : Prop := shaped (ftyp f) x.

Definition struct_of (v : goval) : option (list goval) :=
  match v with GStruct l => Some l | GPtrTo (GStruct l) => Some l | _ => None end.

(* follow struct indices, through GPtrTo for embedded pointers *)
Fixpoint lookup_path (v : goval) (p : list nat) : option goval :=
  match p with
  | [] => Some v
  | i :: r => match struct_of v with
              | Some l => match nth_error l i with Some x => lookup_path x r | None => None end
              | None => None
              end
  end.

Fixpoint diverge (p q : list nat) : Prop :=
  match p, q with
  | i :: p', j :: q' => i <> j \/ (i = j /\ diverge p' q')
  | _, _ => False
  end.

Definition pprefix (p q : list nat) : Prop := exists i r, q = p ++ i :: r.

Lemma lookup_cons : forall l i r,
  lookup_path (GStruct l) (i :: r) = match nth_error l i with Some x => lookup_path x r | None => None end.
Proof. reflexivity. Qed.

Lemma lookup_ptr_cons : forall l i r,
  lookup_path (GPtrTo (GStruct l)) (i :: r) = lookup_path (GStruct l) (i :: r).
Proof. reflexivity. Qed.

Lemma lookup_leaf : forall w i r, is_leaf w = true -> lookup_path w (i :: r) = None.
Proof. intros w i r H. destruct w; try discriminate; reflexivity. Qed.

Lemma Forall2_nth : forall {A B} (R : A -> B -> Prop) a b i x,
  Forall2 R a b -> nth_error a i = Some x -> exists y, nth_error b i = Some y /\ R x y.
Proof.
  intros A B R a b i x H. revert i. induction H as [|x0 y0 a b Hxy H IH]; intros i Hi.
  - destruct i; discriminate.
  - destruct i as [|i]; cbn in *.
    + inversion Hi; subst. eauto.
    + apply IH. exact Hi.
Qed.

Lemma Forall2_nth_set : forall (R : field -> goval -> Prop) fs l i f new,
  Forall2 R fs l -> nth_error fs i = Some f -> R f new -> Forall2 R fs (nth_set l i new).
Proof.
  intros R fs l i f new H. revert i. induction H as [|x0 y0 a b Hxy H IH]; intros i Hi Hr.
  - destruct i; discriminate.
  - destruct i as [|i]; cbn in *.
    + inversion Hi; subst. constructor; assumption.
    + constructor; [exact Hxy|]. apply IH; assumption.
Qed.

Lemma nth_set_same : forall l i v y, nth_error l i = Some y -> nth_error (nth_set l i v) i = Some v.
Proof.
  induction l as [|x l IH]; intros i v y H; destruct i; cbn in *; try discriminate; [reflexivity|].
  eapply IH. exact H.
Qed.

Lemma nth_set_other : forall l i j v, i <> j -> nth_error (nth_set l i v) j = nth_error l j.
Proof.
  induction l as [|x l IH]; intros i j v H; destruct i, j; cbn; try reflexivity; try congruence.
  apply IH. congruence.
Qed.

Lemma nth_set_length : forall l i v, length (nth_set l i v) = length l.
Proof. induction l as [|x l IH]; intros i v; destruct i; cbn; try reflexivity. rewrite IH. reflexivity. Qed.

Lemma shaped_zeros : forall fs, Forall2 shp fs (map (fun _ => GZero) fs).
Proof. induction fs; cbn; constructor; [apply sh_leaf; reflexivity|assumption]. Qed.

Lemma shaped_as_struct : forall n fs v, shaped (TStruct n fs) v -> Forall2 shp fs (as_struct v fs).
Proof.
  intros n fs v H. inversion H as [n' fs' l HF| |t v' Hl]; subst.
  - exact HF.
  - destruct v; try discriminate; apply shaped_zeros.
Qed.

Lemma update_path_as_struct : forall fuel n fs v i r f,
  update_path fuel (TStruct n fs) v (i :: r) f =
  update_path fuel (TStruct n fs) (GStruct (as_struct v fs)) (i :: r) f.
Proof. intros. destruct fuel; reflexivity. Qed.

Lemma update_path_ok : forall sub p fld, path_in sub p fld ->
  forall fuel n l f v',
  Forall2 shp sub l ->
  update_path fuel (TStruct n sub) (GStruct l) p f = BOk v' ->
  exists l' old new,
    v' = GStruct l' /\ shaped (ftyp fld) old /\ f (ftyp fld) old = BOk new /\
    lookup_path (GStruct l') p = Some new /\
    (forall q y, diverge p q -> lookup_path (GStruct l) q = Some y -> lookup_path (GStruct l') q = Some y) /\
    (shaped (ftyp fld) new -> Forall2 shp sub l').
Proof.
  intros sub p fld H.
  induction H as [fs i fld Hn|fs i g sub rest fld Hn He Hs Hp IH]; intros fuel n l f v' HF Hu.
  - destruct fuel as [|fu]; [discriminate|]. cbn [update_path as_struct] in Hu. rewrite Hn in Hu.
    destruct fu as [|fu]; [discriminate|]. cbn [update_path] in Hu.
    destruct (Forall2_nth _ _ _ _ _ HF Hn) as (old & Hold & Hsh).
    rewrite (nth_error_nth _ _ _ Hold) in Hu.
    destruct (f (ftyp fld) old) as [new| |] eqn:Ef; try discriminate. inversion Hu; subst v'.
    exists (nth_set l i new), old, new.
    split; [reflexivity|]. split; [exact Hsh|]. split; [exact Ef|]. split; [|split].
    + rewrite lookup_cons. rewrite (nth_set_same _ _ _ _ Hold). reflexivity.
    + intros q y Hd Hq. destruct q as [|j q']; [destruct Hd|]. cbn [diverge] in Hd.
      destruct Hd as [Hne|[_ Hd]]; [|destruct q'; destruct Hd].
      rewrite lookup_cons in *. rewrite nth_set_other by exact Hne. exact Hq.
    + intros Hnew. eapply Forall2_nth_set; eassumption.
  - destruct fuel as [|fu]; [discriminate|]. cbn [update_path as_struct] in Hu. rewrite Hn in Hu.
    destruct (path_in_nonempty _ _ _ Hp) as (j & r' & ->).
    destruct (Forall2_nth _ _ _ _ _ HF Hn) as (w & Hw & Hsh). rewrite (nth_error_nth _ _ _ Hw) in Hu.
    unfold shp in Hsh.
    destruct (struct_fields_inv _ _ Hs) as [[n' E]|[n' E]]; rewrite E in Hu, Hsh.
    + rewrite update_path_as_struct in Hu.
      destruct (update_path fu (TStruct n' sub) (GStruct (as_struct w sub)) (j :: r') f) as [w'| |] eqn:Eu;
        try discriminate.
      inversion Hu; subst v'.
      destruct (IH _ _ _ _ _ (shaped_as_struct _ _ _ Hsh) Eu) as (l2 & old & new & -> & Hold & Hf & Hl & Hfr & Hshp).
      exists (nth_set l i (GStruct l2)), old, new.
      split; [reflexivity|]. split; [exact Hold|]. split; [exact Hf|]. split; [|split].
      * rewrite lookup_cons. rewrite (nth_set_same _ _ _ _ Hw). exact Hl.
      * intros q y Hd Hq. destruct q as [|j0 q']; [destruct Hd|]. cbn [diverge] in Hd.
        rewrite lookup_cons in *.
        destruct Hd as [Hne|[<- Hd]]; [rewrite nth_set_other by exact Hne; exact Hq|].
        rewrite (nth_set_same _ _ _ _ Hw). rewrite Hw in Hq.
        apply Hfr; [exact Hd|].
        inversion Hsh as [n0 fs0 lw HFw| |t0 v0 Hleaf]; subst.
        -- exact Hq.
        -- destruct q' as [|a b]; [destruct Hd|]. rewrite lookup_leaf in Hq by exact Hleaf. discriminate.
      * intros Hnew. eapply Forall2_nth_set; [exact HF|exact Hn|]. unfold shp. rewrite E.
        apply sh_struct. apply Hshp. exact Hnew.
    + destruct fu as [|fu]; [discriminate|]. cbn [update_path] in Hu.
      destruct w as [| | | | | |inner]; try discriminate.
      destruct (update_path fu (TStruct n' sub) inner (j :: r') f) as [w'| |] eqn:Eu; try discriminate.
      inversion Hu; subst v'.
      inversion Hsh as [| t0 v0 Hin |t0 v0 Hleaf]; subst; [|discriminate].
      rewrite update_path_as_struct in Eu.
      destruct (IH _ _ _ _ _ (shaped_as_struct _ _ _ Hin) Eu) as (l2 & old & new & -> & Hold & Hf & Hl & Hfr & Hshp).
      exists (nth_set l i (GPtrTo (GStruct l2))), old, new.
      split; [reflexivity|]. split; [exact Hold|]. split; [exact Hf|]. split; [|split].
      * rewrite lookup_cons. rewrite (nth_set_same _ _ _ _ Hw). rewrite lookup_ptr_cons. exact Hl.
      * intros q y Hd Hq. destruct q as [|j0 q']; [destruct Hd|]. cbn [diverge] in Hd.
        rewrite lookup_cons in *.
        destruct Hd as [Hne|[<- Hd]]; [rewrite nth_set_other by exact Hne; exact Hq|].
        rewrite (nth_set_same _ _ _ _ Hw). rewrite Hw in Hq.
        destruct q' as [|a b]; [destruct Hd|]. rewrite lookup_ptr_cons.
        apply Hfr; [exact Hd|].
        inversion Hin as [n0 fs0 lw HFw| |t0 v0 Hleaf]; subst.
        -- exact Hq.
        -- exfalso. destruct inner; try discriminate; cbn in Hq; discriminate.
      * intros Hnew. eapply Forall2_nth_set; [exact HF|exact Hn|]. unfold shp. rewrite E.
        apply sh_ptr. apply sh_struct. apply Hshp. exact Hnew.
Qed.

(* ================================================================== *)
(** * What a successful set_field / fields loop guarantees *)

(* path_overlap = false is exactly: the two paths diverge at some index (neither is a prefix of the other) *)
Lemma path_overlap_refl : forall p, path_overlap p p = true.
Proof. induction p as [|i p IH]; cbn; [reflexivity|]. rewrite Nat.eqb_refl. exact IH. Qed.

Lemma path_overlap_sym : forall p q, path_overlap p q = path_overlap q p.
Proof.
  induction p as [|i p IH]; destruct q as [|j q]; cbn; try reflexivity.
  rewrite (Nat.eqb_sym i j), IH. reflexivity.
Qed.

Lemma path_overlap_diverge : forall p q, path_overlap p q = false <-> diverge p q.
Proof.
  induction p as [|i p IH]; destruct q as [|j q]; cbn; try (split; [discriminate|intros []]).
  destruct (Nat.eqb_spec i j) as [->|Hne]; cbn.
  - rewrite IH. split; [intros H; right; auto|intros [H|[_ H]]; [congruence|exact H]].
  - split; [intros _; left; exact Hne|reflexivity].
Qed.

Lemma path_cmp : forall p q : list nat, p <> q -> diverge p q \/ pprefix p q \/ pprefix q p.
Proof.
  induction p as [|i p IH]; intros [|j q] Hne.
  - congruence.
  - right; left. exists j, q. reflexivity.
  - right; right. exists i, p. reflexivity.
  - destruct (Nat.eq_dec i j) as [<-|Hij].
    + assert (Hpq : p <> q) by congruence. destruct (IH _ Hpq) as [Hd|[(a & r & ->)|(a & r & ->)]].
      * left. cbn. right. auto.
      * right; left. exists a, r. reflexivity.
      * right; right. exists a, r. reflexivity.
    + left. cbn. left. exact Hij.
Qed.

Lemma path_overlap_prefix : forall p i r, path_overlap p (p ++ i :: r) = true.
Proof. induction p as [|j p IH]; intros i r; cbn; [reflexivity|]. rewrite Nat.eqb_refl. apply IH. Qed.

(* ... and path_overlap = true is: equal, or one a proper prefix of the other *)
Lemma path_overlap_true : forall p q, path_overlap p q = true <-> (p = q \/ pprefix p q \/ pprefix q p).
Proof.
  intros p q. split.
  - intros H. destruct (list_eq_dec Nat.eq_dec p q) as [E|Hne]; [left; exact E|].
    destruct (path_cmp _ _ Hne) as [Hd|Hpre]; [|right; exact Hpre].
    apply path_overlap_diverge in Hd. congruence.
  - intros [->|[(i & r & ->)|(i & r & ->)]].
    + apply path_overlap_refl.
    + apply path_overlap_prefix.
    + rewrite path_overlap_sym. apply path_overlap_prefix.
Qed.

Lemma existsb_overlap_false : forall p used,
  existsb (path_overlap p) used = false <-> (forall q, In q used -> path_overlap p q = false).
Proof.
  intros p used. induction used as [|u used IH]; cbn [existsb].
  - split; [intros _ q []|reflexivity].
  - rewrite orb_false_iff, IH. split.
    + intros [H1 H2] q [<-|Hin]; [exact H1|apply H2; exact Hin].
    + intros H. split; [apply H; left; reflexivity|intros q Hin; apply H; right; exact Hin].
Qed.

Lemma existsb_overlap_true : forall p used,
  existsb (path_overlap p) used = true <-> (exists q, In q used /\ path_overlap p q = true).
Proof. intros p used. apply existsb_exists. Qed.

Definition is_block (x : value) : Prop := match x with VBlock _ _ _ => True | _ => False end.

Definition leaf_ok (rec : gotype -> goval -> value -> bres) (x : value) : Prop :=
  forall ft fv new, shaped ft fv -> leaf_cb rec x ft fv = BOk new -> shaped ft new.

Lemma leaf_cb_scalar : forall rec x ft fv new, ~ is_block x ->
  leaf_cb rec x ft fv = BOk new -> assignable x ft = true /\ new = GVal x.
Proof.
  intros rec x ft fv new Hnb H. unfold leaf_cb in H.
  destruct x; try (exfalso; apply Hnb; exact I);
    (destruct (assignable _ ft); [inversion H; auto|discriminate]).
Qed.

Lemma leaf_cb_block : forall order fu bt bn bf ft fv new,
  leaf_cb (copy_block fu order) (VBlock bt bn bf) ft fv = BOk new -> exists n fs, ft = TStruct n fs.
Proof.
  intros order fu bt bn bf ft fv new H. unfold leaf_cb in H. destruct fu as [|fu]; [discriminate|].
  destruct ft as [| | | | k | e | t' | t' | n fs]; try (rewrite copy_block_not_struct in H by (intros; discriminate); discriminate).
  eauto.
Qed.

Lemma set_field_nonnil : forall rec tn fs k x opt st p fld,
  find_field fs k = Some (p, fld) -> fexp fld = true -> x <> VNil ->
  set_field_ rec tn fs k x opt st =
  if negb opt && existsb (path_overlap p) (snd st) then inl (inl EDupField)
  else match update_path (2 * length p + 2) (TStruct tn fs) (fst st) p (leaf_cb rec x) with
       | BOk c => inr (c, if opt then snd st else p :: snd st)
       | BErr e => inl (inl e)
       | BPanic => inl (inr true)
       end.
Proof.
  intros rec tn fs k x opt st p fld Hf He Hx. unfold set_field_. rewrite Hf, He. cbn [negb].
  destruct x; try reflexivity. congruence.
Qed.

Lemma set_field_ok : forall rec tn fs k x opt l used cur' used',
  Forall2 shp fs l ->
  set_field_ rec tn fs k x opt (GStruct l, used) = inr (cur', used') ->
  exists p fld l' old new,
    find_field fs k = Some (p, fld) /\ fexp fld = true /\ x <> VNil /\
    (opt = false -> forall q, In q used -> path_overlap p q = false) /\
    used' = (if opt then used else p :: used) /\
    cur' = GStruct l' /\ shaped (ftyp fld) old /\ leaf_cb rec x (ftyp fld) old = BOk new /\
    lookup_path (GStruct l') p = Some new /\
    (forall q y, diverge p q -> lookup_path (GStruct l) q = Some y -> lookup_path (GStruct l') q = Some y) /\
    (shaped (ftyp fld) new -> Forall2 shp fs l').
Proof.
  intros rec tn fs k x opt l used cur' used' HF H.
  destruct (find_field fs k) as [[p fld]|] eqn:Ef;
    [|unfold set_field_ in H; rewrite Ef in H; discriminate].
  destruct (fexp fld) eqn:Ee; [|unfold set_field_ in H; rewrite Ef, Ee in H; discriminate].
  assert (Hx : x <> VNil).
  { intros ->. unfold set_field_ in H; rewrite Ef, Ee in H; discriminate. }
  rewrite (set_field_nonnil _ _ _ _ _ _ _ _ _ Ef Ee Hx) in H. cbn [fst snd] in H.
  destruct (negb opt && existsb (path_overlap p) used) eqn:Ed; [discriminate|].
  destruct (update_path (2 * length p + 2) (TStruct tn fs) (GStruct l) p (leaf_cb rec x)) as [c| |] eqn:Eu;
    try discriminate.
  inversion H; subst c used'. clear H.
  destruct (update_path_ok _ _ _ (find_field_path_ok _ _ _ _ Ef) _ _ _ _ _ HF Eu)
    as (l' & old & new & -> & Hold & Hf & Hl & Hfr & Hshp).
  exists p, fld, l', old, new. repeat (split; [try reflexivity; try assumption|]); try assumption.
  intros ->. cbn in Ed. apply existsb_overlap_false. exact Ed.
Qed.

Section Run.
Variable rec : gotype -> goval -> value -> bres.
Variable tn : bytes.
Variable fs : list field.

Fixpoint run_fields (kvs : list (bytes * value)) (st : state) : berr + bool + state :=
  match kvs with
  | [] => inr st
  | (k, x) :: more =>
    match set_field_ rec tn fs k x false st with
    | inr st' => run_fields more st'
    | e => e
    end
  end.

Lemma fields_loop_run : forall kvs st,
  fields_loop_ rec tn fs kvs st =
  match run_fields kvs st with inr st' => BOk (fst st') | inl (inl e) => BErr e | inl (inr _) => BPanic end.
Proof.
  induction kvs as [|[k x] more IH]; intros st; cbn [fields_loop_ run_fields]; [reflexivity|].
  destruct (set_field_ rec tn fs k x false st) as [[e|b]|st']; try reflexivity. apply IH.
Qed.

Lemma run_fields_app : forall a b st,
  run_fields (a ++ b) st = match run_fields a st with inr st' => run_fields b st' | e => e end.
Proof.
  induction a as [|[k x] a IH]; intros b st; cbn [app run_fields]; [reflexivity|].
  destruct (set_field_ rec tn fs k x false st) as [[e|bb]|st']; try reflexivity. apply IH.
Qed.

Definition pathof (k : bytes) : list nat :=
  match find_field fs k with Some (p, _) => p | None => [] end.

(* the paths used by the entries of a list: no two overlap *)
Definition paths_disjoint (ps : list (list nat)) : Prop :=
  NoDup ps /\ forall a b, In a ps -> In b ps -> a <> b -> path_overlap a b = false.

Lemma run_fields_ok : forall kvs l used cur' used',
  Forall2 shp fs l ->
  (forall k x, In (k, x) kvs -> leaf_ok rec x) ->
  run_fields kvs (GStruct l, used) = inr (cur', used') ->
  exists l', cur' = GStruct l' /\ Forall2 shp fs l' /\
    (forall k x, In (k, x) kvs ->
       exists p fld old new, find_field fs k = Some (p, fld) /\ fexp fld = true /\ x <> VNil /\
         shaped (ftyp fld) old /\ leaf_cb rec x (ftyp fld) old = BOk new /\
         lookup_path (GStruct l') p = Some new) /\
    (forall q y, In q used -> lookup_path (GStruct l) q = Some y -> lookup_path (GStruct l') q = Some y) /\
    used' = rev (map pathof (map fst kvs)) ++ used /\
    paths_disjoint (map pathof (map fst kvs)) /\
    (forall k q, In k (map fst kvs) -> In q used -> path_overlap (pathof k) q = false).
Proof.
  induction kvs as [|[k x] more IH]; intros l used cur' used' HF Hleaf H; cbn [run_fields] in H.
  - inversion H; subst. exists l. split; [reflexivity|]. split; [exact HF|]. split; [intros ? ? []|].
    split; [auto|]. split; [reflexivity|]. split; [split; [constructor|intros ? ? []]|]. intros ? ? [].
  - destruct (set_field_ rec tn fs k x false (GStruct l, used)) as [[e|b]|[c1 u1]] eqn:E; try discriminate.
    destruct (set_field_ok _ _ _ _ _ _ _ _ _ _ HF E)
      as (p & fld & l1 & old & new & Hfind & Hexp & Hx & Hnd & -> & -> & Hold & Hcb & Hl & Hfr & Hshp).
    specialize (Hnd eq_refl).
    assert (HF1 : Forall2 shp fs l1).
    { apply Hshp. eapply (Hleaf k x); [left; reflexivity|exact Hold|exact Hcb]. }
    destruct (IH _ _ _ _ HF1 (fun k' x' Hin => Hleaf k' x' (or_intror Hin)) H)
      as (l' & -> & HF' & Hall & Hkeep & Hused & [Hnodup Hpair] & Hfresh).
    assert (Hp : pathof k = p) by (unfold pathof; rewrite Hfind; reflexivity).
    assert (Htail : forall b, In b (map pathof (map fst more)) -> path_overlap b p = false).
    { intros b Hb. apply in_map_iff in Hb. destruct Hb as (k' & <- & Hk'). apply Hfresh; [exact Hk'|left; reflexivity]. }
    exists l'. split; [reflexivity|]. split; [exact HF'|]. split; [|split; [|split; [|split]]].
    + intros k' x' [Hin|Hin]; [|apply Hall; exact Hin]. injection Hin as <- <-.
      exists p, fld, old, new. repeat (split; [assumption|]).
      apply Hkeep; [left; reflexivity|exact Hl].
    + intros q y Hq Hlq. apply Hkeep; [right; exact Hq|]. apply Hfr; [|exact Hlq].
      apply path_overlap_diverge. apply Hnd. exact Hq.
    + cbn [map rev fst]. rewrite Hp, Hused, <- app_assoc. reflexivity.
    + cbn [map fst]. rewrite Hp. split.
      * constructor; [|exact Hnodup]. intro Hin. specialize (Htail p Hin). rewrite path_overlap_refl in Htail. discriminate.
      * intros a b [<-|Ha] [<-|Hb] Hab.
        -- congruence.
        -- rewrite path_overlap_sym. apply Htail. exact Hb.
        -- apply Htail. exact Ha.
        -- apply Hpair; assumption.
    + intros k' q [Hk'|Hk'] Hq.
      * cbn in Hk'. subst k'. rewrite Hp. apply Hnd. exact Hq.
      * apply Hfresh; [exact Hk'|right; exact Hq].
Qed.

Lemma path_in_prefix : forall fs0 p f1, path_in fs0 p f1 ->
  forall i r f2, path_in fs0 (p ++ i :: r) f2 -> struct_fields (ftyp f1) <> None.
Proof.
  intros fs0 p f1 H. induction H as [fs0 i0 f1 Hn|fs0 i0 g sub rest f1 Hn He Hs Hp IH]; intros i r f2 H2.
  - cbn in H2. inversion H2 as [|? ? g' sub' ? ? Hn' He' Hs' Hp']; subst.
    rewrite Hn in Hn'. inversion Hn'; subst. congruence.
  - cbn in H2. inversion H2 as [? ? ? Hn' Heq|? ? g' sub' ? ? Hn' He' Hs' Hp']; subst.
    + destruct rest; discriminate.
    + rewrite Hn in Hn'. inversion Hn'; subst. rewrite Hs in Hs'. inversion Hs'; subst.
      eapply IH. exact Hp'.
Qed.
End Run.

(* ================================================================== *)
(** * copy_block = type-name check; Name step; fields loop *)

Definition name_step (rec : gotype -> goval -> value -> bres) (tn : bytes) (fs : list field)
                     (v : goval) (bn : bytes) : berr + bool + state :=
  let st0 := (GStruct (as_struct v fs), []) in
  match set_field_ rec tn fs (bs "Name") (VStr bn) (is_empty bn) st0 with
  | inr st1 => inr st1
  | inl (inl EMapping) => if is_empty bn then inr st0 else inl (inl EMapping)
  | e => e
  end.

Lemma copy_body_eq : forall rec tn fs order v bt bn bf,
  copy_body rec tn fs order v bt bn bf =
  if negb (is_empty tn) && negb (unsnake_eq tn bt) then BErr ETypeName
  else match name_step rec tn fs v bn with
       | inr st1 => fields_loop_ rec tn fs (order bf) st1
       | inl (inl e) => BErr e
       | inl (inr _) => BPanic
       end.
Proof.
  intros. unfold copy_body, name_step. cbv zeta.
  destruct (negb (is_empty tn) && negb (unsnake_eq tn bt)); [reflexivity|].
  destruct (set_field_ rec tn fs (bs "Name") (VStr bn) (is_empty bn) (GStruct (as_struct v fs), []))
    as [[e|b]|st1]; try reflexivity.
  destruct e; try reflexivity. destruct (is_empty bn); reflexivity.
Qed.

Lemma is_empty_true : forall s, is_empty s = true -> s = [].
Proof. destruct s; [reflexivity|discriminate]. Qed.
Lemma is_empty_false : forall s, is_empty s = false -> s <> [].
Proof. destruct s; [discriminate|congruence]. Qed.

Lemma name_step_ok : forall rec tn fs v bn c1 u1,
  shaped (TStruct tn fs) v ->
  name_step rec tn fs v bn = inr (c1, u1) ->
  exists l1, c1 = GStruct l1 /\ Forall2 shp fs l1 /\
    ((bn = [] /\ u1 = []) \/
     (bn <> [] /\ exists p fld, find_field fs (bs "Name") = Some (p, fld) /\ fexp fld = true /\
        assignable (VStr bn) (ftyp fld) = true /\ lookup_path (GStruct l1) p = Some (GVal (VStr bn)) /\
        u1 = [p])).
Proof.
  intros rec tn fs v bn c1 u1 Hsh H. unfold name_step in H. cbv zeta in H.
  pose proof (shaped_as_struct _ _ _ Hsh) as HF0.
  destruct (set_field_ rec tn fs (bs "Name") (VStr bn) (is_empty bn) (GStruct (as_struct v fs), []))
    as [[e|b]|[c u]] eqn:E.
  - destruct e; try discriminate. destruct (is_empty bn) eqn:Eb; [|discriminate].
    inversion H; subst. exists (as_struct v fs). split; [reflexivity|]. split; [exact HF0|].
    left. split; [apply is_empty_true; exact Eb|reflexivity].
  - discriminate.
  - inversion H; subst c u. clear H.
    destruct (set_field_ok _ _ _ _ _ _ _ _ _ _ HF0 E)
      as (p & fld & l1 & old & new & Hfind & Hexp & Hx & Hnd & Hu & -> & Hold & Hcb & Hl & Hfr & Hshp).
    assert (Hnb : ~ is_block (VStr bn)) by (intro Hb; exact Hb).
    destruct (leaf_cb_scalar _ _ _ _ _ Hnb Hcb) as [Has ->].
    exists l1. split; [reflexivity|]. split; [apply Hshp; apply sh_leaf; reflexivity|].
    destruct (is_empty bn) eqn:Eb.
    + left. split; [apply is_empty_true; exact Eb|exact Hu].
    + right. split; [apply is_empty_false; exact Eb|]. exists p, fld. auto 8.
Qed.

Lemma copy_block_shaped : forall order fu t v blk v',
  shaped t v -> copy_block fu order t v blk = BOk v' -> shaped t v'.
Proof.
  intros order fu. induction fu as [|fu IH]; intros t v blk v' Hsh H; [discriminate|].
  destruct blk as [| | | | |bt bn bf]; try (rewrite copy_block_not_block in H by (intros; discriminate); discriminate).
  destruct t as [| | | | k | e | t' | t' | tn fs];
    try (rewrite copy_block_not_struct in H by (intros; discriminate); discriminate).
  rewrite copy_block_unfold, copy_body_eq in H.
  destruct (negb (is_empty tn) && negb (unsnake_eq tn bt)); [discriminate|].
  assert (Hleaf : forall x, leaf_ok (copy_block fu order) x).
  { intros x ft fv new Hfv Hcb. unfold leaf_cb in Hcb.
    destruct x; try (destruct (assignable _ ft); [inversion Hcb; apply sh_leaf; reflexivity|discriminate]).
    eapply IH; eassumption. }
  destruct (name_step (copy_block fu order) tn fs v bn) as [[e|b]|[c1 u1]] eqn:En; try discriminate.
  destruct (name_step_ok _ _ _ _ _ _ _ Hsh En) as (l1 & -> & HF1 & _).
  rewrite fields_loop_run in H.
  destruct (run_fields (copy_block fu order) tn fs (order bf) (GStruct l1, u1)) as [[e|b]|[c2 u2]] eqn:Er;
    try discriminate.
  inversion H; subst v'. cbn [fst].
  destruct (run_fields_ok _ _ _ _ _ _ _ _ HF1 (fun k x _ => Hleaf x) Er) as (l' & -> & HF' & _).
  apply sh_struct. exact HF'.
Qed.

Lemma leaf_ok_copy_block : forall order fu x, leaf_ok (copy_block fu order) x.
Proof.
  intros order fu x ft fv new Hfv Hcb. unfold leaf_cb in Hcb.
  destruct x; try (destruct (assignable _ ft); [inversion Hcb; apply sh_leaf; reflexivity|discriminate]).
  eapply copy_block_shaped; eassumption.
Qed.

Notation R63 := (copy_block 63 sorted_fields).

Lemma bind_struct_eq : forall tn fs v0 bt bn kvs,
  bind (TgtPtr (TStruct tn fs) v0) (BdStruct (VBlock bt bn kvs)) =
  match copy_body R63 tn fs sorted_fields v0 bt bn kvs with BOk v' => BOk (GPtrTo v') | o => o end.
Proof.
  intros. unfold bind. cbn [copy_blocks]. change 64%nat with (S 63). rewrite copy_block_unfold. reflexivity.
Qed.

Lemma bind_struct_ok : forall tn fs v0 bt bn kvs w,
  shaped (TStruct tn fs) v0 ->
  bind (TgtPtr (TStruct tn fs) v0) (BdStruct (VBlock bt bn kvs)) = BOk w ->
  (tn = [] \/ unsnake_eq tn bt = true) /\
  exists l1 u1 l' used',
    w = GPtrTo (GStruct l') /\
    name_step R63 tn fs v0 bn = inr (GStruct l1, u1) /\ Forall2 shp fs l1 /\ Forall2 shp fs l' /\
    run_fields R63 tn fs (sorted_fields kvs) (GStruct l1, u1) = inr (GStruct l', used').
Proof.
  intros tn fs v0 bt bn kvs w Hsh H. rewrite bind_struct_eq, copy_body_eq in H.
  destruct (negb (is_empty tn) && negb (unsnake_eq tn bt)) eqn:Et; [discriminate|].
  split.
  { destruct tn; [left; reflexivity|]. right. destruct (unsnake_eq (n :: tn) bt); [reflexivity|cbn in Et; discriminate]. }
  destruct (name_step R63 tn fs v0 bn) as [[e|b]|[c1 u1]] eqn:En; try discriminate.
  destruct (name_step_ok _ _ _ _ _ _ _ Hsh En) as (l1 & -> & HF1 & _).
  rewrite fields_loop_run in H.
  destruct (run_fields R63 tn fs (sorted_fields kvs) (GStruct l1, u1)) as [[e|b]|[c2 u2]] eqn:Er; try discriminate.
  destruct (run_fields_ok _ _ _ _ _ _ _ _ HF1 (fun k x _ => leaf_ok_copy_block sorted_fields 63 x) Er)
    as (l' & -> & HF' & _).
  inversion H; subst w. exists l1, u1, l', u2. auto 8.
Qed.

(* ================================================================== *)
(** * C15_errors (d): defects of single fields *)

Theorem C15_errors_mapping : forall rec tn fs k x opt st,
  find_field fs k = None -> set_field_ rec tn fs k x opt st = inl (inl EMapping).
Proof. intros. unfold set_field_. rewrite H. reflexivity. Qed.

Theorem C15_errors_unexported : forall rec tn fs k x opt st p fld,
  find_field fs k = Some (p, fld) -> fexp fld = false ->
  set_field_ rec tn fs k x opt st = inl (inl EUnexported).
Proof. intros. unfold set_field_. rewrite H, H0. reflexivity. Qed.

Theorem C15_errors_nil_value : forall rec tn fs k opt st p fld,
  find_field fs k = Some (p, fld) -> fexp fld = true ->
  set_field_ rec tn fs k VNil opt st = inl (inl ENilValue).
Proof. intros. unfold set_field_. rewrite H, H0. reflexivity. Qed.

(* a key whose field overlaps a field already used by this block (the same field, a struct
   containing it, or a field inside it) is rejected *)
Theorem C15_errors_dup_field : forall rec tn fs k x cur used p fld q,
  find_field fs k = Some (p, fld) -> fexp fld = true -> x <> VNil ->
  In q used -> path_overlap p q = true ->
  set_field_ rec tn fs k x false (cur, used) = inl (inl EDupField).
Proof.
  intros rec tn fs k x cur used p fld q Hf He Hx Hin Hov.
  rewrite (set_field_nonnil _ _ _ _ _ _ _ _ _ Hf He Hx). cbn [negb snd andb].
  assert (K : existsb (path_overlap p) used = true).
  { apply existsb_overlap_true. exists q. auto. }
  rewrite K. reflexivity.
Qed.

Corollary C15_errors_dup_field_same : forall rec tn fs k x cur used p fld,
  find_field fs k = Some (p, fld) -> fexp fld = true -> x <> VNil -> In p used ->
  set_field_ rec tn fs k x false (cur, used) = inl (inl EDupField).
Proof.
  intros. eapply C15_errors_dup_field; try eassumption. apply path_overlap_refl.
Qed.

(* the callback fails with e: so does update_path, unless a nil embedded pointer is in the way *)
Lemma update_path_err : forall sub path fld, path_in sub path fld ->
  forall fuel n v f e, (2 * length path <= fuel)%nat ->
  (forall fv, f (ftyp fld) fv = BErr e) ->
  update_path fuel (TStruct n sub) v path f = BErr e \/
  update_path fuel (TStruct n sub) v path f = BErr ENilEmbedded.
Proof.
  intros sub path fld H.
  induction H as [fs i fld Hn|fs i g sub rest fld Hn He Hs Hp IH]; intros fuel n v f e Hfuel Hf.
  - cbn [length] in Hfuel. destruct fuel as [|[|fu]]; [lia|lia|]. cbn [update_path]. rewrite Hn.
    rewrite Hf. left. reflexivity.
  - destruct (path_in_nonempty _ _ _ Hp) as (j & r' & ->). cbn [length] in Hfuel, IH.
    destruct fuel as [|fu]; [lia|]. cbn [update_path]. rewrite Hn.
    destruct (struct_fields_inv _ _ Hs) as [[n' E]|[n' E]]; rewrite E in *.
    + destruct (IH fu n' (nth i (as_struct v fs) GZero) f e ltac:(lia) Hf) as [K|K]; rewrite K; auto.
    + destruct fu as [|fu]; [lia|]. cbn [update_path].
      destruct (nth i (as_struct v fs) GZero) as [| | | | | |inner]; auto.
      destruct (IH fu n' inner f e ltac:(lia) Hf) as [K|K]; rewrite K; auto.
Qed.

Lemma update_path_direct : forall fu n fs v i fld f,
  nth_error fs i = Some fld ->
  update_path (S (S fu)) (TStruct n fs) v [i] f =
  match f (ftyp fld) (nth i (as_struct v fs) GZero) with
  | BOk v' => BOk (GStruct (nth_set (as_struct v fs) i v'))
  | o => o
  end.
Proof. intros fu n fs v i fld f Hn. cbn [update_path]. rewrite Hn. reflexivity. Qed.

Lemma update_path_direct' : forall n fs v i fld f,
  nth_error fs i = Some fld ->
  update_path (2 * length [i] + 2) (TStruct n fs) v [i] f =
  match f (ftyp fld) (nth i (as_struct v fs) GZero) with
  | BOk v' => BOk (GStruct (nth_set (as_struct v fs) i v'))
  | o => o
  end.
Proof. intros n fs v i fld f Hn. exact (update_path_direct 2 n fs v i fld f Hn). Qed.

Theorem C15_errors_type_mismatch : forall rec tn fs k x st p fld,
  find_field fs k = Some (p, fld) -> fexp fld = true -> x <> VNil -> ~ is_block x ->
  (forall q, In q (snd st) -> path_overlap p q = false) ->
  assignable x (ftyp fld) = false ->
  set_field_ rec tn fs k x false st = inl (inl ETypeMismatch) \/
  (length p > 1 /\ set_field_ rec tn fs k x false st = inl (inl ENilEmbedded))%nat.
Proof.
  intros rec tn fs k x st p fld Hf He Hx Hnb Hnin Has.
  rewrite (set_field_nonnil _ _ _ _ _ _ _ _ _ Hf He Hx). cbn [negb andb].
  rewrite (proj2 (existsb_overlap_false _ _) Hnin).
  assert (Hcb : forall fv, leaf_cb rec x (ftyp fld) fv = BErr ETypeMismatch).
  { intros fv. unfold leaf_cb. destruct x; try (rewrite Has; reflexivity). exfalso. apply Hnb. exact I. }
  pose proof (find_field_path_ok _ _ _ _ Hf) as Hp.
  destruct (update_path_err _ _ _ Hp (2 * length p + 2)%nat tn (fst st) _ _ ltac:(lia) Hcb) as [K|K];
    rewrite K; [left; reflexivity|].
  right. split; [|reflexivity].
  inversion Hp as [? i ? Hn|? i g sub rest ? Hn Hem Hs Hp']; subst.
  - exfalso. rewrite (update_path_direct' _ _ _ _ _ _ Hn), Hcb in K. discriminate.
  - destruct (path_in_nonempty _ _ _ Hp') as (j & r & ->). cbn. lia.
Qed.

Theorem C15_errors_block_not_struct : forall order fu tn fs k bt bn bf st p fld,
  find_field fs k = Some (p, fld) -> fexp fld = true ->
  (forall q, In q (snd st) -> path_overlap p q = false) ->
  (forall n' fs', ftyp fld <> TStruct n' fs') ->
  set_field_ (copy_block (S fu) order) tn fs k (VBlock bt bn bf) false st = inl (inl EBlockNotStruct) \/
  (length p > 1 /\
   set_field_ (copy_block (S fu) order) tn fs k (VBlock bt bn bf) false st = inl (inl ENilEmbedded))%nat.
Proof.
  intros order fu tn fs k bt bn bf st p fld Hf He Hnin Hns.
  rewrite (set_field_nonnil _ _ _ _ _ _ _ _ _ Hf He) by discriminate. cbn [negb andb].
  rewrite (proj2 (existsb_overlap_false _ _) Hnin).
  assert (Hcb : forall fv, leaf_cb (copy_block (S fu) order) (VBlock bt bn bf) (ftyp fld) fv = BErr EBlockNotStruct).
  { intros fv. unfold leaf_cb. apply copy_block_not_struct. exact Hns. }
  pose proof (find_field_path_ok _ _ _ _ Hf) as Hp.
  destruct (update_path_err _ _ _ Hp (2 * length p + 2)%nat tn (fst st) _ _ ltac:(lia) Hcb) as [K|K];
    rewrite K; [left; reflexivity|].
  right. split; [|reflexivity].
  inversion Hp as [? i ? Hn|? i g sub rest ? Hn Hem Hs Hp']; subst.
  - exfalso. rewrite (update_path_direct' _ _ _ _ _ _ Hn), Hcb in K. discriminate.
  - destruct (path_in_nonempty _ _ _ Hp') as (j & r & ->). cbn. lia.
Qed.

(* the first field (in sorted key order) whose set_field fails determines the result of Bind *)
Theorem C15_errors_first : forall tn fs v0 bt bn kvs pre k x post st1 st' e,
  (tn = [] \/ unsnake_eq tn bt = true) ->
  name_step R63 tn fs v0 bn = inr st1 ->
  sorted_fields kvs = pre ++ (k, x) :: post ->
  run_fields R63 tn fs pre st1 = inr st' ->
  set_field_ R63 tn fs k x false st' = inl (inl e) ->
  bind (TgtPtr (TStruct tn fs) v0) (BdStruct (VBlock bt bn kvs)) = BErr e.
Proof.
  intros tn fs v0 bt bn kvs pre k x post st1 st' e Ht Hn Hs Hr He.
  rewrite bind_struct_eq, copy_body_eq.
  assert (Et : negb (is_empty tn) && negb (unsnake_eq tn bt) = false).
  { destruct Ht as [-> | ->]; [reflexivity|]. apply andb_false_r. }
  rewrite Et, Hn, fields_loop_run, Hs, run_fields_app, Hr. cbn [run_fields]. rewrite He. reflexivity.
Qed.

(* an error of the Name step is the result, too *)
Theorem C15_errors_name : forall tn fs v0 bt bn kvs e,
  (tn = [] \/ unsnake_eq tn bt = true) ->
  name_step R63 tn fs v0 bn = inl (inl e) ->
  bind (TgtPtr (TStruct tn fs) v0) (BdStruct (VBlock bt bn kvs)) = BErr e.
Proof.
  intros tn fs v0 bt bn kvs e Ht Hn. rewrite bind_struct_eq, copy_body_eq.
  assert (Et : negb (is_empty tn) && negb (unsnake_eq tn bt) = false).
  { destruct Ht as [-> | ->]; [reflexivity|]. apply andb_false_r. }
  rewrite Et, Hn. reflexivity.
Qed.


(* ================================================================== *)
(** * C15_faithful *)

Lemma NoDup_map_in_inj : forall {A B} (f : A -> B) l a b,
  NoDup (map f l) -> In a l -> In b l -> f a = f b -> a = b.
Proof.
  intros A B f l. induction l as [|x l IH]; intros a b Hnd Ha Hb E; [destruct Ha|].
  cbn [map] in Hnd. apply NoDup_cons_iff in Hnd. destruct Hnd as [Hnin Hnd].
  destruct Ha as [<-|Ha]; destruct Hb as [<-|Hb].
  - reflexivity.
  - exfalso. apply Hnin. rewrite E. apply in_map. exact Hb.
  - exfalso. apply Hnin. rewrite <- E. apply in_map. exact Ha.
  - apply IH; assumption.
Qed.

Lemma paths_disjoint_perm : forall a b, Permutation a b -> paths_disjoint a -> paths_disjoint b.
Proof.
  intros a b HP [Hnd Hpair]. split.
  - eapply Permutation_NoDup; eassumption.
  - intros x y Hx Hy. apply Hpair; eapply Permutation_in; try eassumption; apply Permutation_sym; exact HP.
Qed.

Lemma paths_disjoint_keys : forall (f : bytes -> list nat) keys,
  paths_disjoint (map f keys) ->
  forall k1 k2, In k1 keys -> In k2 keys -> k1 <> k2 -> path_overlap (f k1) (f k2) = false.
Proof.
  intros f keys [Hnd Hpair] k1 k2 H1 H2 Hne. apply Hpair; try (apply in_map; assumption).
  intro E. apply Hne. eapply NoDup_map_in_inj; eassumption.
Qed.

(* The hypothesis [shaped] concerns only how the model represents the previous content of the target:
   a GStruct with a wrong number of entries is not a value of the struct type (no Go value
   corresponds to it), and the model's nth_set silently drops stores into it.  GZero, GPrev and
   every value produced by Bind itself are shaped. *)
Theorem C15_faithful : forall tn fs v0 bt bn kvs v',
  shaped (TStruct tn fs) v0 ->
  bind (TgtPtr (TStruct tn fs) v0) (BdStruct (VBlock bt bn kvs)) = BOk (GPtrTo v') ->
  (* 1. every scalar value is found, unchanged, in the exported field its key maps to *)
  (forall k x, In (k, x) kvs -> ~ is_block x ->
     exists path fld, find_field fs k = Some (path, fld) /\ fexp fld = true /\
                      lookup_path v' path = Some (GVal x) /\ assignable x (ftyp fld) = true) /\
  (* 2. the entries go to pairwise non-overlapping fields: no two keys share a field, and none
        addresses a struct containing another one's field *)
  NoDup (map (pathof fs) (map fst kvs)) /\
  (forall k1 k2, In k1 (map fst kvs) -> In k2 (map fst kvs) -> k1 <> k2 ->
                 path_overlap (pathof fs k1) (pathof fs k2) = false) /\
  (* 3. a non-empty block name is stored in the field found for "Name"; no key overlaps it *)
  (bn <> [] ->
     exists path fld, find_field fs (bs "Name") = Some (path, fld) /\ fexp fld = true /\
                      lookup_path v' path = Some (GVal (VStr bn)) /\
                      forall k, In k (map fst kvs) -> path_overlap (pathof fs k) path = false).
Proof.
  intros tn fs v0 bt bn kvs v' Hsh H.
  destruct (bind_struct_ok _ _ _ _ _ _ _ Hsh H) as (Ht & l1 & u1 & l' & used' & Hw & Hn & HF1 & HF' & Hr).
  inversion Hw; subst v'. clear Hw.
  pose proof (fun k x (_ : In (k, x) (sorted_fields kvs)) => leaf_ok_copy_block sorted_fields 63 x) as Hleaf.
  destruct (run_fields_ok _ _ _ _ _ _ _ _ HF1 Hleaf Hr)
    as (l2 & El & _ & Hall & Hkeep & Hused & Hdisj & Hfresh).
  inversion El; subst l2. clear El.
  assert (Hperm : Permutation (map (pathof fs) (map fst (sorted_fields kvs))) (map (pathof fs) (map fst kvs))).
  { do 2 apply Permutation_map. apply sorted_fields_perm. }
  pose proof (paths_disjoint_perm _ _ Hperm Hdisj) as Hdisj'.
  assert (Hkeys : forall k, In k (map fst kvs) -> In k (map fst (sorted_fields kvs))).
  { intros k Hin. eapply Permutation_in; [|exact Hin]. apply Permutation_map. apply Permutation_sym.
    apply sorted_fields_perm. }
  split; [|split; [exact (proj1 Hdisj')|split]].
  - intros k x Hin Hnb. apply (proj2 (sorted_fields_in _ _)) in Hin.
    destruct (Hall _ _ Hin) as (p & fld & old & new & A & B & C & D & E & F).
    destruct (leaf_cb_scalar _ _ _ _ _ Hnb E) as [Has ->]. exists p, fld. auto.
  - apply paths_disjoint_keys. exact Hdisj'.
  - intros Hbn.
    destruct (name_step_ok _ _ _ _ _ _ _ Hsh Hn) as (l1' & El & _ & [[Hb _]|(_ & p & fld & A & B & C & D & Eu)]);
      [contradiction|].
    inversion El; subst l1'. subst u1.
    exists p, fld. split; [exact A|]. split; [exact B|]. split.
    + apply Hkeep; [left; reflexivity|exact D].
    + intros k Hk. apply Hfresh; [apply Hkeys; exact Hk|left; reflexivity].
Qed.

(* distinct keys never share or overlap a field *)
Corollary C15_faithful_distinct : forall tn fs v0 bt bn kvs v' k1 x1 k2 x2 p1 f1 p2 f2,
  shaped (TStruct tn fs) v0 ->
  bind (TgtPtr (TStruct tn fs) v0) (BdStruct (VBlock bt bn kvs)) = BOk (GPtrTo v') ->
  In (k1, x1) kvs -> In (k2, x2) kvs -> k1 <> k2 ->
  find_field fs k1 = Some (p1, f1) -> find_field fs k2 = Some (p2, f2) ->
  path_overlap p1 p2 = false /\ p1 <> p2.
Proof.
  intros tn fs v0 bt bn kvs v' k1 x1 k2 x2 p1 f1 p2 f2 Hsh H H1 H2 Hne F1 F2.
  destruct (C15_faithful _ _ _ _ _ _ _ Hsh H) as (_ & _ & Hov & _).
  assert (P1 : pathof fs k1 = p1) by (unfold pathof; rewrite F1; reflexivity).
  assert (P2 : pathof fs k2 = p2) by (unfold pathof; rewrite F2; reflexivity).
  assert (K : path_overlap p1 p2 = false).
  { rewrite <- P1, <- P2. apply Hov; try assumption.
    - apply in_map_iff. exists (k1, x1). auto.
    - apply in_map_iff. exists (k2, x2). auto. }
  split; [exact K|]. intros ->. rewrite path_overlap_refl in K. discriminate.
Qed.

(* Before the repair a block addressed to an embedded struct could silently overwrite a promoted
   field set by another key (or be overwritten by it).  Now both orders are rejected:
   "X" sorts before "inner" (scalar first), "x" after it (block first). *)
Definition cx_inner := TStruct (bs "Inner") [Field (bs "X") true false [] TInt].
Definition cx_fs := [Field (bs "Inner") true true [] cx_inner].
Definition cx_blk := VBlock (bs "inner") [] [(bs "x", VInt 7)].

Example C15_faithful_counterexample_embedded :
  sorted_fields [(bs "inner", cx_blk); (bs "X", VInt 5)] = [(bs "X", VInt 5); (bs "inner", cx_blk)] /\
  sorted_fields [(bs "x", VInt 5); (bs "inner", cx_blk)] = [(bs "inner", cx_blk); (bs "x", VInt 5)] /\
  find_field cx_fs (bs "X") = Some ([0; 0]%nat, Field (bs "X") true false [] TInt) /\
  find_field cx_fs (bs "inner") = Some ([0]%nat, Field (bs "Inner") true true [] cx_inner) /\
  path_overlap [0; 0]%nat [0]%nat = true /\
  bind (TgtPtr (TStruct [] cx_fs) GZero) (BdStruct (VBlock [] [] [(bs "inner", cx_blk); (bs "X", VInt 5)]))
    = BErr EDupField /\
  bind (TgtPtr (TStruct [] cx_fs) GZero) (BdStruct (VBlock [] [] [(bs "x", VInt 5); (bs "inner", cx_blk)]))
    = BErr EDupField /\
  (* each key alone is fine *)
  bind (TgtPtr (TStruct [] cx_fs) GZero) (BdStruct (VBlock [] [] [(bs "inner", cx_blk)]))
    = BOk (GPtrTo (GStruct [GStruct [GVal (VInt 7)]])) /\
  bind (TgtPtr (TStruct [] cx_fs) GZero) (BdStruct (VBlock [] [] [(bs "X", VInt 5)]))
    = BOk (GPtrTo (GStruct [GStruct [GVal (VInt 5)]])).
Proof. repeat split; vm_compute; reflexivity. Qed.

(* why [shaped]: a previous struct value with too few entries (not a value of the type) swallows the store *)
Example C15_faithful_counterexample_shape :
  bind (TgtPtr (TStruct [] [Field (bs "X") true false [] TInt]) (GStruct [])) (BdStruct (VBlock [] [] [(bs "x", VInt 5)]))
    = BOk (GPtrTo (GStruct [])).
Proof. vm_compute. reflexivity. Qed.

Example C15_faithful_example :
  exists v', bind (TgtPtr ex_type GZero) (BdStruct ex_block) = BOk (GPtrTo v') /\
    lookup_path v' [1; 1]%nat = Some (GVal (VInt 80)) /\          (* port -> Inner.Port, promoted *)
    lookup_path v' [1; 0]%nat = Some (GVal (VStr (bs "h"))) /\     (* host -> Inner.Host, promoted *)
    lookup_path v' [2]%nat = Some (GVal (VFloat 0)) /\             (* r -> tagged field Ratio *)
    lookup_path v' [0]%nat = Some (GVal (VStr (bs "main"))) /\     (* block name -> Name *)
    lookup_path v' [6; 0]%nat = Some (GVal (VInt 9)).              (* limits.max *)
Proof. eexists. split; [vm_compute; reflexivity|]. repeat split. Qed.

(* ================================================================== *)
(** * C05: round trip for the supported family -- string and lookup lemmas *)

Definition fkey (s : bytes) : bytes := map lower (strip_us s).

Lemma unsnake_eq_fkey : forall a b, unsnake_eq a b = bytes_eqb (fkey a) (fkey b).
Proof. reflexivity. Qed.

Lemma unsnake_eq_true : forall a b, unsnake_eq a b = true <-> fkey a = fkey b.
Proof. intros. rewrite unsnake_eq_fkey. apply bytes_eqb_eq. Qed.

Lemma lower_idem : forall c, lower (lower c) = lower c.
Proof.
  intros c. unfold lower. destruct ((65 <=? c) && (c <=? 90)) eqn:E.
  - apply andb_true_iff in E. destruct E as [E1 E2]. apply N.leb_le in E1, E2.
    assert (K : (65 <=? c + 32) && (c + 32 <=? 90) = false).
    { apply andb_false_iff. right. apply N.leb_gt. lia. }
    rewrite K. reflexivity.
  - rewrite E. reflexivity.
Qed.

Lemma lower_us : forall c, (lower c =? 95) = (c =? 95).
Proof.
  intros c. unfold lower.
  destruct (N.leb_spec 65 c); destruct (N.leb_spec c 90); cbn [andb]; try reflexivity.
  destruct (N.eqb_spec (c + 32) 95); destruct (N.eqb_spec c 95); try reflexivity; lia.
Qed.

Lemma lower_dot : forall c, lower c = 46 -> c = 46.
Proof.
  intros c. unfold lower.
  destruct (N.leb_spec 65 c); destruct (N.leb_spec c 90); cbn [andb]; intro; lia.
Qed.

Lemma fkey_lower : forall s, fkey (map lower s) = fkey s.
Proof.
  unfold fkey, strip_us. induction s as [|c s IH]; [reflexivity|].
  cbn [map filter]. rewrite lower_us. destruct (negb (c =? 95)); cbn [map]; [rewrite lower_idem|]; rewrite IH; reflexivity.
Qed.

Lemma cut_dot_nodot : forall s, ~ In 46 s -> cut_dot s = s.
Proof.
  induction s as [|c s IH]; intros H; [reflexivity|]. cbn [cut_dot].
  destruct (N.eqb_spec c 46) as [->|Hc]; [exfalso; apply H; left; reflexivity|].
  rewrite IH; [reflexivity|]. intro Hin. apply H. right. exact Hin.
Qed.

Lemma nodot_lower : forall s, ~ In 46 s -> ~ In 46 (map lower s).
Proof.
  intros s H Hin. apply in_map_iff in Hin. destruct Hin as (c & Hc & Hin). apply lower_dot in Hc. subst. contradiction.
Qed.

(* --- find_field on flat, untagged structs --- *)
Fixpoint scan_flat (m : bytes -> bool) (path : list nat) (fs : list field) (b : nat) : list (list nat * field) :=
  match fs with
  | [] => []
  | f :: r => if m (fname_ f) then (path ++ [b], f) :: scan_flat m path r (S b) else scan_flat m path r (S b)
  end.

Definition flat (fs : list field) : Prop := forall f, In f fs -> femb f = false /\ ftag f = [].

Lemma flat_cons : forall f r, flat (f :: r) -> flat r.
Proof. intros f r H g Hin. apply H. right. exact Hin. Qed.

Lemma scan_fields_flat : forall m path fs b, flat fs -> scan_fields m path fs b = (scan_flat m path fs b, []).
Proof.
  intros m path fs. induction fs as [|f r IH]; intros b Hfl; [reflexivity|].
  cbn [scan_fields scan_flat]. rewrite (IH (S b) (flat_cons _ _ Hfl)).
  destruct (m (fname_ f)); [reflexivity|].
  destruct (Hfl f (or_introl eq_refl)) as [He _]. rewrite He. reflexivity.
Qed.

Lemma scan_flat_none : forall m path fs b,
  (forall g, In g fs -> m (fname_ g) = false) -> scan_flat m path fs b = [].
Proof.
  intros m path fs. induction fs as [|f r IH]; intros b H; [reflexivity|].
  cbn [scan_flat]. rewrite (H f (or_introl eq_refl)). apply IH. intros g Hin. apply H. right. exact Hin.
Qed.

Lemma scan_flat_one : forall m path fs b i f,
  nth_error fs i = Some f -> m (fname_ f) = true ->
  (forall j g, nth_error fs j = Some g -> m (fname_ g) = true -> j = i) ->
  scan_flat m path fs b = [(path ++ [b + i]%nat, f)].
Proof.
  intros m path fs. induction fs as [|g r IH]; intros b i f Hn Hm Huniq; [destruct i; discriminate|].
  cbn [scan_flat]. destruct i as [|i]; cbn in Hn.
  - inversion Hn; subst g. rewrite Hm. rewrite Nat.add_0_r. f_equal.
    apply scan_flat_none. intros g Hin. destruct (m (fname_ g)) eqn:Eg; [|reflexivity].
    apply In_nth_error in Hin. destruct Hin as [j Hj]. specialize (Huniq (S j) g Hj Eg). discriminate.
  - destruct (m (fname_ g)) eqn:Eg.
    + specialize (Huniq 0%nat g eq_refl Eg). discriminate.
    + rewrite (IH (S b) i f Hn Hm).
      * replace (S b + i)%nat with (b + S i)%nat by lia. reflexivity.
      * intros j g' Hj Hg'. specialize (Huniq (S j) g' Hj Hg'). congruence.
Qed.

Lemma flat_has_tags : forall fs, flat fs -> has_tags fs = false.
Proof.
  unfold has_tags. induction fs as [|f r IH]; intros H; [reflexivity|]. cbn [existsb].
  destruct (H f (or_introl eq_refl)) as [_ Ht]. rewrite Ht. cbn. apply IH. eapply flat_cons. exact H.
Qed.

Lemma find_field_flat : forall fs k i f,
  flat fs -> nth_error fs i = Some f ->
  unsnake_eq (fname_ f) (cut_dot k) = true ->
  (forall j g, nth_error fs j = Some g -> unsnake_eq (fname_ g) (cut_dot k) = true -> j = i) ->
  find_field fs k = Some ([i], f).
Proof.
  intros fs k i f Hfl Hn Hm Huniq. unfold find_field. rewrite (flat_has_tags _ Hfl).
  unfold field_by_name_func. cbn [bfs map flat_map fst snd].
  rewrite (scan_fields_flat _ _ _ _ Hfl). cbn [fst snd app].
  rewrite (scan_flat_one (fun s => unsnake_eq s (cut_dot k)) [] fs 0 i f Hn Hm Huniq). reflexivity.
Qed.

Lemma find_field_flat_none : forall fs k,
  flat fs -> (forall g, In g fs -> unsnake_eq (fname_ g) (cut_dot k) = false) -> find_field fs k = None.
Proof.
  intros fs k Hfl Hnone. unfold find_field. rewrite (flat_has_tags _ Hfl).
  unfold field_by_name_func. cbn [bfs map flat_map fst snd].
  rewrite (scan_fields_flat _ _ _ _ Hfl). cbn [fst snd app].
  rewrite (scan_flat_none (fun s => unsnake_eq s (cut_dot k)) [] fs 0 Hnone). reflexivity.
Qed.

Lemma NoDup_map_nth_inj : forall {A B} (h : A -> B) l i j a b,
  NoDup (map h l) -> nth_error l i = Some a -> nth_error l j = Some b -> h a = h b -> i = j.
Proof.
  intros A B h l. induction l as [|x l IH]; intros i j a b Hnd Hi Hj Hab; [destruct i; discriminate|].
  cbn [map] in Hnd. apply NoDup_cons_iff in Hnd. destruct Hnd as [Hnin Hnd].
  destruct i as [|i], j as [|j]; cbn in Hi, Hj.
  - reflexivity.
  - exfalso. inversion Hi; subst. apply Hnin. rewrite Hab. apply in_map. eapply nth_error_In. exact Hj.
  - exfalso. inversion Hj; subst. apply Hnin. rewrite <- Hab. apply in_map. eapply nth_error_In. exact Hi.
  - f_equal. eapply IH; eassumption.
Qed.

Lemma nth_nth_set_same : forall l i v d, (i < length l)%nat -> nth i (nth_set l i v) d = v.
Proof.
  induction l as [|x l IH]; intros i v d H; cbn in H; [lia|]. destruct i; cbn; [reflexivity|]. apply IH. lia.
Qed.

Lemma nth_nth_set_other : forall l i j v d, i <> j -> nth j (nth_set l i v) d = nth j l d.
Proof.
  induction l as [|x l IH]; intros i j v d H; destruct i, j; cbn; try reflexivity; try congruence.
  apply IH. congruence.
Qed.

Lemma nth_zeros : forall (fs : list field) i, nth i (map (fun _ => GZero) fs) GZero = GZero.
Proof. induction fs as [|f r IH]; intros i; destruct i; cbn; try reflexivity. apply IH. Qed.

Lemma path_overlap_single : forall i j, path_overlap [i] [j] = false <-> i <> j.
Proof.
  intros i j. cbn. rewrite andb_true_r. apply Nat.eqb_neq.
Qed.

(* the fields loop on direct fields that are still zero: each entry lands in its own slot *)
Lemma flat_loop : forall rec tn fs lv items l used,
  length l = length fs ->
  NoDup (map fst items) ->
  (forall k x, In (k, x) items ->
     exists i f, nth_error fs i = Some f /\ find_field fs k = Some ([i], f) /\ fexp f = true /\ x <> VNil /\
                 (forall q, In q used -> path_overlap [i] q = false) /\ nth i l GZero = GZero /\
                 leaf_cb rec x (ftyp f) GZero = BOk (nth i lv GZero)) ->
  (forall k x k' x' i f f', In (k, x) items -> In (k', x') items ->
     find_field fs k = Some ([i], f) -> find_field fs k' = Some ([i], f') -> k = k') ->
  exists l', fields_loop_ rec tn fs items (GStruct l, used) = BOk (GStruct l') /\ length l' = length fs /\
    (forall k x i f, In (k, x) items -> find_field fs k = Some ([i], f) -> nth i l' GZero = nth i lv GZero) /\
    (forall j, (forall k x f, In (k, x) items -> find_field fs k <> Some ([j], f)) ->
               nth j l' GZero = nth j l GZero).
Proof.
  intros rec tn fs lv items. induction items as [|[k x] more IH]; intros l used Hlen Hnd Hent Hinj.
  - exists l. cbn [fields_loop_ fst]. split; [reflexivity|]. split; [exact Hlen|]. split; [intros ? ? ? ? []|].
    intros; reflexivity.
  - destruct (Hent k x (or_introl eq_refl)) as (i & f & Hn & Hfind & Hexp & Hx & Hnin & Hz & Hcb).
    cbn [map fst] in Hnd. apply NoDup_cons_iff in Hnd. destruct Hnd as [Hknin Hnd].
    assert (Hi : (i < length l)%nat).
    { rewrite Hlen. apply nth_error_Some. congruence. }
    assert (Hother : forall k' x' i' f', In (k', x') more -> find_field fs k' = Some ([i'], f') -> i' <> i).
    { intros k' x' i' f' Hin Hf' ->. apply Hknin.
      rewrite (Hinj k x k' x' i f f' (or_introl eq_refl) (or_intror Hin) Hfind Hf').
      apply in_map_iff. exists (k', x'). split; [reflexivity|exact Hin]. }
    set (l1 := nth_set l i (nth i lv GZero)).
    assert (Hstep : set_field_ rec tn fs k x false (GStruct l, used) = inr (GStruct l1, [i] :: used)).
    { rewrite (set_field_nonnil _ _ _ _ _ _ _ _ _ Hfind Hexp Hx). cbn [negb andb fst snd].
      rewrite (proj2 (existsb_overlap_false _ _) Hnin).
      rewrite (update_path_direct' _ _ _ _ _ _ Hn). cbn [as_struct]. rewrite Hz, Hcb. reflexivity. }
    destruct (IH l1 ([i] :: used)) as (l' & Hloop & Hlen' & Hset & Hkeep).
    + unfold l1. rewrite nth_set_length. exact Hlen.
    + exact Hnd.
    + intros k' x' Hin. destruct (Hent k' x' (or_intror Hin)) as (i' & f' & A & B & C & D & E & F & G).
      exists i', f'. repeat (split; [assumption|]). pose proof (Hother _ _ _ _ Hin B) as Hne. split; [|split].
      * intros q [<-|Hin']; [apply path_overlap_single; exact Hne|apply E; exact Hin'].
      * unfold l1. rewrite nth_nth_set_other by congruence. exact F.
      * exact G.
    + intros k1 x1 k2 x2 i0 f1 f2 H1 H2. apply (Hinj k1 x1 k2 x2 i0 f1 f2); right; assumption.
    + exists l'. split; [|split; [exact Hlen'|split]].
      * cbn [fields_loop_]. rewrite Hstep. exact Hloop.
      * intros k0 x0 i0 f0 [Hin|Hin] Hf0; [|eapply Hset; eassumption].
        inversion Hin; subst k0 x0. rewrite Hfind in Hf0. inversion Hf0; subst i0 f0.
        rewrite Hkeep.
        -- unfold l1. apply nth_nth_set_same. exact Hi.
        -- intros k' x' f' Hin' Hf'. apply (Hother _ _ _ _ Hin' Hf'). reflexivity.
      * intros j Hj. rewrite Hkeep.
        -- unfold l1. apply nth_nth_set_other. intros ->. apply (Hj k x f (or_introl eq_refl)). exact Hfind.
        -- intros k' x' f' Hin'. apply (Hj k' x' f'). right. exact Hin'.
Qed.

(* ================================================================== *)
(** * C05: the family of supported shapes, its values, and the blocks that describe them *)

Definition is_name (s : bytes) : bool := unsnake_eq s (bs "Name").
Definition scalar_ty (t : gotype) : bool :=
  match t with TInt | TFloat64 | TString | TBool => true | _ => false end.
Definition tyname (t : gotype) : bytes := match t with TStruct n _ => n | _ => [] end.

(* [fam d t]: struct type, nesting depth at most d; fields exported, not embedded, untagged, names
   without '.', pairwise distinct even after case/underscore folding; a field whose name folds to
   "name" is a string (it receives the block name); the others are int/float64/string/bool or a
   nested struct of the family *)
Inductive fam : nat -> gotype -> Prop :=
| fam_struct : forall d tn fs,
    NoDup (map (fun f => fkey (fname_ f)) fs) ->
    Forall (fun f => fexp f = true /\ femb f = false /\ ftag f = [] /\ ~ In 46 (fname_ f) /\
                     ((is_name (fname_ f) = true /\ ftyp f = TString) \/
                      (is_name (fname_ f) = false /\ (scalar_ty (ftyp f) = true \/ fam d (ftyp f))))) fs ->
    fam (S d) (TStruct tn fs).

Inductive inhabits : gotype -> goval -> Prop :=
| inh_int : forall z, inhabits TInt (GVal (VInt z))
| inh_float : forall b, inhabits TFloat64 (GVal (VFloat b))
| inh_str : forall s, inhabits TString (GVal (VStr s))
| inh_bool : forall b, inhabits TBool (GVal (VBool b))
| inh_struct : forall tn fs l, Forall2 (fun f x => inhabits (ftyp f) x) fs l -> inhabits (TStruct tn fs) (GStruct l).

Fixpoint name_of (fs : list field) (l : list goval) : bytes :=
  match fs, l with
  | f :: fs', x :: l' =>
    if is_name (fname_ f) then match x with GVal (VStr s) => s | _ => [] end else name_of fs' l'
  | _, _ => []
  end.

(* the block describing value v of type t: keys = lower-cased field names, nested blocks for nested
   structs (their block type is the struct's type name), block name taken from the Name field *)
Fixpoint blocks_of (t : gotype) (v : goval) (bt : bytes) {struct v} : value :=
  match v with
  | GVal y => y
  | GStruct l =>
    match t with
    | TStruct _ fs =>
      VBlock bt (name_of fs l)
        ((fix ents (fs : list field) (l : list goval) {struct l} : list (bytes * value) :=
            match l, fs with
            | x :: l', f :: fs' =>
              if is_name (fname_ f) then ents fs' l'
              else (map lower (fname_ f), blocks_of (ftyp f) x (tyname (ftyp f))) :: ents fs' l'
            | _, _ => []
            end) fs l)
    | _ => VNil
    end
  | _ => VNil
  end.

Fixpoint entries (fs : list field) (l : list goval) {struct l} : list (bytes * value) :=
  match l, fs with
  | x :: l', f :: fs' =>
    if is_name (fname_ f) then entries fs' l'
    else (map lower (fname_ f), blocks_of (ftyp f) x (tyname (ftyp f))) :: entries fs' l'
  | _, _ => []
  end.

Lemma blocks_of_struct : forall tn fs l bt,
  blocks_of (TStruct tn fs) (GStruct l) bt = VBlock bt (name_of fs l) (entries fs l).
Proof. reflexivity. Qed.

Lemma entries_in : forall fs l k x, In (k, x) (entries fs l) ->
  exists i f y, nth_error fs i = Some f /\ nth_error l i = Some y /\ is_name (fname_ f) = false /\
                k = map lower (fname_ f) /\ x = blocks_of (ftyp f) y (tyname (ftyp f)).
Proof.
  intros fs l. revert fs. induction l as [|y l IH]; intros fs k x Hin; [destruct Hin|].
  destruct fs as [|f fs]; [destruct Hin|]. cbn [entries] in Hin.
  destruct (is_name (fname_ f)) eqn:En.
  - destruct (IH _ _ _ Hin) as (i & g & z & A & B & C). exists (S i), g, z. auto.
  - destruct Hin as [Hin|Hin].
    + inversion Hin; subst. exists 0%nat, f, y. auto.
    + destruct (IH _ _ _ Hin) as (i & g & z & A & B & C). exists (S i), g, z. auto.
Qed.

Lemma entries_complete : forall fs l i f y,
  nth_error fs i = Some f -> nth_error l i = Some y -> is_name (fname_ f) = false ->
  In (map lower (fname_ f), blocks_of (ftyp f) y (tyname (ftyp f))) (entries fs l).
Proof.
  intros fs l. revert fs. induction l as [|y0 l IH]; intros fs i f y Hf Hl Hn; [destruct i; discriminate|].
  destruct fs as [|f0 fs]; [destruct i; discriminate|]. cbn [entries].
  destruct i as [|i]; cbn in Hf, Hl.
  - inversion Hf; inversion Hl; subst. rewrite Hn. left. reflexivity.
  - destruct (is_name (fname_ f0)); [|right]; eapply IH; eassumption.
Qed.

Lemma entries_keys_nodup : forall fs l,
  NoDup (map (fun f => fkey (fname_ f)) fs) -> NoDup (map fst (entries fs l)).
Proof.
  intros fs l. revert fs. induction l as [|y l IH]; intros fs Hnd; [constructor|].
  destruct fs as [|f fs]; [constructor|]. cbn [entries].
  cbn [map] in Hnd. apply NoDup_cons_iff in Hnd. destruct Hnd as [Hnin Hnd].
  destruct (is_name (fname_ f)); [apply IH; exact Hnd|].
  cbn [map fst]. constructor; [|apply IH; exact Hnd].
  intro Hin. apply in_map_iff in Hin. destruct Hin as ([k x] & Hk & Hin). cbn in Hk. subst k.
  destruct (entries_in _ _ _ _ Hin) as (i & g & z & A & _ & _ & E & _).
  apply Hnin. apply in_map_iff. exists g. split; [|eapply nth_error_In; exact A].
  rewrite <- (fkey_lower (fname_ g)), <- E, fkey_lower. reflexivity.
Qed.

Lemma name_of_none : forall fs l, (forall g, In g fs -> is_name (fname_ g) = false) -> name_of fs l = [].
Proof.
  induction fs as [|f fs IH]; intros l H; [reflexivity|]. destruct l as [|x l]; [reflexivity|].
  cbn [name_of]. rewrite (H f (or_introl eq_refl)). apply IH. intros g Hin. apply H. right. exact Hin.
Qed.

Lemma name_of_spec : forall fs l i f s,
  nth_error fs i = Some f -> is_name (fname_ f) = true ->
  (forall j g, nth_error fs j = Some g -> is_name (fname_ g) = true -> j = i) ->
  nth_error l i = Some (GVal (VStr s)) -> name_of fs l = s.
Proof.
  induction fs as [|f0 fs IH]; intros l i f s Hf Hn Huniq Hl; [destruct i; discriminate|].
  destruct l as [|x l]; [destruct i; discriminate|]. cbn [name_of].
  destruct i as [|i]; cbn in Hf, Hl.
  - inversion Hf; inversion Hl; subst. rewrite Hn. reflexivity.
  - destruct (is_name (fname_ f0)) eqn:E0.
    + specialize (Huniq 0%nat f0 eq_refl E0). discriminate.
    + eapply IH; try eassumption. intros j g Hj Hg. specialize (Huniq (S j) g Hj Hg). congruence.
Qed.

Lemma copy_block_roundtrip : forall d fu tn fs l bt,
  fam d (TStruct tn fs) -> (d <= fu)%nat -> inhabits (TStruct tn fs) (GStruct l) ->
  (tn = [] \/ unsnake_eq tn bt = true) ->
  copy_block fu sorted_fields (TStruct tn fs) GZero (blocks_of (TStruct tn fs) (GStruct l) bt) = BOk (GStruct l).
Proof.
  induction d as [|d IHd]; intros fu tn fs l bt Hfam Hfu Hinh Htn; [inversion Hfam|].
  destruct fu as [|fu]; [lia|]. assert (Hdfu : (d <= fu)%nat) by lia.
  inversion Hfam as [d0 tn0 fs0 Hnd Hall]; subst.
  inversion Hinh as [| | | |tn0 fs0 l0 HF]; subst.
  rewrite Forall_forall in Hall.
  rewrite blocks_of_struct, copy_block_unfold, copy_body_eq.
  assert (Et : negb (is_empty tn) && negb (unsnake_eq tn bt) = false).
  { destruct Htn as [-> | ->]; [reflexivity|]. apply andb_false_r. }
  rewrite Et. clear Et.
  set (rec := copy_block fu sorted_fields).
  assert (Hflat : flat fs).
  { intros f Hin. destruct (Hall f Hin) as (_ & A & B & _). auto. }
  assert (Hlen : length fs = length l) by (eapply Forall2_len; exact HF).
  assert (Hkey : forall i j f g, nth_error fs i = Some f -> nth_error fs j = Some g ->
                                 fkey (fname_ f) = fkey (fname_ g) -> i = j).
  { intros i j f g Hi Hj E. eapply (NoDup_map_nth_inj (fun f => fkey (fname_ f))); eassumption. }
  (* facts about one entry *)
  assert (Hentry : forall i f y, nth_error fs i = Some f -> nth_error l i = Some y ->
            is_name (fname_ f) = false ->
            find_field fs (map lower (fname_ f)) = Some ([i], f) /\ fexp f = true /\
            blocks_of (ftyp f) y (tyname (ftyp f)) <> VNil /\
            leaf_cb rec (blocks_of (ftyp f) y (tyname (ftyp f))) (ftyp f) GZero = BOk y).
  { intros i f y Hi Hy Hn.
    destruct (Hall f (nth_error_In _ _ Hi)) as (Hexp & _ & _ & Hdot & Hty).
    destruct (Forall2_nth _ _ _ _ _ HF Hi) as (y' & Hy' & Hinh'). rewrite Hy in Hy'. inversion Hy'; subst y'.
    split.
    { apply find_field_flat; try assumption.
      - rewrite cut_dot_nodot by (apply nodot_lower; exact Hdot).
        apply unsnake_eq_true. symmetry. apply fkey_lower.
      - intros j g Hj Hg. rewrite cut_dot_nodot in Hg by (apply nodot_lower; exact Hdot).
        apply unsnake_eq_true in Hg. rewrite fkey_lower in Hg. eapply Hkey; eassumption. }
    split; [exact Hexp|].
    destruct Hty as [[Hn' _]|[_ [Hsc|Hf]]]; [congruence| |].
    - destruct (ftyp f); try discriminate; inversion Hinh'; subst; cbn; split; (discriminate || reflexivity).
    - inversion Hf as [d0 tn' fs' Hnd' Hall' Ed Et]. rewrite <- Et in Hinh', Hf.
      inversion Hinh' as [| | | |tn0 fs0 l0 HF' E1 E2]. clear Hnd' Hall' Ed d0.
      cbn [tyname]. rewrite blocks_of_struct. split; [discriminate|].
      unfold leaf_cb. rewrite <- (blocks_of_struct tn' fs' l0 tn'). unfold rec. apply IHd.
      + exact Hf.
      + exact Hdfu.
      + apply inh_struct. exact HF'.
      + right. apply unsnake_eq_true. reflexivity. }
  (* the loop, from any state in which the non-name slots are still zero and the name slot is done *)
  assert (Hcont : forall l0 u0, length l0 = length fs ->
            (forall i f, nth_error fs i = Some f -> is_name (fname_ f) = false ->
                         nth i l0 GZero = GZero /\ (forall q, In q u0 -> path_overlap [i] q = false)) ->
            (forall i f, nth_error fs i = Some f -> is_name (fname_ f) = true ->
                         nth i l0 GZero = nth i l GZero) ->
            fields_loop_ rec tn fs (sorted_fields (entries fs l)) (GStruct l0, u0) = BOk (GStruct l)).
  { intros l0 u0 Hl0 Hzero Hnamed.
    destruct (flat_loop rec tn fs l (sorted_fields (entries fs l)) l0 u0 Hl0) as (l' & Hloop & Hlen' & Hset & Hkeep).
    - eapply Permutation_NoDup; [apply Permutation_map; apply Permutation_sym; apply sorted_fields_perm|].
      apply entries_keys_nodup. exact Hnd.
    - intros k x Hin. apply (proj1 (sorted_fields_in _ _)) in Hin.
      destruct (entries_in _ _ _ _ Hin) as (i & f & y & Hi & Hy & Hn & -> & ->).
      destruct (Hentry i f y Hi Hy Hn) as (A & B & C & D). destruct (Hzero i f Hi Hn) as [Z1 Z2].
      exists i, f. rewrite (nth_error_nth _ _ _ Hy). auto 10.
    - intros k x k' x' i f f' Hin Hin' Hf Hf'.
      apply (proj1 (sorted_fields_in _ _)) in Hin. apply (proj1 (sorted_fields_in _ _)) in Hin'.
      destruct (entries_in _ _ _ _ Hin) as (a & fa & ya & Ha & Hya & Hna & -> & _).
      destruct (entries_in _ _ _ _ Hin') as (b & fb & yb & Hb & Hyb & Hnb & -> & _).
      destruct (Hentry a fa ya Ha Hya Hna) as (A & _). destruct (Hentry b fb yb Hb Hyb Hnb) as (B & _).
      rewrite A in Hf. rewrite B in Hf'. inversion Hf; inversion Hf'; subst. congruence.
    - rewrite Hloop. do 2 f_equal. apply (nth_ext _ _ GZero GZero); [congruence|].
      intros j Hj. rewrite Hlen' in Hj.
      destruct (nth_error fs j) as [f|] eqn:Hfj; [|apply nth_error_None in Hfj; lia].
      destruct (nth_error l j) as [y|] eqn:Hyj; [|apply nth_error_None in Hyj; lia].
      destruct (is_name (fname_ f)) eqn:Hn.
      + rewrite Hkeep; [eapply Hnamed; eassumption|].
        intros k x g Hin Hg. apply (proj1 (sorted_fields_in _ _)) in Hin.
        destruct (entries_in _ _ _ _ Hin) as (a & fa & ya & Ha & Hya & Hna & -> & _).
        destruct (Hentry a fa ya Ha Hya Hna) as (A & _). rewrite A in Hg. inversion Hg; subst. congruence.
      + destruct (Hentry j f y Hfj Hyj Hn) as (A & _).
        eapply Hset; [|exact A]. apply (proj2 (sorted_fields_in _ _)). eapply entries_complete; eassumption. }
  (* the Name step *)
  destruct (existsb (fun f => is_name (fname_ f)) fs) eqn:Ename.
  - apply existsb_exists in Ename. destruct Ename as (f0 & Hin0 & Hn0).
    apply In_nth_error in Hin0. destruct Hin0 as [i0 Hi0].
    destruct (Hall f0 (nth_error_In _ _ Hi0)) as (Hexp0 & _ & _ & _ & Hty0).
    destruct Hty0 as [[_ Hty0]|[Hc _]]; [|congruence].
    destruct (Forall2_nth _ _ _ _ _ HF Hi0) as (y0 & Hy0 & Hinh0). rewrite Hty0 in Hinh0.
    inversion Hinh0 as [| |s| |]; subst y0.
    assert (Huniq : forall j g, nth_error fs j = Some g -> is_name (fname_ g) = true -> j = i0).
    { intros j g Hj Hg. eapply Hkey; [exact Hj|exact Hi0|].
      apply unsnake_eq_true in Hg. apply unsnake_eq_true in Hn0. congruence. }
    rewrite (name_of_spec _ _ _ _ _ Hi0 Hn0 Huniq Hy0).
    assert (Hfind : find_field fs (bs "Name") = Some ([i0], f0)).
    { apply find_field_flat; try assumption. }
    assert (Hi0lt : (i0 < length fs)%nat) by (apply nth_error_Some; congruence).
    assert (Hstep : name_step rec tn fs GZero s =
                    inr (GStruct (nth_set (map (fun _ => GZero) fs) i0 (GVal (VStr s))),
                         if is_empty s then [] else [[i0]])).
    { unfold name_step. cbv zeta.
      rewrite (set_field_nonnil _ _ _ _ _ _ _ _ _ Hfind Hexp0) by discriminate.
      cbn [snd fst existsb]. rewrite andb_false_r.
      rewrite (update_path_direct' _ _ _ _ _ _ Hi0). cbn [as_struct]. rewrite nth_zeros, Hty0.
      cbn [leaf_cb assignable]. reflexivity. }
    rewrite Hstep. apply Hcont.
    + rewrite nth_set_length, map_length. reflexivity.
    + intros i f Hi Hn. assert (Hne : i0 <> i) by (intros ->; congruence). split.
      * rewrite nth_nth_set_other by exact Hne. apply nth_zeros.
      * destruct (is_empty s); [intros q []|]. intros q [<-|[]]. apply path_overlap_single. congruence.
    + intros i f Hi Hn. rewrite (Huniq i f Hi Hn).
      rewrite nth_nth_set_same by (rewrite map_length; exact Hi0lt).
      symmetry. apply nth_error_nth. exact Hy0.
  - assert (Hnone : forall g, In g fs -> is_name (fname_ g) = false).
    { intros g Hin. destruct (is_name (fname_ g)) eqn:E; [|reflexivity].
      assert (K : existsb (fun f => is_name (fname_ f)) fs = true) by (apply existsb_exists; eauto). congruence. }
    rewrite (name_of_none _ _ Hnone).
    assert (Hstep : name_step rec tn fs GZero [] = inr (GStruct (map (fun _ => GZero) fs), [])).
    { unfold name_step. cbv zeta. rewrite C15_errors_mapping; [reflexivity|].
      apply find_field_flat_none; [exact Hflat|]. intros g Hin. apply Hnone. exact Hin. }
    rewrite Hstep. apply Hcont.
    + apply map_length.
    + intros i f Hi Hn. split; [apply nth_zeros|intros q []].
    + intros i f Hi Hn. rewrite (Hnone f (nth_error_In _ _ Hi)) in Hn. discriminate.
Qed.

Theorem C05_bind_roundtrip : forall d tn fs l bt,
  fam d (TStruct tn fs) -> (d <= 64)%nat -> inhabits (TStruct tn fs) (GStruct l) ->
  (tn = [] \/ unsnake_eq tn bt = true) ->
  bind (TgtPtr (TStruct tn fs) GZero) (BdStruct (blocks_of (TStruct tn fs) (GStruct l) bt))
    = BOk (GPtrTo (GStruct l)).
Proof.
  intros d tn fs l bt Hfam Hd Hinh Htn. unfold bind. cbn [copy_blocks].
  rewrite (copy_block_roundtrip d 64 tn fs l bt Hfam Hd Hinh Htn). reflexivity.
Qed.

(* an ordinary member of the family *)
Definition c05_addr := TStruct (bs "Addr") [Field (bs "Host") true false [] TString; Field (bs "Port") true false [] TInt].
Definition c05_type := TStruct (bs "Server")
  [Field (bs "Name") true false [] TString; Field (bs "Max_Conns") true false [] TInt;
   Field (bs "Ratio") true false [] TFloat64; Field (bs "Debug") true false [] TBool;
   Field (bs "Listen") true false [] c05_addr].
Definition c05_val := GStruct
  [GVal (VStr (bs "main")); GVal (VInt 7); GVal (VFloat 0); GVal (VBool true);
   GStruct [GVal (VStr (bs "localhost")); GVal (VInt 8080)]].

Ltac fam_fields :=
  repeat (apply Forall_cons; [repeat split; try reflexivity; try (cbn; intuition discriminate)|]); try apply Forall_nil.
Ltac nodup_keys := vm_compute; repeat (apply NoDup_cons; [cbn; intuition discriminate|]); apply NoDup_nil.

Example c05_addr_fam : fam 1 c05_addr.
Proof.
  apply fam_struct; [nodup_keys|]. fam_fields.
Qed.

Example c05_type_fam : fam 2 c05_type.
Proof.
  apply fam_struct; [nodup_keys|]. fam_fields.
  right. split; [reflexivity|right; exact c05_addr_fam].
Qed.

Example c05_val_inhabits : inhabits c05_type c05_val.
Proof. repeat (constructor; try constructor). Qed.

Example C05_example :
  blocks_of c05_type c05_val (bs "server") =
    VBlock (bs "server") (bs "main")
      [(bs "max_conns", VInt 7); (bs "ratio", VFloat 0); (bs "debug", VBool true);
       (bs "listen", VBlock (bs "Addr") [] [(bs "host", VStr (bs "localhost")); (bs "port", VInt 8080)])] /\
  bind (TgtPtr c05_type GZero) (BdStruct (blocks_of c05_type c05_val (bs "server"))) = BOk (GPtrTo c05_val).
Proof.
  split; [vm_compute; reflexivity|].
  apply (C05_bind_roundtrip 2); [exact c05_type_fam|lia|exact c05_val_inhabits|right; vm_compute; reflexivity].
Qed.

(* ================================================================== *)
(** * C16, deep version: the enumeration order is irrelevant at every nesting level *)

(* the same block up to a permutation of the fields, at every level *)
Inductive veq : value -> value -> Prop :=
| veq_refl : forall v, veq v v
| veq_block : forall t n l1 l1' l2,
    Permutation l1 l1' -> NoDup (map fst l1) -> feq l1' l2 -> veq (VBlock t n l1) (VBlock t n l2)
with feq : list (bytes * value) -> list (bytes * value) -> Prop :=
| feq_nil : feq [] []
| feq_cons : forall k x y l l', veq x y -> feq l l' -> feq ((k, x) :: l) ((k, y) :: l').

Lemma insert_key_feq : forall k x y a b, veq x y -> feq a b -> feq (insert_key k x a) (insert_key k y b).
Proof.
  intros k x y a b Hxy H. induction H as [|k' x' y' l l' Hv Hl IH]; cbn [insert_key].
  - constructor; [exact Hxy|constructor].
  - destruct (bytes_ltb k k').
    + constructor; [exact Hxy|]. constructor; assumption.
    + constructor; assumption.
Qed.

Lemma sorted_fields_feq : forall a b, feq a b -> feq (sorted_fields a) (sorted_fields b).
Proof.
  intros a b H. induction H as [|k x y l l' Hv Hl IH]; [constructor|].
  rewrite !sorted_fields_cons. cbn [fst snd]. apply insert_key_feq; assumption.
Qed.

Lemma update_path_ext : forall fuel t v p f g,
  (forall t' v', f t' v' = g t' v') -> update_path fuel t v p f = update_path fuel t v p g.
Proof.
  induction fuel as [|fu IH]; intros t v p f g H; [reflexivity|]. cbn [update_path].
  destruct p as [|i rest]; [apply H|].
  destruct t as [| | | | k | e | t' | t' | n fs]; try reflexivity.
  - destruct t' as [| | | | k | e | t'' | t'' | n fs]; try reflexivity.
    destruct v; try reflexivity. rewrite (IH _ _ _ f g H). reflexivity.
  - destruct (nth_error fs i); [|reflexivity]. rewrite (IH _ _ _ f g H). reflexivity.
Qed.

Lemma set_field_veq : forall rec tn fs k x y opt st,
  veq x y -> (forall ft fv, leaf_cb rec x ft fv = leaf_cb rec y ft fv) ->
  set_field_ rec tn fs k x opt st = set_field_ rec tn fs k y opt st.
Proof.
  intros rec tn fs k x y opt st Hv Hcb. unfold set_field_.
  destruct (find_field fs k) as [[p fld]|]; [|reflexivity].
  destruct (negb (fexp fld)); [reflexivity|].
  inversion Hv as [|t n l1 l1' l2 HP Hnd Hf]; subst; [reflexivity|].
  destruct (negb opt && existsb (path_overlap p) (snd st)); [reflexivity|].
  rewrite (update_path_ext _ _ _ _ _ _ Hcb). reflexivity.
Qed.

Lemma fields_loop_feq : forall rec tn fs a b,
  feq a b ->
  (forall x y ft fv, veq x y -> leaf_cb rec x ft fv = leaf_cb rec y ft fv) ->
  forall st, fields_loop_ rec tn fs a st = fields_loop_ rec tn fs b st.
Proof.
  intros rec tn fs a b H Hcb. induction H as [|k x y l l' Hv Hl IH]; intros st; [reflexivity|].
  cbn [fields_loop_]. rewrite (set_field_veq rec tn fs k x y false st Hv (fun ft fv => Hcb x y ft fv Hv)).
  destruct (set_field_ rec tn fs k y false st) as [[e|b]|st']; try reflexivity. apply IH.
Qed.

Lemma copy_block_veq : forall fu b1 b2 t v, veq b1 b2 ->
  copy_block fu sorted_fields t v b1 = copy_block fu sorted_fields t v b2.
Proof.
  induction fu as [|fu IH]; intros b1 b2 t v H; [reflexivity|].
  inversion H as [|bt bn l1 l1' l2 HP Hnd Hf]; subst; [reflexivity|].
  destruct t as [| | | | k | e | t' | t' | tn fs];
    try (rewrite !copy_block_not_struct by (intros; discriminate); reflexivity).
  rewrite !copy_block_unfold. unfold copy_body.
  rewrite (C16_sorted_canonical l1 l1' HP Hnd).
  assert (Hloop : forall st, fields_loop_ (copy_block fu sorted_fields) tn fs (sorted_fields l1') st =
                             fields_loop_ (copy_block fu sorted_fields) tn fs (sorted_fields l2) st).
  { apply fields_loop_feq; [apply sorted_fields_feq; exact Hf|].
    intros x y ft fv Hxy. unfold leaf_cb.
    inversion Hxy as [|xt xn m1 m1' m2 HP' Hnd' Hf']; subst; [reflexivity|]. apply IH. exact Hxy. }
  destruct (negb (is_empty tn) && negb (unsnake_eq tn bt)); [reflexivity|].
  destruct (set_field_ (copy_block fu sorted_fields) tn fs (bs "Name") (VStr bn) (is_empty bn) _) as [[e|b]|st1];
    rewrite ?Hloop; reflexivity.
Qed.

Theorem C16_bind_order_deep : forall tg b1 b2, veq b1 b2 -> bind tg (BdStruct b1) = bind tg (BdStruct b2).
Proof.
  intros tg b1 b2 H. unfold bind, copy_blocks.
  destruct tg as [|ty v|ty|ty v]; [reflexivity|reflexivity|reflexivity|].
  rewrite (copy_block_veq 64 b1 b2 ty v H). reflexivity.
Qed.

Lemma elems_veq : forall fu et efs l1 l2, Forall2 veq l1 l2 ->
  elems_ fu sorted_fields et efs l1 = elems_ fu sorted_fields et efs l2.
Proof.
  intros fu et efs l1 l2 H. induction H as [|b1 b2 l1 l2 Hb Hl IH]; [reflexivity|].
  cbn [elems_]. rewrite (copy_block_veq fu b1 b2 et (zero_struct efs) Hb).
  destruct (copy_block fu sorted_fields et (zero_struct efs) b2); try reflexivity.
  fold (elems_ fu sorted_fields et efs l1). fold (elems_ fu sorted_fields et efs l2). rewrite IH. reflexivity.
Qed.

Theorem C16_bind_order_deep_slice : forall tg l1 l2, Forall2 veq l1 l2 ->
  bind tg (BdSlice l1) = bind tg (BdSlice l2).
Proof.
  intros tg l1 l2 H. unfold bind.
  destruct tg as [|ty v|ty|ty v]; [reflexivity|reflexivity|reflexivity|].
  destruct ty as [| | | | k | e | t' | et | tn fs]; try reflexivity.
  destruct et as [| | | | k | e | t' | t' | n efs]; try reflexivity.
  rewrite !copy_blocks_slice. rewrite (elems_veq 64 _ _ _ _ H). reflexivity.
Qed.

(* ================================================================== *)
(** * C15_faithful_deep: the recursive version *)

(* v' stores the block, recursively *)
Inductive stored : gotype -> goval -> value -> Prop :=
| st_scalar : forall t x, ~ is_block x -> x <> VNil -> assignable x t = true -> stored t (GVal x) x
| st_block : forall tn fs l bt bn kvs,
    (tn = [] \/ unsnake_eq tn bt = true) ->
    (forall k x, In (k, x) kvs ->
       exists p fld w, find_field fs k = Some (p, fld) /\ fexp fld = true /\
                       lookup_path (GStruct l) p = Some w /\ stored (ftyp fld) w x) ->
    (forall k1 k2, In k1 (map fst kvs) -> In k2 (map fst kvs) -> k1 <> k2 ->
                   path_overlap (pathof fs k1) (pathof fs k2) = false) ->
    (bn <> [] -> exists p fld, find_field fs (bs "Name") = Some (p, fld) /\ fexp fld = true /\
                               lookup_path (GStruct l) p = Some (GVal (VStr bn))) ->
    stored (TStruct tn fs) (GStruct l) (VBlock bt bn kvs).

Lemma copy_block_stored : forall fu t v blk v',
  shaped t v -> copy_block fu sorted_fields t v blk = BOk v' -> stored t v' blk.
Proof.
  induction fu as [|fu IH]; intros t v blk v' Hsh H; [discriminate|].
  destruct blk as [| | | | |bt bn kvs]; try (rewrite copy_block_not_block in H by (intros; discriminate); discriminate).
  destruct t as [| | | | k | e | t' | t' | tn fs];
    try (rewrite copy_block_not_struct in H by (intros; discriminate); discriminate).
  rewrite copy_block_unfold, copy_body_eq in H.
  destruct (negb (is_empty tn) && negb (unsnake_eq tn bt)) eqn:Et; [discriminate|].
  destruct (name_step (copy_block fu sorted_fields) tn fs v bn) as [[e|b]|[c1 u1]] eqn:En; try discriminate.
  destruct (name_step_ok _ _ _ _ _ _ _ Hsh En) as (l1 & -> & HF1 & Hname).
  rewrite fields_loop_run in H.
  destruct (run_fields (copy_block fu sorted_fields) tn fs (sorted_fields kvs) (GStruct l1, u1))
    as [[e|b]|[c2 u2]] eqn:Er; try discriminate.
  pose proof (fun k x (_ : In (k, x) (sorted_fields kvs)) => leaf_ok_copy_block sorted_fields fu x) as Hleaf.
  destruct (run_fields_ok _ _ _ _ _ _ _ _ HF1 Hleaf Er) as (l' & -> & HF' & Hall & Hkeep & _ & Hdisj & _).
  inversion H; subst v'. cbn [fst]. apply st_block.
  - destruct tn; [left; reflexivity|]. right. destruct (unsnake_eq (n :: tn) bt); [reflexivity|cbn in Et; discriminate].
  - intros k x Hin. apply (proj2 (sorted_fields_in _ _)) in Hin.
    destruct (Hall _ _ Hin) as (p & fld & old & new & A & B & C & D & E & F).
    exists p, fld, new. split; [exact A|]. split; [exact B|]. split; [exact F|].
    destruct x as [| | | | |xt xn xf].
    6:{ unfold leaf_cb in E. eapply IH; [exact D|exact E]. }
    all: match type of E with leaf_cb _ ?x _ _ = _ =>
           assert (Hnb : ~ is_block x) by (intro Hb; exact Hb) end;
         destruct (leaf_cb_scalar _ _ _ _ _ Hnb E) as [Has ->]; apply st_scalar; assumption.
  - apply paths_disjoint_keys. eapply paths_disjoint_perm; [|exact Hdisj].
    do 2 apply Permutation_map. apply sorted_fields_perm.
  - intros Hbn. destruct Hname as [[Hb _]|(_ & p & fld & A & B & C & D & Eu)]; [contradiction|]. subst u1.
    exists p, fld. split; [exact A|]. split; [exact B|].
    apply Hkeep; [left; reflexivity|exact D].
Qed.

Lemma bind_struct_any : forall tn fs v0 blk,
  bind (TgtPtr (TStruct tn fs) v0) (BdStruct blk) =
  match copy_block 64 sorted_fields (TStruct tn fs) v0 blk with BOk v' => BOk (GPtrTo v') | o => o end.
Proof. reflexivity. Qed.

Lemma bind_struct_inv : forall fu tn fs v0 blk v',
  match copy_block fu sorted_fields (TStruct tn fs) v0 blk with BOk v' => BOk (GPtrTo v') | o => o end
    = BOk (GPtrTo v') ->
  copy_block fu sorted_fields (TStruct tn fs) v0 blk = BOk v'.
Proof.
  intros fu tn fs v0 blk v' H.
  destruct (copy_block fu sorted_fields (TStruct tn fs) v0 blk) as [w| |]; try discriminate.
  inversion H; subst w. reflexivity.
Qed.

(* [shaped] is again only about the model's representation of the previous value (see C15_faithful) *)
Theorem C15_faithful_deep : forall tn fs v0 blk v',
  shaped (TStruct tn fs) v0 ->
  bind (TgtPtr (TStruct tn fs) v0) (BdStruct blk) = BOk (GPtrTo v') ->
  stored (TStruct tn fs) v' blk.
Proof.
  intros tn fs v0 blk v' Hsh H. rewrite bind_struct_any in H. apply bind_struct_inv in H.
  exact (copy_block_stored 64 _ _ _ _ Hsh H).
Qed.

Example C15_faithful_deep_example :
  stored c05_type c05_val (blocks_of c05_type c05_val (bs "server")) /\
  exists v', bind (TgtPtr ex_type GZero) (BdStruct ex_block) = BOk (GPtrTo v') /\ stored ex_type v' ex_block.
Proof.
  split.
  - apply (C15_faithful_deep (bs "Server") _ GZero); [apply sh_leaf; reflexivity|]. apply (proj2 C05_example).
  - destruct C15_faithful_example as (v' & Hb & _). exists v'. split; [exact Hb|].
    apply (C15_faithful_deep (bs "Server") _ GZero); [apply sh_leaf; reflexivity|exact Hb].
Qed.

(* ================================================================== *)
(** * C15_errors (d), success direction, without any assumption on the previous target value *)

Lemma update_path_cb : forall sub p fld, path_in sub p fld ->
  forall fuel n v f v', update_path fuel (TStruct n sub) v p f = BOk v' ->
  exists old new, f (ftyp fld) old = BOk new.
Proof.
  intros sub p fld H.
  induction H as [fs i fld Hn|fs i g sub rest fld Hn He Hs Hp IH]; intros fuel n v f v' Hu.
  - destruct fuel as [|fu]; [discriminate|]. cbn [update_path] in Hu. rewrite Hn in Hu.
    destruct fu as [|fu]; [discriminate|]. cbn [update_path] in Hu.
    destruct (f (ftyp fld) (nth i (as_struct v fs) GZero)) as [new| |] eqn:Ef; try discriminate. eauto.
  - destruct fuel as [|fu]; [discriminate|]. cbn [update_path] in Hu. rewrite Hn in Hu.
    destruct (path_in_nonempty _ _ _ Hp) as (j & r' & ->).
    destruct (struct_fields_inv _ _ Hs) as [[n' E]|[n' E]]; rewrite E in Hu.
    + destruct (update_path fu (TStruct n' sub) (nth i (as_struct v fs) GZero) (j :: r') f) as [w| |] eqn:Eu;
        try discriminate.
      eapply IH. exact Eu.
    + destruct fu as [|fu]; [discriminate|]. cbn [update_path] in Hu.
      destruct (nth i (as_struct v fs) GZero) as [| | | | | |inner]; try discriminate.
      destruct (update_path fu (TStruct n' sub) inner (j :: r') f) as [w| |] eqn:Eu; try discriminate.
      eapply IH. exact Eu.
Qed.

Lemma set_field_ok_weak : forall rec tn fs k x opt st st',
  set_field_ rec tn fs k x opt st = inr st' ->
  exists p fld old new,
    find_field fs k = Some (p, fld) /\ fexp fld = true /\ x <> VNil /\
    (opt = false -> forall q, In q (snd st) -> path_overlap p q = false) /\
    snd st' = (if opt then snd st else p :: snd st) /\
    leaf_cb rec x (ftyp fld) old = BOk new.
Proof.
  intros rec tn fs k x opt st st' H.
  destruct (find_field fs k) as [[p fld]|] eqn:Ef; [|rewrite C15_errors_mapping in H by exact Ef; discriminate].
  destruct (fexp fld) eqn:Ee; [|rewrite (C15_errors_unexported _ _ _ _ _ _ _ _ _ Ef Ee) in H; discriminate].
  assert (Hx : x <> VNil).
  { intros ->. rewrite (C15_errors_nil_value _ _ _ _ _ _ _ _ Ef Ee) in H. discriminate. }
  rewrite (set_field_nonnil _ _ _ _ _ _ _ _ _ Ef Ee Hx) in H.
  destruct (negb opt && existsb (path_overlap p) (snd st)) eqn:Ed; [discriminate|].
  destruct (update_path (2 * length p + 2) (TStruct tn fs) (fst st) p (leaf_cb rec x)) as [c| |] eqn:Eu;
    try discriminate.
  inversion H; subst st'. cbn [snd].
  destruct (update_path_cb _ _ _ (find_field_path_ok _ _ _ _ Ef) _ _ _ _ _ Eu) as (old & new & Hcb).
  exists p, fld, old, new. repeat (split; [try reflexivity; try assumption|]); try assumption.
  intros ->. cbn in Ed. apply existsb_overlap_false. exact Ed.
Qed.

Lemma run_fields_ok_weak : forall rec tn fs kvs st st',
  run_fields rec tn fs kvs st = inr st' ->
  (forall k x, In (k, x) kvs ->
     exists p fld old new, find_field fs k = Some (p, fld) /\ fexp fld = true /\ x <> VNil /\
                           leaf_cb rec x (ftyp fld) old = BOk new) /\
  paths_disjoint (map (pathof fs) (map fst kvs)) /\
  (forall k q, In k (map fst kvs) -> In q (snd st) -> path_overlap (pathof fs k) q = false).
Proof.
  intros rec tn fs kvs. induction kvs as [|[k x] more IH]; intros st st' H; cbn [run_fields] in H.
  - split; [intros ? ? []|]. split; [split; [constructor|intros ? ? []]|intros ? ? []].
  - destruct (set_field_ rec tn fs k x false st) as [[e|b]|st1] eqn:E; try discriminate.
    destruct (set_field_ok_weak _ _ _ _ _ _ _ _ E) as (p & fld & old & new & Hfind & Hexp & Hx & Hnd & Hu & Hcb).
    specialize (Hnd eq_refl).
    destruct (IH _ _ H) as (Hall & [Hnodup Hpair] & Hfresh). rewrite Hu in Hfresh.
    assert (Hp : pathof fs k = p) by (unfold pathof; rewrite Hfind; reflexivity).
    assert (Htail : forall b, In b (map (pathof fs) (map fst more)) -> path_overlap b p = false).
    { intros b Hb. apply in_map_iff in Hb. destruct Hb as (k' & <- & Hk'). apply Hfresh; [exact Hk'|left; reflexivity]. }
    split; [|split].
    + intros k' x' [Hin|Hin]; [|apply Hall; exact Hin]. injection Hin as <- <-. exists p, fld, old, new. auto.
    + cbn [map fst]. rewrite Hp. split.
      * constructor; [|exact Hnodup]. intro Hin. specialize (Htail p Hin). rewrite path_overlap_refl in Htail. discriminate.
      * intros a b [<-|Ha] [<-|Hb] Hab.
        -- congruence.
        -- rewrite path_overlap_sym. apply Htail. exact Hb.
        -- apply Htail. exact Ha.
        -- apply Hpair; assumption.
    + intros k' q [Hk'|Hk'] Hq.
      * cbn in Hk'. subst k'. rewrite Hp. apply Hnd. exact Hq.
      * apply Hfresh; [exact Hk'|right; exact Hq].
Qed.

(* success: no field has any of the defects, and the fields used are pairwise non-overlapping
   (path_overlap = false: different fields, neither inside the other -- see path_overlap_true) *)
Theorem C15_errors_none : forall tn fs v0 bt bn kvs w,
  bind (TgtPtr (TStruct tn fs) v0) (BdStruct (VBlock bt bn kvs)) = BOk w ->
  (tn = [] \/ unsnake_eq tn bt = true) /\
  (bn <> [] -> exists p fld, find_field fs (bs "Name") = Some (p, fld) /\ fexp fld = true /\
                             assignable (VStr bn) (ftyp fld) = true /\
                             forall k, In k (map fst kvs) -> path_overlap (pathof fs k) p = false) /\
  (forall k x, In (k, x) kvs ->
     exists p fld, find_field fs k = Some (p, fld) /\ fexp fld = true /\ x <> VNil /\
       match x with
       | VBlock _ _ _ => exists n' fs', ftyp fld = TStruct n' fs'
       | _ => assignable x (ftyp fld) = true
       end) /\
  NoDup (map (pathof fs) (map fst kvs)) /\
  (forall k1 k2, In k1 (map fst kvs) -> In k2 (map fst kvs) -> k1 <> k2 ->
                 path_overlap (pathof fs k1) (pathof fs k2) = false).
Proof.
  intros tn fs v0 bt bn kvs w H. rewrite bind_struct_eq, copy_body_eq in H.
  destruct (negb (is_empty tn) && negb (unsnake_eq tn bt)) eqn:Et; [discriminate|].
  split.
  { destruct tn; [left; reflexivity|]. right. destruct (unsnake_eq (n :: tn) bt); [reflexivity|cbn in Et; discriminate]. }
  destruct (name_step R63 tn fs v0 bn) as [[e|b]|st1] eqn:En; try discriminate.
  rewrite fields_loop_run in H.
  destruct (run_fields R63 tn fs (sorted_fields kvs) st1) as [[e|b]|st2] eqn:Er; try discriminate.
  destruct (run_fields_ok_weak _ _ _ _ _ _ Er) as (Hall & Hdisj & Hfresh).
  assert (Hperm : Permutation (map (pathof fs) (map fst (sorted_fields kvs))) (map (pathof fs) (map fst kvs))).
  { do 2 apply Permutation_map. apply sorted_fields_perm. }
  pose proof (paths_disjoint_perm _ _ Hperm Hdisj) as Hdisj'.
  assert (Hkeys : forall k, In k (map fst kvs) -> In k (map fst (sorted_fields kvs))).
  { intros k Hin. eapply Permutation_in; [|exact Hin]. apply Permutation_map. apply Permutation_sym.
    apply sorted_fields_perm. }
  split; [|split; [|split; [exact (proj1 Hdisj')|apply paths_disjoint_keys; exact Hdisj']]].
  - intros Hbn. unfold name_step in En. cbv zeta in En.
    destruct (set_field_ R63 tn fs (bs "Name") (VStr bn) (is_empty bn) (GStruct (as_struct v0 fs), []))
      as [[e|b]|st] eqn:Es.
    + destruct e; try discriminate. destruct bn; [congruence|discriminate].
    + discriminate.
    + destruct (set_field_ok_weak _ _ _ _ _ _ _ _ Es) as (p & fld & old & new & A & B & _ & _ & Hu & Hcb).
      injection En as <-. exists p, fld. split; [exact A|]. split; [exact B|]. split.
      * refine (proj1 (leaf_cb_scalar _ _ _ _ _ _ Hcb)). intro Hb. exact Hb.
      * intros k Hk. apply Hfresh; [apply Hkeys; exact Hk|]. rewrite Hu.
        destruct bn; [congruence|]. left. reflexivity.
  - intros k x Hin. apply (proj2 (sorted_fields_in _ _)) in Hin.
    destruct (Hall _ _ Hin) as (p & fld & old & new & A & B & C & E).
    exists p, fld. split; [exact A|]. split; [exact B|]. split; [exact C|].
    destruct x as [| | | | |xt xn xf]; try (refine (proj1 (leaf_cb_scalar _ _ _ _ _ _ E)); intro Hb; exact Hb).
    eapply leaf_cb_block. exact E.
Qed.

(* ================================================================== *)
(** * Audit: every main theorem is closed under the global context *)
Print Assumptions C16_sorted_canonical.
Print Assumptions C16_bind_order.
Print Assumptions C16_bind_order_deep.
Print Assumptions C16_bind_order_deep_slice.
Print Assumptions find_field_path_ok.
Print Assumptions C15_total.
Print Assumptions C15_total_deep_embedding.
Print Assumptions C15_bfs_fuel_artefact.
Print Assumptions C15_total_example.
Print Assumptions C15_errors_no_binding.
Print Assumptions C15_errors_nil_iface.
Print Assumptions C15_errors_not_pointer.
Print Assumptions C15_errors_nil_pointer.
Print Assumptions C15_errors_not_struct.
Print Assumptions C15_errors_not_slice.
Print Assumptions C15_errors_elem_not_struct.
Print Assumptions C15_errors_unknown_binding.
Print Assumptions C15_errors_bad_block_value.
Print Assumptions C15_errors_type_name.
Print Assumptions C15_errors_mapping.
Print Assumptions C15_errors_unexported.
Print Assumptions C15_errors_nil_value.
Print Assumptions C15_errors_dup_field.
Print Assumptions C15_errors_dup_field_same.
Print Assumptions C15_errors_type_mismatch.
Print Assumptions C15_errors_block_not_struct.
Print Assumptions C15_errors_first.
Print Assumptions C15_errors_name.
Print Assumptions C15_errors_none.
Print Assumptions path_overlap_true.
Print Assumptions path_overlap_diverge.
Print Assumptions C15_faithful.
Print Assumptions C15_faithful_distinct.
Print Assumptions C15_faithful_deep.
Print Assumptions C15_faithful_counterexample_embedded.
Print Assumptions C15_faithful_counterexample_shape.
Print Assumptions C15_faithful_example.
Print Assumptions C15_faithful_deep_example.
Print Assumptions C15_slice_atomic.
Print Assumptions C15_slice_atomic_total.
Print Assumptions C15_slice_first_error.
Print Assumptions C15_slice_discards_old.
Print Assumptions C05_bind_roundtrip.
Print Assumptions C05_example.
