(* C05Tokens.v: from the TOKENS of a written value to its tree.

   Proofs/C05Tree.v starts at the syntax tree a writer produces for a block.  This file goes one
   level down: the writer at token level ([tokens_of_prog]: `def T ["name"] { k = literal ... }`
   then `bind T -> struct`), the texts of the literals ([int_text] = Go's Itoa on the magnitude,
   [quote_text] = a double-quoted literal with backslash escapes for the quote, the backslash and \xHH, the float text a parameter
   with the premise that ParseFloat reads it back), and the theorem that the grammar of
   Spec/Syntax.v reads that token list back as exactly [prog_of_block] ([tokens_parse]), with
   the fuel of [ast_program] shown sufficient.  Composition with C05Tree.v and theorem T2 at the end. *)
From Coq Require Import Lia ZifyN ZifyNat ZifyBool.
From BCL Require Import Model.Api Model.Compile Spec.AstSem Model.Reflect Proofs.ReflectProofs
                        Proofs.ParserInvProofs Proofs.T2Proofs Proofs.T1Proofs Proofs.C05Tree Proofs.LayoutTree.
Import ListNotations.
Open Scope N_scope.

(* ---------------------------------------------------------------------------------------- *)
(* 1. literal texts                                                                          *)
(* ---------------------------------------------------------------------------------------- *)
(* 1a. integers: decimal digits, no leading zero (a leading zero would mean octal) *)
Definition int_text (n : N) : bytes := dec_of_N n.

Definition dstep (a c : N) : N := a * 10 + (c - 48).
Definition dig (c : N) : Prop := 48 <= c /\ c <= 57.

Lemma digits_val_10 : forall l a, Forall dig l -> digits_val 10 l a = Some (fold_left dstep l a).
Proof.
  induction l as [|c r IH]; intros a H; [reflexivity|].
  inversion H as [|c0 r0 [H1 H2] Hr]; subst. cbn [digits_val fold_left]. unfold digit_val.
  assert (E1 : (48 <=? c) && (c <=? 57) = true) by lia. rewrite E1.
  assert (E2 : c - 48 <? 10 = true) by lia. rewrite E2. apply IH. exact Hr.
Qed.

Lemma dec_digits_S : forall f n acc,
  dec_digits (S f) n acc = if n <? 10 then (48 + n mod 10) :: acc else dec_digits f (n / 10) ((48 + n mod 10) :: acc).
Proof. reflexivity. Qed.

Lemma dec_digits_spec : forall f n acc, n < 10 * 2 ^ N.of_nat f ->
  exists D, dec_digits (S f) n acc = D ++ acc /\ Forall dig D /\ fold_left dstep D 0 = n /\
            ((n = 0 /\ D = [48]) \/ (exists c r, D = c :: r /\ 49 <= c)).
Proof.
  induction f as [|f IH]; intros n acc Hn; rewrite dec_digits_S; destruct (n <? 10) eqn:E.
  - exists [48 + n mod 10]. split; [reflexivity|]. split; [constructor; [unfold dig; lia|constructor]|].
    split; [unfold dstep; cbn [fold_left]; lia|].
    destruct (N.eq_dec n 0) as [->|Hz]; [left; split; reflexivity|right]. eexists; eexists. split; [reflexivity|lia].
  - change (2 ^ N.of_nat 0) with 1 in Hn. lia.
  - exists [48 + n mod 10]. split; [reflexivity|]. split; [constructor; [unfold dig; lia|constructor]|].
    split; [unfold dstep; cbn [fold_left]; lia|].
    destruct (N.eq_dec n 0) as [->|Hz]; [left; split; reflexivity|right]. eexists; eexists. split; [reflexivity|lia].
  - rewrite Nat2N.inj_succ, N.pow_succ_r' in Hn. set (p := 2 ^ N.of_nat f) in *.
    assert (Hp : 1 <= p) by (unfold p; pose proof (N.pow_nonzero 2 (N.of_nat f)); lia).
    destruct (IH (n / 10) ((48 + n mod 10) :: acc)) as (D & E1 & E2 & E3 & E4); [fold p; lia|].
    exists (D ++ [48 + n mod 10]). split; [rewrite E1, <- app_assoc; reflexivity|].
    split; [apply Forall_app; split; [exact E2|constructor; [unfold dig; lia|constructor]]|].
    split; [rewrite fold_left_app, E3; unfold dstep; cbn [fold_left]; lia|].
    right. destruct E4 as [[Z _]|(c & r & -> & Hc)]; [lia|]. eexists; eexists. split; [reflexivity|exact Hc].
Qed.

Lemma parse_int_nz : forall c r, 49 <= c -> c <= 57 ->
  parse_int (c :: r) =
    match digits_val 10 (c :: r) 0 with
    | None => inl LSyntax
    | Some n => if n <? 2^63 then inr (Z.of_N n) else inl LRange
    end.
Proof.
  intros c r H1 H2.
  assert (H : c = 49 \/ c = 50 \/ c = 51 \/ c = 52 \/ c = 53 \/ c = 54 \/ c = 55 \/ c = 56 \/ c = 57) by lia.
  repeat (destruct H as [->|H]; [reflexivity|]). subst c. reflexivity.
Qed.

Theorem parse_int_text : forall n, n < 2^63 -> parse_int (int_text n) = inr (Z.of_N n).
Proof.
  intros n Hn. unfold int_text, dec_of_N.
  destruct (dec_digits_spec (N.to_nat (N.size n)) n []) as (D & E1 & E2 & E3 & E4).
  { rewrite N2Nat.id. pose proof (N.size_gt n). lia. }
  rewrite E1, app_nil_r. destruct E4 as [[-> ->]|(c & r & -> & Hc)]; [reflexivity|].
  assert (Hc2 : c <= 57) by (inversion E2 as [|? ? [? ?] ?]; subst; assumption).
  rewrite (parse_int_nz c r Hc Hc2), (digits_val_10 _ _ E2), E3.
  assert (E : n <? 2^63 = true) by lia. rewrite E. reflexivity.
Qed.

(* 1b. strings: double-quoted, backslash-quote, backslash-backslash, \xHH for everything outside printable ASCII *)
Definition esc_byte (b : N) : bytes :=
  if b =? 34 then [92; 34]
  else if b =? 92 then [92; 92]
  else if (b <? 32) || (127 <=? b) then 92 :: 120 :: hex_of_byte b
  else [b].
Definition quote_text (s : bytes) : bytes := 34 :: flat_map esc_byte s ++ [34].

Lemma digit_val_hex : forall d, d < 16 -> digit_val (hex_digit d) = Some d.
Proof.
  intros d H. unfold hex_digit, digit_val. destruct (d <? 10) eqn:E.
  - assert (E1 : (48 <=? 48 + d) && (48 + d <=? 57) = true) by lia. rewrite E1. f_equal. lia.
  - assert (E1 : (48 <=? 87 + d) && (87 + d <=? 57) = false) by lia. rewrite E1.
    assert (E2 : (97 <=? 87 + d) && (87 + d <=? 102) = true) by lia. rewrite E2. f_equal. lia.
Qed.

Lemma hexn_byte : forall b r, b < 256 -> hexn 2 (hex_of_byte b ++ r) 0 = Some (b, r).
Proof.
  intros b r H. unfold hex_of_byte. cbn [app hexn].
  rewrite (digit_val_hex (b / 16)) by lia. rewrite (digit_val_hex (b mod 16)) by lia.
  do 2 f_equal. lia.
Qed.

Lemma unquote_body_raw : forall f c r acc, c < 128 -> c <> 10 -> c <> 34 -> c <> 92 ->
  unquote_body (S f) (c :: r) acc = unquote_body f r (c :: acc).
Proof.
  intros f c r acc H1 H2 H3 H4.
  destruct c as [|p].
  - cbn [unquote_body]. destruct (decode_rune _). reflexivity.
  - do 7 (try destruct p as [p|p|]); try lia; cbn [unquote_body]; destruct (decode_rune _); reflexivity.
Qed.

Lemma unquote_body_esc_quote : forall f r acc, unquote_body (S f) (92 :: 34 :: r) acc = unquote_body f r (34 :: acc).
Proof. reflexivity. Qed.
Lemma unquote_body_esc_bsl : forall f r acc, unquote_body (S f) (92 :: 92 :: r) acc = unquote_body f r (92 :: acc).
Proof. reflexivity. Qed.
Lemma unquote_body_esc_hex : forall f r acc, unquote_body (S f) (92 :: 120 :: r) acc =
  match hexn 2 r 0 with Some (v, r') => unquote_body f r' (v :: acc) | None => None end.
Proof. reflexivity. Qed.

Definition byte_ok (b : N) : Prop := b < 256.

Lemma unquote_body_esc : forall s f acc, Forall byte_ok s -> (length s <= f)%nat ->
  unquote_body f (flat_map esc_byte s) acc = Some (rev acc ++ s).
Proof.
  induction s as [|b s IH]; intros f acc Hs Hf.
  - cbn [flat_map]. rewrite app_nil_r. destruct f; cbn [unquote_body]; rewrite frev_eq; reflexivity.
  - inversion Hs as [|b0 s0 Hb Hs']; subst. destruct f as [|f]; [cbn [length] in Hf; lia|].
    assert (Hf' : (length s <= f)%nat) by (cbn [length] in Hf; lia).
    assert (Hrec : forall c, Some (rev (c :: acc) ++ s) = Some (rev acc ++ c :: s))
      by (intros c; cbn [rev]; rewrite <- app_assoc; reflexivity).
    cbn [flat_map]. unfold esc_byte.
    destruct (b =? 34) eqn:E1; [|destruct (b =? 92) eqn:E2; [|destruct ((b <? 32) || (127 <=? b)) eqn:E3]].
    + assert (b = 34) by lia. subst b. cbn [app]. rewrite unquote_body_esc_quote, (IH f _ Hs' Hf'). apply Hrec.
    + assert (b = 92) by lia. subst b. cbn [app]. rewrite unquote_body_esc_bsl, (IH f _ Hs' Hf'). apply Hrec.
    + cbn [app]. rewrite unquote_body_esc_hex, (hexn_byte b _ Hb), (IH f _ Hs' Hf'). apply Hrec.
    + cbn [app]. rewrite unquote_body_raw by lia. rewrite (IH f _ Hs' Hf'). apply Hrec.
Qed.

Lemma esc_length : forall s, (length s <= length (flat_map esc_byte s))%nat.
Proof.
  induction s as [|b s IH]; [apply le_n|]. cbn [flat_map length]. rewrite app_length.
  assert (1 <= length (esc_byte b))%nat; [|lia].
  unfold esc_byte, hex_of_byte. destruct (b =? 34); [cbn; lia|]. destruct (b =? 92); [cbn; lia|].
  destruct ((b <? 32) || (127 <=? b)); cbn; lia.
Qed.

Theorem unquote_quote_text : forall s, Forall byte_ok s -> unquote (quote_text s) = Some s.
Proof.
  intros s Hs. unfold unquote, quote_text.
  rewrite frev_eq, rev_app_distr. cbn [rev app]. rewrite frev_eq, rev_involutive.
  rewrite (unquote_body_esc s _ [] Hs); [reflexivity|]. pose proof (esc_length s). lia.
Qed.

(* the hypothesis is needed: a "byte" of 256 or more has no two-digit escape *)
Example unquote_quote_text_needs_bytes : unquote (quote_text [256]) = None.
Proof. vm_compute. reflexivity. Qed.

Print Assumptions parse_int_text.
Print Assumptions unquote_quote_text.

(* ---------------------------------------------------------------------------------------- *)
(* 2. the writer at token level                                                              *)
(* ---------------------------------------------------------------------------------------- *)
(* a token as the lexer would deliver it, except for the position (irrelevant to the grammar:
   LayoutTree.ast_ignores_positions) *)
Definition mk (t : tok) (v : bytes) : token := {| ttyp := t; tval := v; terr := None; tpos := 0 |}.

Section Writer.
(* the text a writer prints for a non-negative float (bit pattern below 2^63); nothing is assumed
   about it here: the theorems ask, per float actually written, that ParseFloat reads it back *)
Variable ftext : N -> bytes.

Definition tMinus := mk tMINUS (bs "-").

(* mirrors C05Tree.lit_expr *)
Definition tokens_of_expr_lit (v : value) : list token :=
  match v with
  | VInt z => if (0 <=? z)%Z then [mk tINT (int_text (Z.to_N z))]
              else if (z =? - 2^63)%Z then [tMinus; mk tINT (int_text (2^63 - 1)); tMinus; mk tINT (int_text 1)]
              else [tMinus; mk tINT (int_text (Z.to_N (- z)))]
  | VFloat b => if b <? 2^63 then [mk tFLOAT (ftext b)] else [tMinus; mk tFLOAT (ftext (b - 2^63))]
  | VStr s => [mk tSTR (quote_text s)]
  | VBool true => [mk tTRUE (bs "true")]
  | VBool false => [mk tFALSE (bs "false")]
  | VNil => [mk tNIL (bs "nil")]
  | VBlock _ _ _ => []
  end.

(* the optional block name: omitted when empty *)
Definition name_tokens (n : bytes) : list token :=
  match n with [] => [] | _ => [mk tSTR (quote_text n)] end.

(* def T ["name"] { item* }   with   item = key = literal | nested block;  no separators *)
Fixpoint tokens_of_block (v : value) : list token :=
  match v with
  | VBlock t n fs =>
    mk tDEF (bs "def") :: mk tIDENT t :: name_tokens n ++ mk tLCURLY (bs "{") ::
    (fix go (l : list (bytes * value)) : list token :=
       match l with
       | [] => []
       | kx :: r => (match kx with
                     | (k, x) => match x with
                                 | VBlock _ _ _ => tokens_of_block x
                                 | _ => mk tIDENT k :: mk tEQ (bs "=") :: tokens_of_expr_lit x
                                 end
                     end) ++ go r
       end) fs ++ [mk tRCURLY (bs "}")]
  | _ => []
  end.

Definition tokens_of_item (kx : bytes * value) : list token :=
  match kx with
  | (k, x) => match x with
              | VBlock _ _ _ => tokens_of_block x
              | _ => mk tIDENT k :: mk tEQ (bs "=") :: tokens_of_expr_lit x
              end
  end.

Lemma tokens_of_block_eq : forall t n fs,
  tokens_of_block (VBlock t n fs) =
    mk tDEF (bs "def") :: mk tIDENT t :: name_tokens n ++ mk tLCURLY (bs "{") ::
    flat_map tokens_of_item fs ++ [mk tRCURLY (bs "}")].
Proof.
  intros t n fs. cbn [tokens_of_block].
  match goal with |- _ :: _ :: _ ++ _ :: ?a ++ _ = _ => assert (E : a = flat_map tokens_of_item fs) end.
  { induction fs as [|[k x] r IH]; [reflexivity|]. cbn [flat_map]. rewrite <- IH. reflexivity. }
  rewrite E. reflexivity.
Qed.

(* bind T -> struct   and   bind T:all -> slice *)
Definition bind_struct_tokens (t : bytes) : list token :=
  [mk tBIND (bs "bind"); mk tIDENT t; mk tARROW (bs "->"); mk tIDENT (bs "struct")].
Definition bind_slice_tokens (t : bytes) : list token :=
  [mk tBIND (bs "bind"); mk tIDENT t; mk tCOLON (bs ":"); mk tIDENT (bs "all"); mk tARROW (bs "->"); mk tIDENT (bs "slice")].
Definition tEof := mk tEOF [].

Definition tokens_of_prog (b : value) : list token :=
  tokens_of_block b ++ bind_struct_tokens (btype b) ++ [tEof].
Definition tokens_of_progs (bt : bytes) (l : list value) : list token :=
  flat_map tokens_of_block l ++ bind_slice_tokens bt ++ [tEof].

(* ---------------------------------------------------------------------------------------- *)
(* 3. what can be spelled                                                                    *)
(* ---------------------------------------------------------------------------------------- *)
Definition ftext_ok (b : N) : Prop := parse_float (ftext b) = inr b.

(* ints are Go ints, the text of the magnitude of a float reads back, strings are byte strings *)
Definition lit_ok (v : value) : Prop :=
  match v with
  | VInt z => (- 2^63 <= z < 2^63)%Z
  | VFloat b => if b <? 2^63 then ftext_ok b else ftext_ok (b - 2^63)
  | VStr s => Forall byte_ok s
  | VBlock _ _ _ => False
  | _ => True
  end.

Fixpoint text_ok (v : value) : Prop :=
  match v with
  | VBlock _ n fs =>
    Forall byte_ok n /\
    (fix go (l : list (bytes * value)) : Prop :=
       match l with
       | [] => True
       | kx :: r => (match kx with (_, x) => match x with VBlock _ _ _ => text_ok x | _ => lit_ok x end end) /\ go r
       end) fs
  | _ => False
  end.

Definition item_text_ok (kx : bytes * value) : Prop :=
  match snd kx with VBlock _ _ _ => text_ok (snd kx) | _ => lit_ok (snd kx) end.

Lemma text_ok_block : forall t n fs, text_ok (VBlock t n fs) <-> Forall byte_ok n /\ Forall item_text_ok fs.
Proof.
  intros t n fs. cbn [text_ok].
  match goal with |- _ /\ ?a <-> _ => assert (E : a <-> Forall item_text_ok fs) end.
  { induction fs as [|[k x] r IH]; [split; [constructor|exact (fun _ => I)]|].
    split.
    - intros [A B]. constructor; [destruct x; exact A|apply IH; exact B].
    - intros H. inversion H as [|kx r0 A B]; subst. split; [destruct x; exact A|apply IH; exact B]. }
  rewrite E. reflexivity.
Qed.

(* ---------------------------------------------------------------------------------------- *)
(* 4. expressions: the literal tokens read back as lit_expr                                  *)
(* ---------------------------------------------------------------------------------------- *)
(* the next token ends an expression: not an infix operator, and not '=' (which after a complete
   expression at assignment level is the error "invalid assignment target") *)
Definition stops (rest : list token) : Prop :=
  infix_lvl (hd_typ rest) = 0%nat /\ tok_eqb (hd_typ rest) tEQ = false.

Lemma ploop_stop : forall f q e rest, infix_lvl (hd_typ rest) = 0%nat -> ploop (S f) q e rest = Some (e, rest).
Proof. intros f q e rest H. cbn [ploop]. rewrite H. reflexivity. Qed.

Lemma ploop_weak : forall f q e ts, (infix_lvl (hd_typ ts) < q)%nat -> ploop (S f) q e ts = Some (e, ts).
Proof.
  intros f q e ts H. cbn [ploop].
  assert (E : (0 <? infix_lvl (hd_typ ts))%nat && (q <=? infix_lvl (hd_typ ts))%nat = false) by lia.
  rewrite E. reflexivity.
Qed.

Lemma ploop_minus : forall f q e ts, (q <= lvl_term)%nat ->
  ploop (S f) q e (tMinus :: ts) =
    match pexpr f (S lvl_term) ts with Some (rhs, r) => ploop f q (EBin OSub e rhs) r | None => None end.
Proof.
  intros f q e ts H. cbn [ploop hd_typ ttyp tMinus mk]. change (infix_lvl tMINUS) with lvl_term.
  assert (E : (0 <? lvl_term)%nat && (q <=? lvl_term)%nat = true) by (unfold lvl_term in *; lia).
  rewrite E. reflexivity.
Qed.

Lemma ptail_stop : forall f q e rest, stops rest -> ptail (S f) q (Some (e, rest)) = Some (e, rest).
Proof.
  intros f q e rest [H1 H2]. unfold ptail. rewrite (ploop_stop f q e rest H1), H2, andb_false_r. reflexivity.
Qed.

Lemma ppre_minus : forall f q r,
  ppre f q (tMinus :: r) = match pexpr f lvl_unary r with Some (e, r') => Some (ENeg e, r') | None => None end.
Proof. reflexivity. Qed.

Lemma ppre_assign : forall f k v r,
  ppre f lvl_assign (mk tIDENT k :: mk tEQ v :: r) =
    match pexpr f lvl_assign r with Some (e, r') => Some (EAsg k e, r') | None => None end.
Proof. reflexivity. Qed.

(* one literal token *)
Lemma pexpr_atom : forall f q x rest a, atom_of x = Some a -> ttyp x <> tIDENT -> stops rest ->
  pexpr (S (S f)) q (x :: rest) = Some (a, rest).
Proof.
  intros f q x rest a Ha Hx Hs.
  rewrite pexpr_S, (ppre_atom _ q x rest a Ha) by (intros E; congruence). apply ptail_stop, Hs.
Qed.

(* - literal *)
Lemma pexpr_neg_atom : forall f q x rest a, atom_of x = Some a -> ttyp x <> tIDENT -> stops rest ->
  pexpr (S (S (S f))) q (tMinus :: x :: rest) = Some (ENeg a, rest).
Proof.
  intros f q x rest a Ha Hx Hs.
  rewrite pexpr_S, ppre_minus, (pexpr_atom f lvl_unary x rest a Ha Hx Hs). apply ptail_stop, Hs.
Qed.

(* - a - b  is  (-a) - b : the unary minus binds tighter than the binary one *)
Lemma pexpr_neg_sub : forall f A B rest a b,
  atom_of A = Some a -> ttyp A <> tIDENT -> atom_of B = Some b -> ttyp B <> tIDENT -> stops rest ->
  pexpr (S (S (S (S f)))) lvl_assign (tMinus :: A :: tMinus :: B :: rest) = Some (EBin OSub (ENeg a) b, rest).
Proof.
  intros f A B rest a b HA HAi HB HBi Hs.
  assert (E1 : pexpr (S (S (S f))) lvl_unary (A :: tMinus :: B :: rest) = Some (a, tMinus :: B :: rest)).
  { rewrite pexpr_S, (ppre_atom _ _ A _ a HA) by (intros E; congruence). unfold ptail.
    rewrite ploop_weak by (cbn; unfold lvl_unary, lvl_term; lia). reflexivity. }
  rewrite pexpr_S, ppre_minus, E1. unfold ptail.
  rewrite ploop_minus by (unfold lvl_assign, lvl_term; lia).
  rewrite (pexpr_atom f (S lvl_term) B rest b HB HBi Hs).
  destruct Hs as [H1 H2]. rewrite (ploop_stop _ _ _ rest H1), H2, andb_false_r. reflexivity.
Qed.

Lemma atom_int : forall n, n < 2^63 -> atom_of (mk tINT (int_text n)) = Some (ELit (VInt (Z.of_N n))).
Proof. intros n H. unfold atom_of. cbn [ttyp tval mk]. rewrite (parse_int_text n H). reflexivity. Qed.

Theorem lit_tokens_parse : forall v f rest, lit_ok v -> stops rest -> (4 <= f)%nat ->
  pexpr f lvl_assign (tokens_of_expr_lit v ++ rest) = Some (lit_expr v, rest).
Proof.
  intros v f rest Hv Hs Hf.
  destruct f as [|[|[|[|f]]]]; try lia.
  destruct v as [|[|]|z|b|s|t n fs]; cbn [lit_ok] in Hv; unfold tokens_of_expr_lit, lit_expr.
  - apply pexpr_atom; [reflexivity|discriminate|exact Hs].
  - apply pexpr_atom; [reflexivity|discriminate|exact Hs].
  - apply pexpr_atom; [reflexivity|discriminate|exact Hs].
  - destruct (0 <=? z)%Z eqn:E0; [|destruct (z =? - 2^63)%Z eqn:E1].
    + cbn [app]. apply pexpr_atom; [|discriminate|exact Hs].
      rewrite atom_int by lia. rewrite Z2N.id by lia. reflexivity.
    + cbn [app]. apply pexpr_neg_sub; try discriminate; try exact Hs; rewrite atom_int by lia; reflexivity.
    + cbn [app]. apply pexpr_neg_atom; [|discriminate|exact Hs].
      rewrite atom_int by lia. rewrite Z2N.id by lia. reflexivity.
  - destruct (b <? 2^63) eqn:E0; cbn [app].
    + apply pexpr_atom; [|discriminate|exact Hs]. unfold atom_of. cbn [ttyp tval mk]. rewrite Hv. reflexivity.
    + apply pexpr_neg_atom; [|discriminate|exact Hs]. unfold atom_of. cbn [ttyp tval mk]. rewrite Hv. reflexivity.
  - apply pexpr_atom; [|discriminate|exact Hs].
    unfold atom_of. cbn [ttyp tval mk]. rewrite (unquote_quote_text s Hv). reflexivity.
  - destruct Hv.
Qed.

(* ---------------------------------------------------------------------------------------- *)
(* 5. items and blocks                                                                       *)
(* ---------------------------------------------------------------------------------------- *)
(* what follows an item inside a block: the next item or the closing brace *)
Definition follow (ts : list token) : Prop :=
  hd_typ ts = tIDENT \/ hd_typ ts = tDEF \/ hd_typ ts = tRCURLY.

Lemma follow_stops : forall ts, follow ts -> stops ts.
Proof. intros ts [H|[H|H]]; unfold stops; rewrite H; split; reflexivity. Qed.
Lemma follow_skip : forall ts, follow ts -> skip_semi ts = ts.
Proof.
  intros [|t r] H; [reflexivity|]. unfold skip_semi. unfold follow in H. cbn [hd_typ] in H.
  destruct H as [H|[H|H]]; rewrite H; reflexivity.
Qed.

Lemma item_head : forall kx, exists t r, tokens_of_item kx = t :: r /\ (ttyp t = tIDENT \/ ttyp t = tDEF).
Proof.
  intros [k x]. destruct x as [| | | | |t n fs];
    try (eexists; eexists; split; [reflexivity|left; reflexivity]).
  eexists; eexists. split; [apply tokens_of_block_eq|right; reflexivity].
Qed.

Lemma follow_items : forall fs c rest, ttyp c = tRCURLY -> follow (flat_map tokens_of_item fs ++ c :: rest).
Proof.
  intros [|kx r] c rest Hc; [right; right; exact Hc|].
  cbn [flat_map]. destruct (item_head kx) as (t & r0 & -> & [H|H]); cbn [app hd_typ]; [left|right; left]; exact H.
Qed.

(* pstmt reads the item off the front of the input, with fuel = its length + 3 *)
Definition parses_item (kx : bytes * value) : Prop :=
  forall f rest, follow rest -> (length (tokens_of_item kx) + 3 <= f)%nat ->
    pstmt f true (tokens_of_item kx ++ rest) = Some (item kx, rest).

Lemma scalar_item_parses : forall k x, lit_ok x -> parses_item (k, x).
Proof.
  intros k x Hx f rest Hfol Hf.
  assert (Ht : tokens_of_item (k, x) = mk tIDENT k :: mk tEQ (bs "=") :: tokens_of_expr_lit x)
    by (destruct x; try reflexivity; destruct Hx).
  assert (Hi : item (k, x) = SExpr (EAsg k (lit_expr x))) by (destruct x; try reflexivity; destruct Hx).
  assert (Hl : (1 <= length (tokens_of_expr_lit x))%nat).
  { destruct x as [|[|]|z|b| |]; cbn [tokens_of_expr_lit length]; try lia; try destruct Hx.
    - destruct (0 <=? z)%Z; [|destruct (z =? - 2^63)%Z]; cbn [length]; lia.
    - destruct (b <? 2^63); cbn [length]; lia. }
  rewrite Ht in *. rewrite Hi. cbn [length] in Hf. cbn [app].
  destruct f as [|[|[|f]]]; try lia.
  rewrite pstmt_S. cbn [ttyp mk]. rewrite pexpr_S, ppre_assign.
  rewrite (lit_tokens_parse x (S f) rest Hx (follow_stops _ Hfol)) by lia.
  rewrite ptail_stop by (apply follow_stops, Hfol). reflexivity.
Qed.

Lemma pitems_item : forall f ts, hd_typ ts = tIDENT \/ hd_typ ts = tDEF ->
  pitems (S f) ts =
    match pstmt f true ts with
    | Some (s, r) => match pitems f (skip_semi r) with Some (ss, r') => Some (s :: ss, r') | None => None end
    | None => None
    end.
Proof. intros f ts [H|H]; rewrite pitems_S, H; reflexivity. Qed.

Lemma items_parse : forall fs, Forall parses_item fs ->
  forall f c rest, ttyp c = tRCURLY -> (length (flat_map tokens_of_item fs) + 4 <= f)%nat ->
    pitems f (flat_map tokens_of_item fs ++ c :: rest) = Some (map item fs, c :: rest).
Proof.
  induction 1 as [|kx r Hkx Hr IH]; intros f c rest Hc Hf.
  - destruct f as [|f]; [lia|]. cbn [flat_map app map]. rewrite pitems_S. cbn [hd_typ]. rewrite Hc. reflexivity.
  - cbn [flat_map map] in *. rewrite app_length in Hf. rewrite <- app_assoc.
    destruct (item_head kx) as (t & r0 & Et & Hh).
    assert (Hlen : (1 <= length (tokens_of_item kx))%nat) by (rewrite Et; cbn [length]; lia).
    destruct f as [|f]; [lia|].
    rewrite pitems_item by (rewrite Et; exact Hh).
    pose proof (follow_items r c rest Hc) as Hfol.
    rewrite (Hkx f _ Hfol) by lia. rewrite (follow_skip _ Hfol), (IH f c rest Hc) by lia. reflexivity.
Qed.

Lemma block_tokens_app : forall t n fs rest,
  tokens_of_block (VBlock t n fs) ++ rest =
    mk tDEF (bs "def") :: mk tIDENT t :: name_tokens n ++ mk tLCURLY (bs "{") ::
    flat_map tokens_of_item fs ++ mk tRCURLY (bs "}") :: rest.
Proof.
  intros. rewrite tokens_of_block_eq. cbn [app]. do 2 f_equal. rewrite <- app_assoc. cbn [app].
  do 2 f_equal. rewrite <- app_assoc. reflexivity.
Qed.

Lemma block_length : forall t n fs,
  length (tokens_of_block (VBlock t n fs)) = (4 + length (name_tokens n) + length (flat_map tokens_of_item fs))%nat.
Proof.
  intros. rewrite tokens_of_block_eq. cbn [length]. rewrite app_length. cbn [length]. rewrite app_length. cbn [length]. lia.
Qed.

(* a definition, at top level or inside a block, whatever follows it *)
Lemma block_parse_from_items : forall t n fs, Forall byte_ok n -> Forall parses_item fs ->
  forall f ib rest, (length (tokens_of_block (VBlock t n fs)) + 3 <= f)%nat ->
    pstmt f ib (tokens_of_block (VBlock t n fs) ++ rest) = Some (stmt_of_block (VBlock t n fs), rest).
Proof.
  intros t n fs Hn Hfs f ib rest Hf. rewrite block_length in Hf. rewrite block_tokens_app, stmt_of_block_eq.
  destruct f as [|f]; [lia|]. rewrite pstmt_S. cbn [ttyp mk]. unfold pdef. cbn [ttyp mk tok_eqb negb].
  change (tok_eqb tIDENT tIDENT) with true. cbn [negb].
  assert (Hit : pitems f (flat_map tokens_of_item fs ++ mk tRCURLY (bs "}") :: rest) =
                Some (map item fs, mk tRCURLY (bs "}") :: rest)) by (apply items_parse; [exact Hfs|reflexivity|lia]).
  destruct n as [|c n'].
  - cbn [name_tokens app pdef_name ttyp mk]. change (tok_eqb tLCURLY tSTR) with false. cbv iota.
    cbn [ttyp mk]. change (tok_eqb tLCURLY tLCURLY) with true. cbv iota. rewrite Hit. reflexivity.
  - cbn [name_tokens app pdef_name ttyp tval mk]. change (tok_eqb tSTR tSTR) with true. cbv iota.
    rewrite (unquote_quote_text _ Hn). cbn [ttyp mk]. change (tok_eqb tLCURLY tLCURLY) with true. cbv iota.
    rewrite Hit. reflexivity.
Qed.

Lemma all_items_parse : forall d t n fs, (bdepth (VBlock t n fs) <= d)%nat -> text_ok (VBlock t n fs) ->
  Forall parses_item fs.
Proof.
  induction d as [|d IH]; intros t n fs Hd Hok; [pose proof (bdepth_block_pos t n fs); lia|].
  apply text_ok_block in Hok. destruct Hok as [_ Hok]. rewrite Forall_forall in Hok.
  apply Forall_forall. intros [k x] Hin. specialize (Hok _ Hin). unfold item_text_ok in Hok. cbn [snd] in Hok.
  pose proof (bdepth_in t n fs k x Hin) as Hlt.
  destruct x as [| | | | |t' n' fs']; try (apply scalar_item_parses; exact Hok).
  intros f rest _ Hf.
  change (tokens_of_item (k, VBlock t' n' fs')) with (tokens_of_block (VBlock t' n' fs')) in *.
  change (item (k, VBlock t' n' fs')) with (stmt_of_block (VBlock t' n' fs')).
  apply block_parse_from_items; [exact (proj1 (proj1 (text_ok_block t' n' fs') Hok))| |exact Hf].
  apply (IH t' n'); [lia|exact Hok].
Qed.

Theorem block_parse : forall t n fs, text_ok (VBlock t n fs) ->
  forall f ib rest, (length (tokens_of_block (VBlock t n fs)) + 3 <= f)%nat ->
    pstmt f ib (tokens_of_block (VBlock t n fs) ++ rest) = Some (stmt_of_block (VBlock t n fs), rest).
Proof.
  intros t n fs Hok. apply block_parse_from_items; [exact (proj1 (proj1 (text_ok_block t n fs) Hok))|].
  exact (all_items_parse _ t n fs (le_n _) Hok).
Qed.

(* ---------------------------------------------------------------------------------------- *)
(* 6. programs                                                                               *)
(* ---------------------------------------------------------------------------------------- *)
Lemma ptop_S2 : forall f a b r,
  ptop (S f) (a :: b :: r) =
    match pstmt f false (a :: b :: r) with
    | Some (s, r') => match ptop f (skip_semi r') with Some ss => Some (s :: ss) | None => None end
    | None => None
    end.
Proof. reflexivity. Qed.

Lemma ptop_bind_struct : forall f t, ptop (S (S (S f))) (bind_struct_tokens t ++ [tEof]) = Some [SBind t BSone BTstruct].
Proof. reflexivity. Qed.
Lemma ptop_bind_slice : forall f t, ptop (S (S (S f))) (bind_slice_tokens t ++ [tEof]) = Some [SBind t BSall BTslice].
Proof. reflexivity. Qed.

(* ---- the writer's token list is a sentence, and its tree is the writer's tree ---- *)
Theorem tokens_parse : forall t n fs, text_ok (VBlock t n fs) ->
  ast_program (tokens_of_prog (VBlock t n fs)) = Some (prog_of_block (VBlock t n fs)).
Proof.
  intros t n fs Hok. unfold ast_program, tokens_of_prog, prog_of_block, stmts_of_block. cbn [btype].
  set (bt := tokens_of_block (VBlock t n fs)).
  assert (Hb : exists a b r, bt ++ bind_struct_tokens t ++ [tEof] = a :: b :: r).
  { unfold bt. rewrite block_tokens_app. eauto. }
  destruct Hb as (a & b & r & Hb).
  rewrite !app_length. change (length (bind_struct_tokens t)) with 4%nat. cbn [length].
  replace (4 * (length bt + (4 + 1)) + 8)%nat with (S (4 * length bt + 27))%nat by lia.
  rewrite Hb, ptop_S2, <- Hb.
  unfold bt. rewrite (block_parse t n fs Hok) by lia. fold bt.
  replace (4 * length bt + 27)%nat with (S (S (S (4 * length bt + 24))))%nat by lia.
  change (skip_semi (bind_struct_tokens t ++ [tEof])) with (bind_struct_tokens t ++ [tEof]).
  rewrite ptop_bind_struct. reflexivity.
Qed.

Lemma ptop_blocks : forall l tail p a b r,
  Forall (fun x => exists t n fs, x = VBlock t n fs /\ text_ok x) l ->
  tail = a :: b :: r -> skip_semi tail = tail ->
  forall f, (length (flat_map tokens_of_block l) + 4 <= f)%nat ->
  (forall g, (3 <= g)%nat -> ptop g tail = Some p) ->
  ptop f (flat_map tokens_of_block l ++ tail) = Some (map stmt_of_block l ++ p).
Proof.
  intros l tail p a b r Hl Et Hskip. induction Hl as [|x l (t & n & fs & -> & Hok) Hl IH]; intros f Hf Hp.
  - cbn [flat_map app map]. apply Hp. cbn [flat_map length] in Hf. lia.
  - cbn [flat_map map]. cbn [flat_map] in Hf. rewrite app_length in Hf. rewrite <- app_assoc.
    assert (Hb : exists a' b' r', tokens_of_block (VBlock t n fs) ++ flat_map tokens_of_block l ++ tail = a' :: b' :: r').
    { rewrite block_tokens_app. eauto. }
    destruct Hb as (a' & b' & r' & Hb).
    pose proof (block_length t n fs) as Hbl.
    destruct f as [|f]; [lia|].
    rewrite Hb, ptop_S2, <- Hb. rewrite (block_parse t n fs Hok) by lia.
    assert (Hsk : skip_semi (flat_map tokens_of_block l ++ tail) = flat_map tokens_of_block l ++ tail).
    { destruct Hl as [|y l' (t' & n' & fs' & -> & _) _]; [exact Hskip|].
      cbn [flat_map]. rewrite <- app_assoc, block_tokens_app. reflexivity. }
    rewrite Hsk, (IH f) by (lia || exact Hp). reflexivity.
Qed.

Theorem tokens_parse_slice : forall bt l,
  Forall (fun x => exists t n fs, x = VBlock t n fs /\ text_ok x) l ->
  ast_program (tokens_of_progs bt l) = Some (prog_of_blocks bt l).
Proof.
  intros bt l Hl. unfold ast_program, tokens_of_progs, prog_of_blocks.
  eapply (ptop_blocks l (bind_slice_tokens bt ++ [tEof])); [exact Hl|reflexivity|reflexivity| |].
  - rewrite app_length. lia.
  - intros g Hg. destruct g as [|[|[|g]]]; try lia. apply ptop_bind_slice.
Qed.

(* ---------------------------------------------------------------------------------------- *)
(* 7. the token list has the shape the lexer guarantees (needed by theorem T2)               *)
(* ---------------------------------------------------------------------------------------- *)
Ltac nrm := unfold normal, normalt; cbn [ttyp mk tMinus]; repeat split; discriminate.

Lemma lit_normal : forall v, Forall normal (tokens_of_expr_lit v).
Proof.
  intros v. destruct v as [|[|]|z|b|s|t n fs]; unfold tokens_of_expr_lit;
    try (destruct (0 <=? z)%Z; [|destruct (z =? - 2^63)%Z]); try destruct (b <? 2^63);
    repeat (constructor; [nrm|]); constructor.
Qed.

Lemma block_normal : forall d x, (bdepth x <= d)%nat -> Forall normal (tokens_of_block x).
Proof.
  induction d as [|d IH]; intros x Hd; destruct x as [| | | | |t n fs]; try apply Forall_nil.
  - pose proof (bdepth_block_pos t n fs). lia.
  - rewrite tokens_of_block_eq. constructor; [nrm|]. constructor; [nrm|].
    apply Forall_app. split; [destruct n; repeat constructor; nrm|]. constructor; [nrm|].
    apply Forall_app. split; [|repeat constructor; nrm].
    apply Forall_forall. intros tk Hin. apply in_flat_map in Hin. destruct Hin as ([k y] & Hin1 & Hin2).
    pose proof (bdepth_in t n fs k y Hin1) as Hlt.
    assert (Hs : Forall normal (mk tIDENT k :: mk tEQ (bs "=") :: tokens_of_expr_lit y))
      by (constructor; [nrm|constructor; [nrm|apply lit_normal]]).
    rewrite Forall_forall in Hs.
    destruct y as [| | | | |t' n' fs']; try (apply Hs; exact Hin2).
    assert (Hb : Forall normal (tokens_of_block (VBlock t' n' fs'))) by (apply IH; lia).
    rewrite Forall_forall in Hb. apply Hb. exact Hin2.
Qed.

Theorem tokens_of_prog_shape : forall b, lex_shape (tokens_of_prog b).
Proof.
  intros b. exists (tokens_of_block b ++ bind_struct_tokens (btype b)). split.
  - apply Forall_app. split; [apply (block_normal _ b (le_n _))|]. repeat (constructor; [nrm|]). constructor.
  - left. exists tEof. split; [reflexivity|]. unfold tokens_of_prog. rewrite app_assoc. reflexivity.
Qed.

Theorem tokens_of_progs_shape : forall bt l, lex_shape (tokens_of_progs bt l).
Proof.
  intros bt l. exists (flat_map tokens_of_block l ++ bind_slice_tokens bt). split.
  - apply Forall_app. split; [|repeat (constructor; [nrm|]); constructor].
    apply Forall_forall. intros tk Hin. apply in_flat_map in Hin. destruct Hin as (x & _ & Hin).
    pose proof (block_normal _ x (le_n _)) as H. rewrite Forall_forall in H. apply H. exact Hin.
  - left. exists tEof. split; [reflexivity|]. unfold tokens_of_progs. rewrite app_assoc. reflexivity.
Qed.

(* ---------------------------------------------------------------------------------------- *)
(* 8. composition: theorem T2 (the one-pass parser) and the tree theorems of C05Tree.v       *)
(* ---------------------------------------------------------------------------------------- *)
(* the program Parse builds from the final parser state (Model/Api.parse_chunks) *)
Definition prog_of_pst (s : pst) (name : bytes) (pos lfs : list N) : prog :=
  {| g_name := name; g_code := rev (code s); g_consts := rev (consts s); g_pos := pos; g_lfs := lfs |}.

(* the real parser accepts the written tokens and emits exactly the generator's code *)
Theorem parser_accepts_written : forall t n fs, text_ok (VBlock t n fs) ->
  let b := VBlock t n fs in
  let ps := parse_tokens (tokens_of_prog b) in
  hadError ps = false /\ oof ps = false /\ ppanic ps = false /\
  code ps = code (compile_program (prog_of_block b)) /\
  consts ps = consts (compile_program (prog_of_block b)) /\
  forall name pos lfs, prog_of_pst ps name pos lfs = prog_of_tree (prog_of_block b) name pos lfs.
Proof.
  intros t n fs Hok b ps.
  destruct (compile_prog_of_block b) as (Hc & _ & _).
  destruct (T2_sound _ _ (tokens_of_prog_shape b) (tokens_parse t n fs Hok) Hc) as (E1 & E2 & E3 & E4 & E5 & _).
  fold ps in E1, E2, E3, E4, E5. repeat split; try assumption.
  intros name pos lfs. unfold prog_of_pst, prog_of_tree. rewrite E4, E5. reflexivity.
Qed.

Theorem parser_accepts_written_slice : forall bt l,
  Forall (fun x => exists t n fs, x = VBlock t n fs /\ text_ok x) l ->
  let ps := parse_tokens (tokens_of_progs bt l) in
  hadError ps = false /\ oof ps = false /\ ppanic ps = false /\
  code ps = code (compile_program (prog_of_blocks bt l)) /\
  consts ps = consts (compile_program (prog_of_blocks bt l)) /\
  forall name pos lfs, prog_of_pst ps name pos lfs = prog_of_tree (prog_of_blocks bt l) name pos lfs.
Proof.
  intros bt l Hl ps.
  destruct (compile_prog_of_blocks bt l) as (Hc & _ & _).
  destruct (T2_sound _ _ (tokens_of_progs_shape bt l) (tokens_parse_slice bt l Hl) Hc) as (E1 & E2 & E3 & E4 & E5 & _).
  fold ps in E1, E2, E3, E4, E5. repeat split; try assumption.
  intros name pos lfs. unfold prog_of_pst, prog_of_tree. rewrite E4, E5. reflexivity.
Qed.

(* Go values whose scalars can be spelled: every int a Go int, every string (and the Name) a byte
   string, the text of the magnitude of every float read back by ParseFloat *)
Fixpoint gtext_ok (v : goval) : Prop :=
  match v with
  | GVal x => lit_ok x
  | GStruct l => (fix go (l : list goval) : Prop := match l with [] => True | x :: r => gtext_ok x /\ go r end) l
  | _ => True
  end.
Lemma gtext_ok_struct l : gtext_ok (GStruct l) <-> Forall gtext_ok l.
Proof.
  cbn [gtext_ok]. induction l as [|x r IH]; [split; [constructor|exact (fun _ => I)]|].
  split; [intros [A B]; constructor; [exact A|apply IH; exact B] | intros H; inversion H; subst; split; [assumption|apply IH; assumption]].
Qed.

Lemma name_of_bytes : forall fs l, Forall gtext_ok l -> Forall byte_ok (name_of fs l).
Proof.
  induction fs as [|f fs IH]; intros l Hl; [constructor|]. destruct l as [|x l]; [constructor|].
  inversion Hl as [|x0 l0 Hx Hl']; subst. cbn [name_of]. destruct (is_name (fname_ f)); [|apply IH; exact Hl'].
  destruct x as [| |v| | | |]; try constructor. destruct v; try constructor. exact Hx.
Qed.

Lemma tree_of_text_ok : forall d tn fs l bt,
  bfam d (TStruct tn fs) -> inhabits (TStruct tn fs) (GStruct l) -> gtext_ok (GStruct l) ->
  text_ok (tree_of (TStruct tn fs) (GStruct l) bt).
Proof.
  induction d as [|d IH]; intros tn fs l bt Hfam Hinh Hv; [inversion Hfam|].
  inversion Hfam as [d0 tn0 fs0 Hnd Hall]; subst.
  inversion Hinh as [| | | |tn0 fs0 l0 HF]; subst.
  rewrite Forall_forall in Hall. fold (bfield_ok d) in Hall.
  apply gtext_ok_struct in Hv.
  rewrite tree_of_struct. apply text_ok_block. split; [apply name_of_bytes; exact Hv|].
  rewrite Forall_forall in Hv. apply Forall_forall. intros [k x] Hin.
  destruct (tentries_in _ _ _ _ Hin) as (i & f & y & Hi & Hy & Hn & -> & ->).
  destruct (Hall f (nth_error_In _ _ Hi)) as (_ & _ & _ & _ & Hty).
  destruct (Forall2_nth _ _ _ _ _ HF Hi) as (y' & Hy' & Hinh'). rewrite Hy in Hy'. inversion Hy'; subst y'.
  pose proof (Hv y (nth_error_In _ _ Hy)) as Hvy. unfold item_text_ok, tchild. cbn [snd].
  destruct Hty as [[Hn' _]|[_ [Hsc|[Hf _]]]]; [congruence| |].
  - destruct (ftyp f); try discriminate; inversion Hinh'; subst; exact Hvy.
  - inversion Hf as [d0 tn' fs' Hnd' Hall' Ed Et]. rewrite <- Et in Hinh', Hf.
    inversion Hinh' as [| | | |tn0 fs0 l0 HF' E1 E2]. subst y.
    rewrite tree_of_struct. rewrite <- (tree_of_struct tn' fs' l0).
    apply (IH tn' fs' l0); assumption.
Qed.

(* ---- C05 from the written TOKENS: the grammar reads the writer's tree, the tree binds v ---- *)
Theorem C05_token_roundtrip : forall d tn fs l bt,
  bfam d (TStruct tn fs) -> (d <= 64)%nat -> inhabits (TStruct tn fs) (GStruct l) ->
  (tn = [] \/ unsnake_eq tn bt = true) ->
  vals_ok (GStruct l) -> gtext_ok (GStruct l) ->
  let b := tree_of (TStruct tn fs) (GStruct l) bt in
  exists p, ast_program (tokens_of_prog b) = Some p /\ p = prog_of_block b /\
  exists en b', run_program p = (ROk tt, en) /\
    binding_ en = Some (SStruct b') /\ veq b' b /\
    bind (TgtPtr (TStruct tn fs) GZero) (BdStruct b') = BOk (GPtrTo (GStruct l)).
Proof.
  intros d tn fs l bt Hfam Hd Hinh Htn Hv Ht b.
  pose proof (tree_of_text_ok d tn fs l bt Hfam Hinh Ht) as Hok. rewrite tree_of_struct in Hok.
  exists (prog_of_block b). split; [unfold b; rewrite tree_of_struct; apply tokens_parse; exact Hok|].
  split; [reflexivity|]. apply (C05_tree_roundtrip_bfam d); assumption.
Qed.

(* ... and the real parser compiles the tokens to a program whose execution binds v *)
Theorem C05_token_code_roundtrip : forall d tn fs l bt name pos lfs,
  bfam d (TStruct tn fs) -> (d <= 64)%nat -> inhabits (TStruct tn fs) (GStruct l) ->
  (tn = [] \/ unsnake_eq tn bt = true) ->
  vals_ok (GStruct l) -> gtext_ok (GStruct l) ->
  let b := tree_of (TStruct tn fs) (GStruct l) bt in
  csize b + 1 < 2^64 ->
  let ps := parse_tokens (tokens_of_prog b) in
  hadError ps = false /\ oof ps = false /\ ppanic ps = false /\
  let rr := execute (prog_of_pst ps name pos lfs) false false in
  (limit_res (rr_res rr) \/
   exists b', rr_res rr = VOk /\ rr_binding rr = BStruct b' /\ print_lines (rr_out rr) = [] /\ rr_warn rr = [] /\
     bind (TgtPtr (TStruct tn fs) GZero) (BdStruct b') = BOk (GPtrTo (GStruct l))).
Proof.
  intros d tn fs l bt name pos lfs Hfam Hd Hinh Htn Hv Ht b Hsz ps.
  pose proof (tree_of_text_ok d tn fs l bt Hfam Hinh Ht) as Hok. rewrite tree_of_struct in Hok.
  pose proof (parser_accepts_written _ _ _ Hok) as H. cbv zeta in H.
  rewrite <- (tree_of_struct tn fs l bt) in H. fold b in H. fold ps in H.
  destruct H as (E1 & E2 & E3 & _ & _ & E6).
  repeat (split; [assumption|]). intros rr. unfold rr. rewrite E6.
  exact (proj2 (C05_code_roundtrip_bfam d tn fs l bt name pos lfs Hfam Hd Hinh Htn Hv Hsz)).
Qed.

(* ---- the slice form ---- *)
Lemma slice_blocks_text_ok : forall d tn fs vals bt,
  bfam d (TStruct tn fs) -> Forall (fun v => inhabits (TStruct tn fs) v /\ gtext_ok v) vals ->
  Forall (fun x => exists t n fs', x = VBlock t n fs' /\ text_ok x) (map (fun v => tree_of (TStruct tn fs) v bt) vals).
Proof.
  intros d tn fs vals bt Hfam Hall. apply Forall_forall. intros x Hin.
  apply in_map_iff in Hin. destruct Hin as (v & <- & Hin). rewrite Forall_forall in Hall.
  destruct (Hall v Hin) as [Hi Ht]. destruct (inhabits_struct_inv _ _ _ Hi) as [l ->].
  pose proof (tree_of_text_ok d tn fs l bt Hfam Hi Ht) as Hok. rewrite tree_of_struct in *. eauto.
Qed.

Theorem C05_token_roundtrip_slice : forall d tn fs vals bt v0,
  bfam d (TStruct tn fs) -> (d <= 64)%nat -> vals <> [] ->
  Forall (fun v => inhabits (TStruct tn fs) v /\ vals_ok v) vals ->
  Forall (fun v => inhabits (TStruct tn fs) v /\ gtext_ok v) vals ->
  (tn = [] \/ unsnake_eq tn bt = true) ->
  let bl := map (fun v => tree_of (TStruct tn fs) v bt) vals in
  exists p, ast_program (tokens_of_progs bt bl) = Some p /\ p = prog_of_blocks bt bl /\
  exists en bl', run_program p = (ROk tt, en) /\
    binding_ en = Some (SSlice bl') /\ Forall2 veq bl' bl /\
    bind (TgtPtr (TSlice (TStruct tn fs)) v0) (BdSlice bl') = BOk (GPtrTo (GSlice vals)).
Proof.
  intros d tn fs vals bt v0 Hfam Hd Hne Hall Htx Htn bl.
  exists (prog_of_blocks bt bl). split; [apply tokens_parse_slice, (slice_blocks_text_ok d); assumption|].
  split; [reflexivity|]. apply (C05_tree_roundtrip_slice_bfam d); assumption.
Qed.

Theorem C05_token_code_roundtrip_slice : forall d tn fs vals bt v0 name pos lfs,
  bfam d (TStruct tn fs) -> (d <= 64)%nat -> vals <> [] ->
  Forall (fun v => inhabits (TStruct tn fs) v /\ vals_ok v) vals ->
  Forall (fun v => inhabits (TStruct tn fs) v /\ gtext_ok v) vals ->
  (tn = [] \/ unsnake_eq tn bt = true) ->
  let bl := map (fun v => tree_of (TStruct tn fs) v bt) vals in
  csizes bl + 1 < 2^64 ->
  let ps := parse_tokens (tokens_of_progs bt bl) in
  hadError ps = false /\ oof ps = false /\ ppanic ps = false /\
  let rr := execute (prog_of_pst ps name pos lfs) false false in
  (limit_res (rr_res rr) \/
   exists bl', rr_res rr = VOk /\ rr_binding rr = BSlice bl' /\ print_lines (rr_out rr) = [] /\ rr_warn rr = [] /\
     bind (TgtPtr (TSlice (TStruct tn fs)) v0) (BdSlice bl') = BOk (GPtrTo (GSlice vals))).
Proof.
  intros d tn fs vals bt v0 name pos lfs Hfam Hd Hne Hall Htx Htn bl Hsz ps.
  pose proof (parser_accepts_written_slice bt bl (slice_blocks_text_ok d tn fs vals bt Hfam Htx)) as H.
  cbv zeta in H. fold ps in H. destruct H as (E1 & E2 & E3 & _ & _ & E6).
  repeat (split; [assumption|]). intros rr. unfold rr. rewrite E6.
  exact (proj2 (C05_code_roundtrip_slice_bfam d tn fs vals bt v0 name pos lfs Hfam Hd Hne Hall Htn Hsz)).
Qed.

End Writer.

(* ---------------------------------------------------------------------------------------- *)
(* 9. examples, and why the side conditions are there                                        *)
(* ---------------------------------------------------------------------------------------- *)
(* the example of C05Tree.v: Ratio = -0.5 is written - 0.5, Offset = -2^63 as - 9223372036854775807 - 1 *)
Definition ex_ftext (b : N) : bytes := if b =? 4602678819172646912 then bs "0.5" else bs "0.0".
Eval vm_compute in (map (fun t => (ttyp t, tval t)) (tokens_of_prog ex_ftext (tree_of t_server v_server (bs "server")))).

(* by computation: grammar, and the real parser's code against the generator's *)
Example tokens_example :
  let b := tree_of t_server v_server (bs "server") in
  let ts := tokens_of_prog ex_ftext b in
  ast_program ts = Some (prog_of_block b) /\
  hadError (parse_tokens ts) = false /\
  code (parse_tokens ts) = code (compile_program (prog_of_block b)) /\
  consts (parse_tokens ts) = consts (compile_program (prog_of_block b)).
Proof. vm_compute. repeat split; reflexivity. Qed.

Example v_server_gtext_ok : gtext_ok ex_ftext v_server.
Proof.
  cbn [gtext_ok v_server lit_ok]. repeat split; try lia; try (vm_compute; reflexivity);
    repeat constructor; unfold byte_ok; lia.
Qed.

(* the same from the theorems *)
Example tokens_example_thm :
  let b := tree_of t_server v_server (bs "server") in
  exists p, ast_program (tokens_of_prog ex_ftext b) = Some p /\ p = prog_of_block b /\
  exists en b', run_program p = (ROk tt, en) /\ binding_ en = Some (SStruct b') /\ veq b' b /\
    bind (TgtPtr t_server GZero) (BdStruct b') = BOk (GPtrTo v_server).
Proof.
  apply (C05_token_roundtrip ex_ftext 2);
    [exact t_server_bfam|lia|exact v_server_inhabits|right; vm_compute; reflexivity|exact v_server_vals_ok|exact v_server_gtext_ok].
Qed.

(* a slice of two servers *)
Example tokens_example_slice :
  let bl := map (fun v => tree_of t_server v (bs "server")) [v_server; v_server] in
  ast_program (tokens_of_progs ex_ftext (bs "server") bl) = Some (prog_of_blocks (bs "server") bl).
Proof. vm_compute. reflexivity. Qed.

(* why int_text must not print a leading zero: 010 is eight *)
Example leading_zero_is_octal : parse_int (bs "010") = inr 8%Z /\ parse_int (bs "08") = inl LSyntax.
Proof. split; reflexivity. Qed.

(* why a negative int is written with a unary minus applied to the magnitude, and -2^63 as a difference:
   2^63 itself is not an int literal *)
Example min_int_magnitude_not_a_literal : parse_int (int_text (2^63)) = inl LRange.
Proof. vm_compute. reflexivity. Qed.

(* why [stops] excludes '=': a complete expression followed by '=' is "invalid assignment target" *)
Example literal_then_eq : pexpr 10 lvl_assign [mk tINT (bs "1"); mk tEQ (bs "="); mk tINT (bs "2")] = None.
Proof. reflexivity. Qed.
(* ... and why it excludes infix operators: the expression would go on *)
Example literal_then_minus :
  pexpr 10 lvl_assign [mk tINT (bs "1"); mk tMINUS (bs "-"); mk tINT (bs "2"); mk tRCURLY (bs "}")] =
  Some (EBin OSub (ELit (VInt 1)) (ELit (VInt 2)), [mk tRCURLY (bs "}")]).
Proof. reflexivity. Qed.
(* hence items need no separator, but only because every item starts with an identifier or `def`:
   k = 1 followed by an item starting with '-' would be read as one expression (no such item is written) *)

(* a raw newline, and a raw byte >= 0x80 that is not UTF-8, do not survive Unquote: quote_text escapes them *)
Example raw_newline_rejected : unquote [34; 10; 34] = None /\ unquote (quote_text [10]) = Some [10].
Proof. split; vm_compute; reflexivity. Qed.
Example raw_high_byte_replaced : unquote [34; 255; 34] = Some [239; 191; 189] /\ unquote (quote_text [255]) = Some [255].
Proof. split; vm_compute; reflexivity. Qed.

Check parse_int_text.
Check unquote_quote_text.
Check lit_tokens_parse.
Check block_parse.
Check tokens_parse.
Check tokens_parse_slice.
Check tokens_of_prog_shape.
Check parser_accepts_written.
Check parser_accepts_written_slice.
Check tree_of_text_ok.
Check C05_token_roundtrip.
Check C05_token_code_roundtrip.
Check C05_token_roundtrip_slice.
Check C05_token_code_roundtrip_slice.

Print Assumptions lit_tokens_parse.
Print Assumptions tokens_parse.
Print Assumptions tokens_parse_slice.
Print Assumptions parser_accepts_written.
Print Assumptions parser_accepts_written_slice.
Print Assumptions C05_token_roundtrip.
Print Assumptions C05_token_code_roundtrip.
Print Assumptions C05_token_roundtrip_slice.
Print Assumptions C05_token_code_roundtrip_slice.
Print Assumptions tokens_example.
Print Assumptions tokens_example_thm.
