(* ParserInvProofs.v: invariants of the one-pass parser (Model/Parser.v) and of the lexer's
   token stream (Model/Lexer.v), and what follows from them for the API (Model/Api.v).

   The common tool is [Section Generic]: a predicate on parser states that is preserved by every
   primitive state transformer is preserved by parse_prec / infix_loop / resolve_ident /
   decl / block_stmt / block_loop / top_loop for every fuel. *)
From Coq Require Import Lia ZifyN ZifyNat ZifyBool Sorted.
From RecordUpdate Require Import RecordSet.
From BCL Require Import Model.Api Proofs.LineCalcProofs Proofs.LexerProofs
  Proofs.EncodingProofs Proofs.DumpLoadProofs.
Import RecordSetNotations.
Open Scope N_scope.

(* ================================================================== *)
(* 0. unfolding equations for the fuel-recursive functions             *)
(* ================================================================== *)

Lemma parse_prec_0 : forall prec s, parse_prec 0 prec s = mark_oof s.
Proof. reflexivity. Qed.
Lemma infix_loop_0 : forall prec ca s, infix_loop 0 prec ca s = mark_oof s.
Proof. reflexivity. Qed.
Lemma resolve_ident_0 : forall name ca s, resolve_ident 0 name ca s = mark_oof s.
Proof. reflexivity. Qed.

Lemma parse_prec_S : forall f prec s0,
  parse_prec (S f) prec s0 =
    let s := advance s0 in
    let canAssign := prec <=? precAssign in
    match rule_prefix (ttyp (prev s)) with
    | PFnil => perr "expected expression" s
    | pf =>
      let s1 :=
        match pf with
        | PFparens => consume tRPAREN "expected ')' after expression" (parse_prec f precAssign s)
        | PFunary =>
            let opType := ttyp (prev s) in
            let s' := parse_prec f precUnary s in
            match opType with tMINUS => emit_op opNEG s' | tPLUS => emit_op opUNPLUS s' | _ => s' end
        | PFboolNot =>
            let opType := ttyp (prev s) in
            let s' := parse_prec f precNot s in
            match opType with tNOT => emit_op opNOT s' | _ => s' end
        | PFidentRef => resolve_ident f (tval (prev s)) canAssign s
        | PFstringLit => string_lit s
        | PFintLit => int_lit s
        | PFfloatLit => float_lit s
        | PFboolLit => bool_lit s
        | PFnilLit => nil_lit s
        | PFnil => s
        end in
      let s2 := infix_loop f prec canAssign s1 in
      if canAssign then
        let '(m, s3) := pmatch tEQ s2 in if m then perr "invalid assignment target" s3 else s3
      else s2
    end.
Proof. reflexivity. Qed.

Lemma infix_loop_S : forall f prec canAssign s,
  infix_loop (S f) prec canAssign s =
    if prec <=? rule_prec (ttyp (cur_ s)) then
      let s1 := advance s in
      let opType := ttyp (prev s1) in
      let s2 :=
        match rule_infix opType with
        | IFbinary => emit_ops (binary_ops opType) (parse_prec f (rule_prec opType + 1) s1)
        | IFboolAnd =>
            let '(endJump, sa) := emit_jump opJFALSE s1 in
            patch_jump endJump (parse_prec f precAnd (emit_op opPOP sa))
        | IFboolOr =>
            let '(midJump, sa) := emit_jump opJFALSE s1 in
            let '(endJump, sb) := emit_jump opJUMP sa in
            patch_jump endJump (parse_prec f precOr (emit_op opPOP (patch_jump midJump sb)))
        | IFnil => s1 <| ppanic := true |>
        end in
      if ppanic s2 then s2 else infix_loop f prec canAssign s2
    else s.
Proof. reflexivity. Qed.

Lemma resolve_ident_S : forall f name canAssign s,
  resolve_ident (S f) name canAssign s =
    let finish (setOp getOp idx : N) (st : pst) : pst :=
      let '(m, st1) := if canAssign then pmatch tEQ st else (false, st) in
      if m then emit_uvarint idx (emit_op setOp (parse_prec f precAssign st1))
      else emit_uvarint idx (emit_op getOp st1) in
    match resolve_local (locals s) (nlocals s) name with
    | Some idx => finish opSETLOCAL opGETLOCAL idx s
    | None =>
      if (depth s =? 0)%Z then perr "undefined variable" s
      else let '(idx, s1) := ident_const name s in finish opSETFIELD opGETFIELD idx s1
    end.
Proof. reflexivity. Qed.

Lemma decl_S : forall f s,
  decl (S f) s =
    let '(mv, s1) := pmatch tVAR s in
    let s2 :=
      if mv then var_decl f s1
      else
        let '(mp, a) := pmatch tPRINT s1 in
        if mp then emit_op opPRINT (expr f a) else
        let '(me, b) := pmatch tEVAL a in
        if me then emit_op opPOP (expr f b) else
        let '(md, c) := pmatch tDEF b in
        if md then block_stmt f c else
        let '(mb, d) := pmatch tBIND c in
        if mb then bind_stmt d else
        if (0 <? depth d)%Z then emit_op opPOP (expr f d)
        else perrc "expected statement" d in
    if panicMode s2 && (depth s2 =? 0)%Z then sync f s2 else s2.
Proof. reflexivity. Qed.

Lemma block_stmt_S : forall f s,
  block_stmt (S f) s =
    let s1 := consume tIDENT "expected block type" s in
    if panicMode s1 then s1 else
    let blockType := tval (prev s1) in
    let '(ms, s2) := pmatch tSTR s1 in
    let '(blockName, s3) :=
      if ms then match unquote (tval (prev s2)) with
                 | Some v => (v, s2)
                 | None => ([], perror (bs "invalid string literal: invalid syntax") s2)
                 end
      else ([], s2) in
    let s4 := consume tLCURLY "expected '{'" s3 in
    let '(ti, s5) := ident_const blockType s4 in
    let '(ni, s6) := make_const (VStr blockName) s5 in
    let s7 := emit_uvarint ni (emit_uvarint ti (emit_op opDEFBLOCK s6)) in
    let s8 := block_loop f (begin_scope s7) in
    let s9 := if hadLexFail s8 then s8 else consume tRCURLY "expected '}'" s8 in
    emit_op opENDBLOCK (end_scope s9).
Proof. reflexivity. Qed.

Lemma block_loop_S : forall f s,
  block_loop (S f) s =
    if check tRCURLY s || check_end s then s
    else
      let s1 := decl f s in
      let s2 := if panicMode s1 then advance s1 else s1 in
      let '(_, s3) := pmatch tSEMICOLON s2 in
      if oof s3 || ppanic s3 then s3 else block_loop f s3.
Proof. reflexivity. Qed.

(* ================================================================== *)
(* 1. the generic preservation lemma                                   *)
(* ================================================================== *)

Section Generic.
Variable P : pst -> Prop.
(* Qn: the texts that may become identifier / string constants; Qv: the constants *)
Variable Qn : bytes -> Prop.
Variable Qv : value -> Prop.
Hypothesis P_prev : forall s, P s -> Qn (tval (prev s)).
Hypothesis Qv_int : forall b v, parse_int b = inr v -> Qv (VInt v).
Hypothesis Qv_float : forall b v, parse_float b = inr v -> Qv (VFloat v).
Hypothesis Qv_name : forall b, Qn b -> Qv (VStr b).
Hypothesis Qv_unq : forall b v, Qn b -> unquote b = Some v -> Qv (VStr v).
Hypothesis Qv_empty : Qv (VStr []).

Hypothesis H_advance : forall s, P s -> P (advance s).
Hypothesis H_perror : forall m s, P s -> P (perror m s).
Hypothesis H_errc : forall m s, P s -> P (error_at_current m s).
Hypothesis H_write : forall b s, P s -> P (write b s).
Hypothesis H_emit_op : forall o s, P s -> P (emit_op o s).
Hypothesis H_add_const : forall v s, Qv v -> P s -> P (snd (add_const v s)).
Hypothesis H_identRefs : forall x s, P s -> P (s <| identRefs := x |>).
Hypothesis H_patch : forall k a b s, P s ->
  P (s <| code := set_nth (set_nth (code s) k a) (S k) b |>).
Hypothesis H_begin_scope : forall s, P s -> P (begin_scope s).
Hypothesis H_scope_upd : forall d ls n s, P s ->
  P (s <| depth := d |> <| locals := ls |> <| nlocals := n |>).
Hypothesis H_add_local_upd : forall l n m s, P s ->
  P (s <| locals := l |> <| nlocals := n |> <| st_localMax := m |>).
Hypothesis H_locals : forall l s, P s -> P (s <| locals := l |>).
Hypothesis H_ppanic : forall s, P s -> P (s <| ppanic := true |>).
Hypothesis H_oof : forall s, P s -> P (mark_oof s).
Hypothesis H_panicMode : forall s, P s -> P (s <| panicMode := false |>).

Create HintDb pres.
Hint Resolve P_prev Qv_int Qv_float Qv_name Qv_unq Qv_empty H_advance H_perror H_errc H_write
  H_emit_op H_add_const H_identRefs H_patch H_begin_scope H_scope_upd H_add_local_upd H_locals
  H_ppanic H_oof H_panicMode : pres.

Ltac pdone := solve [eauto 12 with pres].
Ltac pair_destruct e :=
  let H := fresh "HP" in
  assert (H : P (snd e)) by eauto 12 with pres;
  destruct e as [? ?] eqn:?; cbn [fst snd] in H.
(* fallbacks: a non-state let somewhere inside, or a conditional inside an argument *)
Ltac pstep_fallback :=
  match goal with
  | |- context C [let x := ?e in @?body x] =>
      lazymatch type of e with
      | pst => fail
      | _ => let g := context C [body e] in change g; cbv beta
      end
  | |- context [if ?b then _ else _] => destruct b eqn:?
  end.
Ltac pauto := cbv beta iota; repeat (try pdone; pstep); try pdone
with pstep := first [pstep_main | pstep_fallback]; cbv beta iota
with pstep_main :=
  lazymatch goal with
  | |- P (let x := ?e in @?body x) =>
      lazymatch type of e with
      | pst =>
        let H := fresh "HP" in
        let s := fresh "s" in
        assert (H : P e) by (solve [pauto]);
        revert H; generalize e; intros s H; change (P (body s)); cbv beta
      | _ => change (P (body e)); cbv beta
      end
  | |- P (let '(_, _) := (if ?b then _ else _) in _) => destruct b eqn:?
  | |- P (let '(_, _) := (let '(_, _) := ?e in _) in _) => pair_destruct e
  | |- P (let '(_, _) := (match ?x with _ => _ end) in _) => destruct x eqn:?
  | |- P (let '(_, _) := ?e in _) => pair_destruct e
  | |- P (if ?b then _ else _) => destruct b eqn:?
  | |- P (match ?x with _ => _ end) => destruct x eqn:?
  end.

Lemma perr_pres : forall m s, P s -> P (perr m s).
Proof. intros. unfold perr. pdone. Qed.
Lemma perrc_pres : forall m s, P s -> P (perrc m s).
Proof. intros. unfold perrc. pdone. Qed.
Hint Resolve perr_pres perrc_pres : pres.

Lemma consume_pres : forall t m s, P s -> P (consume t m s).
Proof. intros. cbv beta delta [consume]. pauto. Qed.
Lemma pmatch_pres : forall t s, P s -> P (snd (pmatch t s)).
Proof. intros. unfold pmatch. destruct (check t s); cbn [snd]; pdone. Qed.
Lemma match_end_pres : forall s, P s -> P (snd (match_end s)).
Proof. intros. unfold match_end. destruct (check_end s); cbn [snd]; pdone. Qed.
Hint Resolve consume_pres pmatch_pres match_end_pres : pres.

Lemma emit_bytes_pres : forall bb s, P s -> P (emit_bytes bb s).
Proof.
  unfold emit_bytes. induction bb as [|b bb IH]; intros s H; cbn [fold_left]; [exact H|].
  apply IH. pdone.
Qed.
Hint Resolve emit_bytes_pres : pres.
Lemma emit_uvarint_pres : forall x s, P s -> P (emit_uvarint x s).
Proof. intros. unfold emit_uvarint. pdone. Qed.
Lemma emit_ops_pres : forall os s, P s -> P (emit_ops os s).
Proof.
  unfold emit_ops. induction os as [|o os IH]; intros s H; cbn [fold_left]; [exact H|].
  apply IH. pdone.
Qed.
Hint Resolve emit_uvarint_pres emit_ops_pres : pres.

Lemma make_const_pres : forall v s, Qv v -> P s -> P (snd (make_const v s)).
Proof.
  intros v s Hv H. unfold make_const.
  destruct v as [| | | |[|c r]|]; try pdone.
  destruct (assoc_bytes [] (identRefs s)); cbn [snd]; [exact H|].
  pose proof (H_add_const (VStr []) s Hv H) as H1.
  destruct (add_const (VStr []) s) as [idx s1]. cbn [snd] in *. pdone.
Qed.
Hint Resolve make_const_pres : pres.

Lemma ident_const_pres : forall name s, Qn name -> P s -> P (snd (ident_const name s)).
Proof.
  intros name s Hn H. unfold ident_const.
  destruct (assoc_bytes name (identRefs s)); cbn [snd]; [exact H|].
  pose proof (make_const_pres (VStr name) s (Qv_name _ Hn) H) as H1.
  destruct (make_const (VStr name) s) as [idx s1]. cbn [snd] in *. pdone.
Qed.
Hint Resolve ident_const_pres : pres.

Lemma emit_const_pres : forall v s, Qv v -> P s -> P (emit_const v s).
Proof. intros. cbv beta delta [emit_const]. pauto. Qed.
Lemma emit_jump_pres : forall o s, P s -> P (snd (emit_jump o s)).
Proof. intros. unfold emit_jump. cbn [snd]. pdone. Qed.
Lemma patch_jump_pres : forall off s, P s -> P (patch_jump off s).
Proof. intros. cbv beta delta [patch_jump]. pauto. Qed.
Lemma pop_n_pres : forall n s, P s -> P (pop_n n s).
Proof. intros. cbv beta delta [pop_n]. pauto. Qed.
Hint Resolve emit_const_pres emit_jump_pres patch_jump_pres pop_n_pres : pres.

Lemma end_scope_pres : forall s, P s -> P (end_scope s).
Proof.
  intros. unfold end_scope. cbv zeta.
  destruct (drop_locals (locals s) (depth s - 1) 0) as [ls popped]. pdone.
Qed.
Lemma decl_scan_pres : forall ls name d s, P s -> P (decl_scan ls name d s).
Proof.
  induction ls as [|[nm ld] r IH]; intros name d s H; cbn [decl_scan]; [exact H|].
  destruct (negb (ld =? -1)%Z && (ld <? d)%Z); [exact H|].
  apply IH. destruct (bytes_eqb name nm); pdone.
Qed.
Lemma add_local_pres : forall name s, P s -> P (add_local name s).
Proof. intros. cbv beta delta [add_local]. pauto. Qed.
Hint Resolve end_scope_pres decl_scan_pres add_local_pres : pres.
Lemma decl_var_pres : forall s, P s -> P (decl_var s).
Proof. intros. unfold decl_var. pdone. Qed.
Lemma def_var_pres : forall s, P s -> P (def_var s).
Proof. intros. unfold def_var. destruct (locals s) as [|[nm z] r]; pdone. Qed.
Hint Resolve decl_var_pres def_var_pres : pres.

Lemma sync_loop_pres : forall fuel s, P s -> P (sync_loop fuel s).
Proof.
  induction fuel as [|f IH]; intros s H; cbn [sync_loop]; [pdone|].
  destruct (check_end s); [exact H|].
  destruct (ttyp (cur_ s)); try exact H; apply IH; pdone.
Qed.
Hint Resolve sync_loop_pres : pres.
Lemma sync_pres : forall fuel s, P s -> P (sync fuel s).
Proof. intros. unfold sync. pdone. Qed.
Hint Resolve sync_pres : pres.

Lemma int_lit_pres : forall s, P s -> P (int_lit s).
Proof. intros. cbv beta delta [int_lit]. pauto. Qed.
Lemma float_lit_pres : forall s, P s -> P (float_lit s).
Proof. intros. cbv beta delta [float_lit]. pauto. Qed.
Lemma string_lit_pres : forall s, P s -> P (string_lit s).
Proof. intros. cbv beta delta [string_lit]. pauto. Qed.
Lemma bool_lit_pres : forall s, P s -> P (bool_lit s).
Proof. intros. cbv beta delta [bool_lit]. pauto. Qed.
Lemma nil_lit_pres : forall s, P s -> P (nil_lit s).
Proof. intros. cbv beta delta [nil_lit]. pauto. Qed.
Hint Resolve int_lit_pres float_lit_pres string_lit_pres bool_lit_pres nil_lit_pres : pres.

Lemma bind_stmt_pres : forall s, P s -> P (bind_stmt s).
Proof. intros. cbv beta delta [bind_stmt]. pauto. Qed.
Hint Resolve bind_stmt_pres : pres.

(* parse_prec / infix_loop / resolve_ident *)
Lemma expr_level_pres : forall fuel,
  (forall prec s, P s -> P (parse_prec fuel prec s)) /\
  (forall prec ca s, P s -> P (infix_loop fuel prec ca s)) /\
  (forall name ca s, Qn name -> P s -> P (resolve_ident fuel name ca s)).
Proof.
  induction fuel as [|f [IH1 [IH2 IH3]]].
  - repeat split; intros; pdone.
  - repeat split.
    + intros prec s0 H. rewrite parse_prec_S. pauto.
    + intros prec ca s H. rewrite infix_loop_S. pauto.
    + intros name ca s Hn H. rewrite resolve_ident_S. pauto.
Qed.

Lemma parse_prec_pres : forall fuel prec s, P s -> P (parse_prec fuel prec s).
Proof. intros fuel. apply (expr_level_pres fuel). Qed.
Lemma infix_loop_pres : forall fuel prec ca s, P s -> P (infix_loop fuel prec ca s).
Proof. intros fuel. apply (expr_level_pres fuel). Qed.
Lemma resolve_ident_pres : forall fuel name ca s, Qn name -> P s -> P (resolve_ident fuel name ca s).
Proof. intros fuel. apply (expr_level_pres fuel). Qed.
Hint Resolve parse_prec_pres : pres.
Lemma expr_pres : forall fuel s, P s -> P (expr fuel s).
Proof. intros. unfold expr. pdone. Qed.
Hint Resolve expr_pres : pres.

Lemma var_decl_pres : forall fuel s, P s -> P (var_decl fuel s).
Proof. intros. cbv beta delta [var_decl]. pauto. Qed.
Hint Resolve var_decl_pres : pres.

(* decl / block_stmt / block_loop *)
Lemma stmt_level_pres : forall fuel,
  (forall s, P s -> P (decl fuel s)) /\
  (forall s, P s -> P (block_stmt fuel s)) /\
  (forall s, P s -> P (block_loop fuel s)).
Proof.
  induction fuel as [|f [IH1 [IH2 IH3]]].
  - repeat split; intros; cbn [decl block_stmt block_loop]; pdone.
  - repeat split.
    + intros s H. rewrite decl_S. pauto.
    + intros s H. rewrite block_stmt_S. pauto.
    + intros s H. rewrite block_loop_S. pauto.
Qed.

Lemma decl_pres : forall fuel s, P s -> P (decl fuel s).
Proof. intros fuel. apply (stmt_level_pres fuel). Qed.
Lemma block_stmt_pres : forall fuel s, P s -> P (block_stmt fuel s).
Proof. intros fuel. apply (stmt_level_pres fuel). Qed.
Lemma block_loop_pres : forall fuel s, P s -> P (block_loop fuel s).
Proof. intros fuel. apply (stmt_level_pres fuel). Qed.
Hint Resolve decl_pres : pres.

Lemma top_loop_pres : forall fuel s, P s -> P (top_loop fuel s).
Proof.
  induction fuel as [|f IH]; intros s H; cbn [top_loop]; [pdone|]. pauto.
Qed.
Hint Resolve top_loop_pres : pres.

(* the whole parser, from any state satisfying P *)
Lemma parse_tokens_pres : forall ts, P (init_pst ts) -> P (parse_tokens ts).
Proof. intros ts H. unfold parse_tokens. pauto. Qed.

End Generic.

(* ================================================================== *)
(* 2. predicates that only look at toks / prev / cur_ / hadError / log  *)
(* ================================================================== *)

Definition frame (s s' : pst) : Prop :=
  toks s' = toks s /\ prev s' = prev s /\ cur_ s' = cur_ s /\
  hadError s' = hadError s /\ log s' = log s.

Ltac frame_tac := repeat split; reflexivity.

Lemma frame_write : forall b s, frame s (write b s).
Proof. intros. frame_tac. Qed.
Lemma frame_emit_op : forall o s, frame s (emit_op o s).
Proof. intros. frame_tac. Qed.
Lemma frame_add_const : forall v s, frame s (snd (add_const v s)).
Proof. intros. frame_tac. Qed.
Lemma frame_identRefs : forall x s, frame s (s <| identRefs := x |>).
Proof. intros. frame_tac. Qed.
Lemma frame_patch : forall x s, frame s (s <| code := x |>).
Proof. intros. frame_tac. Qed.
Lemma frame_begin_scope : forall s, frame s (begin_scope s).
Proof. intros. frame_tac. Qed.
Lemma frame_scope_upd : forall d ls n s,
  frame s (s <| depth := d |> <| locals := ls |> <| nlocals := n |>).
Proof. intros. frame_tac. Qed.
Lemma frame_add_local_upd : forall l n m s,
  frame s (s <| locals := l |> <| nlocals := n |> <| st_localMax := m |>).
Proof. intros. frame_tac. Qed.
Lemma frame_locals : forall l s, frame s (s <| locals := l |>).
Proof. intros. frame_tac. Qed.
Lemma frame_ppanic : forall s, frame s (s <| ppanic := true |>).
Proof. intros. frame_tac. Qed.
Lemma frame_oof : forall s, frame s (mark_oof s).
Proof. intros. frame_tac. Qed.
Lemma frame_panicMode : forall s, frame s (s <| panicMode := false |>).
Proof. intros. frame_tac. Qed.

Section Framed.
Variable P : pst -> Prop.
Hypothesis P_frame : forall s s', frame s s' -> P s -> P s'.
Hypothesis H_advance : forall s, P s -> P (advance s).
Hypothesis H_perror : forall m s, P s -> P (perror m s).
Hypothesis H_errc : forall m s, P s -> P (error_at_current m s).

Let Qn (_ : bytes) : Prop := True.
Let Qv (_ : value) : Prop := True.

Ltac framed L :=
  first [apply (L P Qn Qv) | apply (L P)]; try exact H_advance; try exact H_perror; try exact H_errc;
  try (intros; exact I);
  try (intros; eapply P_frame; [|eassumption];
       first [apply frame_write | apply frame_emit_op | apply frame_add_const | apply frame_identRefs
             | apply frame_patch | apply frame_begin_scope | apply frame_scope_upd
             | apply frame_add_local_upd | apply frame_locals | apply frame_ppanic | apply frame_oof
             | apply frame_panicMode]).

Lemma framed_parse_tokens : forall ts, P (init_pst ts) -> P (parse_tokens ts).
Proof. framed parse_tokens_pres. Qed.
Lemma framed_top_loop : forall fuel s, P s -> P (top_loop fuel s).
Proof. framed top_loop_pres. Qed.
Lemma framed_decl : forall fuel s, P s -> P (decl fuel s).
Proof. framed decl_pres. Qed.
Lemma framed_pmatch : forall t s, P s -> P (snd (pmatch t s)).
Proof. framed pmatch_pres. Qed.
Lemma framed_match_end : forall s, P s -> P (snd (match_end s)).
Proof. framed match_end_pres. Qed.
Lemma framed_pop_n : forall n s, P s -> P (pop_n n s).
Proof. framed pop_n_pres. Qed.
End Framed.

(* ---- the two functions that touch toks / prev / cur_ / hadError / log ---- *)

Lemma error_at_fields : forall t m s,
  toks (error_at t m s) = toks s /\ prev (error_at t m s) = prev s /\
  cur_ (error_at t m s) = cur_ s /\ hadError (error_at t m s) = true /\
  exists d, log (error_at t m s) = d :: log s /\ d_pos d = tpos t.
Proof. intros. repeat split. eexists. split; reflexivity. Qed.

(* one token received: current := t, statistics, hadLexFail *)
Definition adv_tok (t : token) (s : pst) : pst :=
  let s1 := s <| cur_ := t |> <| st_tokens := st_tokens s + 1 |> in
  if tok_eqb (ttyp t) tFAIL then s1 <| hadLexFail := true |> else s1.

Lemma adv_tok_fields : forall t s,
  toks (adv_tok t s) = toks s /\ prev (adv_tok t s) = prev s /\ cur_ (adv_tok t s) = t /\
  hadError (adv_tok t s) = hadError s /\ log (adv_tok t s) = log s.
Proof. intros. unfold adv_tok. cbv zeta. destruct (tok_eqb (ttyp t) tFAIL); repeat split. Qed.

Lemma advance_loop_nil : forall s, advance_loop [] s = s <| toks := [] |>.
Proof. reflexivity. Qed.
Lemma advance_loop_cons : forall t r s,
  advance_loop (t :: r) s =
    if tok_eqb (ttyp t) tERR
    then advance_loop r (error_at_current (lexerr_msg (terr t)) (adv_tok t s))
    else adv_tok t s <| toks := r |>.
Proof. reflexivity. Qed.

Lemma set_toks_fields : forall r s,
  toks (s <| toks := r |>) = r /\ prev (s <| toks := r |>) = prev s /\
  cur_ (s <| toks := r |>) = cur_ s /\ hadError (s <| toks := r |>) = hadError s /\
  log (s <| toks := r |>) = log s.
Proof. intros. repeat split. Qed.
Lemma set_prev_fields : forall p s,
  toks (s <| prev := p |>) = toks s /\ prev (s <| prev := p |>) = p /\
  cur_ (s <| prev := p |>) = cur_ s /\ hadError (s <| prev := p |>) = hadError s /\
  log (s <| prev := p |>) = log s.
Proof. intros. repeat split. Qed.

Lemma tok_eqb_eq : forall a b, tok_eqb a b = true <-> a = b.
Proof.
  intros a b. unfold tok_eqb. split; [|intros ->; apply N.eqb_refl].
  intros H. apply N.eqb_eq in H. destruct a, b; cbn in H; try reflexivity; discriminate H.
Qed.
Lemma tok_eqb_neq : forall a b, tok_eqb a b = false <-> a <> b.
Proof.
  intros a b. split.
  - intros H E. apply tok_eqb_eq in E. congruence.
  - intros H. destruct (tok_eqb a b) eqn:E; [apply tok_eqb_eq in E; contradiction|reflexivity].
Qed.

Lemma advance_loop_hadError : forall ts s, hadError s = true -> hadError (advance_loop ts s) = true.
Proof.
  induction ts as [|t r IH]; intros s H.
  - rewrite advance_loop_nil. exact H.
  - rewrite advance_loop_cons. destruct (tok_eqb (ttyp t) tERR).
    + apply IH. apply error_at_fields.
    + destruct (set_toks_fields r (adv_tok t s)) as (_ & _ & _ & -> & _).
      destruct (adv_tok_fields t s) as (_ & _ & _ & -> & _). exact H.
Qed.
Lemma advance_hadError : forall s, hadError s = true -> hadError (advance s) = true.
Proof. intros s H. unfold advance. apply advance_loop_hadError. exact H. Qed.

(* ================================================================== *)
(* 3. C17: hadError = true iff a diagnostic was logged                  *)
(* ================================================================== *)

Definition err_log (s : pst) : Prop := hadError s = true <-> log s <> [].

Lemma err_log_frame : forall s s', frame s s' -> err_log s -> err_log s'.
Proof. unfold err_log. intros s s' (_ & _ & _ & -> & ->) H. exact H. Qed.

Lemma err_log_error_at : forall t m s, err_log (error_at t m s).
Proof.
  intros. unfold err_log. destruct (error_at_fields t m s) as (_ & _ & _ & -> & d & -> & _).
  split; [discriminate|reflexivity].
Qed.

Lemma err_log_advance_loop : forall ts s, err_log s -> err_log (advance_loop ts s).
Proof.
  induction ts as [|t r IH]; intros s H.
  - rewrite advance_loop_nil. unfold err_log.
    destruct (set_toks_fields [] s) as (_ & _ & _ & -> & ->). exact H.
  - rewrite advance_loop_cons. destruct (tok_eqb (ttyp t) tERR).
    + apply IH. apply err_log_error_at.
    + unfold err_log.
      destruct (set_toks_fields r (adv_tok t s)) as (_ & _ & _ & -> & ->).
      destruct (adv_tok_fields t s) as (_ & _ & _ & -> & ->). exact H.
Qed.

Lemma err_log_advance : forall s, err_log s -> err_log (advance s).
Proof.
  intros s H. unfold advance. apply err_log_advance_loop. unfold err_log.
  destruct (set_prev_fields (cur_ s) s) as (_ & _ & _ & -> & ->). exact H.
Qed.

Theorem C17_error_iff_log : forall ts,
  hadError (parse_tokens ts) = true <-> log (parse_tokens ts) <> [].
Proof.
  intros ts. change (err_log (parse_tokens ts)).
  apply framed_parse_tokens.
  - exact err_log_frame.
  - exact err_log_advance.
  - intros. apply err_log_error_at.
  - intros. apply err_log_error_at.
  - unfold err_log. cbn. split; [discriminate|congruence].
Qed.
Print Assumptions C17_error_iff_log.

Lemma frev_nil_iff : forall {A} (l : list A), frev l = [] <-> l = [].
Proof.
  intros A l. rewrite frev_eq. split; [|intros ->; reflexivity].
  destruct l as [|a l]; [reflexivity|]. cbn [rev]. intros H. destruct (rev l); discriminate H.
Qed.

Definition pst_of (cs : list bytes) : pst := parse_tokens (fst (lex cs)).

Lemma parse_chunks_fields : forall name cs,
  pr_ok (parse_chunks name cs) = negb (hadError (pst_of cs)) /\
  pr_diags (parse_chunks name cs) = frev (log (pst_of cs)) /\
  pr_oof (parse_chunks name cs) = oof (pst_of cs) /\
  pr_panic (parse_chunks name cs) = ppanic (pst_of cs) /\
  pr_prog (parse_chunks name cs) =
    {| g_name := name; g_code := frev (code (pst_of cs)); g_consts := frev (consts (pst_of cs));
       g_pos := frev (positions (pst_of cs)); g_lfs := snd (lex cs) |}.
Proof. intros. unfold parse_chunks, pst_of. destruct (lex cs) as [ts l]. repeat split. Qed.

(* Parse/ParseFile: ok exactly when nothing was logged *)
Corollary C17_ok_iff_no_diags : forall name cs,
  pr_ok (parse_chunks name cs) = true <-> pr_diags (parse_chunks name cs) = [].
Proof.
  intros name cs. destruct (parse_chunks_fields name cs) as (-> & -> & _).
  rewrite frev_nil_iff. pose proof (C17_error_iff_log (fst (lex cs))) as H. fold (pst_of cs) in H.
  destruct (hadError (pst_of cs)); cbn [negb].
  - split; [discriminate|]. intros E. exfalso. apply (proj1 H eq_refl E).
  - split; [|reflexivity]. intros _.
    destruct (log (pst_of cs)) as [|d l]; [reflexivity|].
    exfalso. assert (false = true) by (apply H; discriminate). discriminate.
Qed.
Print Assumptions C17_ok_iff_no_diags.

(* ================================================================== *)
(* 4. the shape of the token stream                                    *)
(* ================================================================== *)

Definition BG (c : cur) : Prop := nlen (before c) <= gpos c.
Definition normalt (k : tok) : Prop := k <> tEOF /\ k <> tERR /\ k <> tFAIL.
Definition normal (t : token) : Prop := normalt (ttyp t).
Definition tok_ok (g : N) (t : token) : Prop := tpos t <= g /\ nlen (tval t) <= tpos t.

(* c' is reached from c by consuming input and emitting ordinary tokens only *)
Definition Ext (c c' : cur) : Prop :=
  BG c' /\ gpos c <= gpos c' /\
  exists extra, out c' = extra ++ out c /\ Forall (fun t => normal t /\ tok_ok (gpos c') t) extra.
(* ... and then the lexer stopped: tEOF, or tERR tFAIL *)
Definition Fin (c c' : cur) : Prop :=
  exists c1, Ext c c1 /\ (c' = emit tEOF c1 \/ exists e, c' = fail e c1).
Definition Res (c0 : cur) (x : bool * cur) : Prop :=
  if fst x then Ext c0 (snd x) else Fin c0 (snd x).
Definition ResS (c0 : cur) (x : bool * cur) : Prop :=
  if fst x then Ext c0 (snd x) /\ gpos c0 < gpos (snd x) else Fin c0 (snd x).

Lemma Ext_refl : forall c, BG c -> Ext c c.
Proof. intros c H. repeat split; [exact H|lia|]. exists []. split; [reflexivity|constructor]. Qed.

Lemma Ext_BG : forall c c', Ext c c' -> BG c'.
Proof. intros c c' H. apply H. Qed.

Lemma Ext_trans : forall c0 c1 c2, Ext c0 c1 -> Ext c1 c2 -> Ext c0 c2.
Proof.
  intros c0 c1 c2 (B1 & G1 & x1 & O1 & F1) (B2 & G2 & x2 & O2 & F2).
  repeat split; [exact B2|lia|]. exists (x2 ++ x1). split.
  - rewrite O2, O1, app_assoc. reflexivity.
  - apply Forall_app. split; [exact F2|].
    eapply Forall_impl; [|exact F1]. cbv beta. unfold tok_ok. intros t (Hn & Hp & Hv).
    split; [exact Hn|]. split; [lia|exact Hv].
Qed.

(* an operation that moves forward without emitting *)
Lemma Ext_move : forall c0 c c', Ext c0 c -> BG c' -> gpos c <= gpos c' -> out c' = out c -> Ext c0 c'.
Proof.
  intros c0 c c' H B G O. eapply Ext_trans; [exact H|].
  repeat split; [exact B|exact G|]. exists []. split; [exact O|constructor].
Qed.

Lemma next_facts : forall c,
  out (snd (next c)) = out c /\
  gpos (snd (next c)) = gpos c + N.of_nat (width (snd (next c))) /\
  nlen (before (snd (next c))) = nlen (before c) + N.of_nat (width (snd (next c))) /\
  (fst (next c) <> eof -> (0 < width (snd (next c)))%nat).
Proof.
  intros c. unfold next.
  destruct (refill (pending c) (after c) (gpos c) (lfs c)) as [[pend aft] l].
  destruct (decode_rune aft) as [r w] eqn:ED.
  pose proof (decode_rune_width_le _ _ _ ED) as Hw.
  destruct w as [|w]; cbn [fst snd].
  - cbn [out gpos width before]. repeat split; try lia; try (intros H; congruence).
  - rewrite move_rev_eq. cbn [fst snd out gpos width before]. repeat split; try lia.
    unfold nlen. rewrite app_length, rev_length, firstn_length. lia.
Qed.

Lemma backup_facts : forall c,
  out (backup c) = out c /\ gpos (backup c) = gpos c - N.of_nat (width c) /\
  nlen (before (backup c)) = nlen (before c) - N.of_nat (width c).
Proof.
  intros c. unfold backup. rewrite move_rev_eq. cbn [out gpos before]. repeat split.
  unfold nlen. rewrite skipn_length. lia.
Qed.

Lemma unbackup_facts : forall c,
  out (unbackup c) = out c /\ gpos (unbackup c) = gpos c + N.of_nat (width c) /\
  nlen (before (unbackup c)) <= nlen (before c) + N.of_nat (width c).
Proof.
  intros c. unfold unbackup. rewrite move_rev_eq. cbn [out gpos before]. repeat split.
  unfold nlen. rewrite app_length, rev_length, firstn_length. lia.
Qed.

Lemma next_ext : forall c0 c, Ext c0 c -> Ext c0 (snd (next c)).
Proof.
  intros c0 c H. pose proof (Ext_BG _ _ H) as B. unfold BG in B.
  destruct (next_facts c) as (O & G & L & _).
  eapply Ext_move; [exact H| |lia|exact O]. unfold BG. lia.
Qed.

(* next, then backup: back where we were *)
Lemma nb_facts : forall c,
  out (backup (snd (next c))) = out c /\ gpos (backup (snd (next c))) = gpos c /\
  nlen (before (backup (snd (next c)))) = nlen (before c).
Proof.
  intros c. destruct (next_facts c) as (O & G & L & _).
  destruct (backup_facts (snd (next c))) as (O' & G' & L').
  repeat split; [congruence|lia|lia].
Qed.

Lemma nb_ext : forall c0 c, Ext c0 c -> Ext c0 (backup (snd (next c))).
Proof.
  intros c0 c H. pose proof (Ext_BG _ _ H) as B. unfold BG in B.
  destruct (nb_facts c) as (O & G & L).
  eapply Ext_move; [exact H| |lia|exact O]. unfold BG. lia.
Qed.

Lemma peek_ext : forall c0 c, Ext c0 c -> Ext c0 (snd (peek c)).
Proof.
  intros c0 c H. unfold peek. pose proof (nb_ext c0 c H) as H1.
  destruct (next c) as [r c1]. exact H1.
Qed.

Lemma accept_ext : forall v c0 c, Ext c0 c -> Ext c0 (snd (accept v c)).
Proof.
  intros v c0 c H. unfold accept. pose proof (nb_ext c0 c H) as H1. pose proof (next_ext c0 c H) as H2.
  destruct (next c) as [r c1]. cbn [snd] in *. destruct (zin r v); assumption.
Qed.

Lemma accept_run_f_ext : forall fuel p acc c0 c, Ext c0 c -> Ext c0 (snd (accept_run_f fuel p acc c)).
Proof.
  induction fuel as [|f IH]; intros p acc c0 c H; cbn [accept_run_f]; [exact H|].
  pose proof (nb_ext c0 c H) as H1. pose proof (next_ext c0 c H) as H2.
  destruct (next c) as [r c1]. cbn [snd] in *. destruct (p r); [apply IH; assumption|assumption].
Qed.

Lemma accept_run_ext : forall fuel v c0 c, Ext c0 c -> Ext c0 (snd (accept_run fuel v c)).
Proof. intros. unfold accept_run. apply accept_run_f_ext. assumption. Qed.

Lemma ignore_ext : forall c0 c, Ext c0 c -> Ext c0 (ignore c).
Proof.
  intros c0 c H. eapply Ext_move; [exact H| | |]; unfold ignore, BG, nlen; cbn [before gpos out length]; try reflexivity; lia.
Qed.

Lemma unbackup_ext : forall c0 c, Ext c0 c -> Ext c0 (unbackup c).
Proof.
  intros c0 c H. pose proof (Ext_BG _ _ H) as B. unfold BG in B.
  destruct (unbackup_facts c) as (O & G & L).
  eapply Ext_move; [exact H| |lia|exact O]. unfold BG. lia.
Qed.

Lemma current_len : forall c, nlen (current c) = nlen (before c).
Proof. intros. unfold current, nlen. rewrite frev_eq, rev_length. reflexivity. Qed.

Lemma emit_ext : forall t c0 c, normalt t -> Ext c0 c -> Ext c0 (emit t c).
Proof.
  intros t c0 c Ht H. pose proof (Ext_BG _ _ H) as B. unfold BG in B.
  eapply Ext_trans; [exact H|].
  unfold emit, Ext, BG. cbn [before gpos out]. repeat split; [cbn; lia|lia|].
  eexists [_]. split; [reflexivity|]. constructor; [|constructor].
  unfold normal, tok_ok. cbn [ttyp tpos tval]. rewrite current_len. repeat split; [apply Ht..|lia|lia].
Qed.

Lemma keyword_of_normal : forall w k, keyword_of w = Some k -> normalt k.
Proof.
  intros w k. unfold keyword_of, normalt.
  break_ifs; intros H; try discriminate H; injection H as <-; repeat split; discriminate.
Qed.
Lemma one_rune_of_normal : forall r k, one_rune_of r = Some k -> normalt k.
Proof.
  intros r k. unfold one_rune_of, normalt.
  break_ifs; intros H; try discriminate H; injection H as <-; repeat split; discriminate.
Qed.
Lemma two_rune_of_normal : forall r r2 k, two_rune_of r = Some (r2, k) -> normalt k.
Proof.
  intros r r2 k. unfold two_rune_of, normalt.
  break_ifs; intros H; try discriminate H; injection H as <- <-; repeat split; discriminate.
Qed.
Lemma normalt_lit : normalt tIDENT /\ normalt tINT /\ normalt tFLOAT /\ normalt tSTR.
Proof. unfold normalt. repeat split; discriminate. Qed.

Lemma fail_fin : forall e c0 c, Ext c0 c -> Fin c0 (fail e c).
Proof. intros e c0 c H. exists c. split; [exact H|]. right. exists e. reflexivity. Qed.
Lemma eof_fin : forall c0 c, Ext c0 c -> Fin c0 (emit tEOF c).
Proof. intros c0 c H. exists c. split; [exact H|]. left. reflexivity. Qed.

Lemma sticky_fail_res : forall c0 c, Ext c0 c -> Res c0 (sticky_fail c).
Proof. intros c0 c H. unfold sticky_fail, Res. cbn [fst snd]. apply fail_fin, unbackup_ext, H. Qed.

Create HintDb ext.
#[local] Hint Resolve next_ext nb_ext peek_ext accept_ext accept_run_f_ext accept_run_ext ignore_ext
  unbackup_ext emit_ext keyword_of_normal one_rune_of_normal two_rune_of_normal fail_fin eof_fin : ext.
#[local] Hint Extern 1 (normalt _) => (unfold normalt; repeat split; discriminate) : ext.

Ltac xstep_core c0 g a :=
  let E := fresh "E" in
  assert (E : Ext c0 (snd (g a))) by (eauto with ext);
  revert E;
  lazymatch g with
  | next => let E2 := fresh "E" in
            assert (E2 : Ext c0 (backup (snd (next a)))) by (eauto with ext); revert E2
  | _ => idtac
  end;
  destruct (g a) as [? ?]; cbn [fst snd]; intros.

Ltac xstep :=
  lazymatch goal with
  | |- Res ?c0 (let '(_, _) := (let '(_, _) := ?g ?a in _) in _) => xstep_core c0 g a
  | |- Res ?c0 (let '(_, _) := ?g ?a in _) => xstep_core c0 g a
  end.
Ltac xsplit_if :=
  match goal with
  | |- Res _ (let '(_, _) := (if ?d then _ else _) in _) => destruct d; cbv beta iota
  | |- Res _ (if ?d then _ else _) => destruct d eqn:?
  end.
Ltac xdone := unfold Res; cbn [fst snd]; eauto with ext.
Ltac xsticky := apply sticky_fail_res; assumption.

Lemma lex_space_res : forall fuel c0 c, Ext c0 c -> Res c0 (lex_space fuel c).
Proof. intros fuel c0 c H. unfold lex_space. xstep. xdone. Qed.

Lemma lex_line_comment_res : forall fuel c0 c, Ext c0 c -> Res c0 (lex_line_comment fuel c).
Proof.
  induction fuel as [|f IH]; intros c0 c H; cbn [lex_line_comment]; [xdone|].
  xstep. xsplit_if; [xdone|apply IH; assumption].
Qed.

Lemma lex_ident_res : forall fuel c0 c, Ext c0 c -> Res c0 (lex_ident fuel c).
Proof.
  induction fuel as [|f IH]; intros c0 c H; cbn [lex_ident]; [xdone|].
  xstep. xsplit_if; [apply IH; assumption|].
  cbv zeta. xstep. xsplit_if; [xsticky|].
  destruct (keyword_of _) eqn:EK; xdone.
Qed.

Lemma lex_float_res : forall fuel c0 c, Ext c0 c -> Res c0 (lex_float fuel c).
Proof.
  intros fuel c0 c H. unfold lex_float.
  xstep. xsplit_if.
  - xstep. xsplit_if; [xdone|].
    xstep. xsplit_if.
    + xstep. xstep. xsplit_if; [xdone|].
      xstep. xsplit_if; [xsticky|xdone].
    + xsplit_if; [xdone|].
      xstep. xsplit_if; [xsticky|xdone].
  - xsplit_if; [xdone|].
    xstep. xsplit_if.
    + xstep. xstep. xsplit_if; [xdone|].
      xstep. xsplit_if; [xsticky|xdone].
    + xsplit_if; [xdone|].
      xstep. xsplit_if; [xsticky|xdone].
Qed.

Lemma lex_hex_res : forall fuel c0 c, Ext c0 c -> Res c0 (lex_hex fuel c).
Proof.
  intros fuel c0 c H. unfold lex_hex. xstep. xstep. xsplit_if; [xsticky|xdone].
Qed.

Lemma lex_quote_res : forall fuel c0 c, Ext c0 c -> Res c0 (lex_quote fuel c).
Proof.
  induction fuel as [|f IH]; intros c0 c H; cbn [lex_quote]; [xdone|].
  xstep. xsplit_if.
  - xstep. xsplit_if; [apply IH; assumption|xdone].
  - xsplit_if; [xdone|]. xsplit_if; [|apply IH; assumption].
    xstep. xsplit_if; [xsticky|xdone].
Qed.

(* the part of lex_number after the initial backup *)
Definition lex_number_tail (fuel : nat) (c0 : cur) : bool * cur :=
  let '(z, c1) := accept [48] c0 in
  let '(x, c2) := if z then accept [120; 88] c1 else (false, c1) in
  if x then lex_hex fuel c2 else
  let '(_, c3) := accept_run fuel digits_set c2 in
  let '(r, c4) := peek c3 in
  if Z.eqb r 46 || Z.eqb r 101 || Z.eqb r 69 then lex_float fuel c4
  else if Z.eqb r 34 || is_alpha r then sticky_fail c4
  else (true, emit tINT c4).

Lemma lex_number_eq : forall fuel c, lex_number fuel c = lex_number_tail fuel (backup c).
Proof. reflexivity. Qed.

Lemma lex_number_tail_res : forall fuel c0 c, Ext c0 c -> Res c0 (lex_number_tail fuel c).
Proof.
  intros fuel c0 c H. unfold lex_number_tail.
  xstep. xsplit_if.
  - xstep. xsplit_if; [apply lex_hex_res; assumption|].
    xstep. xstep. xsplit_if; [apply lex_float_res; assumption|].
    xsplit_if; [xsticky|xdone].
  - xstep. xstep. xsplit_if; [apply lex_float_res; assumption|].
    xsplit_if; [xsticky|xdone].
Qed.

(* ---- progress: a step that goes on has consumed at least one byte ---- *)

Lemma ResS_intro : forall c c1 x, Ext c c1 -> gpos c < gpos c1 -> Res c1 x -> ResS c x.
Proof.
  intros c c1 [[|] c'] E G; unfold Res, ResS; cbn [fst snd].
  - intros E'. split; [eapply Ext_trans; eassumption|]. destruct E' as (_ & G' & _). lia.
  - intros (c2 & E' & D). exists c2. split; [eapply Ext_trans; eassumption|exact D].
Qed.

(* the cursor without the width field *)
Definition abw (c : cur) := (gpos c, before c, after c ++ concat (pending c), out c).

Lemma firstn_skipn_exact {A} (L M : list A) k : length L = k ->
  firstn k (L ++ M) = L /\ skipn k (L ++ M) = M.
Proof.
  intros <-. split.
  - rewrite firstn_app, Nat.sub_diag, firstn_all. cbn [firstn]. apply app_nil_r.
  - rewrite skipn_app, skipn_all, Nat.sub_diag. reflexivity.
Qed.

Lemma nb_abw : forall c, abw (backup (snd (next c))) = abw c.
Proof.
  intros c. unfold next.
  destruct (refill (pending c) (after c) (gpos c) (lfs c)) as [[pend aft] l] eqn:ER.
  pose proof (refill_rest _ _ _ _ _ _ _ ER) as Erest.
  destruct (decode_rune aft) as [r w] eqn:ED.
  pose proof (decode_rune_width_le _ _ _ ED) as Hw.
  destruct w as [|w]; cbn [snd].
  - unfold backup. cbn [width before after gpos pending lfs out move_rev].
    unfold abw. cbn [before after gpos pending out]. rewrite Erest. f_equal. f_equal. f_equal. lia.
  - rewrite move_rev_eq. cbn [snd]. unfold backup. cbn [width before after gpos pending lfs out].
    rewrite move_rev_eq. unfold abw. cbn [before after gpos pending out].
    assert (HL : length (rev (firstn (S w) aft)) = S w) by (rewrite rev_length, firstn_length; lia).
    destruct (firstn_skipn_exact _ (before c) _ HL) as [-> ->].
    rewrite rev_involutive, firstn_skipn, Erest. f_equal. f_equal. f_equal. lia.
Qed.

Lemma anext_width_irrel : forall g b r w1 w2 (o : list token),
  fst (anext (g, b, r, w1, o)) = fst (anext (g, b, r, w2, o)).
Proof. intros. cbn [anext]. destruct (decode_rune r) as [x [|w]]; reflexivity. Qed.

Lemma next_abw : forall c c', abw c = abw c' -> fst (next c) = fst (next c').
Proof.
  intros c c' H. unfold abw in H. injection H as H1 H2 H3 H4.
  pose proof (next_abs c) as A. pose proof (next_abs c') as A'.
  apply (f_equal fst) in A. apply (f_equal fst) in A'. cbn [fst] in A, A'.
  rewrite <- A, <- A'. unfold abs. rewrite H1, H2, H3, H4. apply anext_width_irrel.
Qed.

Lemma is_digit_zin : forall r, is_digit_r r = true -> zin r digits_set = true /\ r <> eof.
Proof.
  intros r H. unfold is_digit_r in H. apply andb_prop in H. destruct H as [H1 H2].
  apply Z.leb_le in H1, H2. split; [|unfold eof; lia].
  assert (D : (r = 48 \/ r = 49 \/ r = 50 \/ r = 51 \/ r = 52 \/ r = 53 \/ r = 54 \/ r = 55 \/ r = 56
              \/ r = 57)%Z) by lia.
  repeat (destruct D as [->|D]; [reflexivity|]). subst r. reflexivity.
Qed.

Lemma lex_number_resS : forall fuel c, (1 <= fuel)%nat -> BG c ->
  is_digit_r (fst (next c)) = true -> ResS c (lex_number fuel (snd (next c))).
Proof.
  intros fuel c Hf B Hd. rewrite lex_number_eq. set (c0 := backup (snd (next c))).
  assert (E0 : Ext c c0) by (apply nb_ext, Ext_refl; assumption).
  assert (A0 : abw c0 = abw c) by apply nb_abw.
  destruct (is_digit_zin _ Hd) as [Hz Hne].
  unfold lex_number_tail. unfold accept at 1.
  pose proof (next_abw _ _ A0) as Hr.
  destruct (next_facts c0) as (_ & G1 & _ & W1).
  pose proof (next_ext c c0 E0) as E1. pose proof (nb_ext c c0 E0) as E1b.
  pose proof (nb_abw c0) as A1.
  destruct (next c0) as [r1 c1]. cbn [fst snd] in *. subst r1.
  specialize (W1 Hne).
  destruct (zin (fst (next c)) [48]).
  - apply (ResS_intro c c1); [exact E1|destruct E0 as (_ & G0 & _); lia|].
    assert (E : Ext c1 c1) by (apply Ext_refl; eapply Ext_BG; exact E1).
    xstep. xsplit_if; [apply lex_hex_res; assumption|].
    xstep. xstep. xsplit_if; [apply lex_float_res; assumption|].
    xsplit_if; [xsticky|xdone].
  - cbv iota beta.
    destruct fuel as [|f]; [lia|]. unfold accept_run. cbn [accept_run_f].
    assert (A2 : abw (backup c1) = abw c) by congruence.
    pose proof (next_abw _ _ A2) as Hr2.
    destruct (next_facts (backup c1)) as (_ & G2 & _ & W2).
    pose proof (next_ext c _ E1b) as E2.
    destruct (next (backup c1)) as [r2 c2]. cbn [fst snd] in *. subst r2.
    specialize (W2 Hne). rewrite Hz.
    apply (ResS_intro c c2); [exact E2|destruct E1b as (_ & G0 & _); lia|].
    assert (E : Ext c2 c2) by (apply Ext_refl; eapply Ext_BG; exact E2).
    xstep. xstep. xsplit_if; [apply lex_float_res; assumption|].
    xsplit_if; [xsticky|xdone].
Qed.

Lemma lex_start_resS : forall fuel c, (1 <= fuel)%nat -> BG c -> ResS c (lex_start fuel c).
Proof.
  intros fuel c Hf B. unfold lex_start.
  assert (E0 : Ext c c) by (apply Ext_refl; exact B).
  pose proof (next_ext c c E0) as E1.
  destruct (next_facts c) as (_ & G1 & _ & W1).
  destruct (next c) as [r c1] eqn:EN. cbn [fst snd] in *.
  destruct (Z.eqb r eof) eqn:Er.
  - unfold ResS. cbn [fst snd]. apply eof_fin. exact E1.
  - apply Z.eqb_neq in Er. specialize (W1 Er).
    assert (G : gpos c < gpos c1) by lia.
    assert (E : Ext c1 c1) by (apply Ext_refl; eapply Ext_BG; exact E1).
    cbv zeta.
    destruct (two_rune_of r) as [[r2want t2]|] eqn:E2.
    + apply (ResS_intro c c1 _ E1 G).
      xstep. xsplit_if; [xdone|].
      destruct (one_rune_of r) eqn:E1'; xdone.
    + destruct (one_rune_of r) eqn:E1'; [apply (ResS_intro c c1 _ E1 G); xdone|].
      destruct (is_space r); [apply (ResS_intro c c1 _ E1 G); apply lex_space_res; assumption|].
      destruct (Z.eqb r 35); [apply (ResS_intro c c1 _ E1 G); apply lex_line_comment_res; assumption|].
      destruct (Z.eqb r 34); [apply (ResS_intro c c1 _ E1 G); apply lex_quote_res; assumption|].
      destruct (is_alpha r || Z.eqb r 95);
        [apply (ResS_intro c c1 _ E1 G); apply lex_ident_res; assumption|].
      destruct (is_digit_r r) eqn:Ed; [|apply (ResS_intro c c1 _ E1 G); xdone].
      replace c1 with (snd (next c)) by (rewrite EN; reflexivity).
      apply lex_number_resS; [exact Hf|exact B|rewrite EN; exact Ed].
Qed.

(* ---- the run: enough steps, hence the lexer stops by itself ---- *)

Lemma Inv_gpos_le : forall all c, Inv all c -> gpos c <= nlen (concat all).
Proof.
  intros all c (recv & Ha & _ & Hg & _). rewrite Ha. unfold nlen in *. rewrite app_length. lia.
Qed.

Lemma lex_run_fin : forall all fuel steps c, (1 <= fuel)%nat -> Inv all c -> BG c ->
  (N.to_nat (nlen (concat all) - gpos c) < steps)%nat -> Fin c (lex_run steps fuel c).
Proof.
  intros all fuel. induction steps as [|s IH]; intros c Hf HI B Hs; [lia|].
  cbn [lex_run].
  pose proof (lex_start_resS fuel c Hf B) as HR.
  pose proof (lex_start_inv all fuel c HI) as HI1. unfold Ip in HI1.
  destruct (lex_start fuel c) as [go c1]. unfold ResS in HR. cbn [fst snd] in *.
  destruct go; [|exact HR].
  destruct HR as [E G]. pose proof (Inv_gpos_le _ _ HI1) as Hle.
  destruct (IH c1 Hf HI1 (Ext_BG _ _ E) ltac:(lia)) as (c2 & E2 & D).
  exists c2. split; [eapply Ext_trans; eassumption|exact D].
Qed.

Lemma init_BG : forall cs, BG (init_cur cs).
Proof. intros. unfold BG, init_cur, nlen. cbn. lia. Qed.

Lemma final_fin : forall cs, Fin (init_cur cs) (final_cur cs).
Proof.
  intros cs. unfold final_cur. apply (lex_run_fin cs); [lia|apply init_inv|apply init_BG|].
  rewrite total_len_concat. unfold init_cur, nlen. cbn [gpos]. lia.
Qed.

Definition lex_shape (ts : list token) : Prop :=
  exists body, Forall normal body /\
    ((exists e, ttyp e = tEOF /\ ts = body ++ [e]) \/
     (exists e f, ttyp e = tERR /\ ttyp f = tFAIL /\ ts = body ++ [e; f])).

(* shape, and every token lies within the bytes consumed so far *)
Lemma lex_final_shape : forall cs,
  lex_shape (fst (lex cs)) /\ Forall (tok_ok (gpos (final_cur cs))) (fst (lex cs)).
Proof.
  intros cs. rewrite lex_final. cbn [fst]. rewrite frev_eq.
  destruct (final_fin cs) as (c1 & (B1 & _ & extra & O1 & F1) & D).
  unfold init_cur in O1. cbn [out] in O1. rewrite app_nil_r in O1. symmetry in O1. subst extra.
  assert (Fn : Forall normal (rev (out c1))).
  { apply Forall_rev. eapply Forall_impl; [|exact F1]. cbv beta. tauto. }
  assert (Fk : Forall (tok_ok (gpos c1)) (rev (out c1))).
  { apply Forall_rev. eapply Forall_impl; [|exact F1]. cbv beta. tauto. }
  unfold BG in B1.
  destruct D as [->|(e & ->)].
  - unfold emit at 1 2. cbn [out gpos]. cbn [rev]. split.
    + exists (rev (out c1)). split; [exact Fn|]. left. eexists. split; [|reflexivity]. reflexivity.
    + apply Forall_app. split; [exact Fk|]. constructor; [|constructor].
      unfold tok_ok. cbn [tpos tval]. rewrite current_len. lia.
  - unfold fail, emit, ignore, emit_error. cbn [out gpos before]. cbn [rev].
    rewrite <- app_assoc. cbn [app]. split.
    + exists (rev (out c1)). split; [exact Fn|]. right. eexists. eexists.
      split; [|split; [|reflexivity]]; reflexivity.
    + apply Forall_app. split; [exact Fk|].
      constructor; [|constructor; [|constructor]]; unfold tok_ok, current, nlen; cbn; lia.
Qed.

(* 2. the token stream ends in tEOF, or in tERR tFAIL, and has no other such token *)
Theorem lex_tokens_shape : forall cs, lex_shape (fst (lex cs)).
Proof. intros. apply lex_final_shape. Qed.
Print Assumptions lex_tokens_shape.

Corollary lex_fuel_enough : forall cs, exists tk,
  last_opt (fst (lex cs)) = Some tk /\ (ttyp tk = tEOF \/ ttyp tk = tFAIL).
Proof.
  intros cs. destruct (lex_tokens_shape cs) as (body & _ & [(e & He & ->)|(e & f & He & Hf & ->)]).
  - exists e. split; [apply last_opt_app1|left; exact He].
  - exists f. split; [|right; exact Hf].
    change [e; f] with ([e] ++ [f]). rewrite app_assoc. apply last_opt_app1.
Qed.
Print Assumptions lex_fuel_enough.

Lemma concat_firstn_skipn : forall (cs : list bytes) k,
  concat cs = concat (firstn k cs) ++ concat (skipn k cs).
Proof. intros. rewrite <- concat_app, firstn_skipn. reflexivity. Qed.

(* 3. tokens only cover bytes already received: the same k as in lfs_prefix *)
Theorem token_pos_bound_prefix : forall cs, exists k,
  snd (lex cs) = newlines_at (concat (firstn k cs)) 0 /\
  forall t, In t (fst (lex cs)) ->
    tpos t <= nlen (concat (firstn k cs)) /\ nlen (tval t) <= tpos t.
Proof.
  intros cs. destruct (lex_final_shape cs) as [_ Fk]. rewrite lex_final in *. cbn [fst snd] in *.
  destruct (lex_run_inv _ (S (S (total_len cs))) (S (S (total_len cs))) _ (init_inv cs))
    as (recv & Ha & Hl & Hg & _ & _ & (k & Hk)).
  fold (final_cur cs) in *.
  assert (Er : recv = concat (firstn k cs)).
  { rewrite Hk in Ha. rewrite (concat_firstn_skipn cs k) in Ha. apply app_inv_tail in Ha.
    symmetry. exact Ha. }
  exists k. split; [rewrite Hl, Er; reflexivity|].
  intros t Ht. rewrite Forall_forall in Fk. destruct (Fk t Ht) as [H1 H2].
  split; [|exact H2]. rewrite <- Er. lia.
Qed.
Print Assumptions token_pos_bound_prefix.

Theorem token_pos_bound : forall cs t, In t (fst (lex cs)) -> tpos t <= nlen (concat cs).
Proof.
  intros cs t Ht. destruct (token_pos_bound_prefix cs) as (k & _ & H).
  destruct (H t Ht) as [H1 _]. rewrite (concat_firstn_skipn cs k).
  unfold nlen in *. rewrite app_length. lia.
Qed.
Print Assumptions token_pos_bound.

(* ================================================================== *)
(* 5. diagnostics carry token positions                                *)
(* ================================================================== *)

(* prev, cur_, the tokens still to come all satisfy G; every diagnostic has the position of
   a G-token *)
Definition tok_inv (G : token -> Prop) (s : pst) : Prop :=
  G (prev s) /\ G (cur_ s) /\ Forall G (toks s) /\
  Forall (fun d => exists t, G t /\ d_pos d = tpos t) (log s).

Section TokInv.
Variable G : token -> Prop.

Lemma tok_inv_frame : forall s s', frame s s' -> tok_inv G s -> tok_inv G s'.
Proof. unfold tok_inv. intros s s' (-> & -> & -> & _ & ->) H. exact H. Qed.

Lemma tok_inv_error_at : forall t m s, G t -> tok_inv G s -> tok_inv G (error_at t m s).
Proof.
  intros t m s Gt (H1 & H2 & H3 & H4). unfold tok_inv.
  destruct (error_at_fields t m s) as (-> & -> & -> & _ & d & -> & Hd).
  repeat split; auto. constructor; [|exact H4]. exists t. auto.
Qed.

Lemma tok_inv_advance_loop : forall ts s, Forall G ts -> tok_inv G s -> tok_inv G (advance_loop ts s).
Proof.
  induction ts as [|t r IH]; intros s F (H1 & H2 & H3 & H4).
  - rewrite advance_loop_nil. unfold tok_inv.
    destruct (set_toks_fields [] s) as (-> & -> & -> & _ & ->). repeat split; auto.
  - rewrite advance_loop_cons. inversion F as [|t' r' Gt Fr]; subst.
    assert (Ha : tok_inv G (adv_tok t s)).
    { unfold tok_inv. destruct (adv_tok_fields t s) as (-> & -> & -> & _ & ->). repeat split; auto. }
    destruct (tok_eqb (ttyp t) tERR).
    + apply IH; [exact Fr|]. unfold error_at_current. apply tok_inv_error_at; [|exact Ha].
      destruct (adv_tok_fields t s) as (_ & _ & -> & _). exact Gt.
    + destruct Ha as (A1 & A2 & A3 & A4). unfold tok_inv.
      destruct (set_toks_fields r (adv_tok t s)) as (-> & -> & -> & _ & ->). repeat split; auto.
Qed.

Lemma tok_inv_advance : forall s, tok_inv G s -> tok_inv G (advance s).
Proof.
  intros s (H1 & H2 & H3 & H4). unfold advance. apply tok_inv_advance_loop.
  - exact H3.
  - unfold tok_inv. destruct (set_prev_fields (cur_ s) s) as (-> & -> & -> & _ & ->).
    repeat split; auto.
Qed.

Lemma tok_inv_perror : forall m s, tok_inv G s -> tok_inv G (perror m s).
Proof. intros m s H. unfold perror. apply tok_inv_error_at; [apply H|exact H]. Qed.
Lemma tok_inv_errc : forall m s, tok_inv G s -> tok_inv G (error_at_current m s).
Proof. intros m s H. unfold error_at_current. apply tok_inv_error_at; [apply H|exact H]. Qed.

Lemma tok_inv_parse_tokens : forall ts, G tok0 -> Forall G ts -> tok_inv G (parse_tokens ts).
Proof.
  intros ts G0 F. apply framed_parse_tokens.
  - exact tok_inv_frame.
  - exact tok_inv_advance.
  - exact tok_inv_perror.
  - exact tok_inv_errc.
  - unfold tok_inv, init_pst. cbn [prev cur_ toks log]. repeat split; auto.
Qed.
End TokInv.

(* 4. every diagnostic carries position 0 or the position of a token of the input *)
Theorem diag_pos_is_token_pos : forall ts d, In d (log (parse_tokens ts)) ->
  d_pos d = 0 \/ exists t, In t ts /\ d_pos d = tpos t.
Proof.
  intros ts d Hd.
  destruct (tok_inv_parse_tokens (fun t => t = tok0 \/ In t ts) ts) as (_ & _ & _ & H).
  - left. reflexivity.
  - apply Forall_forall. intros t Ht. right. exact Ht.
  - rewrite Forall_forall in H. destruct (H d Hd) as (t & [->|Ht] & E).
    + left. exact E.
    + right. exists t. auto.
Qed.
Print Assumptions diag_pos_is_token_pos.

(* ================================================================== *)
(* 6. C07: the diagnostic text does not depend on the chunking         *)
(* ================================================================== *)

Lemma line_col_prefix : forall (a b : bytes) pos, pos <= nlen a ->
  line_col_at (newlines_at (a ++ b) 0) pos = line_col_at (newlines_at a 0) pos.
Proof.
  intros a b pos H. rewrite newlines_at_app. apply line_col_ignores_later.
  - rewrite <- newlines_at_app. apply newlines_at_sorted_le.
  - intros x Hx. destruct (newlines_at_sorted b (0 + nlen a)) as [_ F].
    rewrite Forall_forall in F. specialize (F x Hx). lia.
Qed.

Lemma lc_format_prefix : forall (a b : bytes) pos, pos <= nlen a ->
  lc_format (newlines_at (a ++ b) 0) pos = lc_format (newlines_at a 0) pos.
Proof. intros. unfold lc_format. rewrite line_col_prefix by assumption. reflexivity. Qed.

Lemma diag_line_prefix : forall (a b : bytes) d, d_pos d <= nlen a ->
  diag_line (newlines_at (a ++ b) 0) d = diag_line (newlines_at a 0) d.
Proof. intros. unfold diag_line. rewrite lc_format_prefix by assumption. reflexivity. Qed.

(* the diagnostics of a parse over chunks, printed with the line table of that parse, read as if
   printed with the line table of the whole input *)
Lemma diag_text_whole : forall name cs,
  map (diag_line (g_lfs (pr_prog (parse_chunks name cs)))) (pr_diags (parse_chunks name cs)) =
  map (diag_line (newlines_at (concat cs) 0)) (pr_diags (parse_chunks name cs)).
Proof.
  intros name cs. destruct (parse_chunks_fields name cs) as (_ & -> & _ & _ & ->). cbn [g_lfs].
  destruct (token_pos_bound_prefix cs) as (k & -> & Hb).
  apply map_ext_in. intros d Hd. rewrite frev_eq in Hd. apply in_rev in Hd. unfold pst_of in Hd.
  rewrite (concat_firstn_skipn cs k). symmetry. apply diag_line_prefix.
  destruct (diag_pos_is_token_pos _ _ Hd) as [->|(t & Ht & ->)]; [lia|].
  apply Hb. exact Ht.
Qed.

Lemma parse_chunks_diags_eq : forall name cs,
  pr_diags (parse_chunks name cs) = pr_diags (parse_whole name (concat cs)).
Proof.
  intros name cs. unfold parse_whole.
  destruct (parse_chunks_fields name cs) as (_ & -> & _).
  destruct (parse_chunks_fields name (@cons bytes (concat cs) nil)) as (_ & -> & _).
  unfold pst_of. rewrite <- lex_chunk_independent. reflexivity.
Qed.

Theorem C07_diag_text : forall name cs,
  map (diag_line (g_lfs (pr_prog (parse_chunks name cs)))) (pr_diags (parse_chunks name cs)) =
  map (diag_line (g_lfs (pr_prog (parse_whole name (concat cs)))))
      (pr_diags (parse_whole name (concat cs))).
Proof.
  intros name cs. rewrite diag_text_whole. unfold parse_whole at 1. unfold parse_whole at 1.
  rewrite (diag_text_whole name (@cons bytes (concat cs) nil)).
  fold (parse_whole name (concat cs)). rewrite <- parse_chunks_diags_eq.
  cbn [concat]. rewrite app_nil_r. reflexivity.
Qed.
Print Assumptions C07_diag_text.

(* ================================================================== *)
(* 7. an accepted program was lexed to the end                         *)
(* ================================================================== *)

Definition notERR (t : token) : Prop := ttyp t <> tERR.

(* either an error has been reported, or the tokens received so far (up to and including the
   current one) contain no tERR *)
Definition clean (ts : list token) (s : pst) : Prop :=
  hadError s = true \/
  exists pre, ts = pre ++ cur_ s :: toks s /\ Forall notERR (pre ++ [cur_ s]).

Section Clean.
Variable ts : list token.

Lemma clean_frame : forall s s', frame s s' -> clean ts s -> clean ts s'.
Proof. unfold clean. intros s s' (-> & _ & -> & -> & _) H. exact H. Qed.

Lemma clean_error_at : forall t m s, clean ts (error_at t m s).
Proof. intros. left. apply error_at_fields. Qed.

Lemma clean_advance_loop : forall r s pre, ts = pre ++ r -> r <> [] -> Forall notERR pre ->
  clean ts (advance_loop r s).
Proof.
  intros [|t r] s pre E Hne F; [congruence|]. rewrite advance_loop_cons.
  destruct (tok_eqb (ttyp t) tERR) eqn:Et.
  - left. apply advance_loop_hadError. apply error_at_fields.
  - right. exists pre.
    destruct (set_toks_fields r (adv_tok t s)) as (-> & _ & -> & _).
    destruct (adv_tok_fields t s) as (_ & _ & -> & _).
    split; [exact E|]. apply Forall_app. split; [exact F|]. constructor; [|constructor].
    apply tok_eqb_neq. exact Et.
Qed.

Lemma clean_advance : forall s, clean ts s -> clean ts (advance s).
Proof.
  intros s [H|(pre & E & F)].
  - left. apply advance_hadError. exact H.
  - unfold advance. destruct (toks s) as [|t r] eqn:Et.
    + rewrite advance_loop_nil. right. exists pre.
      destruct (set_toks_fields [] (s <| prev := cur_ s |>)) as (-> & _ & -> & _).
      destruct (set_prev_fields (cur_ s) s) as (_ & _ & -> & _). split; assumption.
    + apply (clean_advance_loop (t :: r) _ (pre ++ [cur_ s])); [|discriminate|exact F].
      rewrite E, <- app_assoc. reflexivity.
Qed.

Lemma clean_perror : forall m s, clean ts s -> clean ts (perror m s).
Proof. intros. apply clean_error_at. Qed.
Lemma clean_errc : forall m s, clean ts s -> clean ts (error_at_current m s).
Proof. intros. apply clean_error_at. Qed.

(* the parser saw a tEOF or tFAIL token that no tERR precedes *)
Definition end_seen : Prop :=
  exists pre c rest, ts = pre ++ c :: rest /\ Forall notERR (pre ++ [c]) /\ tok_num (ttyp c) <= 1.

Lemma top_loop_end : forall fuel s, clean ts s ->
  hadError (top_loop fuel s) = true \/ oof (top_loop fuel s) = true \/
  ppanic (top_loop fuel s) = true \/ end_seen.
Proof.
  induction fuel as [|f IH]; intros s H; cbn [top_loop].
  - right. left. reflexivity.
  - unfold match_end. destruct (check_end s) eqn:Ec.
    + destruct H as [H|(pre & E & F)].
      * left. apply advance_hadError. exact H.
      * right. right. right. exists pre, (cur_ s), (toks s). repeat split; auto.
        unfold check_end in Ec. apply N.leb_le in Ec. exact Ec.
    + pose proof (framed_decl (clean ts) clean_frame clean_advance clean_perror clean_errc f s H) as H1.
      pose proof (framed_pmatch (clean ts) clean_advance tSEMICOLON _ H1) as H2.
      destruct (pmatch tSEMICOLON (decl f s)) as [m s3]. cbn [snd] in H2.
      destruct (oof s3 || ppanic s3) eqn:Eo.
      * apply orb_prop in Eo. tauto.
      * apply IH. exact H2.
Qed.
End Clean.

Lemma split_normal : forall body pre (c : token) rest tail,
  pre ++ c :: rest = body ++ tail -> Forall normal body -> ~ normal c ->
  exists pre', pre = body ++ pre' /\ tail = pre' ++ c :: rest.
Proof.
  induction body as [|b body IH]; intros pre c rest tail E F Hc.
  - exists pre. split; [reflexivity|]. symmetry. exact E.
  - inversion F as [|b' body' Hb Fb]; subst. destruct pre as [|p pre].
    + cbn [app] in E. injection E as -> _. contradiction.
    + cbn [app] in E. injection E as -> E. destruct (IH _ _ _ _ E Fb Hc) as (pre' & -> & ->).
      exists pre'. split; reflexivity.
Qed.

Lemma end_tok_not_normal : forall c, tok_num (ttyp c) <= 1 -> ~ normal c /\ ttyp c <> tERR.
Proof.
  intros c H. unfold normal, normalt. destruct (ttyp c); cbn in H; try lia;
    (split; [intros (A & B & C); congruence|discriminate]).
Qed.

Lemma end_seen_eof : forall ts, lex_shape ts -> end_seen ts ->
  exists tk, last_opt ts = Some tk /\ ttyp tk = tEOF.
Proof.
  intros ts (body & Fb & D) (pre & c & rest & E & F & Hc).
  destruct (end_tok_not_normal c Hc) as [Hn He].
  destruct D as [(e & Hte & ->)|(e & f & Hte & Htf & ->)].
  - exists e. split; [apply last_opt_app1|exact Hte].
  - exfalso. symmetry in E. destruct (split_normal _ _ _ _ _ E Fb Hn) as (pre' & -> & E').
    destruct pre' as [|p pre'].
    + cbn [app] in E'. injection E' as -> _. contradiction.
    + cbn [app] in E'. injection E' as <- E'.
      rewrite <- app_assoc in F. apply Forall_app in F. destruct F as [_ F].
      inversion F as [|x y Hx _]; subst. apply Hx. exact Hte.
Qed.

Lemma init_advance_clean : forall ts, ts <> [] -> clean ts (advance (init_pst ts)).
Proof.
  intros ts Hne. unfold advance.
  change (toks (init_pst ts)) with ts.
  apply (clean_advance_loop ts ts _ []); [reflexivity|exact Hne|constructor].
Qed.

Lemma lex_shape_nonempty : forall ts, lex_shape ts -> ts <> [].
Proof.
  intros ts (body & _ & [(e & _ & ->)|(e & f & _ & _ & ->)]); destruct body; discriminate.
Qed.

(* 6. *)
Theorem parse_ok_reaches_eof : forall ts, lex_shape ts ->
  hadError (parse_tokens ts) = false -> oof (parse_tokens ts) = false ->
  ppanic (parse_tokens ts) = false ->
  exists tk, last_opt ts = Some tk /\ ttyp tk = tEOF.
Proof.
  intros ts Hs He Ho Hp. apply end_seen_eof; [exact Hs|].
  pose proof (top_loop_end ts (parse_fuel ts) _ (init_advance_clean ts (lex_shape_nonempty _ Hs))) as H.
  unfold parse_tokens in He, Ho, Hp.
  set (s := top_loop (parse_fuel ts) (advance (init_pst ts))) in *.
  destruct (hadError s || oof s || ppanic s) eqn:E.
  - rewrite He, Ho, Hp in E. discriminate E.
  - apply orb_false_elim in E. destruct E as [E E3]. apply orb_false_elim in E. destruct E as [E1 E2].
    destruct H as [H|[H|[H|H]]]; [congruence..|exact H].
Qed.
Print Assumptions parse_ok_reaches_eof.

Corollary C07_prog_equal : forall name cs,
  pr_ok (parse_chunks name cs) = true ->
  pr_oof (parse_chunks name cs) = false -> pr_panic (parse_chunks name cs) = false ->
  pr_prog (parse_chunks name cs) = pr_prog (parse_whole name (concat cs)).
Proof.
  intros name cs Hok Ho Hp. unfold parse_whole.
  destruct (parse_chunks_fields name (@cons bytes (concat cs) nil)) as (_ & _ & _ & _ & ->).
  destruct (parse_chunks_fields name cs) as (E1 & _ & E3 & E4 & ->).
  rewrite E1 in Hok. rewrite E3 in Ho. rewrite E4 in Hp.
  apply negb_true_iff in Hok. unfold pst_of in *.
  destruct (parse_ok_reaches_eof _ (lex_tokens_shape cs) Hok Ho Hp) as (tk & Hl & Ht).
  replace (snd (lex (@cons bytes (concat cs) nil))) with (snd (lex cs))
    by exact (lex_chunk_independent_lfs cs tk Hl Ht).
  replace (fst (lex (@cons bytes (concat cs) nil))) with (fst (lex cs))
    by exact (lex_chunk_independent cs).
  reflexivity.
Qed.
Print Assumptions C07_prog_equal.

(* ================================================================== *)
(* 8. the program produced by the parser can be dumped                 *)
(* ================================================================== *)

(* ---- literals ---- *)

Lemma parse_int_range : forall b v, parse_int b = inr v -> (0 <= v < 2^63)%Z.
Proof.
  intros b v. unfold parse_int.
  repeat match goal with |- context [match ?x with _ => _ end] => destruct x eqn:? end;
    intros H; try discriminate H; injection H as <-;
    match goal with E : (_ <? _) = true |- _ => apply N.ltb_lt in E end; lia.
Qed.

Lemma fb_lt : forall f, fb f < 2^64.
Proof.
  intros f. unfold fb.
  pose proof (Z.mod_pos_bound (bits_of f) (2^64) ltac:(lia)) as H. lia.
Qed.

Lemma f_of_decimal_lt : forall M E nd b, f_of_decimal M E nd = Some b -> b < 2^64.
Proof.
  intros M E nd b. unfold f_of_decimal.
  repeat match goal with |- context [match ?x with _ => _ end] => destruct x eqn:? end;
    intros H; try discriminate H; injection H as <-; try apply fb_lt; lia.
Qed.

Lemma parse_float_lt : forall b v, parse_float b = inr v -> v < 2^64.
Proof.
  intros b v. unfold parse_float.
  repeat match goal with |- context [match ?x with _ => _ end] => destruct x eqn:? end;
    intros H; try discriminate H; injection H as <-; eapply f_of_decimal_lt; eassumption.
Qed.

Lemma hexn_len : forall k l acc v r, hexn k l acc = Some (v, r) -> (length r + k = length l)%nat.
Proof.
  induction k as [|k IH]; intros l acc v r; cbn [hexn].
  - intros H. injection H as _ <-. lia.
  - destruct l as [|c l]; [discriminate|]. destruct (digit_val c); [|discriminate].
    intros H. apply IH in H. cbn [length]. lia.
Qed.

Lemma encode_rune_len : forall v, (length (encode_rune v) <= 4)%nat.
Proof. intros v. unfold encode_rune. break_ifs; cbn [length]; lia. Qed.

Lemma encode_rune_error : encode_rune rune_error = [239; 191; 189].
Proof. reflexivity. Qed.

(* an invalid byte becomes U+FFFD (3 bytes): the text may grow, by at most a factor 3 *)
Lemma unquote_body_len : forall fuel l acc v,
  unquote_body fuel l acc = Some v -> (length v <= 3 * length l + length acc)%nat.
Proof.
  induction fuel as [|f IH]; intros l acc v; cbn [unquote_body].
  - destruct l; intros H; [|discriminate]. injection H as <-. rewrite frev_eq, rev_length. lia.
  - repeat match goal with |- context [match ?x with _ => _ end] => destruct x eqn:? end;
      intros H; try discriminate H;
      try (injection H as <-; rewrite frev_eq, rev_length; cbn [length]; lia);
      apply IH in H;
      repeat match goal with E : hexn _ _ _ = Some _ |- _ => apply hexn_len in E end;
      rewrite ?encode_rune_error in H;
      repeat match type of H with context [encode_rune ?v] =>
        let L := fresh "L" in pose proof (encode_rune_len v) as L;
        generalize dependent (encode_rune v); intros end;
      rewrite ?rev_append_rev, ?app_length, ?rev_length, ?firstn_length, ?skipn_length in H;
      cbn [length] in *; lia.
Qed.

Lemma unquote_len : forall b v, unquote b = Some v -> (length v <= 3 * length b)%nat.
Proof.
  intros b v. unfold unquote.
  repeat match goal with |- context [match ?x with _ => _ end] => destruct x eqn:? end;
    intros H; try discriminate H;
    apply unquote_body_len in H;
    match goal with E : frev _ = _ |- _ => apply (f_equal (@length _)) in E end;
    rewrite ?frev_eq, ?rev_length in *; cbn [length] in *; lia.
Qed.

(* the growth is real: one invalid byte between the quotes becomes three *)
Example unquote_grows : unquote [34; 255; 34] = Some [239; 191; 189].
Proof. vm_compute. reflexivity. Qed.

(* ---- the fields of the emitted program ---- *)

Definition cframe (s s' : pst) : Prop :=
  consts s' = consts s /\ nconsts s' = nconsts s /\ positions s' = positions s /\
  code s' = code s /\ ncode s' = ncode s.

Lemma cframe_refl : forall s, cframe s s.
Proof. intros. repeat split. Qed.
Lemma cframe_trans : forall a b c, cframe a b -> cframe b c -> cframe a c.
Proof.
  unfold cframe. intros a b c (A1 & A2 & A3 & A4 & A5) (B1 & B2 & B3 & B4 & B5).
  repeat split; congruence.
Qed.

Lemma cframe_error_at : forall t m s, cframe s (error_at t m s).
Proof. intros. repeat split. Qed.
Lemma cframe_adv_tok : forall t s, cframe s (adv_tok t s).
Proof. intros. unfold adv_tok. cbv zeta. destruct (tok_eqb (ttyp t) tFAIL); repeat split. Qed.
Lemma cframe_set_toks : forall r s, cframe s (s <| toks := r |>).
Proof. intros. repeat split. Qed.
Lemma cframe_set_prev : forall p s, cframe s (s <| prev := p |>).
Proof. intros. repeat split. Qed.

Lemma cframe_advance_loop : forall ts s, cframe s (advance_loop ts s).
Proof.
  induction ts as [|t r IH]; intros s.
  - rewrite advance_loop_nil. apply cframe_set_toks.
  - rewrite advance_loop_cons. destruct (tok_eqb (ttyp t) tERR).
    + eapply cframe_trans; [apply cframe_adv_tok|].
      eapply cframe_trans; [apply cframe_error_at|]. apply IH.
    + eapply cframe_trans; [apply cframe_adv_tok|apply cframe_set_toks].
Qed.
Lemma cframe_advance : forall s, cframe s (advance s).
Proof.
  intros. unfold advance. eapply cframe_trans; [apply cframe_set_prev|apply cframe_advance_loop].
Qed.

Lemma cframe_identRefs : forall x s, cframe s (s <| identRefs := x |>).
Proof. intros. repeat split. Qed.
Lemma cframe_begin_scope : forall s, cframe s (begin_scope s).
Proof. intros. repeat split. Qed.
Lemma cframe_scope_upd : forall d ls n s,
  cframe s (s <| depth := d |> <| locals := ls |> <| nlocals := n |>).
Proof. intros. repeat split. Qed.
Lemma cframe_add_local_upd : forall l n m s,
  cframe s (s <| locals := l |> <| nlocals := n |> <| st_localMax := m |>).
Proof. intros. repeat split. Qed.
Lemma cframe_locals : forall l s, cframe s (s <| locals := l |>).
Proof. intros. repeat split. Qed.
Lemma cframe_ppanic : forall s, cframe s (s <| ppanic := true |>).
Proof. intros. repeat split. Qed.
Lemma cframe_oof : forall s, cframe s (mark_oof s).
Proof. intros. repeat split. Qed.
Lemma cframe_panicMode : forall s, cframe s (s <| panicMode := false |>).
Proof. intros. repeat split. Qed.

Lemma set_nth_length : forall {A} (l : list A) i v, length (set_nth l i v) = length l.
Proof.
  induction l as [|x l IH]; intros [|i] v; cbn [set_nth length]; auto.
Qed.

Section WfInv.
Variable L : N.    (* length of the input *)

Definition Gb (t : token) : Prop := tpos t <= L /\ nlen (tval t) <= L.
Definition Qnb (b : bytes) : Prop := nlen b <= L.
Definition Qvb (v : value) : Prop :=
  match v with
  | VInt z => (- 2^63 <= z < 2^63)%Z
  | VFloat b => b < 2^64
  | VStr s => nlen s <= 3 * L
  | _ => False
  end.

Definition cinv (s : pst) : Prop :=
  Forall Qvb (consts s) /\ nconsts s = nlen (consts s) /\
  Forall (fun p => p <= L) (positions s) /\
  ncode s = nlen (code s) /\ ncode s = nlen (positions s).

Definition wfinv (s : pst) : Prop := tok_inv Gb s /\ cinv s.

Lemma cinv_cframe : forall s s', cframe s s' -> cinv s -> cinv s'.
Proof. unfold cinv. intros s s' (-> & -> & -> & -> & ->) H. exact H. Qed.

Lemma wfinv_frames : forall s s', frame s s' -> cframe s s' -> wfinv s -> wfinv s'.
Proof.
  intros s s' F C [H1 H2]. split; [eapply tok_inv_frame; eassumption|eapply cinv_cframe; eassumption].
Qed.

Lemma wfinv_write : forall b s, wfinv s -> wfinv (write b s).
Proof.
  intros b s [H1 (C1 & C2 & C3 & C4 & C5)]. split.
  - eapply tok_inv_frame; [apply frame_write|exact H1].
  - unfold cinv, write. cbn [consts nconsts positions code ncode set]. cbn.
    repeat split; auto.
    + constructor; [apply H1|exact C3].
    + unfold nlen in *. cbn [length]. lia.
    + unfold nlen in *. cbn [length]. lia.
Qed.

Lemma wfinv_emit_op : forall o s, wfinv s -> wfinv (emit_op o s).
Proof.
  intros o s H. unfold emit_op. pose proof (wfinv_write o s H) as H1. revert H1.
  apply wfinv_frames; repeat split.
Qed.

Lemma wfinv_add_const : forall v s, Qvb v -> wfinv s -> wfinv (snd (add_const v s)).
Proof.
  intros v s Hv [H1 (C1 & C2 & C3 & C4 & C5)]. split.
  - eapply tok_inv_frame; [apply frame_add_const|exact H1].
  - unfold cinv, add_const. cbn. repeat split; auto.
    unfold nlen in *. cbn [length]. lia.
Qed.

Lemma wfinv_patch : forall k a b s, wfinv s ->
  wfinv (s <| code := set_nth (set_nth (code s) k a) (S k) b |>).
Proof.
  intros k a b s [H1 (C1 & C2 & C3 & C4 & C5)]. split.
  - eapply tok_inv_frame; [apply frame_patch|exact H1].
  - unfold cinv. cbn. repeat split; auto.
    unfold nlen. rewrite !set_nth_length. exact C4.
Qed.

Hypothesis L3 : 3 * L < 2^64.

Lemma wfinv_parse_tokens : forall ts, Forall Gb ts -> wfinv (parse_tokens ts).
Proof.
  intros ts F.
  apply (parse_tokens_pres wfinv Qnb Qvb).
  - intros s [H _]. apply H.
  - intros b v H. apply parse_int_range in H. cbn [Qvb]. lia.
  - intros b v H. apply parse_float_lt in H. exact H.
  - intros b H. unfold Qnb in H. cbn [Qvb]. lia.
  - intros b v H E. apply unquote_len in E. unfold Qnb, nlen in H. cbn [Qvb]. unfold nlen. lia.
  - cbn. lia.
  - intros s [H1 H2]. split; [apply tok_inv_advance; exact H1|].
    eapply cinv_cframe; [apply cframe_advance|exact H2].
  - intros m s [H1 H2]. split; [apply tok_inv_perror; exact H1|].
    eapply cinv_cframe; [apply cframe_error_at|exact H2].
  - intros m s [H1 H2]. split; [apply tok_inv_errc; exact H1|].
    eapply cinv_cframe; [apply cframe_error_at|exact H2].
  - exact wfinv_write.
  - exact wfinv_emit_op.
  - exact wfinv_add_const.
  - intros x s. apply wfinv_frames; [apply frame_identRefs|apply cframe_identRefs].
  - exact wfinv_patch.
  - intros s. apply wfinv_frames; [apply frame_begin_scope|apply cframe_begin_scope].
  - intros d ls n s. apply wfinv_frames; [apply frame_scope_upd|apply cframe_scope_upd].
  - intros l n m s. apply wfinv_frames; [apply frame_add_local_upd|apply cframe_add_local_upd].
  - intros l s. apply wfinv_frames; [apply frame_locals|apply cframe_locals].
  - intros s. apply wfinv_frames; [apply frame_ppanic|apply cframe_ppanic].
  - intros s. apply wfinv_frames; [apply frame_oof|apply cframe_oof].
  - intros s. apply wfinv_frames; [apply frame_panicMode|apply cframe_panicMode].
  - split.
    + unfold tok_inv, init_pst. cbn [prev cur_ toks log].
      assert (G0 : Gb tok0) by (unfold Gb, tok0, nlen; cbn; lia).
      split; [exact G0|]. split; [exact G0|]. split; [exact F|constructor].
    + unfold cinv, init_pst. cbn. repeat split; auto; constructor.
Qed.
End WfInv.

Lemma parse_chunks_stats : forall name cs,
  ps_code (pr_stats (parse_chunks name cs)) = ncode (pst_of cs) /\
  ps_constants (pr_stats (parse_chunks name cs)) = nconsts (pst_of cs).
Proof. intros. unfold parse_chunks, pst_of. destruct (lex cs) as [ts l]. split; reflexivity. Qed.

Lemma newlines_at_length : forall s off, (length (newlines_at s off) <= length s)%nat.
Proof.
  induction s as [|c r IH]; intros off; cbn [newlines_at length]; [lia|].
  specialize (IH (off + 1)). destruct (c =? 10); cbn [length]; lia.
Qed.

Lemma Qvb_wf : forall L v, 3 * L < 2^64 -> Qvb L v -> wf_value v.
Proof. intros L [| | | | |] H3 H; cbn [Qvb wf_value] in *; try lia; try exact I; try contradiction. Qed.

(* 7. (the two length bounds that are not derived here enter as hypotheses on the statistics
   the parser reports; the bound on the input is 3 * length < 2^64 because Unquote may replace
   one invalid byte by the 3-byte encoding of U+FFFD, see unquote_grows) *)
Theorem parse_wf_partial : forall name cs,
  3 * nlen (concat cs) < 2^64 -> nlen name < 2^64 ->
  ps_code (pr_stats (parse_chunks name cs)) < 2^64 ->
  ps_constants (pr_stats (parse_chunks name cs)) < 2^64 ->
  wf_parts (parts_of_prog (pr_prog (parse_chunks name cs))).
Proof.
  intros name cs H3 Hname Hcode Hconsts.
  destruct (parse_chunks_stats name cs) as [E1 E2]. rewrite E1 in Hcode. rewrite E2 in Hconsts.
  destruct (parse_chunks_fields name cs) as (_ & _ & _ & _ & ->).
  set (L := nlen (concat cs)) in *.
  destruct (token_pos_bound_prefix cs) as (k & El & Hb). unfold bytes in *.
  assert (Hk : nlen (concat (firstn k cs)) <= L).
  { subst L. rewrite (concat_firstn_skipn cs k). unfold nlen. rewrite app_length.
    unfold bytes. lia. }
  assert (F : Forall (Gb L) (fst (lex cs))).
  { apply Forall_forall. intros t Ht. destruct (Hb t Ht) as [A B]. unfold Gb. lia. }
  destruct (wfinv_parse_tokens L H3 _ F) as [_ (C1 & C2 & C3 & C4 & C5)].
  fold (pst_of cs) in *.
  unfold wf_parts, parts_of_prog. cbn [p_consts p_pos p_lfs p_name p_code g_name g_code g_consts g_pos g_lfs].
  rewrite !frev_eq.
  assert (Hlen : forall {A} (l : list A), nlen (rev l) = nlen l)
    by (intros; unfold nlen; rewrite rev_length; reflexivity).
  rewrite !Hlen. repeat split.
  - apply Forall_rev. eapply Forall_impl; [|exact C1]. intros v. apply Qvb_wf. exact H3.
  - apply Forall_rev. eapply Forall_impl; [|exact C3]. cbv beta. intros; lia.
  - rewrite El. eapply Forall_impl; [|apply newlines_at_bounds]. cbv beta. intros; lia.
  - exact Hname.
  - lia.
  - lia.
  - lia.
  - rewrite El. pose proof (newlines_at_length (concat (firstn k cs)) 0). unfold nlen in *. lia.
Qed.
Print Assumptions parse_wf_partial.

(* non-vacuity of C07_diag_text: an unterminated string whose lexing fails before the second
   chunk is read.  The two line tables differ, the diagnostic text does not. *)
Example C07_diag_text_example :
  let cs := [[34; 10]; [10]] in
  g_lfs (pr_prog (parse_chunks [] cs)) = [1] /\
  g_lfs (pr_prog (parse_whole [] (concat cs))) = [1; 2] /\
  map (diag_line (g_lfs (pr_prog (parse_chunks [] cs)))) (pr_diags (parse_chunks [] cs)) =
    [bs "line 2:1: error: unterminated quoted string" ++ [10]].
Proof. vm_compute. repeat split. Qed.
