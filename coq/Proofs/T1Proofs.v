(* T1Proofs.v: theorem T1: executing the generated code = the big-step semantics over names. *)
From RecordUpdate Require Import RecordSet.
From Coq Require Import Lia ZifyN ZifyNat ZifyBool.
From BCL Require Import Model.Api Model.Compile Spec.AstSem Proofs.VmSpecProofs Proofs.EncodingProofs
  Proofs.T1Code Proofs.T1Vm Proofs.T1Expr.
Import RecordSetNotations.
Open Scope N_scope.

(* ---------------------------------------------------------------------------------------- *)
(* induction over statements with nested bodies                                              *)
(* ---------------------------------------------------------------------------------------- *)
Section StmtInd.
Variable P : stmt -> Prop.
Hypothesis Hvar : forall x init, P (SVar x init).
Hypothesis Heval : forall e, P (SEval e).
Hypothesis Hprint : forall e, P (SPrint e).
Hypothesis Hexpr : forall e, P (SExpr e).
Hypothesis Hdef : forall typ name body, Forall P body -> P (SDef typ name body).
Hypothesis Hbind : forall typ sel tgt, P (SBind typ sel tgt).
Fixpoint stmt_ind2 (st : stmt) : P st :=
  match st with
  | SVar x init => Hvar x init
  | SEval e => Heval e
  | SPrint e => Hprint e
  | SExpr e => Hexpr e
  | SDef typ name body =>
    Hdef typ name body ((fix go (l : list stmt) : Forall P l :=
                           match l with [] => Forall_nil P | x :: r => Forall_cons x (stmt_ind2 x) (go r) end) body)
  | SBind typ sel tgt => Hbind typ sel tgt
  end.
End StmtInd.

(* the inline loops of cstmt / exec are cstmts / exec_all *)
Lemma cstmts_cons x r s : cstmts (x :: r) s = cstmts r (cstmt x s).
Proof. reflexivity. Qed.

Lemma cstmt_def typ name body s :
  cstmt (SDef typ name body) s =
  let '(ti, s1) := ident_const typ s in
  let '(ni, s2) := make_const (VStr name) s1 in
  let s3 := begin_scope (emit_uvarint ni (emit_uvarint ti (emit_op opDEFBLOCK s2))) in
  emit_op opENDBLOCK (end_scope (cstmts body s3)).
Proof.
  cbn [cstmt]. destruct (ident_const typ s) as [ti s1]. destruct (make_const (VStr name) s1) as [ni s2].
  reflexivity.
Qed.

Lemma exec_def typ name body en :
  exec (SDef typ name body) en =
  let en0 := mkEnv ([] :: scopes en) ({| ob_typ := typ; ob_name := name; ob_fields := [] |} :: oblocks en)
                   (results en) (binding_ en) (output en) (warnings en) in
  match exec_all body en0 with
  | (ROk _, en1) =>
    match oblocks en1, scopes en1 with
    | b :: up, _ :: outer =>
      let blk := VBlock (ob_typ b) (ob_name b) (ob_fields b) in
      match up with
      | parent :: up' =>
        let k := block_key (ob_typ b) (ob_name b) in
        match fields_get k (ob_fields parent) with
        | Some _ => (RErr (XDupChild k), en1)
        | None => (ROk tt, mkEnv outer ({| ob_typ := ob_typ parent; ob_name := ob_name parent;
                                          ob_fields := fields_set k blk (ob_fields parent) |} :: up')
                                 (results en1) (binding_ en1) (output en1) (warnings en1))
        end
      | [] => (ROk tt, mkEnv outer [] (blk :: results en1) (binding_ en1) (output en1) (warnings en1))
      end
    | _, _ => (RErr XStatic, en1)
    end
  | other => other
  end.
Proof.
  cbn [exec]. cbv zeta.
  match goal with |- match ?f body ?e with _ => _ end = _ => assert (E : forall l a, f l a = exec_all l a) end.
  { induction l as [|x r IH]; intros a; [reflexivity|]. cbn [exec_all]. destruct (exec x a) as [[u|err] a1]; [apply IH|reflexivity]. }
  rewrite E. reflexivity.
Qed.

(* ---------------------------------------------------------------------------------------- *)
(* scope primitives                                                                          *)
(* ---------------------------------------------------------------------------------------- *)
(* a primitive that only touches the scope tables / statistics *)
Definition sstep (s s' : pst) : Prop :=
  code s' = code s /\ ncode s' = ncode s /\ consts s' = consts s /\ nconsts s' = nconsts s /\
  identRefs s' = identRefs s /\ hadError s' = hadError s.

Lemma sstep_ext s s' : sstep s s' -> ext s s' [].
Proof.
  intros (A & B & C & D & E & F). split; [split; [rewrite A; reflexivity | rewrite B; cbn; lia]|].
  split; [exists []; rewrite C; reflexivity|]. split; [unfold emono; rewrite F; exact (fun H => H)|].
  unfold wfs, idents_ok. rewrite C, D, E. exact (fun H => H).
Qed.

Lemma sstep_begin_scope s : sstep s (begin_scope s).
Proof. unfold sstep, begin_scope. psimp. repeat split. Qed.

Lemma decl_scan_err ls x d s : hadError s = true -> hadError (decl_scan ls x d s) = true.
Proof.
  revert s. induction ls as [|[nm ld] r IH]; intros s H; cbn [decl_scan]; [exact H|].
  destruct (negb (ld =? -1)%Z && (ld <? d)%Z); [exact H|]. apply IH. destruct (bytes_eqb x nm); [reflexivity|exact H].
Qed.

Lemma decl_scan_noerr ls x d s : hadError (decl_scan ls x d s) = false -> decl_scan ls x d s = s.
Proof.
  revert s. induction ls as [|[nm ld] r IH]; intros s H; cbn [decl_scan] in *; [reflexivity|].
  destruct (negb (ld =? -1)%Z && (ld <? d)%Z); [reflexivity|].
  destruct (bytes_eqb x nm).
  - rewrite decl_scan_err in H by reflexivity. discriminate H.
  - apply IH. exact H.
Qed.

Lemma add_local_noerr x s : hadError (add_local x s) = false ->
  nlocals s <> localsMaxSize /\
  add_local x s = s <| locals := (x, (-1)%Z) :: locals s |> <| nlocals := nlocals s + 1 |>
                    <| st_localMax := N.max (st_localMax s) (nlocals s + 1) |>.
Proof.
  unfold add_local. destruct (nlocals s =? localsMaxSize) eqn:E.
  - intros H. rewrite perr_err in H. discriminate H.
  - intros _. apply N.eqb_neq in E. split; [exact E | reflexivity].
Qed.

Lemma sstep_def_var s : sstep s (def_var s).
Proof. unfold sstep, def_var. destruct (locals s) as [|[nm d] r]; psimp; repeat split. Qed.

Definition var_s1 (x : bytes) (s : pst) : pst :=
  s <| locals := (x, (-1)%Z) :: locals s |> <| nlocals := nlocals s + 1 |>
    <| st_localMax := N.max (st_localMax s) (nlocals s + 1) |>.
Definition var_sI (x : bytes) (init : option expr) (s : pst) : pst :=
  match init with Some e => cexpr e (var_s1 x s) | None => emit_op opNIL (var_s1 x s) end.

Lemma sstep_var_s1 x s : sstep s (var_s1 x s).
Proof. unfold sstep, var_s1. psimp. repeat split. Qed.

Lemma var_init_extl x init s : hadError (var_sI x init s) = false -> exists fr, extl (var_s1 x s) (var_sI x init s) fr.
Proof.
  unfold var_sI. destruct init as [e|]; intros H; [apply cexpr_extl; exact H|].
  eexists. apply extl_estep, estep_emit_op.
Qed.

Lemma svar_struct x init s : hadError (cstmt (SVar x init) s) = false ->
  decl_scan (locals s) x (depth s) s = s /\ nlocals s <> localsMaxSize /\
  hadError (var_sI x init s) = false /\ cstmt (SVar x init) s = def_var (var_sI x init s).
Proof.
  intros H. cbn [cstmt] in H. unfold cdecl_var in H.
  destruct (sstep_def_var (match init with
                           | Some e => cexpr e (add_local x (decl_scan (locals s) x (depth s) s))
                           | None => emit_op opNIL (add_local x (decl_scan (locals s) x (depth s) s)) end))
    as (_ & _ & _ & _ & _ & HE).
  rewrite HE in H.
  assert (H1 : hadError (add_local x (decl_scan (locals s) x (depth s) s)) = false).
  { destruct init as [e|].
    - destruct (cexpr_extl e _ H) as [fr F]. eapply extl_noerr; eassumption.
    - eapply extl_noerr; [apply extl_estep, estep_emit_op | exact H]. }
  destruct (add_local_noerr _ _ H1) as [N1 E1].
  assert (H0 : hadError (decl_scan (locals s) x (depth s) s) = false).
  { rewrite E1 in H1. exact H1. }
  pose proof (decl_scan_noerr _ _ _ _ H0) as E0.
  rewrite E0 in *. split; [reflexivity|]. split; [exact N1|].
  cbn [cstmt]. unfold cdecl_var, var_sI. rewrite E0, E1. fold (var_s1 x s). rewrite E1 in H. fold (var_s1 x s) in H.
  split; [exact H | reflexivity].
Qed.

Definition ExtP (st : stmt) : Prop :=
  forall s, hadError (cstmt st s) = false -> exists fr, ext s (cstmt st s) fr.
Definition ExtL (l : list stmt) : Prop :=
  forall s, hadError (cstmts l s) = false -> exists fr, ext s (cstmts l s) fr.

Lemma extL_of l : Forall ExtP l -> ExtL l.
Proof.
  induction 1 as [|x r Hx _ IH]; intros s H.
  - exists []. apply ext_refl.
  - rewrite cstmts_cons in *. destruct (IH _ H) as [f2 F2].
    destruct (Hx s (ext_noerr _ _ _ F2 H)) as [f1 F1]. exists (f1 ++ f2). eapply ext_trans; eassumption.
Qed.

Lemma extl_ext s s' fr : extl s s' fr -> ext s s' fr. Proof. intros [A _]. exact A. Qed.

Definition pop_code (n : N) : bytes := if n =? 0 then [] else if n =? 1 then [opPOP] else opPOPN :: uv_enc n.

Lemma end_scope_eq s :
  end_scope s =
  pop_n (snd (drop_locals (locals s) (depth s - 1) 0))
        (s <| depth := (depth s - 1)%Z |> <| locals := fst (drop_locals (locals s) (depth s - 1) 0) |>
           <| nlocals := nlocals s - snd (drop_locals (locals s) (depth s - 1) 0) |>).
Proof. unfold end_scope. destruct (drop_locals (locals s) (depth s - 1) 0) as [ls popped]. reflexivity. Qed.

Lemma end_scope_ext s : ext s (end_scope s) (pop_code (snd (drop_locals (locals s) (depth s - 1) 0))).
Proof.
  rewrite end_scope_eq. set (n := snd (drop_locals (locals s) (depth s - 1) 0)).
  change (pop_code n) with ([] ++ pop_code n). eapply ext_trans.
  2: { apply extl_ext, extl_estep. apply estep_pop_n. }
  apply sstep_ext. unfold sstep. psimp. repeat split.
Qed.

Lemma ext_svar x init : ExtP (SVar x init).
Proof.
  intros s H. destruct (svar_struct x init s H) as (E0 & N1 & HI & E). rewrite E.
  destruct (var_init_extl x init s HI) as [fr F]. exists (([] ++ fr) ++ []).
  eapply ext_trans; [eapply ext_trans; [apply sstep_ext, sstep_var_s1 | apply extl_ext; exact F]|].
  apply sstep_ext, sstep_def_var.
Qed.

Lemma ext_after_expr e op : forall s, hadError (emit_op op (cexpr e s)) = false -> exists fr, ext s (emit_op op (cexpr e s)) fr.
Proof.
  intros s H. pose proof (extl_estep _ _ _ (estep_emit_op op (cexpr e s))) as E.
  destruct (cexpr_extl e s (extl_noerr _ _ _ E H)) as [fr F]. eexists. apply extl_ext. eapply extl_trans; eassumption.
Qed.

Lemma ext_sdef typ name body : Forall ExtP body -> ExtP (SDef typ name body).
Proof.
  intros HB s H. rewrite cstmt_def in *.
  destruct (ident_const_spec typ s) as [A _]. destruct (ident_const typ s) as [ti s1]. cbn [snd] in A.
  destruct (make_const_spec (VStr name) s1) as [B _]. destruct (make_const (VStr name) s1) as [ni s2]. cbn [snd] in B.
  cbv zeta in *.
  set (s3 := begin_scope (emit_uvarint ni (emit_uvarint ti (emit_op opDEFBLOCK s2)))) in *.
  pose proof (extl_ext _ _ _ (extl_estep _ _ _ (estep_emit_op opENDBLOCK (end_scope (cstmts body s3))))) as E5.
  pose proof (end_scope_ext (cstmts body s3)) as E4.
  assert (H4 : hadError (cstmts body s3) = false) by (eapply ext_noerr; [exact E4|]; eapply ext_noerr; [exact E5 | exact H]).
  destruct (extL_of body HB s3 H4) as [fb Fb].
  assert (E3 : ext s2 s3 ([opDEFBLOCK] ++ uv_enc ti ++ uv_enc ni)).
  { replace ([opDEFBLOCK] ++ uv_enc ti ++ uv_enc ni) with (([opDEFBLOCK] ++ uv_enc ti ++ uv_enc ni) ++ []) by apply app_nil_r.
    eapply ext_trans; [|apply sstep_ext, sstep_begin_scope]. apply extl_ext, extl_estep.
    eapply estep_trans; [apply estep_emit_op|]. eapply estep_trans; apply estep_emit_uvarint. }
  eexists. eapply ext_trans; [apply extl_ext, extl_cstep, A|]. eapply ext_trans; [apply extl_ext, extl_cstep, B|].
  eapply ext_trans; [exact E3|]. eapply ext_trans; [exact Fb|]. eapply ext_trans; [exact E4 | exact E5].
Qed.

Lemma sbind_struct typ sel tg s :
  let s0 := emit_op opBIND s in
  let s1 := snd (ident_const typ s0) in
  let idx := fst (ident_const typ s0) in
  let opt := N.lor (N.land (tgt_code tg) 240) (N.land (sel_code sel) 15) in
  cstmt (SBind typ sel tg) s = write opt (emit_uvarint idx s1) /\
  extl s s0 [opBIND] /\ cstep s0 s1 /\ extl s1 (write opt (emit_uvarint idx s1)) (uv_enc idx ++ [opt]) /\
  (wfs s0 -> nth_opt (rev (consts s1)) (N.to_nat idx) = Some (VStr typ)).
Proof.
  cbv zeta. cbn [cstmt]. destruct (ident_const_spec typ (emit_op opBIND s)) as [A B].
  destruct (ident_const typ (emit_op opBIND s)) as [idx s1]. cbn [fst snd] in *.
  split; [reflexivity|]. split; [apply extl_estep, estep_emit_op|]. split; [exact A|]. split; [|exact B].
  apply extl_estep. eapply estep_trans; [apply estep_emit_uvarint | apply estep_write].
Qed.

Lemma ext_sbind typ sel tg : ExtP (SBind typ sel tg).
Proof.
  intros s H. destruct (sbind_struct typ sel tg s) as (E & F0 & A & F1 & _). cbv zeta in *. rewrite E.
  eexists. apply extl_ext. eapply extl_trans; [exact F0|]. eapply extl_trans; [apply extl_cstep, A | exact F1].
Qed.

Theorem cstmt_ext : forall st, ExtP st.
Proof.
  apply stmt_ind2.
  - apply ext_svar.
  - intros e s H. cbn [cstmt] in *. apply ext_after_expr. exact H.
  - intros e s H. cbn [cstmt] in *. apply ext_after_expr. exact H.
  - intros e s H. cbn [cstmt] in *. apply ext_after_expr. exact H.
  - apply ext_sdef.
  - apply ext_sbind.
Qed.

Lemma cstmts_ext l : ExtL l.
Proof. apply extL_of. apply Forall_forall. intros st _. apply cstmt_ext. Qed.

(* ---------------------------------------------------------------------------------------- *)
(* the simulation relation at statement boundaries                                           *)
(* ---------------------------------------------------------------------------------------- *)
Fixpoint lnames (nms : list (list bytes)) : list (bytes * Z) :=
  match nms with
  | [] => []
  | f :: r => map (fun x => (x, Z.of_nat (length r))) f ++ lnames r
  end.

(* slots agree with names: the compile-time table lists the variables of the scopes of en, innermost
   scope first, each tagged with the depth of its scope; the k-th scope from the outside has depth k *)
Definition SR (s : pst) (en : env) : Prop :=
  locals s = lnames (names en) /\ nlocals s = nlen (flat en) /\ depth s = Z.of_nat (length (oblocks en)) /\
  length (scopes en) = S (length (oblocks en)) /\ nlocals s <= 1024.

Lemma resolve_lnames nms : forall n x, resolve_local (lnames nms) n x = rl (concat nms) n x.
Proof.
  induction nms as [|f r IH]; intros n x; [reflexivity|]. cbn [lnames concat].
  revert n. induction f as [|y f IHf]; intros n; cbn [map app]; [apply IH|].
  cbn [resolve_local rl].
  replace (Z.of_nat (length r) =? -1)%Z with false by (symmetry; apply Z.eqb_neq; lia).
  cbn [negb]. rewrite Bool.andb_true_r. destruct (bytes_eqb x y); [reflexivity|apply IHf].
Qed.

Lemma SR_ER s en : SR s en -> ER s en.
Proof.
  intros (A & B & C & D & E). split; [|split; [exact C | rewrite <- B; exact E]].
  intros x. rewrite A, B. apply resolve_lnames.
Qed.

Lemma ER_var_s1 x s en : SR s en -> nlocals s <> localsMaxSize -> ER (var_s1 x s) en.
Proof.
  intros (A & B & C & D & E) N1. unfold var_s1, ER. psimp. split; [|split; [exact C | rewrite <- B; exact E]].
  intros y. cbn [resolve_local]. change (-1 =? -1)%Z with true. cbn [negb]. rewrite Bool.andb_false_r.
  rewrite N.add_sub, A, B. apply resolve_lnames.
Qed.

Lemma SR_shape s s' en en' :
  lframe s s' -> names en' = names en -> length (oblocks en') = length (oblocks en) -> SR s en -> SR s' en'.
Proof.
  intros (L1 & L2 & L3) N1 N2 (A & B & C & D & E). unfold SR. rewrite L1, L2, L3, N1, N2, (flat_len _ _ N1).
  repeat split; try assumption.
  assert (X : length (scopes en') = length (names en')) by (unfold names; rewrite map_length; reflexivity).
  assert (Y : length (scopes en) = length (names en)) by (unfold names; rewrite map_length; reflexivity).
  rewrite X, N1, <- Y. exact D.
Qed.

Definition bind_ok (st : stmt) : Prop := match st with SBind _ BSall BTstruct => False | _ => True end.
Fixpoint binds_ok (st : stmt) : Prop :=
  match st with
  | SBind _ BSall BTstruct => False
  | SDef _ _ body => (fix go (l : list stmt) : Prop := match l with [] => True | x :: r => binds_ok x /\ go r end) body
  | _ => True
  end.
Definition binds_ok_all (l : list stmt) : Prop := Forall binds_ok l.

Lemma binds_ok_def typ name body : binds_ok (SDef typ name body) <-> Forall binds_ok body.
Proof.
  cbn [binds_ok]. induction body as [|x r IH]; [split; [constructor | exact (fun _ => I)]|].
  split.
  - intros [A B]. constructor; [exact A | apply IH; exact B].
  - intros H. inversion H; subst. split; [assumption | apply IH; assumption].
Qed.

Section StmtSim.
Variable g : prog.
Hypothesis HK : nlen (g_consts g) < 2^64.

Notation cext := (cext g).
Notation Abort := (Abort g).

Definition SOutcome (m : vm) (s' : pst) (p' : N) (n0 : nat) (r : res unit * env) : Prop :=
  match r with
  | (ROk _, en') =>
    (exists m' c', runs g m m' /\ vstate g m' p' (vals en') c' /\ CoreR en' c' /\ SR s' en' /\
                   length (oblocks en') = n0) \/ Limit g m
  | (RErr err, en') => Abort m err en'
  end.

Lemma SOutcome_limit m s' p' n0 r : Limit g m -> SOutcome m s' p' n0 r.
Proof. intros L. destruct r as [[v|e] en']; cbn; [right; exact L | apply Abort_limit; exact L]. Qed.
Lemma SOutcome_runs m m1 s' p' n0 r : runs g m m1 -> SOutcome m1 s' p' n0 r -> SOutcome m s' p' n0 r.
Proof.
  intros R. destruct r as [[v|e] en']; cbn.
  - intros [(m' & c' & A & B)|L].
    + left. exists m', c'. split; [eapply runs_trans; eassumption | exact B].
    + right. eapply Limit_runs; eassumption.
  - apply Abort_runs. exact R.
Qed.
Lemma SOutcome_ok m s' p' n0 u en' m' c' :
  runs g m m' -> vstate g m' p' (vals en') c' -> CoreR en' c' -> SR s' en' -> length (oblocks en') = n0 ->
  SOutcome m s' p' n0 (ROk u, en').
Proof.
  intros A B C D E. left. exists m', c'. split; [exact A|]. split; [exact B|]. split; [exact C |]. split; [exact D | exact E].
Qed.

Definition StmtP (st : stmt) : Prop :=
  forall s fr en m c,
    wfs s -> hadError (cstmt st s) = false -> emits s (cstmt st s) fr -> frag_at g (ncode s) fr ->
    cext (cstmt st s) -> SR s en -> binds_ok st -> vstate g m (ncode s) (vals en) c -> CoreR en c ->
    SOutcome m (cstmt st s) (ncode s + nlen fr) (length (oblocks en)) (exec st en).

Definition ListP (l : list stmt) : Prop :=
  forall s fr en m c,
    wfs s -> hadError (cstmts l s) = false -> emits s (cstmts l s) fr -> frag_at g (ncode s) fr ->
    cext (cstmts l s) -> SR s en -> Forall binds_ok l -> vstate g m (ncode s) (vals en) c -> CoreR en c ->
    SOutcome m (cstmts l s) (ncode s + nlen fr) (length (oblocks en)) (exec_all l en).

Lemma cext_ext s s' fr : ext s s' fr -> cext s' -> cext s.
Proof. intros (_ & E & _). apply cext_back. exact E. Qed.
Lemma ext_wfs s s' fr : ext s s' fr -> wfs s -> wfs s'.
Proof. intros (_ & _ & _ & E). exact E. Qed.
Lemma ext_emits s s' fr : ext s s' fr -> emits s s' fr.
Proof. intros (E & _). exact E. Qed.
Lemma ext_ncode s s' fr : ext s s' fr -> ncode s' = ncode s + nlen fr.
Proof. intros ((_ & E) & _). exact E. Qed.

Lemma listP_of l : Forall StmtP l -> ListP l.
Proof.
  induction 1 as [|x r Hx _ IH]; intros s fr en m c W H Em Ff Cx Sr Bk St Cr.
  - cbn [cstmts fold_left exec_all] in *. rewrite (emits_inj _ _ _ _ Em (emits_refl s)).
    eapply SOutcome_ok; [apply runs_refl | | exact Cr | exact Sr | reflexivity]. eapply vstate_pos; [exact St|]. cbn. lia.
  - rewrite cstmts_cons in *. cbn [exec_all]. inversion Bk as [|? ? Bx Br]; subst.
    destruct (cstmts_ext r _ H) as [f2 F2].
    pose proof (ext_noerr _ _ _ F2 H) as H1. destruct (cstmt_ext x s H1) as [f1 F1].
    rewrite (emits_inj _ _ _ _ Em (ext_emits _ _ _ (ext_trans _ _ _ _ _ F1 F2))) in *.
    destruct (frag_at_app g _ _ _ Ff) as [Ff1 Ff2].
    pose proof (Hx s f1 en m c W H1 (ext_emits _ _ _ F1) Ff1 (cext_ext _ _ _ F2 Cx) Sr Bx St Cr) as O.
    destruct (exec x en) as [[u|err] en1]; [|exact O].
    destruct O as [(m1 & c1 & R1 & S1 & C1 & Sr1 & Ln1)|L]; [|apply SOutcome_limit; exact L].
    eapply SOutcome_runs; [exact R1|]. rewrite <- Ln1.
    pose proof (ext_ncode _ _ _ F1) as N1. rewrite <- N1 in Ff2, S1.
    pose proof (IH (cstmt x s) f2 en1 m1 c1 (ext_wfs _ _ _ F1 W) H (ext_emits _ _ _ F2) Ff2 Cx Sr1 Br S1 C1) as O2.
    replace (ncode s + nlen (f1 ++ f2)) with (ncode (cstmt x s) + nlen f2) by (rewrite nlen_app; lia).
    exact O2.
Qed.

(* an expression at statement level: no temporaries *)
Lemma expr_stmt e s fr en m c :
  wfs s -> hadError (cexpr e s) = false -> emits s (cexpr e s) fr -> frag_at g (ncode s) fr ->
  cext (cexpr e s) -> ER s en -> vstate g m (ncode s) (vals en) c -> CoreR en c ->
  Outcome g m (ncode s + nlen fr) [] (eval e en).
Proof. intros. eapply (expr_sim g HK e s fr en [] m c); eassumption. Qed.


(* ---- print / eval / bare expression ---- *)
Lemma lframe_ext_expr e op s : hadError (emit_op op (cexpr e s)) = false -> lframe s (emit_op op (cexpr e s)).
Proof.
  intros H. pose proof (extl_estep _ _ _ (estep_emit_op op (cexpr e s))) as E.
  destruct (cexpr_extl e s (extl_noerr _ _ _ E H)) as [fr F].
  eapply lframe_trans; [eapply extl_lframe; exact F | eapply extl_lframe; exact E].
Qed.

Lemma sim_sprint e : StmtP (SPrint e).
Proof.
  intros s fr en m c W H Em Ff Cx Sr Bk St Cr. cbn [cstmt exec] in *.
  pose proof (extl_estep _ _ _ (estep_emit_op opPRINT (cexpr e s))) as E1.
  assert (He : hadError (cexpr e s) = false) by (eapply extl_noerr; eassumption).
  destruct (cexpr_extl e s He) as [fe Fe].
  rewrite (emits_inj _ _ _ _ Em (extl_emits _ _ _ (extl_trans _ _ _ _ _ Fe E1))) in *. clear Em.
  destruct (frag_at_app g _ _ _ Ff) as [Ffe Fop].
  pose proof (expr_stmt e s fe en m c W He (extl_emits _ _ _ Fe) Ffe (cext_extl g _ _ _ E1 Cx) (SR_ER _ _ Sr) St Cr) as O.
  pose proof (eval_shape e en) as Sh.
  destruct (eval e en) as [[v|err] en1]; [|exact O]. cbn [snd] in Sh.
  destruct O as [(m1 & c1 & R1 & S1 & C1)|L]; [|apply SOutcome_limit; exact L]. cbn [app] in S1.
  destruct (i_print g m1 _ v _ c1 S1 Fop) as (m2 & R2 & S2).
  eapply SOutcome_ok; [eapply runs_trans; eassumption | | | | destruct Sh as (_ & N2 & _); exact N2].
  - eapply vstate_pos; [exact S2|]. rewrite nlen_app. change (nlen [opPRINT]) with 1. lia.
  - destruct C1 as (K1 & K2 & K3 & K4 & K5 & K6). unfold CoreR, ObsR, with_out.
    cbn [c_bstack c_btos c_result c_bind c_out c_warn scopes oblocks results binding_ output warnings map].
    rewrite K5. repeat split; assumption.
  - destruct Sh as (N1 & N2 & _). eapply SR_shape; [apply lframe_ext_expr; exact H | exact N1 | exact N2 | exact Sr].
Qed.

Lemma sim_pop_stmt e s fr en m c :
  wfs s -> hadError (emit_op opPOP (cexpr e s)) = false -> emits s (emit_op opPOP (cexpr e s)) fr ->
  frag_at g (ncode s) fr -> cext (emit_op opPOP (cexpr e s)) -> SR s en ->
  vstate g m (ncode s) (vals en) c -> CoreR en c ->
  SOutcome m (emit_op opPOP (cexpr e s)) (ncode s + nlen fr) (length (oblocks en))
           (match eval e en with (ROk _, en1) => (ROk tt, en1) | (RErr x, en1) => (RErr x, en1) end).
Proof.
  intros W H Em Ff Cx Sr St Cr.
  pose proof (extl_estep _ _ _ (estep_emit_op opPOP (cexpr e s))) as E1.
  assert (He : hadError (cexpr e s) = false) by (eapply extl_noerr; eassumption).
  destruct (cexpr_extl e s He) as [fe Fe].
  rewrite (emits_inj _ _ _ _ Em (extl_emits _ _ _ (extl_trans _ _ _ _ _ Fe E1))) in *. clear Em.
  destruct (frag_at_app g _ _ _ Ff) as [Ffe Fop].
  pose proof (expr_stmt e s fe en m c W He (extl_emits _ _ _ Fe) Ffe (cext_extl g _ _ _ E1 Cx) (SR_ER _ _ Sr) St Cr) as O.
  pose proof (eval_shape e en) as Sh.
  destruct (eval e en) as [[v|err] en1]; [|exact O]. cbn [snd] in Sh.
  destruct O as [(m1 & c1 & R1 & S1 & C1)|L]; [|apply SOutcome_limit; exact L]. cbn [app] in S1.
  destruct (i_pop g m1 _ v _ c1 S1 Fop) as (m2 & R2 & S2).
  eapply SOutcome_ok; [eapply runs_trans; eassumption | | exact C1 | | destruct Sh as (_ & N2 & _); exact N2].
  - eapply vstate_pos; [exact S2|]. rewrite nlen_app. change (nlen [opPOP]) with 1. lia.
  - destruct Sh as (N1 & N2 & _). eapply SR_shape; [apply lframe_ext_expr; exact H | exact N1 | exact N2 | exact Sr].
Qed.

Lemma sim_seval e : StmtP (SEval e).
Proof. intros s fr en m c W H Em Ff Cx Sr Bk St Cr. cbn [cstmt exec] in *. eapply sim_pop_stmt; eassumption. Qed.
Lemma sim_sexpr e : StmtP (SExpr e).
Proof. intros s fr en m c W H Em Ff Cx Sr Bk St Cr. cbn [cstmt exec] in *. eapply sim_pop_stmt; eassumption. Qed.

(* ---- var ---- *)
Lemma decl_scan_cur x cur rest d s : (0 <= d)%Z ->
  hadError (decl_scan (map (fun y => (y, d)) (map fst cur) ++ rest) x d s) = false -> fields_get x cur = None.
Proof.
  intros Hd. revert s. induction cur as [|[k w] cur IH]; intros s H; [reflexivity|].
  cbn [map fst app decl_scan fields_get] in *.
  replace (d =? -1)%Z with false in H by (symmetry; apply Z.eqb_neq; lia).
  rewrite Z.ltb_irrefl in H. cbn [negb andb] in H.
  destruct (bytes_eqb x k).
  - rewrite decl_scan_err in H by reflexivity. discriminate H.
  - eapply IH. exact H.
Qed.

Lemma sim_svar_some x e : StmtP (SVar x (Some e)).
Proof.
  intros s fr en m c W H Em Ff Cx Sr Bk St Cr.
  destruct (svar_struct x (Some e) s H) as (E0 & N1 & HI & E). rewrite E in *. clear E.
  cbn [var_sI] in *. cbn [exec].
  destruct (cexpr_extl e _ HI) as [fi Fi].
  pose proof (sstep_ext _ _ (sstep_var_s1 x s)) as X1.
  pose proof (sstep_ext _ _ (sstep_def_var (cexpr e (var_s1 x s)))) as X2.
  pose proof (ext_trans _ _ _ _ _ X1 (ext_trans _ _ _ _ _ (extl_ext _ _ _ Fi) X2)) as X.
  cbn [app] in X. rewrite app_nil_r in X.
  rewrite (emits_inj _ _ _ _ Em (ext_emits _ _ _ X)) in *. clear Em.
  pose proof Sr as (A & B & C & D & F).
  destruct (scopes en) as [|cur outer] eqn:Es; [discriminate D|].
  assert (Hcur : fields_get x cur = None).
  { assert (Hs : hadError (decl_scan (locals s) x (depth s) s) = false) by (rewrite E0; eapply ext_noerr; [exact X|exact H]).
    rewrite A in Hs. unfold names in Hs. rewrite Es in Hs. cbn [map lnames] in Hs.
    rewrite C in Hs. cbn [length] in D. rewrite map_length in Hs.
    unfold frame in *. assert (Hlen : length outer = length (oblocks en)) by lia. rewrite Hlen in Hs.
    eapply decl_scan_cur; [|exact Hs]. lia. }
  rewrite Hcur.
  assert (Er : ER (var_s1 x s) en) by (apply ER_var_s1; assumption).
  pose proof (expr_stmt e (var_s1 x s) fi en m c (ext_wfs _ _ _ X1 W) HI (extl_emits _ _ _ Fi) Ff
                        (cext_ext _ _ _ X2 Cx) Er St Cr) as O.
  pose proof (eval_shape e en) as Sh.
  destruct (eval e en) as [[v|err] en1]; [|exact O]. cbn [snd] in Sh.
  destruct O as [(m1 & c1 & R1 & S1 & C1)|L]; [|apply SOutcome_limit; exact L]. cbn [app] in S1.
  destruct Sh as (Sn & So & _).
  destruct (scopes en1) as [|cur1 outer1] eqn:Es1.
  { unfold names in Sn. rewrite Es, Es1 in Sn. discriminate Sn. }
  unfold frame in *.
  eapply SOutcome_ok; [exact R1 | | exact C1 | | exact So].
  - unfold vals, flat, set_scopes. cbn [scopes concat app map snd].
    unfold vals, flat in S1. rewrite Es1 in S1. cbn [concat] in S1. exact S1.
  - (* the scope tables after markInitialized *)
    destruct (extl_lframe _ _ _ Fi) as (L1 & L2 & L3).
    assert (Hdv : def_var (cexpr e (var_s1 x s)) = cexpr e (var_s1 x s) <| locals := (x, depth s) :: locals s |>).
    { unfold def_var. rewrite L1, L3. reflexivity. }
    rewrite Hdv. unfold SR. psimp. rewrite L2, L3.
    change (nlocals (var_s1 x s)) with (nlocals s + 1). change (depth (var_s1 x s)) with (depth s).
    unfold names, flat, set_scopes. cbn [scopes oblocks map concat lnames app fst].
    assert (Hn : map (map fst) (cur1 :: outer1) = map (map fst) (cur :: outer)).
    { unfold names in Sn. rewrite Es, Es1 in Sn. exact Sn. }
    cbn [map] in Hn. inversion Hn as [[Hn1 Hn2]].
    split.
    + rewrite A. unfold names. rewrite Es. cbn [map lnames]. rewrite Hn1, Hn2, !map_length.
      f_equal. f_equal. rewrite C. cbn [length] in D. f_equal.
      apply (f_equal (@length _)) in Hn2. rewrite !map_length in Hn2. lia.
    + split; [|split; [rewrite So; exact C | split; [|]]].
      * rewrite B. pose proof (flat_len en en1 Sn) as FL. unfold flat in FL. rewrite Es, Es1 in FL. cbn [concat] in FL.
        unfold flat. rewrite Es. cbn [concat]. unfold nlen in *. cbn [length app]. lia.
      * rewrite So. cbn [length] in *. apply (f_equal (@length _)) in Hn2. rewrite !map_length in Hn2. unfold frame in *. lia.
      * unfold localsMaxSize in N1. lia.
Qed.

Lemma cstmt_var_none x s : cstmt (SVar x None) s = cstmt (SVar x (Some (ELit VNil))) s.
Proof. cbn [cstmt cexpr clit]. reflexivity. Qed.
Lemma exec_var_none x en : exec (SVar x None) en = exec (SVar x (Some (ELit VNil))) en.
Proof. cbn [exec eval]. reflexivity. Qed.

Lemma sim_svar x init : StmtP (SVar x init).
Proof.
  destruct init as [e|]; [apply sim_svar_some|].
  intros s fr en m c W H Em Ff Cx Sr Bk St Cr.
  rewrite cstmt_var_none in *. rewrite exec_var_none.
  exact (sim_svar_some x (ELit VNil) s fr en m c W H Em Ff Cx Sr I St Cr).
Qed.


(* ---- bind ---- *)
Lemma opt_dec sel tg :
  VmSpecProofs.sel_of (N.lor (N.land (tgt_code tg) 240) (N.land (sel_code sel) 15)) = Some (AstSem.sel_of sel) /\
  VmSpecProofs.tgt_of (N.lor (N.land (tgt_code tg) 240) (N.land (sel_code sel) 15)) = Some (AstSem.tgt_of tg).
Proof. destruct sel, tg; split; reflexivity. Qed.

Lemma warned_len b c pos w :
  bind_rel b (c_bind c) -> nlen (c_warn c) = w ->
  nlen (warned c pos) = match b with Some _ => w + 1 | None => w end.
Proof.
  unfold warned, bind_rel. intros H E. destruct b as [[x|l| | |]|], (c_bind c); try contradiction; try exact E.
  all: rewrite nlen_cons', E; reflexivity.
Qed.

Lemma sim_sbind typ sel tg : StmtP (SBind typ sel tg).
Proof.
  intros s fr en m c W H Em Ff Cx Sr Bk St Cr.
  destruct (sbind_struct typ sel tg s) as (E & F0 & A & F1 & B). cbv zeta in *.
  set (s0 := emit_op opBIND s) in *. set (s1 := snd (ident_const typ s0)) in *.
  set (idx := fst (ident_const typ s0)) in *.
  set (opt := N.lor (N.land (tgt_code tg) 240) (N.land (sel_code sel) 15)) in *.
  rewrite E in *. clear E.
  pose proof (extl_trans _ _ _ _ _ F0 (extl_trans _ _ _ _ _ (extl_cstep _ _ A) F1)) as F. cbn [app] in F.
  rewrite (emits_inj _ _ _ _ Em (extl_emits _ _ _ F)) in *. clear Em.
  destruct (get_const_ext g HK s1 idx (VStr typ) (cext_extl g _ _ _ F1 Cx) (B (extl_wfs _ _ _ F0 W))) as [G Bd].
  destruct (opt_dec sel tg) as [Hs Ht]. fold opt in Hs, Ht.
  pose proof (i_bind g m _ _ c idx typ opt _ _ St Ff Bd G Hs Ht) as I. cbv zeta in I.
  destruct Cr as (K1 & K2 & K3 & K4 & K5 & K6).
  rewrite C04_matching_blocks_spec, K3 in I.
  cbn [exec]. cbv zeta.
  change (fun b : value => match b with VBlock t _ _ => bytes_eqb t typ | _ => false end) with (block_of_type typ).
  pose proof (select_invalid_iff (AstSem.sel_of sel) (AstSem.tgt_of tg) (filter (block_of_type typ) (rev (results en)))) as Inv.
  pose proof (warned_len _ c (pos_at g (ncode s + 1)) _ K4 K6) as WL.
  assert (LF : lframe s (write opt (emit_uvarint idx s1))) by (eapply extl_lframe; exact F).
  assert (Pos : ncode s + 1 + nlen (uv_enc idx) + 1 = ncode s + nlen (opBIND :: uv_enc idx ++ [opt])).
  { rewrite nlen_cons', nlen_app. change (nlen [opt]) with 1. lia. }
  destruct (select (AstSem.sel_of sel) (AstSem.tgt_of tg) (filter (block_of_type typ) (rev (results en)))) as [b|l| |k|].
  - destruct I as (m' & R & S). eapply SOutcome_ok; [exact R | | | | reflexivity].
    + eapply vstate_pos; [exact S | exact Pos].
    + unfold CoreR, ObsR, with_bind.
      cbn [c_bstack c_btos c_result c_bind c_out c_warn scopes oblocks results binding_ output warnings bind_rel].
      repeat split; try assumption.
    + eapply SR_shape; [exact LF | reflexivity | reflexivity | exact Sr].
  - destruct I as (m' & R & S). eapply SOutcome_ok; [exact R | | | | reflexivity].
    + eapply vstate_pos; [exact S | exact Pos].
    + unfold CoreR, ObsR, with_bind.
      cbn [c_bstack c_btos c_result c_bind c_out c_warn scopes oblocks results binding_ output warnings bind_rel].
      repeat split; try assumption.
    + eapply SR_shape; [exact LF | reflexivity | reflexivity | exact Sr].
  - destruct I as (mf & pos & Ab & Co). exists mf, (VErr pos (bs "bind: no blocks of type " ++ typ)).
    split; [exact Ab|]. right. split; [exists pos; reflexivity|]. rewrite Co. unfold ObsR, with_bind.
    cbn [c_bstack c_btos c_result c_bind c_out c_warn scopes oblocks results binding_ output warnings].
    repeat split; assumption.
  - destruct I as (mf & pos & Ab & Co).
    exists mf, (VErr pos (bs "bind: found " ++ dec_of_N k ++ bs " blocks of type " ++ typ ++ bs " but expected just 1")).
    split; [exact Ab|]. right. split; [exists pos; reflexivity|]. rewrite Co. unfold ObsR, with_bind.
    cbn [c_bstack c_btos c_result c_bind c_out c_warn scopes oblocks results binding_ output warnings].
    repeat split; assumption.
  - exfalso. destruct Inv as [Inv _]. destruct (Inv eq_refl) as (_ & Is & It).
    destruct sel; try discriminate Is. destruct tg; try discriminate It. exact Bk.
Qed.


(* ---- def ---- *)
Lemma lnames_hd nms : match lnames nms with [] => True | (_, t) :: _ => (t < Z.of_nat (length nms))%Z end.
Proof.
  induction nms as [|f r IH]; [exact I|]. cbn [lnames length]. destruct f as [|y f]; cbn [map app].
  - destruct (lnames r) as [|[nm t] l]; [exact I|]. lia.
  - lia.
Qed.

Lemma drop_locals_spec (f : list bytes) d rest : forall n,
  match rest with [] => True | (_, t) :: _ => (t <= d - 1)%Z end ->
  drop_locals (map (fun y => (y, d)) f ++ rest) (d - 1) n = (rest, n + nlen f).
Proof.
  induction f as [|y f IH]; intros n Hr; cbn [map app].
  - change (nlen []) with 0. rewrite N.add_0_r. destruct rest as [|[nm t] r]; [reflexivity|]. cbn [drop_locals].
    replace (d - 1 <? t)%Z with false by (symmetry; apply Z.ltb_ge; exact Hr). reflexivity.
  - cbn [drop_locals]. replace (d - 1 <? d)%Z with true by (symmetry; apply Z.ltb_lt; lia).
    rewrite IH by exact Hr. rewrite nlen_cons'. f_equal. lia.
Qed.

(* popping the variables of the scope that ends *)
Lemma sim_pop_code m p (a b : list value) c :
  vstate g m p (a ++ b) c -> frag_at g p (pop_code (nlen a)) -> nlen a < 2^64 ->
  exists m', runs g m m' /\ vstate g m' (p + nlen (pop_code (nlen a))) b c.
Proof.
  intros St Ff Hb. unfold pop_code in *.
  destruct (nlen a =? 0) eqn:E0.
  - apply N.eqb_eq in E0. destruct a; [|unfold nlen in E0; cbn [length] in E0; lia].
    exists m. split; [apply runs_refl|]. eapply vstate_pos; [exact St|]. cbn. lia.
  - destruct (nlen a =? 1) eqn:E1.
    + apply N.eqb_eq in E1. destruct a as [|v [|w a]]; try (unfold nlen in E1; cbn [length] in E1; lia).
      cbn [app] in St. destruct (i_pop g m _ v _ c St Ff) as (m' & R & S). exists m'. split; [exact R|].
      eapply vstate_pos; [exact S|]. reflexivity.
    + destruct (i_popn g m _ _ c (nlen a) St Ff) as (m' & R & S).
      * rewrite nlen_app. lia.
      * exact Hb.
      * exists m'. split; [exact R|].
        replace (N.to_nat (nlen a)) with (length a) in S by (unfold nlen; lia).
        rewrite skipn_app, skipn_all, Nat.sub_diag in S. cbn [skipn app] in S.
        eapply vstate_pos; [exact S|]. rewrite nlen_cons'. lia.
Qed.


Lemma sim_sdef typ name body : Forall StmtP body -> StmtP (SDef typ name body).
Proof.
  intros HB s fr en m c W H Em Ff Cx Sr Bk St Cr.
  apply binds_ok_def in Bk.
  rewrite cstmt_def in *. rewrite exec_def.
  destruct (ident_const_spec typ s) as [A A']. destruct (ident_const typ s) as [ti s1]. cbn [fst snd] in A, A'.
  destruct (make_const_spec (VStr name) s1) as [B B']. destruct (make_const (VStr name) s1) as [ni s2]. cbn [fst snd] in B, B'.
  cbv zeta in *.
  set (sd := emit_uvarint ni (emit_uvarint ti (emit_op opDEFBLOCK s2))) in *.
  set (s3 := begin_scope sd) in *. set (s4 := cstmts body s3) in *. set (s5 := end_scope s4) in *.
  (* the compile-time chain *)
  pose proof (extl_estep _ _ _ (estep_emit_op opENDBLOCK s5)) as E5.
  pose proof (end_scope_ext s4) as E4. fold s5 in E4.
  set (npop := snd (drop_locals (locals s4) (depth s4 - 1) 0)) in *.
  assert (H4 : hadError s4 = false) by (eapply ext_noerr; [exact E4|]; eapply extl_noerr; [exact E5 | exact H]).
  destruct (cstmts_ext body s3 H4) as [fb Fb]. fold s4 in Fb.
  assert (Ed : estep s2 sd ([opDEFBLOCK] ++ uv_enc ti ++ uv_enc ni)).
  { eapply estep_trans; [apply estep_emit_op|]. eapply estep_trans; apply estep_emit_uvarint. }
  pose proof (extl_estep _ _ _ Ed) as Fd.
  pose proof (sstep_ext _ _ (sstep_begin_scope sd)) as E3. fold s3 in E3.
  pose proof (extl_cstep _ _ A) as FA. pose proof (extl_cstep _ _ B) as FB.
  pose proof (ext_trans _ _ _ _ _ (extl_ext _ _ _ FA) (ext_trans _ _ _ _ _ (extl_ext _ _ _ FB)
              (ext_trans _ _ _ _ _ (extl_ext _ _ _ Fd) (ext_trans _ _ _ _ _ E3 (ext_trans _ _ _ _ _ Fb
              (ext_trans _ _ _ _ _ E4 (extl_ext _ _ _ E5))))))) as F.
  cbn [app] in F.
  rewrite (emits_inj _ _ _ _ Em (ext_emits _ _ _ F)) in *. clear Em.
  (* positions *)
  pose proof (extl_ncode _ _ _ FA) as NA. pose proof (extl_ncode _ _ _ FB) as NB.
  change (nlen []) with 0 in NA, NB. rewrite N.add_0_r in NA, NB.
  pose proof (extl_ncode _ _ _ Fd) as Nd. pose proof (ext_ncode _ _ _ E3) as N3.
  change (nlen []) with 0 in N3. rewrite N.add_0_r in N3.
  pose proof (ext_ncode _ _ _ Fb) as N4. pose proof (ext_ncode _ _ _ E4) as N5.
  (* fragments *)
  change (opDEFBLOCK :: (uv_enc ti ++ uv_enc ni) ++ fb ++ pop_code npop ++ [opENDBLOCK])
    with ((opDEFBLOCK :: uv_enc ti ++ uv_enc ni) ++ fb ++ pop_code npop ++ [opENDBLOCK]) in Ff.
  destruct (frag_at_app g _ _ _ Ff) as [Ffd Ff1].
  destruct (frag_at_app g _ _ _ Ff1) as [Ffb Ff2].
  destruct (frag_at_app g _ _ _ Ff2) as [Ffp Ffe].
  (* constants *)
  pose proof (cext_extl g _ _ _ E5 Cx) as Cx5. pose proof (cext_ext _ _ _ E4 Cx5) as Cx4.
  pose proof (cext_ext _ _ _ Fb Cx4) as Cx3. pose proof (cext_ext _ _ _ E3 Cx3) as Cxd.
  pose proof (cext_extl g _ _ _ Fd Cxd) as Cx2. pose proof (cext_extl g _ _ _ FB Cx2) as Cx1.
  destruct (get_const_ext g HK s1 ti (VStr typ) Cx1 (A' W)) as [Gt Bt].
  destruct (get_const_ext g HK s2 ni (VStr name) Cx2 (B' (extl_wfs _ _ _ FA W))) as [Gn Bn].
  (* DEFBLOCK *)
  destruct (i_defblock g m _ _ c ti ni typ name St Ffd Bt Bn Gt Gn) as [(m1 & R1 & S1)|L];
    [|apply SOutcome_limit; exact L].
  eapply SOutcome_runs; [exact R1|].
  set (en0 := mkEnv ([] :: scopes en) ({| ob_typ := typ; ob_name := name; ob_fields := [] |} :: oblocks en)
                    (results en) (binding_ en) (output en) (warnings en)) in *.
  set (c0 := with_bstack c (VBlock typ name [] :: c_bstack c) (c_btos c + 1)) in *.
  (* the state the body starts in *)
  pose proof Sr as (R1' & R2' & R3' & R4' & R5').
  assert (LF3 : locals s3 = locals s /\ nlocals s3 = nlocals s /\ depth s3 = (depth s + 1)%Z).
  { destruct (extl_lframe _ _ _ (extl_trans _ _ _ _ _ FA (extl_trans _ _ _ _ _ FB Fd))) as (L1 & L2 & L3).
    unfold s3, begin_scope. psimp. rewrite L1, L2, L3. repeat split. }
  destruct LF3 as (L31 & L32 & L33).
  assert (Sr3 : SR s3 en0).
  { unfold SR. rewrite L31, L32, L33. unfold en0, names, flat. cbn [scopes oblocks map concat lnames app length].
    repeat split; try assumption; try lia. }
  assert (C0 : CoreR en0 c0).
  { destruct Cr as (K1 & K2 & K3). unfold CoreR, ObsR, c0, en0, with_bstack in *.
    cbn [c_bstack c_btos c_result c_bind c_out c_warn scopes oblocks results binding_ output warnings map].
    unfold blk at 1. cbn [ob_typ ob_name ob_fields]. rewrite K1, K2.
    split; [reflexivity|]. split; [unfold nlen; cbn [length]; lia | exact K3]. }
  assert (W3 : wfs s3).
  { eapply ext_wfs; [exact E3|]. eapply extl_wfs; [exact Fd|]. eapply extl_wfs; [exact FB|]. eapply extl_wfs; [exact FA | exact W]. }
  assert (P3 : ncode s + 1 + nlen (uv_enc ti) + nlen (uv_enc ni) = ncode s3).
  { rewrite N3, Nd, NB, NA. rewrite nlen_app, nlen_app. change (nlen [opDEFBLOCK]) with 1. lia. }
  rewrite P3 in S1.
  assert (Ffb' : frag_at g (ncode s3) fb).
  { replace (ncode s3) with (ncode s + nlen (opDEFBLOCK :: uv_enc ti ++ uv_enc ni)); [exact Ffb|].
    rewrite <- P3, nlen_cons', nlen_app. lia. }
  pose proof (listP_of body HB s3 fb en0 m1 c0 W3 H4 (ext_emits _ _ _ Fb) Ffb' Cx4 Sr3 Bk S1 C0) as O.
  fold s4 in O.
  destruct (exec_all body en0) as [[u|err] en1]; [|exact O].
  destruct O as [(m2 & c2 & R2 & S2 & C2 & Sr4 & Ln4)|L]; [|apply SOutcome_limit; exact L].
  eapply SOutcome_runs; [exact R2|]. rewrite <- N4 in S2.
  (* the shape of the environment after the body *)
  pose proof Sr4 as (Q1 & Q2 & Q3 & Q4 & Q5).
  unfold en0 in Ln4. cbn [oblocks length] in Ln4.
  destruct (oblocks en1) as [|b up] eqn:Eo1; [discriminate Ln4|]. cbn [length] in Ln4, Q3, Q4.
  destruct (scopes en1) as [|f outer] eqn:Es1; [discriminate Q4|]. cbn [length] in Q4.
  unfold frame in *.
  assert (Ho : length outer = S (length up)) by lia.
  (* endScope *)
  assert (Hdrop : drop_locals (locals s4) (depth s4 - 1) 0 = (lnames (map (map fst) outer), nlen f)).
  { rewrite Q1. unfold names. rewrite Es1. cbn [map lnames]. rewrite map_length.
    replace (depth s4) with (Z.of_nat (length outer)) by (rewrite Q3; lia).
    rewrite drop_locals_spec.
    - f_equal. unfold nlen. rewrite map_length. lia.
    - pose proof (lnames_hd (map (map fst) outer)) as Hh. rewrite map_length in Hh.
      destruct (lnames (map (map fst) outer)) as [|[nm t] l]; [exact I|]. lia. }
  assert (Hn : npop = nlen f) by (unfold npop; rewrite Hdrop; reflexivity).
  rewrite Hn in *.
  assert (Hvals : vals en1 = map snd f ++ map snd (concat outer)).
  { unfold vals, flat. rewrite Es1. cbn [concat]. apply map_app. }
  rewrite Hvals in S2.
  assert (Ffp' : frag_at g (ncode s4) (pop_code (nlen (map snd f)))).
  { replace (nlen (map snd f)) with (nlen f) by (unfold nlen; rewrite map_length; reflexivity).
    replace (ncode s4) with (ncode s + nlen (opDEFBLOCK :: uv_enc ti ++ uv_enc ni) + nlen fb); [exact Ffp|].
    rewrite N4, <- P3, nlen_cons', nlen_app. lia. }
  assert (Hf64 : nlen (map snd f) < 2^64).
  { unfold flat in Q2. rewrite Es1 in Q2. cbn [concat] in Q2. rewrite nlen_app in Q2.
    unfold nlen in *. rewrite map_length. lia. }
  destruct (sim_pop_code m2 _ _ _ c2 S2 Ffp' Hf64) as (m3 & R3 & S3).
  eapply SOutcome_runs; [exact R3|].
  replace (nlen (map snd f)) with (nlen f) in S3 by (unfold nlen; rewrite map_length; reflexivity).
  rewrite <- N5 in S3.
  assert (Ffe' : frag_at g (ncode s5) [opENDBLOCK]).
  { replace (ncode s5) with (ncode s + nlen (opDEFBLOCK :: uv_enc ti ++ uv_enc ni) + nlen fb + nlen (pop_code (nlen f))); [exact Ffe|].
    rewrite N5, N4, <- P3, nlen_cons', nlen_app. lia. }
  (* the scope tables after endScope *)
  assert (LF5 : lframe s5 (emit_op opENDBLOCK s5)) by (eapply extl_lframe; exact E5).
  assert (S5 : locals s5 = lnames (map (map fst) outer) /\ nlocals s5 = nlocals s4 - nlen f /\ depth s5 = (depth s4 - 1)%Z).
  { unfold s5. rewrite end_scope_eq. rewrite Hdrop. cbn [fst snd].
    destruct (estep_pop_n (nlen f) (s4 <| depth := (depth s4 - 1)%Z |> <| locals := lnames (map (map fst) outer) |>
                                       <| nlocals := nlocals s4 - nlen f |>)) as (_ & _ & _ & _ & _ & (X1 & X2 & X3)).
    rewrite X1, X2, X3. psimp. repeat split. }
  destruct S5 as (S51 & S52 & S53).
  destruct LF5 as (L51 & L52 & L53).
  assert (Pend : ncode s5 + 1 =
                 ncode s + nlen (opDEFBLOCK :: (uv_enc ti ++ uv_enc ni) ++ fb ++ pop_code (nlen f) ++ [opENDBLOCK])).
  { rewrite N5, N4, <- P3, nlen_cons', !nlen_app. change (nlen [opENDBLOCK]) with 1. lia. }
  assert (Hflat : nlen (concat outer) = nlocals s4 - nlen f).
  { rewrite Q2. unfold flat. rewrite Es1. cbn [concat]. rewrite nlen_app. lia. }
  destruct C2 as (K1 & K2 & K3). rewrite Eo1 in K1, K2. cbn [map] in K1. unfold blk at 1 in K1.
  destruct up as [|parent up'].
  - (* a toplevel block *)
    destruct (i_endblock_top g m3 _ _ c2 _ _ _ S3 Ffe' K1) as (m4 & R4 & S4).
    eapply SOutcome_ok; [exact R4 | | | |].
    + eapply vstate_pos; [exact S4 | exact Pend].
    + destruct K3 as (O1 & O2 & O3 & O4). unfold CoreR, ObsR, with_result.
      cbn [c_bstack c_btos c_result c_bind c_out c_warn scopes oblocks results binding_ output warnings map].
      rewrite O1. repeat split; assumption.
    + unfold SR. rewrite L51, L52, L53, S51, S52, S53. unfold names, flat.
      cbn [scopes oblocks length] in *. repeat split; try assumption; try lia.
    + cbn [oblocks length] in *. lia.
  - (* a nested block *)
    cbn [map] in K1. unfold blk at 1 in K1.
    pose proof (i_endblock_nested g m3 _ _ c2 _ _ _ _ _ _ _ S3 Ffe' K1) as I.
    destruct (fields_get (block_key (ob_typ b) (ob_name b)) (ob_fields parent)) as [w|].
    + destruct I as (mf & pos & Ab & Co).
      exists mf, (VErr pos (bs "child " ++ block_key (ob_typ b) (ob_name b) ++ bs " duplicate at parent")).
      split; [exact Ab|]. right. split; [exists pos; reflexivity|]. rewrite Co. exact K3.
    + destruct I as (m4 & R4 & S4).
      eapply SOutcome_ok; [exact R4 | | | |].
      * eapply vstate_pos; [exact S4 | exact Pend].
      * unfold CoreR, ObsR, with_bstack in *.
        cbn [c_bstack c_btos c_result c_bind c_out c_warn scopes oblocks results binding_ output warnings map].
        unfold blk at 1. cbn [ob_typ ob_name ob_fields].
        split; [reflexivity|]. split; [rewrite K2; unfold nlen; cbn [length]; lia | exact K3].
      * unfold SR. rewrite L51, L52, L53, S51, S52, S53. unfold names, flat.
        cbn [scopes oblocks length] in *. repeat split; try assumption; try lia.
      * cbn [oblocks length] in *. lia.
Qed.


Theorem stmt_sim : forall st, StmtP st.
Proof.
  apply stmt_ind2.
  - apply sim_svar.
  - apply sim_seval.
  - apply sim_sprint.
  - apply sim_sexpr.
  - apply sim_sdef.
  - apply sim_sbind.
Qed.

Theorem stmts_sim : forall l, ListP l.
Proof. intros l. apply listP_of. apply Forall_forall. intros st _. apply stmt_sim. Qed.

End StmtSim.

(* ---------------------------------------------------------------------------------------- *)
(* whole programs                                                                            *)
(* ---------------------------------------------------------------------------------------- *)
Definition res_match (sr : res unit) (r : vres) : Prop :=
  match sr with ROk _ => r = VOk | RErr e => err_res e r end.

Definition binding_match (b : option sel_res) (v : binding) : Prop :=
  match b with
  | None => v = BNone
  | Some (SStruct x) => v = BStruct x
  | Some (SSlice l) => v = BSlice l
  | Some _ => False
  end.

Lemma bind_rel_match b v : bind_rel b v -> binding_match b v.
Proof.
  unfold bind_rel, binding_match. destruct b as [[x|l| | |]|], v; intros H; try contradiction; try reflexivity; subst; reflexivity.
Qed.

Definition print_lines (o : list (otag * bytes)) : list bytes :=
  map snd (filter (fun x => match fst x with OPrint => true | _ => false end) o).

Lemma print_lines_all l : print_lines (map (fun x => (OPrint, x)) l) = l.
Proof. unfold print_lines. induction l as [|a l IH]; [reflexivity|]. cbn [map filter fst snd]. rewrite IH. reflexivity. Qed.

(* the observables of a final VM state against an environment *)
Definition obs_match (en : env) (rr : run_result) : Prop :=
  print_lines (rr_out rr) = rev (output en) /\ rr_blocks rr = rev (results en) /\
  binding_match (binding_ en) (rr_binding rr) /\ nlen (rr_warn rr) = warnings en.

Lemma execute_plain g : execute g false false =
  let '(m, r) := run_fuel (run_bound g) g tr0 (init_vm g) in
  {| rr_out := frev (vout m) ++ []; rr_blocks := frev (result m); rr_binding := bind_ m;
     rr_warn := frev (vwarn m); rr_res := r; rr_vm := m |}.
Proof. reflexivity. Qed.

Lemma obs_of_core en mf r :
  ObsR en (core_of mf) ->
  obs_match en {| rr_out := frev (vout mf) ++ []; rr_blocks := frev (result mf); rr_binding := bind_ mf;
                  rr_warn := frev (vwarn mf); rr_res := r; rr_vm := mf |}.
Proof.
  intros (O1 & O2 & O3 & O4). unfold core_of in *. cbn [c_result c_bind c_out c_warn] in *.
  unfold obs_match. cbn [rr_out rr_blocks rr_binding rr_warn].
  rewrite app_nil_r, !frev_eq, O1, O3. split; [|split; [reflexivity|split]].
  - rewrite <- map_rev. apply print_lines_all.
  - apply bind_rel_match. exact O2.
  - rewrite <- O4. unfold nlen. rewrite rev_length. reflexivity.
Qed.

Lemma wfs_init : wfs (init_pst []).
Proof. split; [reflexivity|]. intros name idx H. discriminate H. Qed.

Lemma SR_init : SR (init_pst []) env0.
Proof. unfold SR, init_pst, env0, names, flat. psimp. cbn. repeat split; lia. Qed.

Definition limit_res (r : vres) : Prop :=
  exists pos, r = VErr pos (bs "stack overflow") \/ r = VErr pos (bs "too many nested blocks").

(* T1, with the two side conditions that the statement for arbitrary trees needs:
   - no `bind T:all -> struct` (not a sentence of the grammar; the generator does not reject it, the VM
     reports "invalid bind target and selector" where the semantics says XStatic);
   - fewer than 2^64 constants (beyond that uv_enc truncates the index). *)
Theorem T1_program_partial : forall (p : list stmt) (name : bytes) (pos lfs : list N),
  let cs := compile_program p in
  hadError cs = false ->
  Forall binds_ok p ->
  nconsts cs < 2^64 ->
  let g := {| g_name := name; g_code := rev (code cs); g_consts := rev (consts cs); g_pos := pos; g_lfs := lfs |} in
  let rr := execute g false false in
  let sr := fst (run_program p) in
  let en := snd (run_program p) in
  limit_res (rr_res rr) \/ (res_match sr (rr_res rr) /\ obs_match en rr).
Proof.
  intros p name pos lfs cs Hcs Hb Hn g rr sr en.
  unfold compile_program in cs.
  set (s := cstmts p (init_pst [])) in *.
  destruct (hadError s) eqn:Hs; [unfold cs in Hcs; rewrite Hs in Hcs; discriminate Hcs|].
  (* the compile-time chain *)
  destruct (cstmts_ext p (init_pst []) Hs) as [fp Fp]. fold s in Fp.
  pose proof (estep_pop_n (nlocals s) s) as Ep. fold (pop_code (nlocals s)) in Ep.
  pose proof (estep_emit_op opRET (pop_n (nlocals s) s)) as Er. fold cs in Er.
  pose proof (extl_trans _ _ _ _ _ (extl_estep _ _ _ Ep) (extl_estep _ _ _ Er)) as Fe.
  pose proof (ext_trans _ _ _ _ _ Fp (extl_ext _ _ _ Fe)) as F.
  assert (Hcode : g_code g = fp ++ pop_code (nlocals s) ++ [opRET]).
  { destruct F as ((Fc & _) & _). cbn [g g_code]. rewrite Fc. cbn [init_pst code]. rewrite app_nil_r, rev_involutive. reflexivity. }
  assert (Wcs : wfs cs) by (eapply ext_wfs; [exact F | exact wfs_init]).
  assert (HK : nlen (g_consts g) < 2^64).
  { cbn [g g_consts]. rewrite nlen_rev. destruct Wcs as [Wn _]. rewrite <- Wn. exact Hn. }
  assert (Cxcs : cext g cs) by (exists []; cbn [g g_consts]; rewrite app_nil_r; reflexivity).
  assert (Cxs : cext g s) by (eapply cext_extl; [exact Fe | exact Cxcs]).
  assert (Ffall : frag_at g 0 (fp ++ pop_code (nlocals s) ++ [opRET])).
  { exists []. cbn [N.to_nat skipn]. rewrite Hcode, app_nil_r. reflexivity. }
  destruct (frag_at_app g _ _ _ Ffall) as [Ffp Ff2]. destruct (frag_at_app g _ _ _ Ff2) as [Fpop Fret].
  cbn [N.add] in Ff2, Fpop, Fret.
  (* the initial VM state *)
  assert (St0 : vstate g (init_vm g) (ncode (init_pst [])) (vals env0) (core_of (init_vm g))).
  { unfold vstate, positioned, init_vm. vmsimp. cbn. repeat split; try reflexivity; try apply init_vm_inv. }
  assert (Cr0 : CoreR env0 (core_of (init_vm g))).
  { unfold CoreR, ObsR, core_of, init_vm, env0. vmsimp. cbn. repeat split; reflexivity. }
  pose proof (stmts_sim g HK p (init_pst []) fp env0 (init_vm g) _ wfs_init Hs (ext_emits _ _ _ Fp) Ffp Cxs SR_init Hb St0 Cr0) as O.
  fold s in O. change (exec_all p env0) with (run_program p) in O.
  subst rr. rewrite execute_plain. subst sr en.
  assert (Hpc : pc (init_vm g) = 0) by reflexivity.
  change (ncode (init_pst [])) with 0 in O. cbn [N.add] in O.
  destruct (run_program p) as [[u|err] en1]; cbn [fst snd].
  - destruct O as [(m1 & c1 & R1 & S1 & C1 & Sr1 & Ln1)|(mf & r & Ab & Lm)].
    + (* the toplevel locals are popped, RET sees an empty stack *)
      pose proof Sr1 as (Q1 & Q2 & Q3 & Q4 & Q5).
      assert (Hl : nlen (vals en1) = nlocals s) by (rewrite Q2; unfold vals, nlen; rewrite map_length; reflexivity).
      rewrite <- (app_nil_r (vals en1)) in S1. rewrite <- Hl in Fpop, Fret.
      destruct (sim_pop_code g HK m1 _ _ _ c1 S1 Fpop) as (m2 & R2 & S2); [lia|].
      destruct (i_ret g m2 _ c1 S2 Fret) as (mf & Hh & Co).
      assert (Ab : aborts g (init_vm g) mf VOk) by (exists m2; split; [eapply runs_trans; eassumption | exact Hh]).
      rewrite (aborts_fuel g _ _ _ Ab Hpc).
      right. split; [reflexivity|]. apply obs_of_core. rewrite Co. apply CoreR_Obs. exact C1.
    + rewrite (aborts_fuel g _ _ _ Ab Hpc). left. exact Lm.
  - destruct O as (mf & r & Ab & [Lm|[Er' Ob]]); rewrite (aborts_fuel g _ _ _ Ab Hpc).
    + left. exact Lm.
    + right. split; [exact Er'|]. apply obs_of_core. exact Ob.
Qed.
Print Assumptions T1_program_partial.

(* ---------------------------------------------------------------------------------------- *)
(* corollaries: the result correspondence as equivalences                                    *)
(* ---------------------------------------------------------------------------------------- *)
Lemma res_match_ok_iff sr r : res_match sr r -> ((exists u, sr = ROk u) <-> r = VOk).
Proof.
  unfold res_match. destruct sr as [u|e]; intros H; split.
  - intros _. exact H.
  - intros _. exists u. reflexivity.
  - intros [u E]. discriminate E.
  - intros E. subst r. destruct e; cbn in H; try contradiction; try discriminate H; destruct H as [pos H]; discriminate H.
Qed.

Lemma res_match_excluded_iff sr r : res_match sr r -> (sr = RErr XExcluded <-> r = VPanic PExcluded).
Proof.
  unfold res_match. destruct sr as [u|e]; intros H; split.
  - discriminate.
  - intros E. rewrite E in H. discriminate H.
  - intros E. inversion E; subst. exact H.
  - intros E. subst r. destruct e; cbn in H; try contradiction; try reflexivity; destruct H as [pos H]; discriminate H.
Qed.

Lemma res_match_no_static sr r : res_match sr r -> sr <> RErr XStatic.
Proof. intros H E. subst sr. exact H. Qed.

Lemma res_match_err sr r e : res_match sr r -> sr = RErr e -> e <> XExcluded -> exists pos, r = VErr pos (msg_of e).
Proof.
  intros H E Hn. subst sr. unfold res_match in H. destruct e; cbn in H; try contradiction; try exact H; try (exfalso; apply Hn; reflexivity).
Qed.

Lemma res_match_verr sr r pos msg : res_match sr r -> r = VErr pos msg -> exists e, sr = RErr e /\ msg = msg_of e.
Proof.
  intros H E. subst r. unfold res_match in H. destruct sr as [u|e]; [discriminate H|].
  exists e. split; [reflexivity|]. destruct e; cbn in H; try contradiction; try discriminate H;
    destruct H as [p H]; inversion H; reflexivity.
Qed.

(* ---------------------------------------------------------------------------------------- *)
(* sentences of the grammar never contain  bind T:all -> struct                              *)
(* ---------------------------------------------------------------------------------------- *)
Ltac break_hyp H :=
  repeat match type of H with
         | context [match ?x with _ => _ end] =>
           lazymatch x with
           | context [match _ with _ => _ end] => fail
           | _ => destruct x eqn:?; try discriminate H
           end
         end.

Lemma pbind_ok ts st r : pbind ts = Some (st, r) -> binds_ok st.
Proof.
  unfold pbind. intros H. destruct ts as [|ty r0]; [discriminate H|].
  destruct (negb (tok_eqb (ttyp ty) tIDENT)); [discriminate H|].
  match type of H with (let '(sel, r1) := ?X in _) = _ => destruct X as [sel r1] end.
  destruct sel as [sl|]; [|discriminate H]. destruct r1 as [|a [|tg r2]]; try discriminate H.
  destruct (tok_eqb (ttyp a) tARROW && tok_eqb (ttyp tg) tIDENT); [|discriminate H].
  destruct (is_lit (tval tg) "struct").
  - destruct sl; inversion H; subst; exact I.
  - destruct (is_lit (tval tg) "slice"); [|discriminate H]. inversion H; subst. destruct sl; exact I.
Qed.

Lemma pstmt_ok : forall fuel,
  (forall ib ts st r, pstmt fuel ib ts = Some (st, r) -> binds_ok st) /\
  (forall ts l r, pitems fuel ts = Some (l, r) -> Forall binds_ok l).
Proof.
  induction fuel as [|f [IHs IHi]]; [split; intros; discriminate|].
  split.
  - intros ib ts st r H. cbn [pstmt] in H. destruct ts as [|t r0]; [discriminate H|].
    destruct (ttyp t) eqn:Et; try (destruct ib; [|discriminate H];
                                   destruct (pexpr f lvl_assign (t :: r0)) as [[e r1]|]; [|discriminate H];
                                   inversion H; subst; exact I).
    + (* var *)
      destruct r0 as [|x r1]; [discriminate H|]. destruct (tok_eqb (ttyp x) tIDENT); [|discriminate H].
      destruct (tok_eqb (hd_typ r1) tEQ).
      * destruct (pexpr f lvl_assign (tl r1)) as [[e r2]|]; [|discriminate H]. inversion H; subst; exact I.
      * inversion H; subst; exact I.
    + (* def *)
      destruct r0 as [|ty r1]; [discriminate H|]. destruct (negb (tok_eqb (ttyp ty) tIDENT)); [discriminate H|].
      match type of H with (let '(nm, r2) := ?X in _) = _ => destruct X as [nm r2] end.
      destruct nm as [nm|]; [|discriminate H]. destruct r2 as [|l r3]; [discriminate H|].
      destruct (tok_eqb (ttyp l) tLCURLY); [|discriminate H].
      destruct (pitems f r3) as [[body r4]|] eqn:Ei; [|discriminate H].
      destruct r4 as [|c r5]; [discriminate H|]. destruct (tok_eqb (ttyp c) tRCURLY); [|discriminate H].
      inversion H; subst. apply binds_ok_def. eapply IHi. exact Ei.
    + (* eval *)
      destruct (pexpr f lvl_assign r0) as [[e r1]|]; [|discriminate H]. inversion H; subst; exact I.
    + (* print *)
      destruct (pexpr f lvl_assign r0) as [[e r1]|]; [|discriminate H]. inversion H; subst; exact I.
    + (* bind *)
      eapply pbind_ok. exact H.
  - intros ts l r H. cbn [pitems] in H.
    assert (G : match pstmt f true ts with
                | Some (s, r0) => match pitems f (skip_semi r0) with Some (ss, r') => Some (s :: ss, r') | None => None end
                | None => None end = Some (l, r) -> Forall binds_ok l).
    { destruct (pstmt f true ts) as [[s0 r0]|] eqn:Es; [|discriminate].
      destruct (pitems f (skip_semi r0)) as [[ss r']|] eqn:Ei; [|discriminate].
      intros E. inversion E; subst. constructor; [eapply IHs; exact Es | eapply IHi; exact Ei]. }
    destruct (hd_typ ts); try (apply G; exact H); inversion H; subst; constructor.
Qed.

Lemma ptop_ok : forall fuel ts p, ptop fuel ts = Some p -> Forall binds_ok p.
Proof.
  induction fuel as [|f IH]; intros ts p H; [discriminate H|]. cbn [ptop] in H.
  assert (G : match pstmt f false ts with
              | Some (s, r) => match ptop f (skip_semi r) with Some ss => Some (s :: ss) | None => None end
              | None => None end = Some p -> Forall binds_ok p).
  { destruct (pstmt f false ts) as [[s0 r0]|] eqn:Es; [|discriminate].
    destruct (ptop f (skip_semi r0)) as [ss|] eqn:Et; [|discriminate].
    intros E. inversion E; subst. constructor; [eapply (proj1 (pstmt_ok f)); exact Es | eapply IH; exact Et]. }
  destruct ts as [|t [|t2 r]]; [discriminate H| |apply G; exact H].
  destruct (tok_eqb (ttyp t) tEOF); [inversion H; constructor | discriminate H].
Qed.

Theorem ast_program_binds_ok : forall ts p, ast_program ts = Some p -> Forall binds_ok p.
Proof. intros ts p H. eapply ptop_ok. exact H. Qed.

(* T1 for the sentences of the language (trees produced by the grammar of Spec/Syntax.v) *)
Theorem T1_program : forall (ts : list token) (p : list stmt) (name : bytes) (pos lfs : list N),
  ast_program ts = Some p ->
  let cs := compile_program p in
  hadError cs = false ->
  nconsts cs < 2^64 ->
  let g := {| g_name := name; g_code := rev (code cs); g_consts := rev (consts cs); g_pos := pos; g_lfs := lfs |} in
  let rr := execute g false false in
  let sr := fst (run_program p) in
  let en := snd (run_program p) in
  limit_res (rr_res rr) \/ (res_match sr (rr_res rr) /\ obs_match en rr).
Proof.
  intros ts p name pos lfs Hp cs Hcs Hn. apply T1_program_partial; try assumption.
  eapply ast_program_binds_ok. exact Hp.
Qed.
Print Assumptions T1_program.

(* ---------------------------------------------------------------------------------------- *)
(* the side condition on bind is needed: for arbitrary trees the statement is false          *)
(* ---------------------------------------------------------------------------------------- *)
Example T1_needs_binds_ok :
  let p := [SDef (bs "T") [] []; SBind (bs "T") BSall BTstruct] in
  let cs := compile_program p in
  let g := {| g_name := []; g_code := rev (code cs); g_consts := rev (consts cs);
              g_pos := repeat 0 (length (code cs)); g_lfs := [] |} in
  hadError cs = false /\ nconsts cs < 2^64 /\
  fst (run_program p) = RErr XStatic /\
  rr_res (execute g false false) = VErr 0 (bs "invalid bind target and selector").
Proof. vm_compute. repeat split; reflexivity. Qed.

Print Assumptions stmt_sim.
Print Assumptions cstmt_ext.

(* the same, spelled out as the equivalences of the statement *)
Corollary T1_program_iff : forall (p : list stmt) (name : bytes) (pos lfs : list N),
  let cs := compile_program p in
  hadError cs = false -> Forall binds_ok p -> nconsts cs < 2^64 ->
  let g := {| g_name := name; g_code := rev (code cs); g_consts := rev (consts cs); g_pos := pos; g_lfs := lfs |} in
  let rr := execute g false false in
  let sr := fst (run_program p) in
  let en := snd (run_program p) in
  ~ limit_res (rr_res rr) ->
  ((exists u, sr = ROk u) <-> rr_res rr = VOk) /\
  (sr = RErr XExcluded <-> rr_res rr = VPanic PExcluded) /\
  sr <> RErr XStatic /\
  (forall e, sr = RErr e -> e <> XExcluded -> exists q, rr_res rr = VErr q (msg_of e)) /\
  (forall q msg, rr_res rr = VErr q msg -> exists e, sr = RErr e /\ msg = msg_of e) /\
  print_lines (rr_out rr) = rev (output en) /\ rr_blocks rr = rev (results en) /\
  binding_match (binding_ en) (rr_binding rr) /\ nlen (rr_warn rr) = warnings en.
Proof.
  intros p name pos lfs cs H1 H2 H3 g rr sr en Hl.
  destruct (T1_program_partial p name pos lfs H1 H2 H3) as [L|[M (O1 & O2 & O3 & O4)]]; [contradiction|].
  fold cs g rr sr en in M, O1, O2, O3, O4.
  split; [apply res_match_ok_iff; exact M|]. split; [apply res_match_excluded_iff; exact M|].
  split; [eapply res_match_no_static; exact M|].
  split; [intros e; apply res_match_err; exact M|].
  split; [intros q msg; apply res_match_verr; exact M|].
  repeat split; assumption.
Qed.
Print Assumptions T1_program_iff.
