(* T1Vm.v: the run-time side of theorem T1: one lemma per instruction, phrased on the observable
   components of a VM state (pc, operand stack, and the `core`: block stack, results, binding,
   output, warnings), and the composition of steps into runs with a fuel bound. *)
From RecordUpdate Require Import RecordSet.
From Coq Require Import Lia ZifyN ZifyNat ZifyBool.
From BCL Require Import Model.Api Proofs.OptionsProofs Proofs.VerifyProofs Proofs.VmSpecProofs
  Proofs.EncodingProofs Spec.Sem.
Import RecordSetNotations.
Open Scope N_scope.

Ltac vmsimp := cbn [set pc rest stack tos bstack btos result bind_ vout vwarn tosMax btosMax opsRead].

Definition tr0 : vm -> list (otag * bytes) := fun _ => [].

Record core := mkCore {
  c_bstack : list value; c_btos : N; c_result : list value; c_bind : binding;
  c_out : list (otag * bytes); c_warn : list (N * bytes) }.
Definition core_of (m : vm) : core :=
  {| c_bstack := bstack m; c_btos := btos m; c_result := result m; c_bind := bind_ m;
     c_out := vout m; c_warn := vwarn m |}.

Lemma skipn_more {A} (n : nat) (l a b : list A) : skipn n l = a ++ b -> skipn (n + length a) l = b.
Proof.
  intros H. rewrite <- skipn_skipn_l, H. rewrite skipn_app, skipn_all, Nat.sub_diag. reflexivity.
Qed.

Section WithProg.
Variable g : prog.

Definition positioned (m : vm) : Prop := rest m = skipn (N.to_nat (pc m)) (g_code g).
Definition frag_at (o : N) (fr : bytes) : Prop := exists post, skipn (N.to_nat o) (g_code g) = fr ++ post.

Lemma frag_at_app o a b : frag_at o (a ++ b) -> frag_at o a /\ frag_at (o + nlen a) b.
Proof.
  intros [post H]. split.
  - exists (b ++ post). rewrite H, app_assoc. reflexivity.
  - exists post. rewrite <- app_assoc in H. apply skipn_more in H.
    replace (N.to_nat (o + nlen a)) with (N.to_nat o + length a)%nat by (unfold nlen; lia). exact H.
Qed.
Lemma frag_at_lt o x r : frag_at o (x :: r) -> o < nlen (g_code g).
Proof.
  intros [post H]. unfold nlen.
  destruct (Nat.le_gt_cases (length (g_code g)) (N.to_nat o)) as [Hle|Hgt]; [|lia].
  rewrite skipn_all2 in H by exact Hle. discriminate H.
Qed.

(* the state: pc, positioned, invariant, operand stack, core *)
Definition vstate (m : vm) (p : N) (stk : list value) (c : core) : Prop :=
  pc m = p /\ positioned m /\ vm_inv m /\ stack m = stk /\ core_of m = c.

(* ---------------------------------------------------------------------------------------- *)
(* runs                                                                                      *)
(* ---------------------------------------------------------------------------------------- *)
Inductive runs : vm -> vm -> Prop :=
| runs_refl m : runs m m
| runs_step m m1 m2 : step1 g tr0 m = Some m1 -> pc m < pc m1 -> runs m1 m2 -> runs m m2.

Lemma runs_trans a b c : runs a b -> runs b c -> runs a c.
Proof. induction 1; [exact (fun H => H)|]. intros H2. eapply runs_step; eauto. Qed.
Lemma runs_one a b : step1 g tr0 a = Some b -> pc a < pc b -> runs a b.
Proof. intros. eapply runs_step; eauto using runs. Qed.

Lemma runs_fuel a b : runs a b ->
  exists n, N.of_nat n <= pc b - pc a /\ pc a <= pc b /\
            forall k, run_fuel (n + k) g tr0 a = run_fuel k g tr0 b.
Proof.
  induction 1 as [m|m m1 m2 Hs Hlt _ (n & A & B & E)].
  - exists 0%nat. split; [lia|]. split; [lia|]. reflexivity.
  - exists (S n). split; [lia|]. split; [lia|]. intros k. cbn [Nat.add].
    rewrite (run_fuel_step1 _ _ _ _ _ Hs). apply E.
Qed.

Definition halts (m1 mf : vm) (r : vres) : Prop :=
  pc m1 < nlen (g_code g) /\ forall k, run_fuel (S k) g tr0 m1 = (mf, r).
Definition aborts (m mf : vm) (r : vres) : Prop := exists m1, runs m m1 /\ halts m1 mf r.

Lemma aborts_runs m m' mf r : runs m m' -> aborts m' mf r -> aborts m mf r.
Proof. intros H (m1 & A & B). exists m1. split; [eapply runs_trans; eassumption | exact B]. Qed.

Lemma aborts_fuel m mf r : aborts m mf r -> pc m = 0 -> run_fuel (run_bound g) g tr0 m = (mf, r).
Proof.
  intros (m1 & A & [B C]) Hp. destruct (runs_fuel _ _ A) as (n & N1 & N2 & E).
  unfold run_bound. unfold nlen in B.
  replace (2 * length (g_code g) + 16)%nat with (n + S (2 * length (g_code g) + 15 - n))%nat by lia.
  rewrite E. apply C.
Qed.

(* ---------------------------------------------------------------------------------------- *)
(* one iteration of the loop                                                                 *)
(* ---------------------------------------------------------------------------------------- *)
Lemma step1_intro m op r m' :
  rest m = op :: r -> (op =? opRET) = false -> exec_op g op (advance r m) = (m', VOk) ->
  step1 g tr0 m = Some m'.
Proof.
  intros Hr Ho He. unfold step1, tr0. cbn [app]. rewrite setout_self, Hr, Ho, He. reflexivity.
Qed.

Lemma halt_intro m op r mf res :
  rest m = op :: r -> (op =? opRET) = false -> exec_op g op (advance r m) = (mf, res) -> res <> VOk ->
  forall k, run_fuel (S k) g tr0 m = (mf, res).
Proof.
  intros Hr Ho He Hn k. rewrite run_fuel_S. cbv zeta. unfold tr0. cbn [app]. rewrite setout_self, Hr, Ho, He.
  destruct res; try reflexivity. congruence.
Qed.

Lemma positioned_rest m o fr : positioned m -> pc m = o -> frag_at o fr -> exists post, rest m = fr ++ post /\
  skipn (N.to_nat (o + nlen fr)) (g_code g) = post.
Proof.
  intros Hp Ho [post H]. exists post. unfold positioned in Hp. rewrite Hp, Ho. split; [exact H|].
  replace (N.to_nat (o + nlen fr)) with (N.to_nat o + length fr)%nat by (unfold nlen; lia).
  apply (skipn_more _ _ fr post). exact H.
Qed.

(* the state after the opcode byte *)
Lemma advance_proj r m :
  pc (advance r m) = pc m + 1 /\ rest (advance r m) = r /\ stack (advance r m) = stack m /\
  tos (advance r m) = tos m /\ tosMax (advance r m) = tosMax m /\ core_of (advance r m) = core_of m.
Proof. unfold advance, core_of. vmsimp. repeat split. Qed.

Lemma read_uvarint_enc m x post :
  rest m = uv_enc x ++ post -> x < 2^64 ->
  read_uvarint m = Some (x, m <| pc := pc m + nlen (uv_enc x) |> <| rest := post |>).
Proof.
  intros Hr Hx. unfold read_uvarint. rewrite Hr, uvarint_roundtrip by exact Hx.
  rewrite skipn_app, skipn_all, Nat.sub_diag. reflexivity.
Qed.


Definition limit (r : vres) : Prop :=
  exists pos, r = VErr pos (bs "stack overflow") \/ r = VErr pos (bs "too many nested blocks").
Definition Limit (m : vm) : Prop := exists mf r, aborts m mf r /\ limit r.

Lemma Limit_runs m m' : runs m m' -> Limit m' -> Limit m.
Proof. intros H (mf & r & A & B). exists mf, r. split; [eapply aborts_runs; eassumption | exact B]. Qed.

Ltac open_state H := destruct H as (Spc & Spos & Sinv & Sstk & Score).

(* what is needed to conclude vstate after a step *)
Lemma vstate_intro m' p stk c post :
  pc m' = p -> rest m' = post -> skipn (N.to_nat p) (g_code g) = post -> vm_inv m' -> stack m' = stk -> core_of m' = c ->
  vstate m' p stk c.
Proof.
  intros A B C D E F. unfold vstate, positioned. rewrite A, B, C.
  split; [reflexivity|]. split; [reflexivity|]. split; [exact D|]. split; assumption.
Qed.

Lemma vm_inv_push v m : vm_inv m -> vm_inv (push v m).
Proof. unfold vm_inv, push. vmsimp. rewrite nlen_cons. lia. Qed.

Definition push_ops : list (N * value) :=
  [(opZERO, VInt 0); (opONE, VInt 1); (opTRUE, VBool true); (opFALSE, VBool false); (opNIL, VNil)].

Lemma exec_push_simple op v m1 : In (op, v) push_ops ->
  exec_op g op m1 = if tos m1 =? stackSize then rt_err g m1 (bs "stack overflow") else (push v m1, VOk).
Proof.
  intros H. unfold push_ops in H. cbn [In] in H.
  repeat (destruct H as [H|H]; [inversion H; subst; unfold exec_op; closed_tests; rewrite Bool.andb_true_r; reflexivity|]).
  destruct H.
Qed.

Lemma push_ops_not_ret op v : In (op, v) push_ops -> (op =? opRET) = false.
Proof.
  intros H. unfold push_ops in H. cbn [In] in H.
  repeat (destruct H as [H|H]; [inversion H; subst; reflexivity|]). destruct H.
Qed.

Lemma i_push op v m p stk c : In (op, v) push_ops ->
  vstate m p stk c -> frag_at p [op] ->
  (exists m', runs m m' /\ vstate m' (p + 1) (v :: stk) c) \/ Limit m.
Proof.
  intros Hin H Hf. open_state H.
  destruct (positioned_rest m p _ Spos Spc Hf) as (post & Hr & Hpost). cbn [app] in Hr.
  pose proof (exec_push_simple op v (advance post m) Hin) as E.
  destruct (advance_proj post m) as (A1 & A2 & A3 & A4 & A5 & A6).
  destruct (tos (advance post m) =? stackSize) eqn:Et.
  - right. exists (advance post m), (VErr (pos_at g (pc (advance post m))) (bs "stack overflow")).
    split; [|eexists; left; reflexivity].
    exists m. split; [apply runs_refl|]. split; [rewrite Spc; eapply frag_at_lt; exact Hf|].
    eapply halt_intro; [exact Hr | eapply push_ops_not_ret; exact Hin | exact E | discriminate].
  - left. exists (push v (advance post m)). split.
    + apply runs_one; [eapply step1_intro; [exact Hr | eapply push_ops_not_ret; exact Hin | exact E]|].
      unfold push. vmsimp. lia.
    + apply vstate_intro with (post := post).
      * unfold push. vmsimp. lia.
      * reflexivity.
      * exact Hpost.
      * apply vm_inv_push. unfold vm_inv in *. rewrite A3, A4, A5. exact Sinv.
      * unfold push. vmsimp. rewrite A3, Sstk. reflexivity.
      * rewrite <- Score, <- A6. reflexivity.
Qed.


(* ---------------------------------------------------------------------------------------- *)
(* generic step / halt                                                                       *)
(* ---------------------------------------------------------------------------------------- *)
Lemma vm_inv_advance r m : vm_inv m -> vm_inv (advance r m).
Proof. exact (fun H => H). Qed.

Lemma i_generic m p stk c op ops p' stk' c' :
  vstate m p stk c -> frag_at p (op :: ops) -> (op =? opRET) = false -> p < p' ->
  (forall post, skipn (N.to_nat (p + 1 + nlen ops)) (g_code g) = post ->
     exists m', exec_op g op (advance (ops ++ post) m) = (m', VOk) /\ pc m' = p' /\
                rest m' = skipn (N.to_nat p') (g_code g) /\ stack m' = stk' /\ core_of m' = c') ->
  exists m', runs m m' /\ vstate m' p' stk' c'.
Proof.
  intros H Hf Ho Hlt He. open_state H.
  destruct (positioned_rest m p _ Spos Spc Hf) as (post & Hr & Hpost). cbn [app] in Hr.
  rewrite nlen_cons in Hpost. replace (p + (nlen ops + 1)) with (p + 1 + nlen ops) in Hpost by lia.
  destruct (He post Hpost) as (m' & E & A1 & A2 & A3 & A4).
  exists m'. split.
  - apply runs_one; [eapply step1_intro; eassumption | lia].
  - pose proof (exec_op_inv g op _ (vm_inv_advance (ops ++ post) m Sinv)) as I. rewrite E in I. cbn [fst] in I.
    unfold vstate, positioned. rewrite A1. repeat split; try assumption; apply I.
Qed.

Lemma h_generic m p stk c op ops r c' :
  vstate m p stk c -> frag_at p (op :: ops) -> (op =? opRET) = false -> r <> VOk ->
  (forall post, exists mf, exec_op g op (advance (ops ++ post) m) = (mf, r) /\ core_of mf = c') ->
  exists mf, aborts m mf r /\ core_of mf = c'.
Proof.
  intros H Hf Ho Hr He. open_state H.
  destruct (positioned_rest m p _ Spos Spc Hf) as (post & Hrest & _). cbn [app] in Hrest.
  destruct (He post) as (mf & E & A). exists mf. split; [|exact A].
  exists m. split; [apply runs_refl|]. split; [rewrite Spc; eapply frag_at_lt; exact Hf|].
  eapply halt_intro; eassumption.
Qed.

Lemma limit_overflow pos : limit (VErr pos (bs "stack overflow")).
Proof. exists pos. left. reflexivity. Qed.
Lemma limit_blocks pos : limit (VErr pos (bs "too many nested blocks")).
Proof. exists pos. right. reflexivity. Qed.

(* the overflow alternative of the pushing instructions *)
Lemma h_overflow m p stk c op ops :
  vstate m p stk c -> frag_at p (op :: ops) -> (op =? opRET) = false ->
  (forall m1, tos m1 = stackSize -> exec_op g op m1 = rt_err g m1 (bs "stack overflow")) ->
  tos m = stackSize -> Limit m.
Proof.
  intros H Hf Ho He Ht.
  destruct (h_generic m p stk c op ops (VErr (pos_at g (p + 1)) (bs "stack overflow")) c H Hf Ho) as (mf & A & _).
  - discriminate.
  - intros post. open_state H. eexists. split.
    + rewrite He by exact Ht. unfold rt_err. unfold advance. vmsimp. rewrite Spc. reflexivity.
    + rewrite <- Score. reflexivity.
  - exists mf, (VErr (pos_at g (p + 1)) (bs "stack overflow")). split; [exact A | apply limit_overflow].
Qed.

Ltac ovf_tac := intros m1 Ht1; unfold exec_op; rewrite Ht1; closed_tests; reflexivity.

(* ---------------------------------------------------------------------------------------- *)
(* the instructions                                                                          *)
(* ---------------------------------------------------------------------------------------- *)
Ltac fin_state H :=
  open_state H; unfold advance, core_of, push in *; vmsimp; cbn [app];
  repeat match goal with |- _ /\ _ => split end; try assumption; try (symmetry; assumption);
  try reflexivity; try lia; try congruence.

Lemma nlen_uv x : N.to_nat (nlen (uv_enc x)) = length (uv_enc x).
Proof. unfold nlen. lia. Qed.

Lemma i_const m p stk c i v :
  vstate m p stk c -> frag_at p (opCONST :: uv_enc i) -> i < 2^64 -> get_const g i = Some v ->
  (exists m', runs m m' /\ vstate m' (p + 1 + nlen (uv_enc i)) (v :: stk) c) \/ Limit m.
Proof.
  intros H Hf Hi Hc.
  destruct (tos m =? stackSize) eqn:Et.
  - right. apply N.eqb_eq in Et. eapply h_overflow; try eassumption; [reflexivity | ovf_tac].
  - left. eapply i_generic; try eassumption; [reflexivity | pose proof (uv_enc_length i); unfold nlen; lia|].
    intros post Hpost. eexists. split.
    + unfold exec_op. change (tos (advance (uv_enc i ++ post) m)) with (tos m). rewrite Et. closed_tests.
      rewrite (read_uvarint_enc _ i post) by (try reflexivity; exact Hi). rewrite Hc. reflexivity.
    + fin_state H.
Qed.

Lemma nth_opt_app_r' {A} (a b : list A) i : nth_opt (a ++ b) (length a + i) = nth_opt b i.
Proof. induction a as [|x a IH]; cbn [app length Nat.add nth_opt]; [reflexivity|]. exact IH. Qed.

Lemma i_getlocal m p stk c slot v :
  vstate m p stk c -> frag_at p (opGETLOCAL :: uv_enc slot) -> slot < nlen stk -> slot < 2^64 ->
  nth_opt stk (N.to_nat (nlen stk - 1 - slot)) = Some v ->
  (exists m', runs m m' /\ vstate m' (p + 1 + nlen (uv_enc slot)) (v :: stk) c) \/ Limit m.
Proof.
  intros H Hf Hs Hx Hn.
  destruct (tos m =? stackSize) eqn:Et.
  - right. apply N.eqb_eq in Et. eapply h_overflow; try eassumption; [reflexivity | ovf_tac].
  - left. eapply i_generic; try eassumption; [reflexivity | pose proof (uv_enc_length slot); unfold nlen; lia|].
    assert (Ht : tos m = nlen stk) by (open_state H; destruct Sinv as [I _]; rewrite I, Sstk; reflexivity).
    intros post Hpost. eexists. split.
    + unfold exec_op. change (tos (advance (uv_enc slot ++ post) m)) with (tos m). rewrite Et. closed_tests.
      rewrite (read_uvarint_enc _ slot post); [|reflexivity|].
      * vmsimp. unfold advance. vmsimp. rewrite Ht.
        replace (slot <? nlen stk) with true by (symmetry; apply N.ltb_lt; exact Hs).
        destruct H as (_ & _ & _ & Sstk & _). rewrite Sstk, Hn. reflexivity.
      * exact Hx.
    + fin_state H.
Qed.


Ltac no_ovf := closed_tests; rewrite ?Bool.andb_false_r; cbv beta iota.

Lemma i_setlocal m p a r c slot :
  vstate m p (a :: r) c -> frag_at p (opSETLOCAL :: uv_enc slot) -> slot < nlen (a :: r) -> slot < 2^64 ->
  exists m', runs m m' /\
    vstate m' (p + 1 + nlen (uv_enc slot)) (set_nth (a :: r) (N.to_nat (nlen (a :: r) - 1 - slot)) a) c.
Proof.
  intros H Hf Hs Hx.
  eapply i_generic; try eassumption; [reflexivity | pose proof (uv_enc_length slot); unfold nlen; lia|].
  assert (Ht : tos m = nlen (a :: r)) by (open_state H; destruct Sinv as [I _]; rewrite I, Sstk; reflexivity).
  intros post Hpost. eexists. split.
  - unfold exec_op. no_ovf.
    rewrite (read_uvarint_enc _ slot post); [|reflexivity|exact Hx].
    vmsimp. unfold advance. vmsimp. destruct H as (_ & _ & _ & Sstk & _). rewrite Sstk, Ht.
    replace (slot <? nlen (a :: r)) with true by (symmetry; apply N.ltb_lt; exact Hs). reflexivity.
  - fin_state H.
Qed.

Lemma i_pop m p a r c :
  vstate m p (a :: r) c -> frag_at p [opPOP] -> exists m', runs m m' /\ vstate m' (p + 1) r c.
Proof.
  intros H Hf. eapply i_generic; try eassumption; [reflexivity | lia|].
  intros post Hpost. eexists. split.
  - unfold exec_op. no_ovf. unfold advance. vmsimp. destruct H as (_ & _ & _ & Sstk & _). rewrite Sstk. reflexivity.
  - change (nlen []) with 0 in Hpost. rewrite N.add_0_r in Hpost. fin_state H.
Qed.

Lemma i_popn m p stk c n :
  vstate m p stk c -> frag_at p (opPOPN :: uv_enc n) -> n <= nlen stk -> n < 2^64 ->
  exists m', runs m m' /\ vstate m' (p + 1 + nlen (uv_enc n)) (skipn (N.to_nat n) stk) c.
Proof.
  intros H Hf Hs Hx.
  eapply i_generic; try eassumption; [reflexivity | pose proof (uv_enc_length n); unfold nlen; lia|].
  assert (Ht : tos m = nlen stk) by (open_state H; destruct Sinv as [I _]; rewrite I, Sstk; reflexivity).
  intros post Hpost. eexists. split.
  - unfold exec_op. no_ovf.
    rewrite (read_uvarint_enc _ n post); [|reflexivity|exact Hx].
    vmsimp. unfold advance. vmsimp. rewrite Ht.
    replace (nlen stk <? n) with false by (symmetry; apply N.ltb_ge; exact Hs). reflexivity.
  - fin_state H.
Qed.

Definition with_out (c : core) (o : list (otag * bytes)) : core :=
  {| c_bstack := c_bstack c; c_btos := c_btos c; c_result := c_result c; c_bind := c_bind c; c_out := o; c_warn := c_warn c |}.
Definition with_bstack (c : core) (b : list value) (n : N) : core :=
  {| c_bstack := b; c_btos := n; c_result := c_result c; c_bind := c_bind c; c_out := c_out c; c_warn := c_warn c |}.

Lemma i_print m p a r c :
  vstate m p (a :: r) c -> frag_at p [opPRINT] ->
  exists m', runs m m' /\ vstate m' (p + 1) r (with_out c ((OPrint, Vm.fmt_v a ++ [10]) :: c_out c)).
Proof.
  intros H Hf. eapply i_generic; try eassumption; [reflexivity | lia|].
  intros post Hpost. eexists. split.
  - unfold exec_op. no_ovf. unfold advance. vmsimp. destruct H as (_ & _ & _ & Sstk & _). rewrite Sstk. reflexivity.
  - change (nlen []) with 0 in Hpost. rewrite N.add_0_r in Hpost. fin_state H.
    unfold with_out. rewrite <- Score. reflexivity.
Qed.

Lemma u16_val hi lo J : J <= 65535 -> hi = J / 256 mod 256 -> lo = J mod 256 -> hi * 256 + lo = J.
Proof. intros. subst. lia. Qed.

Lemma i_jump m p stk c hi lo :
  vstate m p stk c -> frag_at p [opJUMP; hi; lo] ->
  exists m', runs m m' /\ vstate m' (p + 3 + (hi * 256 + lo)) stk c.
Proof.
  intros H Hf. eapply i_generic; try eassumption; [reflexivity | lia|].
  intros post Hpost. eexists. split.
  - unfold exec_op. no_ovf. unfold read_u16, advance. vmsimp. cbn [app]. reflexivity.
  - unfold jump_to. fin_state H. f_equal. lia.
Qed.

Lemma i_jfalse m p a r c hi lo :
  vstate m p (a :: r) c -> frag_at p [opJFALSE; hi; lo] ->
  exists m', runs m m' /\ vstate m' (if falsey a then p + 3 + (hi * 256 + lo) else p + 3) (a :: r) c.
Proof.
  intros H Hf. eapply i_generic; try eassumption; [reflexivity | destruct (falsey a); lia|].
  intros post Hpost. eexists. split.
  - rewrite (C01_jfalse_bytes g _ hi lo post a r); [reflexivity | reflexivity |].
    destruct H as (_ & _ & _ & Sstk & _). exact Sstk.
  - change (nlen [hi; lo]) with 2 in Hpost.
    destruct (falsey a); fin_state H; try (f_equal; lia).
    rewrite <- Hpost. f_equal. lia.
Qed.

(* binary operators *)
Lemma instr_of_not_ret o : (instr_of o =? opRET) = false.
Proof. destruct o; reflexivity. Qed.

Lemma i_binop m p a b r c o :
  vstate m p (b :: a :: r) c -> frag_at p [instr_of o] ->
  match Sem.binop o a b with
  | RVal v => exists m', runs m m' /\ vstate m' (p + 1) (v :: r) c
  | RTypeError => exists mf pos, aborts m mf (VErr pos (invalid_types (instr_of o) a b)) /\ core_of mf = c
  | RDivZero => exists mf pos, aborts m mf (VErr pos (bs "division by int zero")) /\ core_of mf = c
  | RNegRepeat => exists mf pos, aborts m mf (VErr pos (bs "MUL: negative repeat count")) /\ core_of mf = c
  | RExcluded => exists mf, aborts m mf (VPanic PExcluded) /\ core_of mf = c
  end.
Proof.
  intros H Hf.
  assert (E : forall post, exec_op g (instr_of o) (advance post m) =
                           binop_outcome g (instr_of o) o a b r (advance post m)).
  { intros post. apply C01_binop_spec_inv; [open_state H; exact Sinv | apply instr_of_bop_of |].
    open_state H. exact Sstk. }
  unfold binop_outcome in E.
  destruct (Sem.binop o a b) as [v| | | |].
  - eapply i_generic; try eassumption; [apply instr_of_not_ret | lia|].
    intros post Hpost. eexists. split; [apply E|].
    change (nlen []) with 0 in Hpost. rewrite N.add_0_r in Hpost. unfold popped2. fin_state H.
  - destruct (h_generic m p _ c (instr_of o) [] (VErr (pos_at g (p + 1)) (invalid_types (instr_of o) a b)) c H Hf)
      as (mf & A & B); [apply instr_of_not_ret | discriminate | | eauto].
    intros post. eexists. split; [rewrite E; open_state H; unfold advance; vmsimp; rewrite Spc; reflexivity|].
    open_state H. rewrite <- Score. reflexivity.
  - destruct (h_generic m p _ c (instr_of o) [] (VErr (pos_at g (p + 1)) (bs "division by int zero")) c H Hf)
      as (mf & A & B); [apply instr_of_not_ret | discriminate | | eauto].
    intros post. eexists. split; [rewrite E; open_state H; unfold advance; vmsimp; rewrite Spc; reflexivity|].
    open_state H. rewrite <- Score. reflexivity.
  - destruct (h_generic m p _ c (instr_of o) [] (VErr (pos_at g (p + 1)) (bs "MUL: negative repeat count")) c H Hf)
      as (mf & A & B); [apply instr_of_not_ret | discriminate | | eauto].
    intros post. eexists. split; [rewrite E; open_state H; unfold advance; vmsimp; rewrite Spc; reflexivity|].
    open_state H. rewrite <- Score. reflexivity.
  - destruct (h_generic m p _ c (instr_of o) [] (VPanic PExcluded) c H Hf)
      as (mf & A & B); [apply instr_of_not_ret | discriminate | | eauto].
    intros post. eexists. split; [rewrite E; reflexivity|].
    open_state H. rewrite <- Score. reflexivity.
Qed.

Lemma uinstr_of_not_ret o : (uinstr_of o =? opRET) = false.
Proof. destruct o; reflexivity. Qed.
Lemma uop_of_uinstr o : uop_of (uinstr_of o) = Some o.
Proof. destruct o; reflexivity. Qed.

Lemma i_unop m p a r c o :
  vstate m p (a :: r) c -> frag_at p [uinstr_of o] ->
  match Sem.unop o a with
  | RVal v => exists m', runs m m' /\ vstate m' (p + 1) (v :: r) c
  | _ => exists mf pos, aborts m mf (VErr pos (unop_msg o a)) /\ core_of mf = c
  end.
Proof.
  intros H Hf.
  assert (E : forall post, exec_op g (uinstr_of o) (advance post m) =
     match Sem.unop o a with
     | RVal v => (advance post m <| stack := v :: r |>, VOk)
     | _ => (advance post m, VErr (pos_at g (pc (advance post m))) (unop_msg o a))
     end).
  { intros post. apply C01_unop_spec; [apply uop_of_uinstr|]. open_state H. exact Sstk. }
  assert (F : forall res, res <> VOk -> (forall post, exec_op g (uinstr_of o) (advance post m) =
                (advance post m, VErr (pos_at g (pc (advance post m))) (unop_msg o a))) ->
              exists mf pos, aborts m mf (VErr pos (unop_msg o a)) /\ core_of mf = c).
  { intros _ _ E'.
    destruct (h_generic m p _ c (uinstr_of o) [] (VErr (pos_at g (p + 1)) (unop_msg o a)) c H Hf)
      as (mf & A & B); [apply uinstr_of_not_ret | discriminate | | eauto].
    intros post. eexists. split; [rewrite E'; open_state H; unfold advance; vmsimp; rewrite Spc; reflexivity|].
    open_state H. rewrite <- Score. reflexivity. }
  destruct (Sem.unop o a) as [v| | | |]; try (apply (F (VPanic PIndex)); [discriminate | exact E]).
  eapply i_generic; try eassumption; [apply uinstr_of_not_ret | lia|].
  intros post Hpost. eexists. split; [apply E|].
  change (nlen []) with 0 in Hpost. rewrite N.add_0_r in Hpost. fin_state H.
Qed.


Lemma i_setfield m p a r c i name t n fs up :
  vstate m p (a :: r) c -> frag_at p (opSETFIELD :: uv_enc i) -> i < 2^64 ->
  get_const g i = Some (VStr name) -> c_bstack c = VBlock t n fs :: up ->
  exists m', runs m m' /\
    vstate m' (p + 1 + nlen (uv_enc i)) (a :: r) (with_bstack c (VBlock t n (fields_set name a fs) :: up) (c_btos c)).
Proof.
  intros H Hf Hx Hc Hb.
  eapply i_generic; try eassumption; [reflexivity | pose proof (uv_enc_length i); unfold nlen; lia|].
  intros post Hpost. eexists. split.
  - eapply C03_setfield; [apply (read_uvarint_enc _ i post); [reflexivity | exact Hx] | exact Hc | |].
    + open_state H. rewrite <- Score in Hb. exact Hb.
    + open_state H. exact Sstk.
  - fin_state H. unfold with_bstack. rewrite <- Score. reflexivity.
Qed.

Lemma i_getfield m p stk c i name t n fs up :
  vstate m p stk c -> frag_at p (opGETFIELD :: uv_enc i) -> i < 2^64 ->
  get_const g i = Some (VStr name) -> c_bstack c = VBlock t n fs :: up ->
  match lookup_field name (c_bstack c) with
  | Some v => (exists m', runs m m' /\ vstate m' (p + 1 + nlen (uv_enc i)) (v :: stk) c) \/ Limit m
  | None => (exists mf pos, aborts m mf (VErr pos (bs "identifier '" ++ name ++ bs "' not resolved as var or field"))
                            /\ core_of mf = c) \/ Limit m
  end.
Proof.
  intros H Hf Hx Hc Hb.
  destruct (tos m =? stackSize) eqn:Et.
  { assert (L : Limit m).
    { apply N.eqb_eq in Et. eapply h_overflow; try eassumption; [reflexivity | ovf_tac]. }
    destruct (lookup_field name (c_bstack c)); right; exact L. }
  apply N.eqb_neq in Et.
  assert (Hb' : bstack m = VBlock t n fs :: up) by (open_state H; rewrite <- Score in Hb; exact Hb).
  assert (E : forall post, exec_op g opGETFIELD (advance (uv_enc i ++ post) m) =
     match lookup_field name (bstack m) with
     | Some v => (push v (advance (uv_enc i ++ post) m <| pc := pc m + 1 + nlen (uv_enc i) |> <| rest := post |>), VOk)
     | None => (advance (uv_enc i ++ post) m <| pc := pc m + 1 + nlen (uv_enc i) |> <| rest := post |>,
                VErr (pos_at g (pc m + 1 + nlen (uv_enc i))) (bs "identifier '" ++ name ++ bs "' not resolved as var or field"))
     end).
  { intros post.
    rewrite (C03_getfield g (advance (uv_enc i ++ post) m) i _ name t n fs up Et (read_uvarint_enc (advance (uv_enc i ++ post) m) i post eq_refl Hx) Hc Hb').
    reflexivity. }
  assert (Hcb : c_bstack c = bstack m) by (open_state H; rewrite <- Score; reflexivity).
  rewrite Hcb. destruct (lookup_field name (bstack m)) as [v|]; left.
  - eapply i_generic; try eassumption; [reflexivity | pose proof (uv_enc_length i); unfold nlen; lia|].
    intros post Hpost. eexists. split; [apply E|]. fin_state H.
  - destruct (h_generic m p _ c opGETFIELD (uv_enc i)
               (VErr (pos_at g (p + 1 + nlen (uv_enc i))) (bs "identifier '" ++ name ++ bs "' not resolved as var or field")) c H Hf)
      as (mf & A & B); [reflexivity | discriminate | | eauto].
    intros post. eexists. split; [rewrite E; open_state H; rewrite Spc; reflexivity|].
    open_state H. rewrite <- Score. reflexivity.
Qed.

Lemma i_defblock m p stk c ti ni t n :
  vstate m p stk c -> frag_at p (opDEFBLOCK :: uv_enc ti ++ uv_enc ni) -> ti < 2^64 -> ni < 2^64 ->
  get_const g ti = Some (VStr t) -> get_const g ni = Some (VStr n) ->
  (exists m', runs m m' /\
     vstate m' (p + 1 + nlen (uv_enc ti) + nlen (uv_enc ni)) stk (with_bstack c (VBlock t n [] :: c_bstack c) (c_btos c + 1)))
  \/ Limit m.
Proof.
  intros H Hf Hx1 Hx2 Hc1 Hc2.
  assert (E : forall post, exec_op g opDEFBLOCK (advance ((uv_enc ti ++ uv_enc ni) ++ post) m) =
     let m2 := advance ((uv_enc ti ++ uv_enc ni) ++ post) m <| pc := pc m + 1 + nlen (uv_enc ti) |> <| rest := uv_enc ni ++ post |>
                 <| pc := pc m + 1 + nlen (uv_enc ti) + nlen (uv_enc ni) |> <| rest := post |> in
     if btos m =? blockStackSize then rt_err g m2 (bs "too many nested blocks")
     else (m2 <| bstack := VBlock t n [] :: bstack m |> <| btos := btos m + 1 |>
              <| btosMax := N.max (btosMax m) (btos m + 1) |>, VOk)).
  { intros post. unfold exec_op. no_ovf.
    rewrite (read_uvarint_enc _ ti (uv_enc ni ++ post)); [|rewrite <- app_assoc; reflexivity|exact Hx1].
    rewrite (read_uvarint_enc _ ni post); [|reflexivity|exact Hx2].
    rewrite Hc1, Hc2. unfold advance. vmsimp. reflexivity. }
  cbv zeta in E.
  assert (Hlen : nlen (uv_enc ti ++ uv_enc ni) = nlen (uv_enc ti) + nlen (uv_enc ni)).
  { unfold nlen. rewrite app_length. lia. }
  destruct (btos m =? blockStackSize) eqn:Eb.
  - right.
    destruct (h_generic m p _ c opDEFBLOCK (uv_enc ti ++ uv_enc ni)
               (VErr (pos_at g (p + 1 + nlen (uv_enc ti) + nlen (uv_enc ni))) (bs "too many nested blocks")) c H Hf)
      as (mf & A & B); [reflexivity | discriminate | | ].
    + intros post. eexists. split; [rewrite E; unfold rt_err; vmsimp; open_state H; rewrite Spc; reflexivity|].
      open_state H. rewrite <- Score. reflexivity.
    + exists mf. eexists. split; [exact A | apply limit_blocks].
  - left. replace (p + 1 + nlen (uv_enc ti) + nlen (uv_enc ni)) with (p + 1 + nlen (uv_enc ti ++ uv_enc ni)) by lia.
    eapply i_generic; try eassumption; [reflexivity | pose proof (uv_enc_length ti); unfold nlen in *; lia|].
    intros post Hpost. eexists. split; [apply E|]. fin_state H.
    unfold with_bstack. rewrite <- Score. reflexivity.
Qed.

Lemma i_endblock_nested m p stk c t n fs pt pn pfs up :
  vstate m p stk c -> frag_at p [opENDBLOCK] ->
  c_bstack c = VBlock t n fs :: VBlock pt pn pfs :: up ->
  match fields_get (block_key t n) pfs with
  | Some _ => exists mf pos, aborts m mf (VErr pos (bs "child " ++ block_key t n ++ bs " duplicate at parent")) /\
                             core_of mf = with_bstack c (c_bstack c) (c_btos c - 1)
  | None => exists m', runs m m' /\
              vstate m' (p + 1) stk (with_bstack c (VBlock pt pn (fields_set (block_key t n) (VBlock t n fs) pfs) :: up) (c_btos c - 1))
  end.
Proof.
  intros H Hf Hb.
  assert (Hb' : forall post, bstack (advance post m) = VBlock t n fs :: VBlock pt pn pfs :: up)
    by (intros post; open_state H; rewrite <- Score in Hb; exact Hb).
  pose proof (fun post => C03_endblock_nested g _ t n fs pt pn pfs up (Hb' post)) as E.
  destruct (fields_get (block_key t n) pfs).
  - destruct (h_generic m p _ c opENDBLOCK [] (VErr (pos_at g (p + 1)) (bs "child " ++ block_key t n ++ bs " duplicate at parent"))
                (with_bstack c (c_bstack c) (c_btos c - 1)) H Hf)
      as (mf & A & B); [reflexivity | discriminate | | eauto].
    intros post. eexists. split; [rewrite E; open_state H; unfold advance; vmsimp; rewrite Spc; reflexivity|].
    open_state H. unfold with_bstack. rewrite <- Score. reflexivity.
  - eapply i_generic; try eassumption; [reflexivity | lia|].
    intros post Hpost. eexists. split; [apply E|].
    change (nlen []) with 0 in Hpost. rewrite N.add_0_r in Hpost. fin_state H.
    unfold with_bstack. rewrite <- Score. reflexivity.
Qed.

Definition with_result (c : core) (r : list value) : core :=
  {| c_bstack := []; c_btos := 0; c_result := r; c_bind := c_bind c; c_out := c_out c; c_warn := c_warn c |}.

Lemma i_endblock_top m p stk c t n fs :
  vstate m p stk c -> frag_at p [opENDBLOCK] -> c_bstack c = [VBlock t n fs] ->
  exists m', runs m m' /\ vstate m' (p + 1) stk (with_result c (VBlock t n fs :: c_result c)).
Proof.
  intros H Hf Hb.
  assert (Hb' : forall post, bstack (advance post m) = [VBlock t n fs])
    by (intros post; open_state H; rewrite <- Score in Hb; exact Hb).
  pose proof (fun post => C03_endblock_toplevel g _ t n fs (Hb' post)) as E.
  eapply i_generic; try eassumption; [reflexivity | lia|].
  intros post Hpost. eexists. split; [apply E|].
  change (nlen []) with 0 in Hpost. rewrite N.add_0_r in Hpost. fin_state H.
  unfold with_result. rewrite <- Score. reflexivity.
Qed.

(* RET with an empty stack *)
Lemma i_ret m p c :
  vstate m p [] c -> frag_at p [opRET] ->
  exists mf, halts m mf VOk /\ core_of mf = c.
Proof.
  intros H Hf. open_state H.
  destruct (positioned_rest m p _ Spos Spc Hf) as (post & Hr & _). cbn [app] in Hr.
  exists (advance post m). split; [|rewrite <- Score; reflexivity].
  split; [rewrite Spc; eapply frag_at_lt; exact Hf|].
  intros k. rewrite run_fuel_S. cbv zeta. unfold tr0. cbn [app]. rewrite setout_self, Hr.
  change (opRET =? opRET) with true. cbv iota.
  destruct Sinv as [I _]. change (tos (advance post m)) with (tos m). rewrite I, Sstk. reflexivity.
Qed.


Definition with_bind (c : core) (b : binding) (w : list (N * bytes)) : core :=
  {| c_bstack := c_bstack c; c_btos := c_btos c; c_result := c_result c; c_bind := b; c_out := c_out c; c_warn := w |}.

Definition rebind_msg : bytes := bs "repeated bind statement, last one overrides".
Definition warned (c : core) (pos : N) : list (N * bytes) :=
  match c_bind c with BNone => c_warn c | _ => (pos, rebind_msg) :: c_warn c end.

Lemma bind_warned_proj m :
  pc (bind_warned g m) = pc m /\ rest (bind_warned g m) = rest m /\ stack (bind_warned g m) = stack m /\
  tos (bind_warned g m) = tos m /\ tosMax (bind_warned g m) = tosMax m /\
  core_of (bind_warned g m) = with_bind (core_of m) (bind_ m) (warned (core_of m) (pos_at g (pc m))).
Proof.
  unfold bind_warned, warned, with_bind, core_of. cbn [c_bind c_warn c_bstack c_btos c_result c_out].
  destruct (bind_ m) eqn:E; vmsimp; rewrite ?E; repeat split.
Qed.

Lemma i_bind m p stk c i ty opt s t :
  vstate m p stk c -> frag_at p (opBIND :: uv_enc i ++ [opt]) -> i < 2^64 ->
  get_const g i = Some (VStr ty) -> sel_of opt = Some s -> tgt_of opt = Some t ->
  let w := warned c (pos_at g (p + 1)) in
  let p' := p + 1 + nlen (uv_enc i) + 1 in
  match Sem.select s t (matching_blocks ty (c_result c)) with
  | SStruct b => exists m', runs m m' /\ vstate m' p' stk (with_bind c (BStruct b) w)
  | SSlice l => exists m', runs m m' /\ vstate m' p' stk (with_bind c (BSlice l) w)
  | SNoBlocks => exists mf pos, aborts m mf (VErr pos (bs "bind: no blocks of type " ++ ty)) /\
                                core_of mf = with_bind c (c_bind c) w
  | SNotExactlyOne k => exists mf pos,
       aborts m mf (VErr pos (bs "bind: found " ++ dec_of_N k ++ bs " blocks of type " ++ ty ++ bs " but expected just 1")) /\
       core_of mf = with_bind c (c_bind c) w
  | SInvalid => True
  end.
Proof.
  intros H Hf Hx Hc Hs Ht w p'.
  assert (Hlen : nlen (uv_enc i ++ [opt]) = nlen (uv_enc i) + 1).
  { unfold nlen. rewrite app_length. cbn [length]. lia. }
  set (M2 := fun post : bytes =>
       bind_warned g (advance ((uv_enc i ++ [opt]) ++ post) m) <| pc := pc m + 1 + nlen (uv_enc i) |> <| rest := [opt] ++ post |>
         <| pc := pc m + 1 + nlen (uv_enc i) + 1 |> <| rest := post |>).
  assert (E : forall post, exec_op g opBIND (advance ((uv_enc i ++ [opt]) ++ post) m) =
     bind_outcome g (M2 post) ty (Sem.select s t (matching_blocks ty (result m)))).
  { intros post.
    destruct (bind_warned_proj (advance ((uv_enc i ++ [opt]) ++ post) m)) as (B1 & B2 & _).
    eapply (C04_bind_spec g (advance ((uv_enc i ++ [opt]) ++ post) m) i _ ty opt (M2 post) s t).
    - apply read_uvarint_enc; [|exact Hx]. rewrite B2. unfold advance. vmsimp. rewrite <- app_assoc. reflexivity.
    - exact Hc.
    - unfold read_byte. vmsimp. cbn [app]. unfold M2. rewrite B1. unfold advance. vmsimp. reflexivity.
    - exact Hs.
    - exact Ht. }
  assert (HM2 : forall post, pc (M2 post) = p' /\ rest (M2 post) = post /\ stack (M2 post) = stk /\
                             core_of (M2 post) = with_bind c (c_bind c) w).
  { intros post. destruct (bind_warned_proj (advance ((uv_enc i ++ [opt]) ++ post) m)) as (B1 & B2 & B3 & B4 & B5 & B6).
    open_state H. unfold M2. vmsimp. subst p'. rewrite Spc. split; [reflexivity|]. split; [reflexivity|].
    split; [rewrite B3; exact Sstk|].
    transitivity (core_of (bind_warned g (advance ((uv_enc i ++ [opt]) ++ post) m))); [reflexivity|].
    rewrite B6. change (core_of (advance ((uv_enc i ++ [opt]) ++ post) m)) with (core_of m).
    change (bind_ (advance ((uv_enc i ++ [opt]) ++ post) m)) with (bind_ m).
    change (pc (advance ((uv_enc i ++ [opt]) ++ post) m)) with (pc m + 1).
    replace (bind_ m) with (c_bind c) by (rewrite <- Score; reflexivity).
    rewrite Score, Spc. reflexivity. }
  assert (Hres : c_result c = result m) by (open_state H; rewrite <- Score; reflexivity).
  rewrite Hres. unfold bind_outcome, bind_no_blocks, bind_not_one, bind_invalid, rt_err in E.
  destruct (Sem.select s t (matching_blocks ty (result m))) as [b|l| |k|].
  - replace p' with (p + 1 + nlen (uv_enc i ++ [opt])) by (subst p'; lia).
    eapply i_generic; try eassumption; [reflexivity | lia|].
    intros post Hpost. eexists. split; [apply E|].
    destruct (HM2 post) as (A1 & A2 & A3 & A4). vmsimp.
    split; [subst p'; lia|]. split; [rewrite A2; symmetry; exact Hpost|]. split; [exact A3|].
    unfold core_of in *. vmsimp. unfold with_bind in *. inversion A4. cbn [c_bind c_warn c_bstack c_btos c_result c_out]. reflexivity.
  - replace p' with (p + 1 + nlen (uv_enc i ++ [opt])) by (subst p'; lia).
    eapply i_generic; try eassumption; [reflexivity | lia|].
    intros post Hpost. eexists. split; [apply E|].
    destruct (HM2 post) as (A1 & A2 & A3 & A4). vmsimp.
    split; [subst p'; lia|]. split; [rewrite A2; symmetry; exact Hpost|]. split; [exact A3|].
    unfold core_of in *. vmsimp. unfold with_bind in *. inversion A4. cbn [c_bind c_warn c_bstack c_btos c_result c_out]. reflexivity.
  - destruct (h_generic m p _ c opBIND (uv_enc i ++ [opt]) (VErr (pos_at g p') (bs "bind: no blocks of type " ++ ty))
               (with_bind c (c_bind c) w) H Hf) as (mf & A & B); [reflexivity | discriminate | | eauto].
    intros post. eexists. split; [rewrite E; destruct (HM2 post) as (A1 & _); rewrite A1; reflexivity|].
    apply HM2.
  - destruct (h_generic m p _ c opBIND (uv_enc i ++ [opt])
               (VErr (pos_at g p') (bs "bind: found " ++ dec_of_N k ++ bs " blocks of type " ++ ty ++ bs " but expected just 1"))
               (with_bind c (c_bind c) w) H Hf) as (mf & A & B); [reflexivity | discriminate | | eauto].
    intros post. eexists. split; [rewrite E; destruct (HM2 post) as (A1 & _); rewrite A1; reflexivity|].
    apply HM2.
  - exact I.
Qed.

End WithProg.
