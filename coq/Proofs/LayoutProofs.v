(* LayoutProofs.v: layout facts about Model/Lexer.v -- property C20.
   A '#' comment ends at the next CR or LF (or at the end of the input) and nowhere else;
   nothing between the quotes of a string literal is layout; any amount of any of the eight
   whitespace characters between tokens produces no token. *)
From Coq Require Import Lia ZifyN ZifyNat ZifyBool.
From BCL Require Import Model.Lexer Lib.Strconv Proofs.LineCalcProofs Proofs.LexerProofs.
Open Scope N_scope.

Ltac Zify.zify_post_hook ::= Z.div_mod_to_equations.

(* ------------------------------------------------------------------ *)
(* a. the shape of one decoded rune                                    *)
(* ------------------------------------------------------------------ *)

Lemma lead_info_cases : forall b0,
  (b0 < 128 /\ lead_info b0 = (0, (0, 0))) \/
  (128 <= b0 /\ lead_info b0 = (1, (0, 0))) \/
  (194 <= b0 < 224 /\ lead_info b0 = (2, (128, 191))) \/
  (b0 = 224 /\ lead_info b0 = (3, (160, 191))) \/
  (b0 = 237 /\ lead_info b0 = (3, (128, 159))) \/
  (224 < b0 < 240 /\ lead_info b0 = (3, (128, 191))) \/
  (b0 = 240 /\ lead_info b0 = (4, (144, 191))) \/
  (240 < b0 < 244 /\ lead_info b0 = (4, (128, 191))) \/
  (b0 = 244 /\ lead_info b0 = (4, (128, 143))).
Proof.
  intros b0. unfold lead_info.
  destruct (b0 <? 128) eqn:E1; [left; split; [lia|reflexivity]|right].
  destruct (b0 <? 194) eqn:E2; [left; split; [lia|reflexivity]|].
  destruct (b0 <? 224) eqn:E3; [right; left; split; [lia|reflexivity]|].
  destruct (b0 =? 224) eqn:E4; [right; right; left; split; [lia|reflexivity]|].
  destruct (b0 =? 237) eqn:E5; [right; right; right; left; split; [lia|reflexivity]|].
  destruct (b0 <? 240) eqn:E6; [right; right; right; right; left; split; [lia|reflexivity]|].
  destruct (b0 =? 240) eqn:E7; [right; right; right; right; right; left; split; [lia|reflexivity]|].
  destruct (b0 <? 244) eqn:E8; [right; right; right; right; right; right; left; split; [lia|reflexivity]|].
  destruct (b0 =? 244) eqn:E9; [right; right; right; right; right; right; right; split; [lia|reflexivity]|].
  left; split; [lia|reflexivity].
Qed.

(* decode_rune (b0 :: l) = (r, w): the rune takes b0 and w-1 further bytes, all >= 128, and
   is either the ASCII byte b0 itself or a value >= 128 (U+FFFD for an invalid sequence) *)
Definition shape (b0 : N) (l : bytes) (r : N) (w : nat) : Prop :=
  exists cont post, l = cont ++ post /\ w = S (length cont) /\
    Forall (fun b => 128 <= b) cont /\ ((r = b0 /\ b0 < 128 /\ cont = []) \/ 128 <= r).

Lemma shape_err : forall b0 l, shape b0 l rune_error 1.
Proof.
  intros. exists [], l. repeat split; auto. right. unfold rune_error. lia.
Qed.

Lemma shape_ascii : forall b0 l, b0 < 128 -> shape b0 l b0 1.
Proof. intros. exists [], l. repeat split; auto. Qed.

Lemma shape_n : forall b0 cont post r, Forall (fun b => 128 <= b) cont -> 128 <= r ->
  shape b0 (cont ++ post) r (S (length cont)).
Proof. intros. exists cont, post. repeat split; auto. Qed.

Lemma decode_rune_shape : forall b0 l,
  shape b0 l (fst (decode_rune (b0 :: l))) (snd (decode_rune (b0 :: l))).
Proof.
  intros b0 l.
  destruct (lead_info_cases b0) as
    [[Hb HL]|[[Hb HL]|[[Hb HL]|[[Hb HL]|[[Hb HL]|[[Hb HL]|[[Hb HL]|[[Hb HL]|[Hb HL]]]]]]]]];
    unfold decode_rune; rewrite HL; cbn [N.eqb Pos.eqb].
  - apply shape_ascii; exact Hb.
  - apply shape_err.
  - destruct l as [|b1 l1]; [apply shape_err|].
    destruct (in_range 128 191 b1) eqn:E1; cbn [negb fst snd]; [|apply shape_err].
    unfold in_range in E1. apply (shape_n b0 [b1] l1); [repeat constructor; lia|lia].
  - destruct l as [|b1 [|b2 l2]]; try apply shape_err.
    { destruct (in_range 160 191 b1); apply shape_err. }
    destruct (in_range 160 191 b1) eqn:E1; cbn [negb fst snd]; [|apply shape_err].
    destruct (is_cont b2) eqn:E2; cbn [negb fst snd]; [|apply shape_err].
    unfold is_cont, in_range in *. apply (shape_n b0 [b1; b2] l2); [repeat constructor; lia|lia].
  - destruct l as [|b1 [|b2 l2]]; try apply shape_err.
    { destruct (in_range 128 159 b1); apply shape_err. }
    destruct (in_range 128 159 b1) eqn:E1; cbn [negb fst snd]; [|apply shape_err].
    destruct (is_cont b2) eqn:E2; cbn [negb fst snd]; [|apply shape_err].
    unfold is_cont, in_range in *. apply (shape_n b0 [b1; b2] l2); [repeat constructor; lia|lia].
  - destruct l as [|b1 [|b2 l2]]; try apply shape_err.
    { destruct (in_range 128 191 b1); apply shape_err. }
    destruct (in_range 128 191 b1) eqn:E1; cbn [negb fst snd]; [|apply shape_err].
    destruct (is_cont b2) eqn:E2; cbn [negb fst snd]; [|apply shape_err].
    unfold is_cont, in_range in *. apply (shape_n b0 [b1; b2] l2); [repeat constructor; lia|lia].
  - destruct l as [|b1 [|b2 [|b3 l3]]]; try apply shape_err.
    { destruct (in_range 144 191 b1); apply shape_err. }
    { destruct (in_range 144 191 b1); [|apply shape_err]. destruct (is_cont b2); apply shape_err. }
    destruct (in_range 144 191 b1) eqn:E1; cbn [negb fst snd]; [|apply shape_err].
    destruct (is_cont b2) eqn:E2; cbn [negb fst snd]; [|apply shape_err].
    destruct (is_cont b3) eqn:E3; cbn [negb fst snd]; [|apply shape_err].
    unfold is_cont, in_range in *. apply (shape_n b0 [b1; b2; b3] l3); [repeat constructor; lia|lia].
  - destruct l as [|b1 [|b2 [|b3 l3]]]; try apply shape_err.
    { destruct (in_range 128 191 b1); apply shape_err. }
    { destruct (in_range 128 191 b1); [|apply shape_err]. destruct (is_cont b2); apply shape_err. }
    destruct (in_range 128 191 b1) eqn:E1; cbn [negb fst snd]; [|apply shape_err].
    destruct (is_cont b2) eqn:E2; cbn [negb fst snd]; [|apply shape_err].
    destruct (is_cont b3) eqn:E3; cbn [negb fst snd]; [|apply shape_err].
    unfold is_cont, in_range in *. apply (shape_n b0 [b1; b2; b3] l3); [repeat constructor; lia|lia].
  - destruct l as [|b1 [|b2 [|b3 l3]]]; try apply shape_err.
    { destruct (in_range 128 143 b1); apply shape_err. }
    { destruct (in_range 128 143 b1); [|apply shape_err]. destruct (is_cont b2); apply shape_err. }
    destruct (in_range 128 143 b1) eqn:E1; cbn [negb fst snd]; [|apply shape_err].
    destruct (is_cont b2) eqn:E2; cbn [negb fst snd]; [|apply shape_err].
    destruct (is_cont b3) eqn:E3; cbn [negb fst snd]; [|apply shape_err].
    unfold is_cont, in_range in *. apply (shape_n b0 [b1; b2; b3] l3); [repeat constructor; lia|lia].
Qed.

(* a rune that starts inside `body` does not swallow the byte after it, when that byte is
   ASCII (in particular CR, LF, the double quote): continuation bytes are >= 128 *)
Definition ascii_or_end (tail : bytes) : Prop := tail = [] \/ exists e tl, tail = e :: tl /\ e < 128.

Lemma cont_prefix : forall cont post body tail,
  cont ++ post = body ++ tail -> Forall (fun b => 128 <= b) cont -> ascii_or_end tail ->
  exists body', body = cont ++ body' /\ post = body' ++ tail.
Proof.
  induction cont as [|x cont IH]; intros post body tail E HF HT.
  - exists body. split; [reflexivity|exact E].
  - inversion HF as [|x' l' Hx HF']; subst.
    destruct body as [|y body].
    + exfalso. cbn [app] in E. destruct HT as [->|[e [tl [-> He]]]]; [discriminate E|].
      injection E as <- _. lia.
    + cbn [app] in E. injection E as <- E.
      destruct (IH post body tail E HF' HT) as [body' [-> ->]].
      exists body'. split; reflexivity.
Qed.

Lemma rune_step : forall b0 body tail,
  ascii_or_end tail ->
  exists pre body' r,
    b0 :: body = pre ++ body' /\ pre <> [] /\
    decode_rune ((pre ++ body') ++ tail) = (r, length pre) /\
    ((r = b0 /\ b0 < 128) \/ 128 <= r).
Proof.
  intros b0 body tail HT.
  pose proof (decode_rune_shape b0 (body ++ tail)) as [cont [post [E [Hw [HF Hr]]]]].
  destruct (cont_prefix cont post body tail (eq_sym E) HF HT) as [body' [-> ->]].
  exists (b0 :: cont), body', (fst (decode_rune (b0 :: (cont ++ body') ++ tail))).
  repeat split.
  - discriminate.
  - cbn [app length]. rewrite <- Hw. apply surjective_pairing.
  - destruct Hr as [[H1 [H2 _]]|H]; [left; split; assumption|right; exact H].
Qed.

(* ------------------------------------------------------------------ *)
(* b. cursors whose input has all arrived (pending = [])                *)
(* ------------------------------------------------------------------ *)

Definition mk (bef aft : bytes) (g : N) (w : nat) (l : list N) (o : list token) : cur :=
  {| before := bef; after := aft; gpos := g; width := w; pending := []; lfs := l; out := o |}.

Lemma cur_mk : forall c, pending c = [] ->
  c = mk (before c) (after c) (gpos c) (width c) (lfs c) (out c).
Proof. intros [bef aft g w p l o] H. cbn in H. subst p. reflexivity. Qed.

Lemma move_rev_app : forall pre post to, move_rev (length pre) (pre ++ post) to = (post, rev pre ++ to).
Proof.
  induction pre as [|x pre IH]; intros post to; [destruct post; reflexivity|].
  cbn [length app move_rev rev]. rewrite IH, <- app_assoc. reflexivity.
Qed.

Lemma refill_nil : forall aft g l, refill [] aft g l = ([], aft, l).
Proof. intros. cbn [refill]. destruct (full_rune aft); reflexivity. Qed.

Lemma next_mk : forall bef pre post g w0 l o r,
  decode_rune (pre ++ post) = (r, length pre) -> pre <> [] ->
  next (mk bef (pre ++ post) g w0 l o)
  = (Z.of_N r, mk (rev pre ++ bef) post (g + nlen pre) (length pre) l o).
Proof.
  intros bef pre post g w0 l o r HD Hne. unfold next, mk.
  cbn [pending after gpos lfs before out].
  rewrite refill_nil, HD.
  destruct (length pre) as [|n] eqn:EL; [destruct pre; [congruence|discriminate EL]|].
  rewrite <- EL, move_rev_app. unfold nlen. reflexivity.
Qed.

Lemma next_mk_eof : forall bef g w0 l o,
  next (mk bef [] g w0 l o) = (eof, mk bef [] g 0 l o).
Proof. reflexivity. Qed.

Lemma backup_mk : forall bef pre post g l o,
  backup (mk (rev pre ++ bef) post (g + nlen pre) (length pre) l o)
  = mk bef (pre ++ post) g (length pre) l o.
Proof.
  intros. unfold backup, mk. cbn [before after gpos width pending lfs out].
  rewrite <- (rev_length pre), move_rev_app, rev_involutive, rev_length.
  f_equal. unfold nlen. lia.
Qed.

Lemma backup_mk0 : forall bef aft g l o, backup (mk bef aft g 0 l o) = mk bef aft g 0 l o.
Proof.
  intros. unfold backup, mk. cbn [before after gpos width pending lfs out move_rev].
  f_equal. lia.
Qed.

(* peek on such a cursor only changes `width` *)
Lemma peek_mk : forall bef aft g w0 l o,
  peek (mk bef aft g w0 l o)
  = (match aft with [] => eof | _ => Z.of_N (fst (decode_rune aft)) end,
     mk bef aft g (snd (decode_rune aft)) l o).
Proof.
  intros. unfold peek. destruct aft as [|b0 aft].
  - rewrite next_mk_eof, backup_mk0. reflexivity.
  - destruct (rune_step b0 aft [] (or_introl eq_refl)) as [pre [body' [r [E [Hne [HD _]]]]]].
    rewrite app_nil_r in HD. rewrite E, (next_mk _ _ _ _ _ _ _ _ HD Hne), backup_mk, HD.
    cbn [fst snd]. destruct (pre ++ body') eqn:E2; [|reflexivity].
    destruct pre; [congruence|discriminate E2].
Qed.

Lemma nlen_app : forall (a b : bytes), nlen (a ++ b) = nlen a + nlen b.
Proof. intros. unfold nlen. rewrite app_length. lia. Qed.

Lemma nlen_cons : forall (x : N) (a : bytes), nlen (x :: a) = 1 + nlen a.
Proof. intros. unfold nlen. cbn [length]. lia. Qed.

Lemma ignore_mk : forall bef aft g w l o, ignore (mk bef aft g w l o) = mk [] aft g w l o.
Proof. reflexivity. Qed.

(* ------------------------------------------------------------------ *)
(* 1. a comment ends at the next CR or LF, or at the end of the input   *)
(* ------------------------------------------------------------------ *)

Definition eol_or_end (tail : bytes) : Prop :=
  tail = [] \/ exists e rest, tail = e :: rest /\ (e = 10 \/ e = 13).

Lemma eol_or_end_ascii : forall tail, eol_or_end tail -> ascii_or_end tail.
Proof.
  intros tail [->|[e [rest [-> He]]]]; [left; reflexivity|].
  right. exists e, rest. split; [reflexivity|]. destruct He; subst; lia.
Qed.

Definition width_at (tail : bytes) : nat := match tail with [] => 0%nat | _ => 1%nat end.

Lemma comment_scan : forall fuel body tail bef g w0 l o,
  (forall b, In b body -> b <> 10 /\ b <> 13) -> eol_or_end tail ->
  (length body + 1 <= fuel)%nat ->
  lex_line_comment fuel (mk bef (body ++ tail) g w0 l o)
  = (true, mk [] tail (g + nlen body) (width_at tail) l o).
Proof.
  induction fuel as [|f IH]; intros body tail bef g w0 l o Hbody Htail Hfuel; [lia|].
  destruct body as [|b0 body].
  - cbn [app lex_line_comment]. replace (g + nlen []) with g by (unfold nlen; cbn; lia).
    destruct Htail as [->|[e [rest [-> He]]]].
    + rewrite next_mk_eof. cbn [is_eol zin existsb orb Z.eqb eof].
      rewrite backup_mk0, ignore_mk. reflexivity.
    + assert (HD : decode_rune ([e] ++ rest) = (e, length [e]))
        by (destruct He; subst e; reflexivity).
      change (e :: rest) with ([e] ++ rest) at 1.
      rewrite (next_mk bef [e] rest g w0 l o e HD) by discriminate.
      assert (Heol : is_eol (Z.of_N e) = true) by (destruct He; subst e; reflexivity).
      rewrite Heol. cbn [orb]. rewrite backup_mk, ignore_mk. reflexivity.
  - destruct (rune_step b0 body tail (eol_or_end_ascii _ Htail))
      as [pre [body' [r [E [Hne [HD Hr]]]]]].
    rewrite E in *. rewrite <- app_assoc in *.
    cbn [lex_line_comment]. rewrite (next_mk _ _ _ _ _ _ _ _ HD Hne).
    assert (Hb0 : b0 <> 10 /\ b0 <> 13).
    { apply Hbody. rewrite <- E. left; reflexivity. }
    assert (Hgo : is_eol (Z.of_N r) || (Z.of_N r =? eof)%Z = false).
    { unfold is_eol, zin, eof. cbn [existsb]. destruct Hr as [[-> _]|Hr]; lia. }
    rewrite Hgo.
    assert (Hlen : (1 <= length pre)%nat) by (destruct pre; [congruence|cbn; lia]).
    rewrite IH.
    + rewrite nlen_app, N.add_assoc. reflexivity.
    + intros b Hb. apply Hbody. apply in_or_app. right; exact Hb.
    + exact Htail.
    + rewrite app_length in Hfuel. lia.
Qed.

Theorem C20_comment_extent : forall body e rest c fuel,
  pending c = [] -> after c = body ++ e :: rest -> (e = 10 \/ e = 13) ->
  (forall b, In b body -> b <> 10 /\ b <> 13) ->
  (length body + 1 <= fuel)%nat ->
  lex_line_comment fuel c = (true, mk [] (e :: rest) (gpos c + nlen body) 1 (lfs c) (out c)).
Proof.
  intros body e rest c fuel Hp Ha He Hbody Hfuel.
  rewrite (cur_mk c Hp), Ha. cbn [gpos lfs out mk].
  apply (comment_scan fuel body (e :: rest)); auto.
  right. exists e, rest. auto.
Qed.
Print Assumptions C20_comment_extent.

(* no CR or LF at all: the comment extends to the end of the input *)
Theorem C20_comment_extent_eof : forall body c fuel,
  pending c = [] -> after c = body ->
  (forall b, In b body -> b <> 10 /\ b <> 13) ->
  (length body + 1 <= fuel)%nat ->
  lex_line_comment fuel c = (true, mk [] [] (gpos c + nlen body) 0 (lfs c) (out c)).
Proof.
  intros body c fuel Hp Ha Hbody Hfuel.
  rewrite (cur_mk c Hp), Ha. cbn [gpos lfs out mk].
  rewrite <- (app_nil_r body) at 1.
  apply (comment_scan fuel body []); auto. left; reflexivity.
Qed.
Print Assumptions C20_comment_extent_eof.

(* from the state function that sees the '#' *)
Lemma lex_start_hash : forall fuel c c1, next c = (35%Z, c1) -> lex_start fuel c = lex_line_comment fuel c1.
Proof. intros fuel c c1 H. unfold lex_start. rewrite H. reflexivity. Qed.

Theorem C20_comment_lex_start : forall body tail c fuel,
  pending c = [] -> after c = 35 :: body ++ tail -> eol_or_end tail ->
  (forall b, In b body -> b <> 10 /\ b <> 13) ->
  (length body + 1 <= fuel)%nat ->
  lex_start fuel c = (true, mk [] tail (gpos c + 1 + nlen body) (width_at tail) (lfs c) (out c)).
Proof.
  intros body tail c fuel Hp Ha Htail Hbody Hfuel.
  rewrite (cur_mk c Hp), Ha. cbn [gpos lfs out mk].
  change (35 :: body ++ tail) with ([35] ++ (body ++ tail)).
  rewrite (lex_start_hash fuel _ _ (next_mk _ [35] _ _ _ _ _ 35 eq_refl ltac:(discriminate))).
  change (nlen [35]) with 1.
  apply comment_scan; auto.
Qed.
Print Assumptions C20_comment_lex_start.

(* ------------------------------------------------------------------ *)
(* 2. nothing between the quotes is layout                              *)
(* ------------------------------------------------------------------ *)

(* the rune peek sees *)
Definition peek_rune (rest : bytes) : Z :=
  match rest with [] => eof | _ => Z.of_N (fst (decode_rune rest)) end.

Definition first_not_alnum (rest : bytes) : Prop :=
  match rest with [] => True | b :: _ => is_alnum (Z.of_N b) = false end.

Lemma first_not_alnum_peek : forall rest, first_not_alnum rest -> is_alnum (peek_rune rest) = false.
Proof.
  intros [|b0 rest] H; [reflexivity|].
  cbn [first_not_alnum peek_rune] in *.
  destruct (decode_rune_shape b0 rest) as [cont [post [_ [_ [_ Hr]]]]].
  destruct Hr as [[-> _]|Hr]; [exact H|].
  unfold is_alnum, is_alpha, is_digit_r. lia.
Qed.

Lemma ascii_tail : forall e rest, e < 128 -> ascii_or_end (e :: rest).
Proof. intros e rest H. right. exists e, rest. auto. Qed.

Lemma quote_scan : forall fuel body rest bef g w0 l o,
  (forall b, In b body -> b <> 34 /\ b <> 92 /\ b <> 10) ->
  is_alnum (peek_rune rest) = false ->
  (length body + 1 <= fuel)%nat ->
  lex_quote fuel (mk bef (body ++ 34 :: rest) g w0 l o)
  = (true, emit tSTR (mk (34 :: rev body ++ bef) rest (g + nlen body + 1) (snd (decode_rune rest)) l o)).
Proof.
  induction fuel as [|f IH]; intros body rest bef g w0 l o Hbody Hrest Hfuel; [lia|].
  destruct body as [|b0 body].
  - cbn [app lex_quote rev]. replace (g + nlen []) with g by (unfold nlen; cbn; lia).
    change (34 :: rest) with ([34] ++ rest).
    rewrite (next_mk bef [34] rest g w0 l o 34 eq_refl) by discriminate.
    change (Z.of_N 34) with 34%Z. cbn [Z.eqb Pos.eqb orb eof].
    rewrite peek_mk. fold (peek_rune rest). rewrite Hrest. reflexivity.
  - destruct (rune_step b0 body (34 :: rest) (ascii_tail 34 rest ltac:(lia)))
      as [pre [body' [r [E [Hne [HD Hr]]]]]].
    rewrite E in *. rewrite <- app_assoc in *.
    cbn [lex_quote]. rewrite (next_mk _ _ _ _ _ _ _ _ HD Hne).
    assert (Hb0 : b0 <> 34 /\ b0 <> 92 /\ b0 <> 10).
    { apply Hbody. rewrite <- E. left; reflexivity. }
    assert (H92 : (Z.of_N r =? 92)%Z = false) by (destruct Hr as [[-> _]|Hr]; lia).
    assert (Hnl : (Z.of_N r =? eof)%Z || (Z.of_N r =? 10)%Z = false)
      by (unfold eof; destruct Hr as [[-> _]|Hr]; lia).
    assert (H34 : (Z.of_N r =? 34)%Z = false) by (destruct Hr as [[-> _]|Hr]; lia).
    rewrite H92, Hnl, H34.
    assert (Hlen : (1 <= length pre)%nat) by (destruct pre; [congruence|cbn; lia]).
    rewrite IH.
    + rewrite nlen_app, N.add_assoc, rev_app_distr, <- app_assoc. reflexivity.
    + intros b Hb. apply Hbody. apply in_or_app. right; exact Hb.
    + exact Hrest.
    + rewrite app_length in Hfuel. lia.
Qed.

(* lex_quote from just after the opening quote: one tSTR token whose text is the quotes and
   the bytes between them, whatever they are ('#', ';', parentheses, white space, CR, ...) *)
Theorem C20_string_opaque : forall body rest c fuel,
  pending c = [] -> before c = [34] -> after c = body ++ 34 :: rest ->
  (forall b, In b body -> b <> 34 /\ b <> 92 /\ b <> 10) ->
  first_not_alnum rest ->
  (length body + 1 <= fuel)%nat ->
  lex_quote fuel c =
  (true, mk [] rest (gpos c + nlen body + 1) (snd (decode_rune rest)) (lfs c)
            ({| ttyp := tSTR; tval := 34 :: body ++ [34]; terr := None;
                tpos := gpos c + nlen body + 1 |} :: out c)).
Proof.
  intros body rest c fuel Hp Hb Ha Hbody Hrest Hfuel.
  rewrite (cur_mk c Hp), Ha, Hb. cbn [gpos lfs out mk].
  rewrite (quote_scan fuel body rest); auto using first_not_alnum_peek.
  unfold emit, mk, current. cbn [before after gpos width pending lfs out].
  rewrite frev_eq. cbn [rev]. rewrite rev_app_distr, rev_involutive. reflexivity.
Qed.
Print Assumptions C20_string_opaque.

Lemma lex_start_quote : forall fuel c c1, next c = (34%Z, c1) -> lex_start fuel c = lex_quote fuel c1.
Proof. intros fuel c c1 H. unfold lex_start. rewrite H. reflexivity. Qed.

Theorem C20_string_lex_start : forall body rest c fuel,
  pending c = [] -> before c = [] -> after c = 34 :: body ++ 34 :: rest ->
  (forall b, In b body -> b <> 34 /\ b <> 92 /\ b <> 10) ->
  first_not_alnum rest ->
  (length body + 1 <= fuel)%nat ->
  lex_start fuel c =
  (true, mk [] rest (gpos c + 1 + nlen body + 1) (snd (decode_rune rest)) (lfs c)
            ({| ttyp := tSTR; tval := 34 :: body ++ [34]; terr := None;
                tpos := gpos c + 1 + nlen body + 1 |} :: out c)).
Proof.
  intros body rest c fuel Hp Hb Ha Hbody Hrest Hfuel.
  rewrite (cur_mk c Hp), Ha, Hb. cbn [gpos lfs out mk].
  change (34 :: body ++ 34 :: rest) with ([34] ++ (body ++ 34 :: rest)).
  rewrite (lex_start_quote fuel _ _ (next_mk _ [34] _ _ _ _ _ 34 eq_refl ltac:(discriminate))).
  change (nlen [34]) with 1. cbn [rev app length].
  apply (C20_string_opaque body rest); auto.
Qed.
Print Assumptions C20_string_lex_start.

(* ... and Unquote returns those bytes one for one *)
Lemma unquote_body_step : forall c f l acc,
  c < 128 -> c <> 10 -> c <> 34 -> c <> 92 ->
  unquote_body (S f) (c :: l) acc = unquote_body f l (c :: acc).
Proof.
  intros c f l acc Hc H10 H34 H92.
  destruct c as [|p]; [reflexivity|].
  do 7 (destruct p as [p|p|]; try reflexivity; try lia; try congruence).
Qed.

Lemma unquote_body_plain : forall l acc,
  (forall b, In b l -> b < 128 /\ b <> 10 /\ b <> 34 /\ b <> 92) ->
  unquote_body (S (length l)) l acc = Some (rev acc ++ l).
Proof.
  induction l as [|c l IH]; intros acc H.
  - cbn [unquote_body length]. rewrite frev_eq, app_nil_r. reflexivity.
  - destruct (H c (or_introl eq_refl)) as [H1 [H2 [H3 H4]]].
    cbn [length]. rewrite unquote_body_step by assumption.
    rewrite IH by (intros b Hb; apply H; right; exact Hb).
    cbn [rev]. rewrite <- app_assoc. reflexivity.
Qed.

Theorem unquote_plain_gen : forall body,
  (forall b, In b body -> b < 128 /\ b <> 10 /\ b <> 34 /\ b <> 92) ->
  unquote (34 :: body ++ [34]) = Some body.
Proof.
  intros body H. unfold unquote. rewrite frev_eq, rev_app_distr. cbn [rev app].
  cbv zeta. rewrite frev_eq, rev_involutive. apply (unquote_body_plain body [] H).
Qed.

Theorem unquote_plain : forall body,
  (forall b, In b body -> 32 <= b < 127 /\ b <> 34 /\ b <> 92) ->
  unquote (34 :: body ++ [34]) = Some body.
Proof.
  intros body H. apply unquote_plain_gen. intros b Hb. specialize (H b Hb). lia.
Qed.
Print Assumptions unquote_plain.

(* ------------------------------------------------------------------ *)
(* 3. white space between tokens                                        *)
(* ------------------------------------------------------------------ *)

(* the eight white-space characters, UTF-8 encoded: space, tab, VT, FF, LF, CR, U+0085, U+00A0 *)
Definition ws_chars : list bytes := [[32]; [9]; [11]; [12]; [10]; [13]; [194; 133]; [194; 160]].
Definition ws_char (p : bytes) : Prop := In p ws_chars.

Lemma ws_chars_encode : ws_chars = map encode_rune [32; 9; 11; 12; 10; 13; 133; 160].
Proof. reflexivity. Qed.

Lemma ws_char_decode : forall p tail, ws_char p ->
  exists r, decode_rune (p ++ tail) = (r, length p) /\ p <> [] /\
            is_space (Z.of_N r) = true /\
            (forall fuel c c1, next c = (Z.of_N r, c1) -> lex_start fuel c = lex_space fuel c1).
Proof.
  intros p tail H. unfold ws_char, ws_chars in H. cbn [In] in H.
  assert (G : forall r, decode_rune (p ++ tail) = (r, length p) -> p <> [] ->
              In r [32; 9; 11; 12; 10; 13; 133; 160] ->
              exists r, decode_rune (p ++ tail) = (r, length p) /\ p <> [] /\
                is_space (Z.of_N r) = true /\
                (forall fuel c c1, next c = (Z.of_N r, c1) -> lex_start fuel c = lex_space fuel c1)).
  { intros r HD Hne Hr. exists r. split; [exact HD|]. split; [exact Hne|].
    cbn [In] in Hr.
    repeat (destruct Hr as [<-|Hr];
            [split; [reflexivity|intros fuel c c1 Hn; unfold lex_start; rewrite Hn; reflexivity]|]).
    contradiction. }
  destruct H as [<-|[<-|[<-|[<-|[<-|[<-|[<-|[<-|[]]]]]]]]].
  - apply (G 32); [reflexivity|discriminate|cbn; tauto].
  - apply (G 9); [reflexivity|discriminate|cbn; tauto].
  - apply (G 11); [reflexivity|discriminate|cbn; tauto].
  - apply (G 12); [reflexivity|discriminate|cbn; tauto].
  - apply (G 10); [reflexivity|discriminate|cbn; tauto].
  - apply (G 13); [reflexivity|discriminate|cbn; tauto].
  - apply (G 133); [reflexivity|discriminate|cbn; tauto].
  - apply (G 160); [reflexivity|discriminate|cbn; tauto].
Qed.

Lemma space_scan : forall fuel parts rest bef g w0 l o acc,
  Forall ws_char parts -> is_space (peek_rune rest) = false ->
  (length parts + 1 <= fuel)%nat ->
  snd (accept_run_f fuel is_space acc (mk bef (concat parts ++ rest) g w0 l o))
  = mk (rev (concat parts) ++ bef) rest (g + nlen (concat parts)) (snd (decode_rune rest)) l o.
Proof.
  induction fuel as [|f IH]; intros parts rest bef g w0 l o acc Hparts Hrest Hfuel; [lia|].
  destruct parts as [|p parts].
  - cbn [concat app rev accept_run_f]. replace (g + nlen []) with g by (unfold nlen; cbn; lia).
    pose proof (peek_mk bef rest g w0 l o) as HP. unfold peek in HP.
    destruct (next (mk bef rest g w0 l o)) as [r c1].
    injection HP as Hr Hc. fold (peek_rune rest) in Hr. rewrite Hr, Hrest. cbn [snd]. exact Hc.
  - inversion Hparts as [|p' parts' Hp Hparts']; subst.
    destruct (ws_char_decode p (concat parts ++ rest) Hp) as [r [HD [Hne [Hsp _]]]].
    cbn [concat accept_run_f]. rewrite <- app_assoc.
    rewrite (next_mk _ _ _ _ _ _ _ _ HD Hne), Hsp.
    rewrite IH; [|exact Hparts'|exact Hrest|cbn [length] in Hfuel; lia].
    rewrite nlen_app, N.add_assoc, rev_app_distr, <- app_assoc. reflexivity.
Qed.

(* a run of white space of any kind and amount produces no token: lex_start consumes all of
   it, resets the token start and goes on *)
Theorem C20_space_run : forall parts rest c fuel,
  pending c = [] -> after c = concat parts ++ rest ->
  parts <> [] -> Forall ws_char parts ->
  is_space (peek_rune rest) = false ->
  (length parts <= fuel)%nat ->
  lex_start fuel c =
  (true, mk [] rest (gpos c + nlen (concat parts)) (snd (decode_rune rest)) (lfs c) (out c)).
Proof.
  intros parts rest c fuel Hp Ha Hne Hparts Hrest Hfuel.
  destruct parts as [|p parts]; [congruence|].
  inversion Hparts as [|p' parts' Hwp Hparts']; subst.
  rewrite (cur_mk c Hp), Ha. cbn [gpos lfs out mk concat].
  destruct (ws_char_decode p (concat parts ++ rest) Hwp) as [r [HD [Hpne [_ Hstart]]]].
  rewrite <- app_assoc.
  rewrite (Hstart fuel _ _ (next_mk _ _ _ _ _ _ _ _ HD Hpne)).
  unfold lex_space.
  assert (Hf : (length parts + 1 <= fuel)%nat) by (cbn [length] in Hfuel; unfold bytes in *; lia).
  pose proof (space_scan fuel parts rest (rev p ++ before c) (gpos c + nlen p) (length p)
                (lfs c) (out c) false Hparts' Hrest Hf) as HS.
  destruct (accept_run_f fuel is_space false _) as [b c1]. cbn [snd] in HS. subst c1.
  rewrite ignore_mk, nlen_app, N.add_assoc. reflexivity.
Qed.
Print Assumptions C20_space_run.

Lemma length_parts_le : forall parts, Forall ws_char parts -> (length parts <= length (concat parts))%nat.
Proof.
  induction 1 as [|p parts Hp Hparts IH]; [cbn; lia|].
  cbn [concat length]. rewrite app_length.
  assert (1 <= length p)%nat.
  { unfold ws_char, ws_chars in Hp. cbn [In] in Hp.
    repeat (destruct Hp as [<-|Hp]; [cbn; lia|]). contradiction. }
  lia.
Qed.

(* the ASCII white-space bytes, any number of them *)
Definition ws_byte (b : N) : Prop := In b [32; 9; 11; 12; 10; 13].

Theorem C20_space_run_ascii : forall ws rest c fuel,
  pending c = [] -> after c = ws ++ rest ->
  ws <> [] -> Forall ws_byte ws ->
  is_space (peek_rune rest) = false ->
  (length ws <= fuel)%nat ->
  lex_start fuel c =
  (true, mk [] rest (gpos c + nlen ws) (snd (decode_rune rest)) (lfs c) (out c)).
Proof.
  intros ws rest c fuel Hp Ha Hne Hws Hrest Hfuel.
  assert (Hc : concat (map (fun b => [b]) ws) = ws).
  { clear. induction ws as [|b ws IH]; [reflexivity|]. cbn [map concat app]. rewrite IH. reflexivity. }
  rewrite <- Hc in Ha. rewrite <- Hc.
  apply C20_space_run; auto.
  - destruct ws; [congruence|discriminate].
  - clear -Hws. induction Hws as [|b ws Hb Hws IH]; [constructor|].
    cbn [map]. constructor; [|exact IH].
    unfold ws_byte in Hb. unfold ws_char, ws_chars. cbn [In] in *.
    repeat (destruct Hb as [<-|Hb]; [tauto|]). contradiction.
  - rewrite map_length. exact Hfuel.
Qed.
Print Assumptions C20_space_run_ascii.

(* the two 2-byte white-space characters on their own *)
Theorem C20_space_nel_nbsp : forall rest c fuel b,
  pending c = [] -> after c = 194 :: b :: rest -> (b = 133 \/ b = 160) ->
  is_space (peek_rune rest) = false -> (1 <= fuel)%nat ->
  lex_start fuel c = (true, mk [] rest (gpos c + 2) (snd (decode_rune rest)) (lfs c) (out c)).
Proof.
  intros rest c fuel b Hp Ha Hb Hrest Hfuel.
  apply (C20_space_run [[194; b]] rest c fuel Hp); auto.
  - discriminate.
  - constructor; [|constructor]. unfold ws_char, ws_chars. cbn [In]. destruct Hb; subst b; tauto.
Qed.
Print Assumptions C20_space_nel_nbsp.

(* ------------------------------------------------------------------ *)
(* 4. the same for any cursor, however the unread input is cut into     *)
(*    chunks (window `after` + chunks still `pending`), through the      *)
(*    abstraction `abs` of LexerProofs; this covers `lex [src]` from its *)
(*    initial cursor, whose window is still empty                        *)
(* ------------------------------------------------------------------ *)

Definition unread (c : cur) : bytes := after c ++ concat (pending c).

Lemma R_flat : forall c, R c (mk (before c) (unread c) (gpos c) (width c) (lfs c) (out c)).
Proof.
  intros c. unfold R, abs, mk, unread. cbn [before after gpos width pending out concat].
  rewrite app_nil_r. reflexivity.
Qed.

Lemma abs_mk : forall bef aft g w l o, abs (mk bef aft g w l o) = (g, bef, aft, w, o).
Proof. intros. unfold abs, mk. cbn [before after gpos width pending out concat]. rewrite app_nil_r. reflexivity. Qed.

Lemma transfer : forall (f : cur -> bool * cur) c bef aft g w l o,
  (forall c1 c2, R c1 c2 -> Rp (f c1) (f c2)) ->
  f (mk (before c) (unread c) (gpos c) (width c) (lfs c) (out c)) = (true, mk bef aft g w l o) ->
  fst (f c) = true /\ abs (snd (f c)) = (g, bef, aft, w, o).
Proof.
  intros f c bef aft g w l o Hresp Hflat.
  destruct (Hresp _ _ (R_flat c)) as [H1 H2]. rewrite Hflat in H1, H2. cbn [fst snd] in H1, H2.
  split; [exact H1|]. unfold R in H2. rewrite H2. apply abs_mk.
Qed.

Theorem C20_comment_extent_chunked : forall body tail c fuel,
  unread c = body ++ tail -> eol_or_end tail ->
  (forall b, In b body -> b <> 10 /\ b <> 13) ->
  (length body + 1 <= fuel)%nat ->
  fst (lex_line_comment fuel c) = true /\
  abs (snd (lex_line_comment fuel c)) = (gpos c + nlen body, [], tail, width_at tail, out c).
Proof.
  intros body tail c fuel Hu Htail Hbody Hfuel.
  apply (transfer (lex_line_comment fuel) c _ _ _ _ (lfs c) _ (lex_line_comment_resp fuel)).
  rewrite Hu. apply comment_scan; assumption.
Qed.
Print Assumptions C20_comment_extent_chunked.

Theorem C20_comment_lex_start_chunked : forall body tail c fuel,
  unread c = 35 :: body ++ tail -> eol_or_end tail ->
  (forall b, In b body -> b <> 10 /\ b <> 13) ->
  (length body + 1 <= fuel)%nat ->
  fst (lex_start fuel c) = true /\
  abs (snd (lex_start fuel c)) = (gpos c + 1 + nlen body, [], tail, width_at tail, out c).
Proof.
  intros body tail c fuel Hu Htail Hbody Hfuel.
  apply (transfer (lex_start fuel) c _ _ _ _ (lfs c) _ (lex_start_resp fuel)).
  apply (C20_comment_lex_start body tail (mk (before c) (unread c) (gpos c) (width c) (lfs c) (out c)) fuel); auto.
Qed.
Print Assumptions C20_comment_lex_start_chunked.

Theorem C20_string_opaque_chunked : forall body rest c fuel,
  before c = [34] -> unread c = body ++ 34 :: rest ->
  (forall b, In b body -> b <> 34 /\ b <> 92 /\ b <> 10) ->
  first_not_alnum rest ->
  (length body + 1 <= fuel)%nat ->
  fst (lex_quote fuel c) = true /\
  abs (snd (lex_quote fuel c)) =
    (gpos c + nlen body + 1, [], rest, snd (decode_rune rest),
     {| ttyp := tSTR; tval := 34 :: body ++ [34]; terr := None;
        tpos := gpos c + nlen body + 1 |} :: out c).
Proof.
  intros body rest c fuel Hb Hu Hbody Hrest Hfuel.
  apply (transfer (lex_quote fuel) c _ _ _ _ (lfs c) _ (lex_quote_resp fuel)).
  apply (C20_string_opaque body rest (mk (before c) (unread c) (gpos c) (width c) (lfs c) (out c)) fuel); auto.
Qed.
Print Assumptions C20_string_opaque_chunked.

Theorem C20_string_lex_start_chunked : forall body rest c fuel,
  before c = [] -> unread c = 34 :: body ++ 34 :: rest ->
  (forall b, In b body -> b <> 34 /\ b <> 92 /\ b <> 10) ->
  first_not_alnum rest ->
  (length body + 1 <= fuel)%nat ->
  fst (lex_start fuel c) = true /\
  abs (snd (lex_start fuel c)) =
    (gpos c + 1 + nlen body + 1, [], rest, snd (decode_rune rest),
     {| ttyp := tSTR; tval := 34 :: body ++ [34]; terr := None;
        tpos := gpos c + 1 + nlen body + 1 |} :: out c).
Proof.
  intros body rest c fuel Hb Hu Hbody Hrest Hfuel.
  apply (transfer (lex_start fuel) c _ _ _ _ (lfs c) _ (lex_start_resp fuel)).
  apply (C20_string_lex_start body rest (mk (before c) (unread c) (gpos c) (width c) (lfs c) (out c)) fuel); auto.
Qed.
Print Assumptions C20_string_lex_start_chunked.

Theorem C20_space_run_chunked : forall parts rest c fuel,
  unread c = concat parts ++ rest ->
  parts <> [] -> Forall ws_char parts ->
  is_space (peek_rune rest) = false ->
  (length parts <= fuel)%nat ->
  fst (lex_start fuel c) = true /\
  abs (snd (lex_start fuel c)) =
    (gpos c + nlen (concat parts), [], rest, snd (decode_rune rest), out c).
Proof.
  intros parts rest c fuel Hu Hne Hparts Hrest Hfuel.
  apply (transfer (lex_start fuel) c _ _ _ _ (lfs c) _ (lex_start_resp fuel)).
  apply (C20_space_run parts rest (mk (before c) (unread c) (gpos c) (width c) (lfs c) (out c)) fuel); auto.
Qed.
Print Assumptions C20_space_run_chunked.

(* one step of the driver *)
Lemma lex_run_step : forall s fuel c c',
  lex_start fuel c = (true, c') -> lex_run (S s) fuel c = lex_run s fuel c'.
Proof. intros s fuel c c' H. cbn [lex_run]. rewrite H. reflexivity. Qed.

(* sanity: the whole lexer on a line with all three kinds of layout; the '#' and the blanks
   inside the string reach the token, the comment and the white space (NEL, NBSP, VT, FF, CR
   included) leave no token *)
Example C20_layout_example :
  map (fun t => (ttyp t, tval t))
      (fst (lex [bs "x" ++ [32; 9; 11; 12; 13; 194; 133; 194; 160] ++ bs """a # ;(b)""" ++
                 bs " # c ""d"" " ++ [226; 130; 172; 13] ++ bs "y"]))
  = [(tIDENT, bs "x"); (tSTR, bs """a # ;(b)"""); (tIDENT, bs "y"); (tEOF, [])].
Proof. vm_compute. reflexivity. Qed.
