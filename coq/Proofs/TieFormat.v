(* Tie obligations: bytecode format 1.1 numbering as found in the Go source today equals the
   pinned (documented) numbering.  Breaks when opcodes, typecodes, bind nibbles, magic, version,
   jump width or the disassembler's operand classes are changed in /repo.  Buffer sizes are NOT
   tied: no property depends on them (the load theorems hold for every partition of the bytes). *)
From Coq Require Import List NArith String.
From BCL Require Gen.GenTables Spec.Pinned.
Import ListNotations.
Open Scope string_scope.
Fixpoint get (k : string) (l : list (string * N)) : option N :=
  match l with [] => None | (k', v) :: r => if String.eqb k k' then Some v else get k r end.
Lemma tie_opcodes : GenTables.opcodes = Pinned.opcodes. Proof. reflexivity. Qed.
Lemma tie_typecodes : GenTables.typecodes = Pinned.typecodes. Proof. reflexivity. Qed.
Lemma tie_bind_selectors : GenTables.bind_selectors = Pinned.bind_selectors. Proof. reflexivity. Qed.
Lemma tie_bind_targets : GenTables.bind_targets = Pinned.bind_targets. Proof. reflexivity. Qed.
Lemma tie_magic : GenTables.magic = Pinned.magic. Proof. reflexivity. Qed.
Lemma tie_version : get "bytecodeMajor" GenTables.constants = Some 1%N /\ get "bytecodeMinor" GenTables.constants = Some 1%N
  /\ get "jumpByteLength" GenTables.constants = Some 2%N.
Proof. repeat split; reflexivity. Qed.
Lemma tie_disasm_classes : GenTables.disasm_classes = Pinned.disasm_classes. Proof. reflexivity. Qed.
