(* Tie obligations: bytecode format 1.1 numbering as found in the Go source today equals the
   pinned (documented) numbering.  Breaks when opcodes, typecodes, bind nibbles, magic,
   version, jump width, buffer sizes or operand classes are changed in /repo. *)
From BCL Require Gen.GenTables Spec.Pinned.
Lemma tie_opcodes : GenTables.opcodes = Pinned.opcodes. Proof. reflexivity. Qed.
Lemma tie_typecodes : GenTables.typecodes = Pinned.typecodes. Proof. reflexivity. Qed.
Lemma tie_bind_selectors : GenTables.bind_selectors = Pinned.bind_selectors. Proof. reflexivity. Qed.
Lemma tie_bind_targets : GenTables.bind_targets = Pinned.bind_targets. Proof. reflexivity. Qed.
Lemma tie_magic : GenTables.magic = Pinned.magic. Proof. reflexivity. Qed.
Lemma tie_constants : GenTables.constants = Pinned.constants. Proof. reflexivity. Qed.
Lemma tie_buffer_sizes : GenTables.buffer_sizes = Pinned.buffer_sizes. Proof. reflexivity. Qed.
Lemma tie_disasm_classes : GenTables.disasm_classes = Pinned.disasm_classes. Proof. reflexivity. Qed.
