(* SizeBounds.v: the sizes of the parser's output are bounded by the length of its input.

   A. the lexer delivers at most |input| + 2 tokens (every step of lex_run that goes on consumes at
      least one byte and emits at most one token; the last step emits tEOF, or tERR tFAIL).
   B. the parser creates at most one constant per token and emits at most 40 code bytes per token
      (plus the final POPN / RET): a potential argument along the structure of the parser.
   C. corollaries: the hypotheses on the parser's output statistics (ps_constants < 2^64,
      ps_code < 2^64) of parse_wf_partial, parsed_verifies, bcl_language, ... follow from a bound
      on the length of the input alone. *)
From Coq Require Import Lia ZifyN ZifyNat ZifyBool List Bool.
From RecordUpdate Require Import RecordSet.
From BCL Require Import Model.Api Proofs.LexerProofs Proofs.EncodingProofs Proofs.ParserInvProofs
  Proofs.ParserTotal.
Import RecordSetNotations ListNotations.
Open Scope N_scope.

(* ================================================================== *)
(* A. the number of tokens                                             *)
(* ================================================================== *)

Lemma out_next : forall c, out (snd (next c)) = out c.
Proof. intros. apply next_facts. Qed.
Lemma out_backup : forall c, out (backup c) = out c.
Proof. intros. apply backup_facts. Qed.
Lemma out_unbackup : forall c, out (unbackup c) = out c.
Proof. intros. apply unbackup_facts. Qed.
Lemma out_ignore : forall c, out (ignore c) = out c.
Proof. reflexivity. Qed.
Lemma out_peek : forall c, out (snd (peek c)) = out c.
Proof.
  intros c. unfold peek. pose proof (out_next c) as H. destruct (next c) as [r c1]. cbn [snd] in *.
  rewrite out_backup. exact H.
Qed.
Lemma out_accept : forall v c, out (snd (accept v c)) = out c.
Proof.
  intros v c. unfold accept. pose proof (out_next c) as H. destruct (next c) as [r c1]. cbn [snd] in *.
  destruct (zin r v); cbn [snd]; [exact H|rewrite out_backup; exact H].
Qed.
Lemma out_accept_run_f : forall fuel p acc c, out (snd (accept_run_f fuel p acc c)) = out c.
Proof.
  induction fuel as [|f IH]; intros p acc c; cbn [accept_run_f]; [reflexivity|].
  pose proof (out_next c) as H. destruct (next c) as [r c1]. cbn [snd] in *.
  destruct (p r); [rewrite IH; exact H|cbn [snd]; rewrite out_backup; exact H].
Qed.
Lemma out_accept_run : forall fuel v c, out (snd (accept_run fuel v c)) = out c.
Proof. intros. apply out_accept_run_f. Qed.

(* at most k tokens more than in c0 *)
Definition ol (k : nat) (c0 c : cur) : Prop := (length (out c) <= length (out c0) + k)%nat.
(* a state function: one token if the lexer goes on, two if it stops *)
Definition OL (c0 : cur) (x : bool * cur) : Prop := if fst x then ol 1 c0 (snd x) else ol 2 c0 (snd x).

Lemma ol_same : forall k c0 c c', out c' = out c -> ol k c0 c -> ol k c0 c'.
Proof. unfold ol. intros k c0 c c' E H. rewrite E. exact H. Qed.
Lemma ol_emit : forall t c0 c, ol 0 c0 c -> ol 1 c0 (emit t c).
Proof. unfold ol, emit. intros. cbn [out length]. lia. Qed.
Lemma ol_fail : forall e c0 c, ol 0 c0 c -> ol 2 c0 (fail e c).
Proof. unfold ol, fail, emit, ignore, emit_error. intros. cbn [out length]. lia. Qed.
Lemma ol_weak : forall c0 c, ol 1 c0 c -> ol 2 c0 c.
Proof. unfold ol. intros. lia. Qed.

Lemma OL_go : forall t c0 c, ol 0 c0 c -> OL c0 (true, emit t c).
Proof. intros. unfold OL. cbn [fst snd]. apply ol_emit. assumption. Qed.
Lemma OL_fail : forall e c0 c, ol 0 c0 c -> OL c0 (false, fail e c).
Proof. intros. unfold OL. cbn [fst snd]. apply ol_fail. assumption. Qed.
Lemma OL_stop1 : forall t c0 c, ol 0 c0 c -> OL c0 (false, emit t c).
Proof. intros. unfold OL. cbn [fst snd]. apply ol_weak, ol_emit. assumption. Qed.
Lemma OL_none : forall c0 c, ol 0 c0 c -> OL c0 (true, c).
Proof. intros. unfold OL, ol in *. cbn [fst snd]. lia. Qed.
Lemma OL_sticky : forall c0 c, ol 0 c0 c -> OL c0 (sticky_fail c).
Proof.
  intros. unfold sticky_fail. cbv zeta. apply OL_fail. eapply ol_same; [apply out_unbackup|assumption].
Qed.

(* destruct the next pair-valued call in the goal, keeping what it does to `out` *)
Ltac ostep :=
  let go e L :=
    let O := fresh "O" in
    pose proof L as O; destruct e as [? ?]; cbn [fst snd] in O in
  match goal with
  | |- context [next ?c] => go (next c) (out_next c)
  | |- context [peek ?c] => go (peek c) (out_peek c)
  | |- context [accept ?v ?c] => go (accept v c) (out_accept v c)
  | |- context [accept_run ?f ?v ?c] => go (accept_run f v c) (out_accept_run f v c)
  | |- context [accept_run_f ?f ?p ?a ?c] => go (accept_run_f f p a c) (out_accept_run_f f p a c)
  end.
Ltac osame :=
  unfold ol in *; cbn [out ignore]; rewrite ?out_backup, ?out_unbackup, ?out_ignore in *;
  repeat match goal with H : out _ = out _ |- _ => rewrite H in *; clear H end; lia.
Ltac odone :=
  first [apply OL_go | apply OL_fail | apply OL_stop1 | apply OL_sticky | apply OL_none]; osame.

Lemma lex_space_ol : forall fuel c0 c, ol 0 c0 c -> OL c0 (lex_space fuel c).
Proof. intros fuel c0 c H. unfold lex_space. ostep. odone. Qed.

Lemma lex_line_comment_ol : forall fuel c0 c, ol 0 c0 c -> OL c0 (lex_line_comment fuel c).
Proof.
  induction fuel as [|f IH]; intros c0 c H; cbn [lex_line_comment]; [odone|].
  ostep. destruct (is_eol z || Z.eqb z eof); [odone|]. apply IH. osame.
Qed.

Lemma lex_ident_ol : forall fuel c0 c, ol 0 c0 c -> OL c0 (lex_ident fuel c).
Proof.
  induction fuel as [|f IH]; intros c0 c H; cbn [lex_ident]; [odone|].
  ostep. destruct (is_alnum z || Z.eqb z 95); [apply IH; osame|].
  cbv zeta. ostep. destruct (Z.eqb z0 34); [odone|].
  destruct (keyword_of (current c2)); odone.
Qed.

Lemma lex_float_ol : forall fuel c0 c, ol 0 c0 c -> OL c0 (lex_float fuel c).
Proof.
  intros fuel c0 c H. unfold lex_float.
  ostep. destruct b.
  - ostep. destruct (negb b); [odone|].
    ostep. destruct b0.
    + ostep. ostep. destruct (negb b1); [odone|]. ostep. destruct (Z.eqb z 34 || is_alpha z); odone.
    + destruct (negb true); [odone|]. ostep. destruct (Z.eqb z 34 || is_alpha z); odone.
  - destruct (negb true); [odone|].
    ostep. destruct b.
    + ostep. ostep. destruct (negb b0); [odone|]. ostep. destruct (Z.eqb z 34 || is_alpha z); odone.
    + destruct (negb true); [odone|]. ostep. destruct (Z.eqb z 34 || is_alpha z); odone.
Qed.

Lemma lex_hex_ol : forall fuel c0 c, ol 0 c0 c -> OL c0 (lex_hex fuel c).
Proof.
  intros fuel c0 c H. unfold lex_hex. ostep. ostep.
  destruct (Z.eqb z 46 || Z.eqb z 34 || is_alpha z); odone.
Qed.

Lemma lex_number_ol : forall fuel c0 c, ol 0 c0 c -> OL c0 (lex_number fuel c).
Proof.
  intros fuel c0 c H. unfold lex_number. cbv zeta.
  assert (H0 : ol 0 c0 (backup c)) by osame. revert H0. generalize (backup c). clear H c. intros c H.
  ostep. destruct b.
  - ostep. destruct b; [apply lex_hex_ol; osame|].
    ostep. ostep. destruct (Z.eqb z 46 || Z.eqb z 101 || Z.eqb z 69); [apply lex_float_ol; osame|].
    destruct (Z.eqb z 34 || is_alpha z); odone.
  - ostep. ostep. destruct (Z.eqb z 46 || Z.eqb z 101 || Z.eqb z 69); [apply lex_float_ol; osame|].
    destruct (Z.eqb z 34 || is_alpha z); odone.
Qed.

Lemma lex_quote_ol : forall fuel c0 c, ol 0 c0 c -> OL c0 (lex_quote fuel c).
Proof.
  induction fuel as [|f IH]; intros c0 c H; cbn [lex_quote]; [odone|].
  ostep. destruct (Z.eqb z 92).
  - ostep. destruct (negb (Z.eqb z0 eof) && negb (Z.eqb z0 10)); [apply IH; osame|odone].
  - destruct (Z.eqb z eof || Z.eqb z 10); [odone|].
    destruct (Z.eqb z 34); [|apply IH; osame].
    ostep. destruct (is_alnum z0); odone.
Qed.

Lemma lex_start_ol : forall fuel c, OL c (lex_start fuel c).
Proof.
  intros fuel c. unfold lex_start.
  ostep. destruct (Z.eqb z eof); [odone|]. cbv zeta.
  destruct (two_rune_of z) as [[r2 t2]|].
  - ostep. destruct (Z.eqb z0 r2); [odone|]. destruct (one_rune_of z); odone.
  - destruct (one_rune_of z); [odone|].
    destruct (is_space z); [apply lex_space_ol; osame|].
    destruct (Z.eqb z 35); [apply lex_line_comment_ol; osame|].
    destruct (Z.eqb z 34); [apply lex_quote_ol; osame|].
    destruct (is_alpha z || Z.eqb z 95); [apply lex_ident_ol; osame|].
    destruct (is_digit_r z); [apply lex_number_ol; osame|odone].
Qed.

Lemma lex_run_count : forall all fuel steps c, (1 <= fuel)%nat -> LexerProofs.Inv all c -> BG c ->
  (length (out (lex_run steps fuel c)) <= length (out c) + N.to_nat (nlen (concat all) - gpos c) + 2)%nat.
Proof.
  intros all fuel. induction steps as [|s IH]; intros c Hf HI B; cbn [lex_run]; [lia|].
  pose proof (lex_start_resS fuel c Hf B) as HR.
  pose proof (lex_start_inv all fuel c HI) as HI1. unfold Ip in HI1.
  pose proof (lex_start_ol fuel c) as HO. unfold OL, ol in HO.
  destruct (lex_start fuel c) as [go c1]. unfold ResS in HR. cbn [fst snd] in *.
  destruct go; [|lia].
  destruct HR as [E G]. pose proof (Inv_gpos_le _ _ HI1) as Hle.
  specialize (IH c1 Hf HI1 (Ext_BG _ _ E)). lia.
Qed.

(* every token but the last one or two takes at least one byte *)
Theorem lex_token_count : forall cs, N.of_nat (length (fst (lex cs))) <= nlen (concat cs) + 2.
Proof.
  intros cs. rewrite lex_final. cbn [fst]. rewrite frev_eq, rev_length. unfold final_cur.
  pose proof (lex_run_count cs (S (S (total_len cs))) (S (S (total_len cs))) (init_cur cs)
                ltac:(lia) (init_inv cs) (init_BG cs)) as H.
  unfold init_cur in H at 2 3. cbn [out gpos length] in H. unfold nlen in *. lia.
Qed.
Print Assumptions lex_token_count.

(* n one-byte tokens and tEOF, or n - 1 tokens and tERR tFAIL: n + 1 tokens from n bytes (the bound
   proved above is n + 2: the step that fails is not charged for the byte it consumes) *)
Example lex_token_count_example :
  length (fst (lex [[59; 59; 59]])) = 4%nat /\ length (fst (lex [[59; 59; 36]])) = 4%nat.
Proof. vm_compute. split; reflexivity. Qed.

(* ================================================================== *)
(* B. the parser: constants and code bytes per token                   *)
(* ================================================================== *)

(* Potentials: zc = tokens received - constants, zk = 40 * tokens received - code bytes.
   [St a b s0 s]: s is reached from s0, J holds, and -- unless the model ran out of fuel, which
   parser_total_last excludes for the whole run -- the potentials have dropped by at most a, b.
   Negative a, b are credit: a token was received and has not yet been charged. *)
Definition zc (s : pst) : Z := (Z.of_N (st_tokens s) - Z.of_N (nconsts s))%Z.
Definition zk (s : pst) : Z := (40 * Z.of_N (st_tokens s) - Z.of_N (ncode s))%Z.
Definition St (a b : Z) (s0 s : pst) : Prop :=
  J s /\ (oof s = false -> oof s0 = false /\ (zc s0 <= zc s + a)%Z /\ (zk s0 <= zk s + b)%Z).

Lemma St_J : forall a b s0 s, St a b s0 s -> J s.
Proof. intros a b s0 s H. apply H. Qed.
Lemma St_refl : forall s, J s -> St 0 0 s s.
Proof. intros s H. split; [exact H|]. intros E. split; [exact E|lia]. Qed.
Lemma St_weak : forall a b a' b' s0 s, St a b s0 s -> (a <= a')%Z -> (b <= b')%Z -> St a' b' s0 s.
Proof. intros a b a' b' s0 s [HJ H] Ha Hb. split; [exact HJ|]. intros E. destruct (H E) as (E0 & H1 & H2). split; [exact E0|lia]. Qed.
Lemma St_if : forall (c : bool) a1 b1 a2 b2 s0 e1 e2,
  St a1 b1 s0 e1 -> St a2 b2 s0 e2 -> St (Z.max a1 a2) (Z.max b1 b2) s0 (if c then e1 else e2).
Proof. intros c a1 b1 a2 b2 s0 e1 e2 H1 H2. destruct c; [eapply St_weak; [exact H1|lia|lia]|eapply St_weak; [exact H2|lia|lia]]. Qed.

(* a step that leaves toks, cur_, oof, st_tokens alone and adds at most da constants, db code bytes *)
Lemma St_upd : forall da db a b s0 s s',
  toks s' = toks s -> cur_ s' = cur_ s -> oof s' = oof s -> st_tokens s' = st_tokens s ->
  (Z.of_N (nconsts s') <= Z.of_N (nconsts s) + da)%Z -> (Z.of_N (ncode s') <= Z.of_N (ncode s) + db)%Z ->
  St a b s0 s -> St (a + da) (b + db) s0 s'.
Proof.
  intros da db a b s0 s s' E1 E2 E3 E4 Hc Hk [HJ H]. unfold St, J, zc, zk in *.
  rewrite E1, E2, E3, E4. split; [exact HJ|]. intros E. destruct (H E) as (E0 & H1 & H2). split; [exact E0|lia].
Qed.
Lemma St_same : forall a b s0 s s',
  toks s' = toks s -> cur_ s' = cur_ s -> oof s' = oof s -> st_tokens s' = st_tokens s ->
  nconsts s' = nconsts s -> ncode s' = ncode s -> St a b s0 s -> St a b s0 s'.
Proof.
  intros a b s0 s s' E1 E2 E3 E4 E5 E6 H.
  eapply St_weak; [apply (St_upd 0 0 a b s0 s s'); try assumption; lia|lia|lia].
Qed.

(* ---- advance ---- *)

Lemma st_tokens_adv_tok : forall t s, st_tokens (adv_tok t s) = st_tokens s + 1.
Proof. intros. unfold adv_tok. cbv zeta. destruct (tok_eqb (ttyp t) tFAIL); reflexivity. Qed.

Lemma advance_loop_tokens : forall ts s,
  st_tokens s + (match ts with [] => 0 | _ => 1 end) <= st_tokens (advance_loop ts s).
Proof.
  assert (E : forall m x, st_tokens (error_at_current m x) = st_tokens x) by reflexivity.
  assert (E' : forall r x, st_tokens (x <| toks := r |>) = st_tokens x) by reflexivity.
  induction ts as [|t r IH]; intros s.
  - rewrite advance_loop_nil, E'. lia.
  - rewrite advance_loop_cons. destruct (tok_eqb (ttyp t) tERR).
    + specialize (IH (error_at_current (lexerr_msg (terr t)) (adv_tok t s))).
      rewrite E, st_tokens_adv_tok in IH. destruct r; lia.
    + rewrite E', st_tokens_adv_tok. lia.
Qed.

Lemma advance_facts : forall s, J s ->
  J (advance s) /\ oof (advance s) = oof s /\ nconsts (advance s) = nconsts s /\ ncode (advance s) = ncode s /\
  prev (advance s) = cur_ s /\
  (isend (cur_ s) = false -> st_tokens s + 1 <= st_tokens (advance s)) /\
  st_tokens s <= st_tokens (advance s).
Proof.
  intros s HJ. destruct (advance_tot s HJ) as (((A1 & _ & A3 & _) & _) & _ & A5).
  destruct (cframe_advance s) as (_ & C2 & _ & _ & C5).
  pose proof (advance_loop_tokens (toks s) (s <| prev := cur_ s |>)) as T.
  change (st_tokens s + (match toks s with [] => 0 | _ => 1 end) <= st_tokens (advance s)) in T.
  repeat split; try assumption.
  - intros Ee. pose proof (J_toks s HJ Ee) as Hne. destruct (toks s); [congruence|lia].
  - destruct (toks s); lia.
Qed.

Lemma St_advance : forall a b s0 s, St a b s0 s -> St a b s0 (advance s).
Proof.
  intros a b s0 s [HJ H]. destruct (advance_facts s HJ) as (F1 & F2 & F3 & F4 & _ & _ & F7).
  split; [exact F1|]. rewrite F2. intros E. destruct (H E) as (E0 & H1 & H2). split; [exact E0|].
  unfold zc, zk in *. rewrite F3, F4. lia.
Qed.
(* a token that is not tEOF / tFAIL is current: something is received *)
Lemma St_advance_credit : forall a b s0 s, isend (cur_ s) = false ->
  St a b s0 s -> St (a - 1) (b - 40) s0 (advance s).
Proof.
  intros a b s0 s Ee [HJ H]. destruct (advance_facts s HJ) as (F1 & F2 & F3 & F4 & _ & F6 & _).
  specialize (F6 Ee).
  split; [exact F1|]. rewrite F2. intros E. destruct (H E) as (E0 & H1 & H2). split; [exact E0|].
  unfold zc, zk in *. rewrite F3, F4. lia.
Qed.

(* ---- the other primitives ---- *)

Ltac same := intros; eapply St_same; [..|eassumption]; reflexivity.
Lemma St_perror : forall a b s0 m s, St a b s0 s -> St a b s0 (perror m s).
Proof. same. Qed.
Lemma St_errc : forall a b s0 m s, St a b s0 s -> St a b s0 (error_at_current m s).
Proof. same. Qed.
Lemma St_identRefs : forall a b s0 x s, St a b s0 s -> St a b s0 (s <| identRefs := x |>).
Proof. same. Qed.
Lemma St_patch : forall a b s0 k x y s, St a b s0 s ->
  St a b s0 (s <| code := set_nth (set_nth (code s) k x) (S k) y |>).
Proof. same. Qed.
Lemma St_begin_scope : forall a b s0 s, St a b s0 s -> St a b s0 (begin_scope s).
Proof. same. Qed.
Lemma St_scope_upd : forall a b s0 d ls n s, St a b s0 s ->
  St a b s0 (s <| depth := d |> <| locals := ls |> <| nlocals := n |>).
Proof. same. Qed.
Lemma St_add_local_upd : forall a b s0 l n m s, St a b s0 s ->
  St a b s0 (s <| locals := l |> <| nlocals := n |> <| st_localMax := m |>).
Proof. same. Qed.
Lemma St_locals : forall a b s0 l s, St a b s0 s -> St a b s0 (s <| locals := l |>).
Proof. same. Qed.
Lemma St_ppanic : forall a b s0 s, St a b s0 s -> St a b s0 (s <| ppanic := true |>).
Proof. same. Qed.
Lemma St_panicMode : forall a b s0 s, St a b s0 s -> St a b s0 (s <| panicMode := false |>).
Proof. same. Qed.
Lemma St_oof_any : forall a b s0 s, J s -> St a b s0 (mark_oof s).
Proof. intros a b s0 s H. split; [exact H|]. intros E. discriminate E. Qed.
Lemma St_oof : forall a b s0 s, St a b s0 s -> St a b s0 (mark_oof s).
Proof. intros a b s0 s H. apply St_oof_any. apply (St_J _ _ _ _ H). Qed.

Lemma St_write : forall a b s0 x s, St a b s0 s -> St a (b + 1) s0 (write x s).
Proof.
  intros a b s0 x s H.
  assert (E5 : nconsts (write x s) = nconsts s) by reflexivity.
  assert (E6 : ncode (write x s) = ncode s + 1) by reflexivity.
  eapply St_weak; [apply (St_upd 0 1 a b s0 s (write x s)); try reflexivity; [rewrite E5|rewrite E6|exact H]|..]; lia.
Qed.
Lemma St_emit_op : forall a b s0 o s, St a b s0 s -> St a (b + 1) s0 (emit_op o s).
Proof.
  intros a b s0 o s H.
  assert (E5 : nconsts (emit_op o s) = nconsts s) by reflexivity.
  assert (E6 : ncode (emit_op o s) = ncode s + 1) by reflexivity.
  eapply St_weak; [apply (St_upd 0 1 a b s0 s (emit_op o s)); try reflexivity; [rewrite E5|rewrite E6|exact H]|..]; lia.
Qed.
Lemma St_add_const : forall a b s0 v s, St a b s0 s -> St (a + 1) b s0 (snd (add_const v s)).
Proof.
  intros a b s0 v s H.
  assert (E5 : nconsts (snd (add_const v s)) = nconsts s + 1) by reflexivity.
  assert (E6 : ncode (snd (add_const v s)) = ncode s) by reflexivity.
  eapply St_weak; [apply (St_upd 1 0 a b s0 s (snd (add_const v s))); try reflexivity; [rewrite E5|rewrite E6|exact H]|..]; lia.
Qed.

(* ---- the functions that neither emit nor create constants: through Section Generic ---- *)

Ltac leaf L :=
  intros;
  first [eapply (L (St _ _ _) (fun _ => True) (fun _ => True))
        | eapply (L (St _ _ _) (fun _ => True))
        | eapply (L (St _ _ _))];
  eauto using St_advance, St_perror, St_errc, St_identRefs, St_patch, St_begin_scope, St_scope_upd,
    St_add_local_upd, St_locals, St_ppanic, St_oof, St_panicMode.

Lemma St_perr : forall a b s0 m s, St a b s0 s -> St a b s0 (perr m s).
Proof. leaf perr_pres. Qed.
Lemma St_perrc : forall a b s0 m s, St a b s0 s -> St a b s0 (perrc m s).
Proof. leaf perrc_pres. Qed.
Lemma St_consume : forall a b s0 t m s, St a b s0 s -> St a b s0 (consume t m s).
Proof. leaf consume_pres. Qed.
Lemma St_pmatch : forall a b s0 t s, St a b s0 s -> St a b s0 (snd (pmatch t s)).
Proof. leaf pmatch_pres. Qed.
Lemma St_match_end : forall a b s0 s, St a b s0 s -> St a b s0 (snd (match_end s)).
Proof. leaf match_end_pres. Qed.
Lemma St_patch_jump : forall a b s0 off s, St a b s0 s -> St a b s0 (patch_jump off s).
Proof. leaf patch_jump_pres. Qed.
Lemma St_decl_scan : forall a b s0 ls name d s, St a b s0 s -> St a b s0 (decl_scan ls name d s).
Proof. leaf decl_scan_pres. Qed.
Lemma St_add_local : forall a b s0 name s, St a b s0 s -> St a b s0 (add_local name s).
Proof. leaf add_local_pres. Qed.
Lemma St_decl_var : forall a b s0 s, St a b s0 s -> St a b s0 (decl_var s).
Proof. leaf decl_var_pres. Qed.
Lemma St_def_var : forall a b s0 s, St a b s0 s -> St a b s0 (def_var s).
Proof. leaf def_var_pres. Qed.
Lemma St_sync : forall a b s0 fuel s, St a b s0 s -> St a b s0 (sync fuel s).
Proof. leaf sync_pres. Qed.

(* ---- the emitters ---- *)

Lemma St_emit_bytes : forall bb a b s0 s, St a b s0 s -> St a (b + Z.of_nat (length bb)) s0 (emit_bytes bb s).
Proof.
  unfold emit_bytes. induction bb as [|x bb IH]; intros a b s0 s H; cbn [fold_left length].
  - eapply St_weak; [exact H|lia|lia].
  - eapply St_weak; [apply IH, St_write, H|lia|lia].
Qed.
Lemma St_emit_uvarint : forall a b s0 x s, St a b s0 s -> St a (b + 9) s0 (emit_uvarint x s).
Proof.
  intros a b s0 x s H. unfold emit_uvarint. pose proof (uv_enc_length x) as L.
  eapply St_weak; [apply St_emit_bytes, H|lia|lia].
Qed.
Lemma St_emit_ops : forall os a b s0 s, St a b s0 s -> St a (b + Z.of_nat (length os)) s0 (emit_ops os s).
Proof.
  unfold emit_ops. induction os as [|x os IH]; intros a b s0 s H; cbn [fold_left length].
  - eapply St_weak; [exact H|lia|lia].
  - eapply St_weak; [apply IH, St_emit_op, H|lia|lia].
Qed.
Lemma St_emit_binary : forall a b s0 t s, St a b s0 s -> St a (b + 2) s0 (emit_ops (binary_ops t) s).
Proof.
  intros a b s0 t s H. eapply St_weak; [apply St_emit_ops, H|lia|].
  destruct t; cbn [binary_ops length]; lia.
Qed.

Lemma St_make_const : forall a b s0 v s, St a b s0 s -> St (a + 1) b s0 (snd (make_const v s)).
Proof.
  intros a b s0 v s H. unfold make_const.
  assert (W : St (a + 1) b s0 s) by (eapply St_weak; [exact H|lia|lia]).
  destruct v as [| | | |[|c r]|]; try (apply St_add_const; exact H).
  destruct (assoc_bytes [] (identRefs s)); cbn [snd]; [exact W|].
  pose proof (St_add_const a b s0 (VStr []) s H) as H1.
  destruct (add_const (VStr []) s) as [idx s1]. cbn [snd] in *. apply St_identRefs. exact H1.
Qed.
Lemma St_ident_const : forall a b s0 name s, St a b s0 s -> St (a + 1) b s0 (snd (ident_const name s)).
Proof.
  intros a b s0 name s H. unfold ident_const.
  destruct (assoc_bytes name (identRefs s)); cbn [snd]; [eapply St_weak; [exact H|lia|lia]|].
  pose proof (St_make_const a b s0 (VStr name) s H) as H1.
  destruct (make_const (VStr name) s) as [idx s1]. cbn [snd] in *. apply St_identRefs. exact H1.
Qed.
Lemma St_emit_const : forall a b s0 v s, St a b s0 s -> St (a + 1) (b + 10) s0 (emit_const v s).
Proof.
  intros a b s0 v s H. unfold emit_const.
  pose proof (St_make_const a b s0 v s H) as H1.
  destruct (make_const v s) as [idx s1]. cbn [snd] in *.
  eapply St_weak; [apply St_emit_uvarint, St_emit_op, H1|lia|lia].
Qed.
Lemma St_emit_jump : forall a b s0 o s, St a b s0 s -> St a (b + 3) s0 (snd (emit_jump o s)).
Proof.
  intros a b s0 o s H. unfold emit_jump. cbn [snd].
  eapply St_weak; [apply St_emit_bytes, St_emit_op, H|lia|cbn [length]; lia].
Qed.
Lemma St_pop_n : forall a b s0 n s, St a b s0 s -> St a (b + 10) s0 (pop_n n s).
Proof.
  intros a b s0 n s H. unfold pop_n.
  destruct (n =? 0); [eapply St_weak; [exact H|lia|lia]|].
  destruct (n =? 1); [eapply St_weak; [apply St_emit_op, H|lia|lia]|].
  eapply St_weak; [apply St_emit_uvarint, St_emit_op, H|lia|lia].
Qed.
Lemma St_end_scope : forall a b s0 s, St a b s0 s -> St a (b + 10) s0 (end_scope s).
Proof.
  intros a b s0 s H. unfold end_scope. cbv zeta.
  destruct (drop_locals (locals s) (depth s - 1) 0) as [ls popped].
  apply St_pop_n, St_scope_upd, H.
Qed.

Lemma St_int_lit : forall a b s0 s, St a b s0 s -> St (a + 1) (b + 10) s0 (int_lit s).
Proof.
  intros a b s0 s H. unfold int_lit.
  destruct (parse_int (tval (prev s))) as [e|v]; [eapply St_weak; [apply St_perror, H|lia|lia]|].
  destruct (v =? 0)%Z; [eapply St_weak; [apply St_emit_op, H|lia|lia]|].
  destruct (v =? 1)%Z; [eapply St_weak; [apply St_emit_op, H|lia|lia]|].
  apply St_emit_const, H.
Qed.
Lemma St_float_lit : forall a b s0 s, St a b s0 s -> St (a + 1) (b + 10) s0 (float_lit s).
Proof.
  intros a b s0 s H. unfold float_lit.
  destruct (parse_float (tval (prev s))) as [e|v]; [eapply St_weak; [apply St_perror, H|lia|lia]|].
  apply St_emit_const, H.
Qed.
Lemma St_string_lit : forall a b s0 s, St a b s0 s -> St (a + 1) (b + 10) s0 (string_lit s).
Proof.
  intros a b s0 s H. unfold string_lit.
  destruct (unquote (tval (prev s))) as [v|]; [|eapply St_weak; [apply St_perror, H|lia|lia]].
  apply St_emit_const, H.
Qed.
Lemma St_bool_lit : forall a b s0 s, St a b s0 s -> St (a + 1) (b + 10) s0 (bool_lit s).
Proof.
  intros a b s0 s H. unfold bool_lit.
  destruct (ttyp (prev s)); first [eapply St_weak; [exact H|lia|lia] | eapply St_weak; [apply St_emit_op, H|lia|lia]].
Qed.
Lemma St_nil_lit : forall a b s0 s, St a b s0 s -> St (a + 1) (b + 10) s0 (nil_lit s).
Proof.
  intros a b s0 s H. unfold nil_lit.
  destruct (ttyp (prev s)); first [eapply St_weak; [exact H|lia|lia] | eapply St_weak; [apply St_emit_op, H|lia|lia]].
Qed.
Lemma St_unary_tail : forall a b s0 o s, St a b s0 s ->
  St a (b + 1) s0 (match o with tMINUS => emit_op opNEG s | tPLUS => emit_op opUNPLUS s | _ => s end).
Proof.
  intros a b s0 o s H.
  destruct o; first [eapply St_weak; [exact H|lia|lia] | apply St_emit_op, H].
Qed.
Lemma St_not_tail : forall a b s0 o s, St a b s0 s ->
  St a (b + 1) s0 (match o with tNOT => emit_op opNOT s | _ => s end).
Proof.
  intros a b s0 o s H.
  destruct o; first [eapply St_weak; [exact H|lia|lia] | apply St_emit_op, H].
Qed.

(* credit: the token that was matched / consumed *)
Lemma check_isend : forall t s, check t s = true -> (tok_num t <=? 1) = false -> isend (cur_ s) = false.
Proof.
  intros t s H Ht. unfold check in H. apply tok_eqb_eq in H. unfold isend. rewrite H. exact Ht.
Qed.
Lemma St_consume_credit : forall a b s0 t m s, (tok_num t <=? 1) = false ->
  panicMode (consume t m s) = false -> St a b s0 s -> St (a - 1) (b - 40) s0 (consume t m s).
Proof.
  intros a b s0 t m s Ht Hp H. unfold consume in *. destruct (check t s) eqn:Ec.
  - apply St_advance_credit; [eapply check_isend; eassumption|exact H].
  - discriminate Hp.
Qed.

Create HintDb st.
#[export] Hint Resolve St_advance St_perror St_errc St_identRefs St_patch St_begin_scope St_scope_upd
  St_add_local_upd St_locals St_ppanic St_oof St_panicMode St_write St_emit_op St_add_const
  St_perr St_perrc St_consume St_pmatch St_match_end St_patch_jump St_decl_scan St_add_local
  St_decl_var St_def_var St_sync St_emit_uvarint St_emit_binary St_make_const St_ident_const
  St_emit_const St_emit_jump St_pop_n St_end_scope St_int_lit St_float_lit St_string_lit
  St_bool_lit St_nil_lit St_unary_tail St_not_tail : st.
#[export] Hint Extern 1 (St _ _ _ (if _ then _ else _)) => eapply St_if : st.

(* ---- walking through a chain of lets ----
   ewalk: the goal is [St ?a ?b s0 term] with the budgets still to be determined; case distinctions
          only through St_if / St_if_snd, which take the maximum of the budgets;
   twalk: the goal is [St A B s0 term] with given budgets: case distinctions on the conditions of
          the chain itself are made here, every leaf is closed by weakening (lia). *)
Lemma St_if_snd : forall {A} (c : bool) a1 b1 a2 b2 s0 (e1 e2 : A * pst),
  St a1 b1 s0 (snd e1) -> St a2 b2 s0 (snd e2) ->
  St (Z.max a1 a2) (Z.max b1 b2) s0 (snd (if c then e1 else e2)).
Proof. intros A c a1 b1 a2 b2 s0 e1 e2 H1 H2. destruct c; [eapply St_weak; [exact H1|lia|lia]|eapply St_weak; [exact H2|lia|lia]]. Qed.

Ltac ewalk :=
  cbv beta iota;
  lazymatch goal with
  | |- ?Q (snd (if ?c then _ else _)) => eapply St_if_snd; ewalk
  | |- ?Q (snd (let '(_, _) := ?e in _)) =>
      let H := fresh "HS" in
      lazymatch Q with
      | St _ _ ?s0 => eassert (H : St _ _ s0 (snd e)) by ewalk
      end;
      destruct e as [? ?] eqn:?; cbn [fst snd] in H; ewalk
  | |- ?Q (snd (let y := ?e1 in @?e2 y)) => change (Q (snd (e2 e1))); ewalk
  | |- ?Q (snd (_, _)) => cbn [snd]; ewalk
  | |- ?Q (let x := (let y := ?e1 in @?e2 y) in @?body x) =>
      change (Q (let y := e1 in let x := e2 y in body x)); ewalk
  | |- ?Q (let x := ?e in @?body x) =>
      tryif is_var e then (change (Q (body e)); ewalk) else
      lazymatch type of e with
      | pst =>
        let H := fresh "HS" in
        let s := fresh "s" in
        lazymatch Q with
        | St _ _ ?s0 => eassert (H : St _ _ s0 e) by ewalk
        end;
        revert H; generalize e; intros s H; change (Q (body s)); ewalk
      | _ => change (Q (body e)); ewalk
      end
  | |- ?Q (let '(_, _) := ?e in _) =>
      let H := fresh "HS" in
      lazymatch Q with
      | St _ _ ?s0 => eassert (H : St _ _ s0 (snd e)) by ewalk
      end;
      destruct e as [? ?] eqn:?; cbn [fst snd] in H; ewalk
  | |- _ => solve [eauto 14 with st]
  end.

Ltac epair Q e :=
  let H := fresh "HS" in
  lazymatch Q with
  | St _ _ ?s0 => eassert (H : St _ _ s0 (snd e)) by ewalk
  end;
  destruct e as [? ?] eqn:?; cbn [fst snd] in H.

Ltac twalk :=
  cbv beta iota;
  lazymatch goal with
  | |- ?Q (let x := (let y := ?e1 in @?e2 y) in @?body x) =>
      change (Q (let y := e1 in let x := e2 y in body x)); twalk
  | |- ?Q (let x := (if _ then _ else _) in @?body x) =>
      lazymatch goal with
      | |- _ (let x := ?e in _) =>
        let H := fresh "HS" in
        let s := fresh "s" in
        lazymatch Q with
        | St _ _ ?s0 => eassert (H : St _ _ s0 e) by ewalk
        end;
        revert H; generalize e; intros s H; change (Q (body s)); twalk
      end
  | |- ?Q (let x := (let '(_, _) := ?e in _) in _) => epair Q e; twalk
  | |- ?Q (let x := (match ?o with _ => _ end) in _) => destruct o eqn:?; twalk
  | |- ?Q (let x := ?e in @?body x) =>
      tryif is_var e then (change (Q (body e)); twalk) else
      lazymatch type of e with
      | pst =>
        let H := fresh "HS" in
        let s := fresh "s" in
        lazymatch Q with
        | St _ _ ?s0 => eassert (H : St _ _ s0 e) by ewalk
        end;
        revert H; generalize e; intros s H; change (Q (body s)); twalk
      | _ => change (Q (body e)); twalk
      end
  | |- ?Q (let '(_, _) := (match ?x with Some _ => _ | None => _ end) in _) => destruct x eqn:?; twalk
  | |- ?Q (let '(_, _) := (if ?c then (match _ with Some _ => _ | None => _ end) else _) in _) =>
      destruct c eqn:?; twalk
  | |- ?Q (let '(_, _) := ?e in _) => epair Q e; twalk
  | |- ?Q (if ?c then _ else _) => destruct c eqn:?; twalk
  | |- ?Q (match ?x with _ => _ end) => destruct x eqn:?; twalk
  | |- _ => tleaf
  end
with tleaf := solve [eapply St_weak; [ewalk|lia|lia]].

Lemma St_bind_stmt : forall a b s0 s, St a b s0 s -> St (a + 1) (b + 12) s0 (bind_stmt s).
Proof. intros a b s0 s H. cbv beta delta [bind_stmt]. twalk. Qed.

(* ---- expressions ---- *)

Lemma isend_infix : forall t, isend t = true -> rule_infix (ttyp t) = IFnil.
Proof. intros t H. unfold isend in H. destruct (ttyp t); vm_compute in H; try discriminate H; reflexivity. Qed.

Definition finish_of (f : nat) (canAssign : bool) (setOp getOp idx : N) (st : pst) : pst :=
  let '(m, st1) := if canAssign then pmatch tEQ st else (false, st) in
  if m then emit_uvarint idx (emit_op setOp (parse_prec f precAssign st1))
  else emit_uvarint idx (emit_op getOp st1).

Lemma resolve_ident_S' : forall f name canAssign s,
  resolve_ident (S f) name canAssign s =
    match resolve_local (locals s) (nlocals s) name with
    | Some idx => finish_of f canAssign opSETLOCAL opGETLOCAL idx s
    | None =>
      if (depth s =? 0)%Z then perr "undefined variable" s
      else let '(idx, s1) := ident_const name s in finish_of f canAssign opSETFIELD opGETFIELD idx s1
    end.
Proof. reflexivity. Qed.

Definition nz (s : pst) : Z := if isend (cur_ s) then 0%Z else 1%Z.

Definition ExprSt (f : nat) : Prop :=
  (forall prec a b s0 s, St a b s0 s -> St a (b - 20 * nz s) s0 (parse_prec f prec s)) /\
  (forall prec ca a b s0 s, St a b s0 s -> St a b s0 (infix_loop f prec ca s)) /\
  (forall name ca a b s0 s, St a b s0 s -> St (a + 1) (b + 10) s0 (resolve_ident f name ca s)).

Lemma nz_range : forall s, (0 <= nz s <= 1)%Z.
Proof. intros s. unfold nz. destruct (isend (cur_ s)); lia. Qed.

Lemma finish_st : forall f, (forall prec a b s0 s, St a b s0 s -> St a b s0 (parse_prec f prec s)) ->
  forall ca so go idx a b s0 st, St a b s0 st -> St a (b + 10) s0 (finish_of f ca so go idx st).
Proof.
  intros f IH ca so go idx a b s0 st H. unfold finish_of. destruct ca; twalk.
Qed.


Lemma expr_st : forall f, ExprSt f.
Proof.
  induction f as [|f (IHp & IHi & IHr)].
  - split; [|split]; intros; rewrite ?parse_prec_0, ?infix_loop_0, ?resolve_ident_0;
      apply St_oof_any; eapply St_J; eassumption.
  - assert (IHp' : forall prec a b s0 s, St a b s0 s -> St a b s0 (parse_prec f prec s)).
    { intros prec a b s0 s H. pose proof (nz_range s). eapply St_weak; [apply IHp, H|lia|lia]. }
    clear IHp.
    split; [|split].
    + (* parse_prec *)
      intros prec a b s0 s H. unfold nz. rewrite parse_prec_S.
      pose proof (St_J _ _ _ _ H) as HJ.
      destruct (advance_facts s HJ) as (_ & _ & _ & _ & Ep & _).
      destruct (isend (cur_ s)) eqn:Ee.
      * pose proof (St_advance _ _ _ _ H) as H1. rewrite <- Ep in Ee. apply isend_prefix in Ee.
        revert H1 Ee. generalize (advance s). intros s1 H1 Ee. cbv zeta. rewrite Ee.
        eapply St_weak; [apply St_perr, H1|lia|lia].
      * pose proof (St_advance_credit _ _ _ _ Ee H) as H1. clear Ep.
        revert H1. generalize (advance s). intros s1 H1.
        twalk.
    + (* infix_loop *)
      intros prec ca a b s0 s H. rewrite infix_loop_S.
      destruct (prec <=? rule_prec (ttyp (cur_ s))); [|exact H].
      pose proof (St_J _ _ _ _ H) as HJ.
      destruct (advance_facts s HJ) as (_ & _ & _ & _ & Ep & _).
      destruct (isend (cur_ s)) eqn:Ee.
      * pose proof (St_advance _ _ _ _ H) as H1. rewrite <- Ep in Ee. apply isend_infix in Ee.
        revert H1 Ee. generalize (advance s). intros s1 H1 Ee. cbv zeta. rewrite Ee.
        twalk.
      * pose proof (St_advance_credit _ _ _ _ Ee H) as H1. clear Ep.
        revert H1. generalize (advance s). intros s1 H1.
        twalk.
    + (* resolve_ident *)
      intros name ca a b s0 s H. rewrite resolve_ident_S'.
      pose proof (finish_st f IHp') as F.
      destruct (resolve_local (locals s) (nlocals s) name) as [idx|].
      * eapply St_weak; [apply F, H|lia|lia].
      * destruct (depth s =? 0)%Z; [eapply St_weak; [apply St_perr, H|lia|lia]|].
        pose proof (St_ident_const _ _ _ name _ H) as H1.
        destruct (ident_const name s) as [idx s1]. cbn [snd] in H1.
        eapply St_weak; [apply F, H1|lia|lia].
Qed.

Lemma St_parse_prec : forall a b s0 f prec s, St a b s0 s -> St a b s0 (parse_prec f prec s).
Proof.
  intros a b s0 f prec s H. pose proof (nz_range s). eapply St_weak; [apply (expr_st f), H|lia|lia].
Qed.
Lemma St_expr : forall a b s0 f s, St a b s0 s -> St a b s0 (expr f s).
Proof. intros. unfold expr. apply St_parse_prec. assumption. Qed.
(* an expression that starts at a real token leaves 20 of that token's 40 bytes unused *)
Lemma St_expr_spare : forall a b s0 f s, isend (cur_ s) = false -> St a b s0 s -> St a (b - 20) s0 (expr f s).
Proof.
  intros a b s0 f s Ee H. unfold expr. eapply St_weak; [apply (expr_st f), H|lia|].
  unfold nz. rewrite Ee. lia.
Qed.
#[export] Hint Resolve St_expr St_bind_stmt : st.

Lemma St_var_decl : forall a b s0 f s, St a b s0 s -> St a (b + 1) s0 (var_decl f s).
Proof. intros a b s0 f s H. cbv beta delta [var_decl]. twalk. Qed.
#[export] Hint Resolve St_var_decl : st.

(* ---- statements ---- *)

Definition StmtSt (f : nat) : Prop :=
  (forall a b s0 s, isend (cur_ s) = false -> St a b s0 s -> St a b s0 (decl f s)) /\
  (forall a b s0 s, St a b s0 s -> St (a + 1) b s0 (block_stmt f s)) /\
  (forall a b s0 s, St a b s0 s -> St a b s0 (block_loop f s)).

(* a keyword was matched: its token pays *)
Ltac keyword C H s :=
  let H1 := fresh "H1" in
  pose proof (St_advance_credit _ _ _ _ (check_isend _ _ C eq_refl) H) as H1;
  revert H1; generalize (advance s); intros ? H1; twalk.

Lemma stmt_st : forall f, StmtSt f.
Proof.
  induction f as [|f (IHd & IHb & IHl)].
  - split; [|split]; intros; cbn [decl block_stmt block_loop]; apply St_oof_any; eapply St_J; eassumption.
  - split; [|split].
    + (* decl *)
      intros a b s0 s Ee H. rewrite decl_S. cbv beta delta [pmatch].
      destruct (check tVAR s) eqn:C1; cbv beta iota; [keyword C1 H s|].
      destruct (check tPRINT s) eqn:C2; cbv beta iota; [keyword C2 H s|].
      destruct (check tEVAL s) eqn:C3; cbv beta iota; [keyword C3 H s|].
      destruct (check tDEF s) eqn:C4; cbv beta iota; [keyword C4 H s|].
      destruct (check tBIND s) eqn:C5; cbv beta iota; [keyword C5 H s|].
      assert (H2 : St a b s0 (if (0 <? depth s)%Z then emit_op opPOP (expr f s)
                               else perrc "expected statement" s)).
      { destruct (0 <? depth s)%Z.
        - eapply St_weak; [apply St_emit_op, St_expr_spare; [exact Ee|exact H]|lia|lia].
        - apply St_perrc, H. }
      revert H2. generalize (if (0 <? depth s)%Z then emit_op opPOP (expr f s)
                             else perrc "expected statement" s). intros s2 H2.
      twalk.
    + (* block_stmt *)
      intros a b s0 s H. rewrite block_stmt_S.
      match goal with |- ?Q (let x := ?e in @?body x) => change (Q (body e)); cbv beta end.
      destruct (panicMode (consume tIDENT "expected block type" s)) eqn:Ep.
      * eapply St_weak; [apply St_consume, H|lia|lia].
      * pose proof (St_consume_credit _ _ _ tIDENT "expected block type" _ eq_refl Ep H) as H1.
        clear Ep. revert H1. generalize (consume tIDENT "expected block type" s). intros s1 H1.
        twalk.
    + (* block_loop *)
      intros a b s0 s H. rewrite block_loop_S.
      destruct (check tRCURLY s || check_end s) eqn:Ec; [exact H|].
      apply orb_false_elim in Ec. destruct Ec as [_ Ec]. change (isend (cur_ s) = false) in Ec.
      twalk.
Qed.

Lemma St_decl : forall a b s0 f s, isend (cur_ s) = false -> St a b s0 s -> St a b s0 (decl f s).
Proof. intros a b s0 f. apply (stmt_st f). Qed.

Lemma St_top_loop : forall fuel a b s0 s, St a b s0 s -> St a b s0 (top_loop fuel s).
Proof.
  induction fuel as [|f IH]; intros a b s0 s H; cbn [top_loop]; [apply St_oof, H|].
  cbv beta delta [match_end].
  destruct (check_end s) eqn:Ec; cbv beta iota; [apply St_advance, H|].
  change (isend (cur_ s) = false) in Ec.
  pose proof (St_decl _ _ _ f _ Ec H) as H1. revert H1. generalize (decl f s). intros s2 H1.
  twalk.
Qed.

Lemma parse_tokens_st : forall ts, isend (last ts tok0) = true ->
  St 0 11 (init_pst ts) (parse_tokens ts).
Proof.
  intros ts Hl. assert (HJ : J (init_pst ts)) by exact Hl.
  pose proof (St_top_loop (parse_fuel ts) _ _ _ _ (St_advance _ _ _ _ (St_refl _ HJ))) as H.
  unfold parse_tokens. revert H. generalize (top_loop (parse_fuel ts) (advance (init_pst ts))).
  intros s H. twalk.
Qed.

(* ---- the tokens received never exceed the tokens supplied ---- *)

Definition TK (n : N) (s : pst) : Prop := st_tokens s + N.of_nat (length (toks s)) = n.

Lemma advance_loop_TK : forall ts s,
  st_tokens (advance_loop ts s) + N.of_nat (length (toks (advance_loop ts s))) =
  st_tokens s + N.of_nat (length ts).
Proof.
  assert (E : forall m x, st_tokens (error_at_current m x) = st_tokens x) by reflexivity.
  assert (E1 : forall r x, st_tokens (x <| toks := r |>) = st_tokens x) by reflexivity.
  assert (E2 : forall r x, toks (x <| toks := r |>) = r) by reflexivity.
  induction ts as [|t r IH]; intros s.
  - rewrite advance_loop_nil, E1, E2. reflexivity.
  - rewrite advance_loop_cons. destruct (tok_eqb (ttyp t) tERR).
    + rewrite IH, E, st_tokens_adv_tok. cbn [length]. lia.
    + rewrite E1, E2, st_tokens_adv_tok. cbn [length]. lia.
Qed.

Lemma TK_advance : forall n s, TK n s -> TK n (advance s).
Proof.
  intros n s H. unfold TK in *. unfold advance. rewrite advance_loop_TK. exact H.
Qed.

Lemma TK_parse_tokens : forall ts, TK (N.of_nat (length ts)) (parse_tokens ts).
Proof.
  intros ts.
  apply (parse_tokens_pres (TK (N.of_nat (length ts))) (fun _ => True) (fun _ => True));
    try (intros; exact I); try (exact (TK_advance _));
    try (intros; match goal with H : TK _ _ |- _ => exact H end).
  reflexivity.
Qed.

Lemma st_tokens_le : forall ts, st_tokens (parse_tokens ts) <= N.of_nat (length ts).
Proof. intros ts. pose proof (TK_parse_tokens ts) as H. unfold TK in H. lia. Qed.

(* ================================================================== *)
(* 1. / 2. the bounds                                                  *)
(* ================================================================== *)

Lemma parse_tokens_potentials : forall ts, isend (last ts tok0) = true ->
  nconsts (parse_tokens ts) <= st_tokens (parse_tokens ts) /\
  ncode (parse_tokens ts) <= 40 * st_tokens (parse_tokens ts) + 11.
Proof.
  intros ts Hl. destruct (parse_tokens_st ts Hl) as [_ H].
  destruct (parser_total_last ts Hl) as [Ho _]. destruct (H Ho) as (_ & H1 & H2).
  unfold zc, zk in *. change (st_tokens (init_pst ts)) with 0 in *.
  change (nconsts (init_pst ts)) with 0 in *. change (ncode (init_pst ts)) with 0 in *. lia.
Qed.

(* every constant is made from a token: at most one per token (the token list ending, as every
   token list of the lexer does, in tEOF or tFAIL) *)
Theorem nconsts_le_tokens : forall ts, isend (last ts tok0) = true ->
  nconsts (parse_tokens ts) <= N.of_nat (length ts).
Proof.
  intros ts Hl. pose proof (parse_tokens_potentials ts Hl) as [H _]. pose proof (st_tokens_le ts). lia.
Qed.
Print Assumptions nconsts_le_tokens.

Theorem ncode_le_tokens : forall ts, isend (last ts tok0) = true ->
  ncode (parse_tokens ts) <= 40 * N.of_nat (length ts) + 11.
Proof.
  intros ts Hl. pose proof (parse_tokens_potentials ts Hl) as [_ H]. pose proof (st_tokens_le ts). lia.
Qed.
Print Assumptions ncode_le_tokens.

Theorem constants_bounded_by_input : forall name cs,
  ps_constants (pr_stats (parse_chunks name cs)) <= nlen (concat cs) + 2.
Proof.
  intros name cs. destruct (parse_chunks_stats name cs) as [_ ->]. unfold pst_of.
  pose proof (nconsts_le_tokens _ (lex_shape_last _ tok0 (lex_tokens_shape cs))).
  pose proof (lex_token_count cs). lia.
Qed.
Print Assumptions constants_bounded_by_input.

Theorem code_bounded_by_input : forall name cs,
  ps_code (pr_stats (parse_chunks name cs)) <= 40 * nlen (concat cs) + 91.
Proof.
  intros name cs. destruct (parse_chunks_stats name cs) as [-> _]. unfold pst_of.
  pose proof (ncode_le_tokens _ (lex_shape_last _ tok0 (lex_tokens_shape cs))).
  pose proof (lex_token_count cs). lia.
Qed.
Print Assumptions code_bounded_by_input.

(* Without the end token the bounds fail: the closed channel leaves `current` unchanged, the literal
   5 is compiled again and again until the fuel is gone (4 tokens, 93 constants, 277 code bytes). *)
Definition open_ts : list token :=
  [{| ttyp := tDEF; tval := bs "def"; terr := None; tpos := 3 |};
   {| ttyp := tIDENT; tval := bs "T"; terr := None; tpos := 5 |};
   {| ttyp := tLCURLY; tval := bs "{"; terr := None; tpos := 6 |};
   {| ttyp := tINT; tval := bs "5"; terr := None; tpos := 7 |}].
Example bounds_need_end_token :
  isend (last open_ts tok0) = false /\ length open_ts = 4%nat /\
  nconsts (parse_tokens open_ts) = 93 /\ ncode (parse_tokens open_ts) = 277 /\
  oof (parse_tokens open_ts) = true.
Proof. vm_compute. repeat split. Qed.

(* how close real programs come: 22 bytes, 13 tokens, 10 constants, 29 code bytes *)
Example bounds_example :
  let src := bs "def T{a b c d e f g h}" in
  let pr := parse_whole [] src in
  nlen src = 22 /\ length (fst (lex [src])) = 13%nat /\ pr_ok pr = true /\
  ps_constants (pr_stats pr) = 10 /\ ps_code (pr_stats pr) = 29.
Proof. vm_compute. repeat split. Qed.

(* ================================================================== *)
(* C. the output-side hypotheses follow from the length of the input   *)
(* ================================================================== *)
From BCL Require Import Model.Compile Model.Verify Spec.AstSem Proofs.DumpLoadProofs Proofs.T1Proofs Proofs.Language
  Proofs.CompileVerifies Proofs.Limits Model.CliRun Proofs.CliRunProofs.

Lemma two64 : 2^64 = 256 * 2^56.
Proof. reflexivity. Qed.
Lemma two56_pos : 0 < 2^56.
Proof. reflexivity. Qed.

Corollary constants_lt_2_64 : forall name cs, nlen (concat cs) < 2^56 ->
  ps_constants (pr_stats (parse_chunks name cs)) < 2^64.
Proof.
  intros name cs H. pose proof (constants_bounded_by_input name cs) as B.
  rewrite two64. pose proof two56_pos. revert H B. generalize (2^56). intros; lia.
Qed.
Corollary code_lt_2_64 : forall name cs, nlen (concat cs) < 2^56 ->
  ps_code (pr_stats (parse_chunks name cs)) < 2^64.
Proof.
  intros name cs H. pose proof (code_bounded_by_input name cs) as B.
  rewrite two64. pose proof two56_pos. revert H B. generalize (2^56). intros; lia.
Qed.
Corollary input3_lt_2_64 : forall cs : list bytes, nlen (concat cs) < 2^56 -> 3 * nlen (concat cs) < 2^64.
Proof. intros cs H. rewrite two64. revert H. generalize (2^56). intros; lia. Qed.
Print Assumptions constants_lt_2_64.
Print Assumptions code_lt_2_64.

Lemma concat_single : forall src : bytes, concat [src] = src.
Proof. intros. cbn [concat]. apply app_nil_r. Qed.

Corollary constants_lt_2_64_whole : forall name src, nlen src < 2^56 ->
  ps_constants (pr_stats (parse_whole name src)) < 2^64.
Proof. intros name src H. apply constants_lt_2_64. rewrite concat_single. exact H. Qed.
Corollary code_lt_2_64_whole : forall name src, nlen src < 2^56 ->
  ps_code (pr_stats (parse_whole name src)) < 2^64.
Proof. intros name src H. apply code_lt_2_64. rewrite concat_single. exact H. Qed.

(* parse_wf_partial: what the parser produces can be dumped *)
Theorem parse_wf_input : forall name cs,
  nlen (concat cs) < 2^56 -> nlen name < 2^64 ->
  wf_parts (parts_of_prog (pr_prog (parse_chunks name cs))).
Proof.
  intros name cs H Hn. apply parse_wf_partial;
    [apply input3_lt_2_64, H|exact Hn|apply code_lt_2_64, H|apply constants_lt_2_64, H].
Qed.
Print Assumptions parse_wf_input.

(* parsed_verifies *)
Theorem parsed_verifies_input : forall name src,
  nlen src < 2^56 -> pr_ok (parse_whole name src) = true ->
  verify (pr_prog (parse_whole name src)) = true.
Proof.
  intros name src H Hok. destruct (parse_total name [src]) as [E1 E2].
  exact (parsed_verifies name src Hok E1 E2 (constants_lt_2_64_whole name src H)).
Qed.
Print Assumptions parsed_verifies_input.

(* bcl_language: the only hypotheses left are the bound on the input and acceptance *)
Theorem bcl_language_input : forall name src,
  let pr := parse_whole name src in
  let ts := fst (lex [src]) in
  nlen src < 2^56 -> pr_ok pr = true ->
  exists p, ast_program ts = Some p /\
    let rr := execute (pr_prog pr) false false in
    limit_res (rr_res rr) \/
    (res_match (fst (run_program p)) (rr_res rr) /\ obs_match (snd (run_program p)) rr).
Proof.
  intros name src pr ts H Hok. destruct (parse_total name [src]) as [E1 E2].
  exact (bcl_language name src Hok E1 E2 (constants_lt_2_64_whole name src H)).
Qed.
Print Assumptions bcl_language_input.

Corollary compiled_runs_clean_input : forall name src,
  let pr := parse_whole name src in
  nlen src < 2^56 -> pr_ok pr = true ->
  match rr_res (execute (pr_prog pr) false false) with
  | VOk | VErr _ _ | VPanic PExcluded => True
  | VPanic _ | VInternal _ => False
  end.
Proof.
  intros name src pr H Hok. destruct (parse_total name [src]) as [E1 E2].
  exact (compiled_runs_clean name src Hok E1 E2 (constants_lt_2_64_whole name src H)).
Qed.

Theorem bcl_language_within_limits_input : forall name src,
  let pr := parse_whole name src in
  let ts := fst (lex [src]) in
  nlen src < 2^56 -> pr_ok pr = true ->
  exists p, ast_program ts = Some p /\
    (within_limits p ->
     let rr := execute (pr_prog pr) false false in
     res_match (fst (run_program p)) (rr_res rr) /\ obs_match (snd (run_program p)) rr).
Proof.
  intros name src pr ts H Hok. destruct (parse_total name [src]) as [E1 E2].
  exact (bcl_language_within_limits name src Hok E1 E2 (constants_lt_2_64_whole name src H)).
Qed.
Print Assumptions bcl_language_within_limits_input.

Theorem bcl_language_characterised_input : forall name src,
  let pr := parse_whole name src in
  let ts := fst (lex [src]) in
  nlen src < 2^56 -> pr_ok pr = true ->
  exists p, ast_program ts = Some p /\
    let rr := execute (pr_prog pr) false false in
    (overflow_res (rr_res rr) /\ 1024 < need_prog p) \/
    (nesting_res (rr_res rr) /\ 16 < nest_prog p) \/
    (res_match (fst (run_program p)) (rr_res rr) /\ obs_match (snd (run_program p)) rr).
Proof.
  intros name src pr ts H Hok. destruct (parse_total name [src]) as [E1 E2].
  exact (bcl_language_characterised name src Hok E1 E2 (constants_lt_2_64_whole name src H)).
Qed.
Print Assumptions bcl_language_characterised_input.

Theorem parsed_peak_input : forall name src,
  let pr := parse_whole name src in
  nlen src < 2^56 -> pr_ok pr = true ->
  exists p, ast_program (fst (lex [src])) = Some p /\ peak (pr_prog pr) = Some (need_prog p, nest_prog p).
Proof.
  intros name src pr H Hok. destruct (parse_total name [src]) as [E1 E2].
  exact (parsed_peak name src Hok E1 E2 (constants_lt_2_64_whole name src H)).
Qed.

(* the command line (Model/CliRun.v): consts_bounded / dump_bounded from the size of the file *)
Lemma consts_bounded_input : forall name src, nlen src < 2^56 -> consts_bounded name src.
Proof. intros. unfold consts_bounded. apply constants_lt_2_64_whole. assumption. Qed.
Lemma dump_bounded_input : forall name src, nlen src < 2^56 -> nlen name < 2^64 -> dump_bounded name src.
Proof.
  intros name src H Hn. unfold dump_bounded. split; [|split; [exact Hn|apply code_lt_2_64_whole, H]].
  rewrite <- (concat_single src). apply input3_lt_2_64. rewrite concat_single. exact H.
Qed.

Theorem never_model_gives_up_input : forall a w src what,
  open_file w (a_file a) = Some src -> a_bload a = false ->
  nlen src < 2^56 -> nlen (input_name (a_file a)) < 2^64 ->
  cr_err (cli_run a w) = Some (EModel what) ->
  what = bs "vm panic site" /\
  pr_ok (parse_whole (input_name (a_file a)) src) = true /\
  rr_res (execute (pr_prog (parse_whole (input_name (a_file a)) src)) (a_trace a) (a_stats a)) = VPanic PExcluded.
Proof.
  intros a w src what Ho Hb H Hn. apply (never_model_gives_up a w src what Ho Hb).
  - apply consts_bounded_input, H.
  - intros _. apply dump_bounded_input; assumption.
Qed.
Print Assumptions never_model_gives_up_input.

Theorem never_internal_error_input : forall a w src msg,
  open_file w (a_file a) = Some src -> a_bload a = false -> nlen src < 2^56 ->
  cr_err (cli_run a w) <> Some (EInternal msg).
Proof.
  intros a w src msg Ho Hb H. apply (never_internal_error a w src msg Ho Hb). apply consts_bounded_input, H.
Qed.

Theorem bdump_then_bload_input : forall a w src f b a' w',
  open_file w (a_file a) = Some src -> a_bload a = false ->
  nlen src < 2^56 -> nlen (input_name (a_file a)) < 2^64 ->
  cr_written (cli_run a w) = Some (f, b) ->
  a_bload a' = true -> a_bdump a' = false -> a_file a' = f -> open_file w' f = Some b ->
  a_trace a' = a_trace a -> a_stats a' = a_stats a -> a_result a' = a_result a ->
  let pr := parse_whole (input_name (a_file a)) src in
  let g := pr_prog pr in
  let rr := execute g (a_trace a) (a_stats a) in
  let r := cli_run a w in
  let r' := cli_run a' w' in
  (a_bdump a = true /\ w_target w (a_bdumpFile a) = TgOk /\ f = a_bdumpFile a /\ pr_ok pr = true /\
   dump (parts_of_prog g) = Ok b /\ load_bytes b = Ok (parts_of_prog g)) /\
  cr_stdout r = dis_lines (a_disasm a) g ++ ps_lines (a_stats a) pr ++ rr_out rr /\
  cr_stdout r' = dis_lines (a_disasm a') g ++ rr_out rr /\
  cr_status r' = cr_status r /\ cr_err r' = cr_err r /\ cr_result r' = cr_result r /\
  cr_warnings r' = cr_warnings r /\ cr_lfs r' = cr_lfs r /\ cr_written r' = None.
Proof.
  intros a w src f b a' w' Ho Hb H Hn. apply (bdump_then_bload a w src f b a' w' Ho Hb).
  - apply consts_bounded_input, H.
  - apply dump_bounded_input; assumption.
Qed.
Print Assumptions bdump_then_bload_input.
