(* C05Tree.v: from the TREE of a written value to the bound Go value.

   A writer turns a block (Model/Value.v) into the syntax tree of a BCL program ([prog_of_block]:
   one `def` with an assignment per scalar field and a nested `def` per block-valued field, then
   `bind T -> struct`).  For a well-formed block ([wf_block]) the big-step semantics of Spec/AstSem.v
   runs that tree to a binding holding EXACTLY that block ([run_prog_of_block]); the generator of
   Model/Compile.v accepts the tree of ANY block ([compile_prog_of_block]); T1 carries the result to
   the generated code ([code_of_block_runs]); Bind (Model/Reflect.v) stores it into the Go struct.

   Finding: the blocks of ReflectProofs.blocks_of (the family of C05_bind_roundtrip) keep a nested
   struct under the key "lower-cased field name" with the struct's type NAME as block type.  The
   language stores a nested block under the key derived from the block's own type and name, so such
   a block is in general not producible by any BCL text ([C05_tree_roundtrip_counterexample]); the
   roundtrip for blocks_of holds exactly where the two keys coincide ([C05_tree_roundtrip_partial]).
   Section 6 defines the writer the language can express ([tree_of]: nested struct field F as
   `def f ["name"] {...}`), the family it needs ([bfam]: a nested struct type is unnamed or named like
   its field) and proves the roundtrip for it from the tree onwards ([C05_tree_roundtrip_bfam],
   [C05_code_roundtrip_bfam], and the slice forms). *)
From RecordUpdate Require Import RecordSet.
From Coq Require Import Lia ZifyN ZifyNat ZifyBool Permutation Floats.SpecFloat.
From BCL Require Import Model.Api Model.Compile Spec.AstSem Model.Reflect Proofs.ReflectProofs Proofs.T1Proofs.
From BCL Require Import Proofs.T1Code.
Import ListNotations.
Import RecordSetNotations.
Open Scope N_scope.

(* ---------------------------------------------------------------------------------------- *)
(* 1. scalars                                                                                *)
(* ---------------------------------------------------------------------------------------- *)
Definition lit_expr (v : value) : expr :=
  match v with
  | VInt z => if (0 <=? z)%Z then ELit v
              else if (z =? - 2^63)%Z then EBin OSub (ENeg (ELit (VInt (2^63 - 1)))) (ELit (VInt 1))
              else ENeg (ELit (VInt (- z)))
  | VFloat b => if b <? 2^63 then ELit v else ENeg (ELit (VFloat (b - 2^63)))
  | _ => ELit v
  end.

Fixpoint stmt_of_block (v : value) : stmt :=
  match v with
  | VBlock t n fs =>
    SDef t n (map (fun kx => match kx with
                             | (k, x) => match x with
                                         | VBlock _ _ _ => stmt_of_block x
                                         | _ => SExpr (EAsg k (lit_expr x))
                                         end
                             end) fs)
  | _ => SEval (ELit v)
  end.

Definition stmts_of_block (v : value) : list stmt := [stmt_of_block v].
Definition btype (v : value) : bytes := match v with VBlock t _ _ => t | _ => [] end.
Definition prog_of_block (b : value) : list stmt := stmts_of_block b ++ [SBind (btype b) BSone BTstruct].


(* ---- negation of a float in the model is exactly "flip the sign bit" on every non-NaN pattern ---- *)
Lemma f_neg_flip : forall b, b < 2^63 -> f_is_nan b = false -> f_neg b = b + 2^63.
Proof.
  intros b Hb Hn. unfold f_neg, f_is_nan, fb, sf in *.
  set (z := Z.of_N b) in *. assert (Hz : (0 <= z < 2^63)%Z) by (unfold z; lia).
  assert (Hg : b + 2^63 = Z.to_N (z + 2^63)) by (unfold z; lia). rewrite Hg. clear Hg.
  clearbody z. clear b Hb.
  unfold of_bits in *.
  assert (E1 : (2^63 <=? z)%Z = false) by lia. rewrite E1 in *.
  assert (E2 : (z mod 2^63 = z)%Z) by (apply Z.mod_small; lia). rewrite E2 in *.
  pose proof (Z.div_mod z (2^52) ltac:(lia)) as Hdm.
  pose proof (Z.mod_pos_bound z (2^52) ltac:(lia)) as Hmb.
  set (ex := (z / 2^52)%Z) in *. set (mt := (z mod 2^52)%Z) in *.
  assert (Hex : (0 <= ex < 2048)%Z) by lia.
  f_equal.
  destruct (ex =? 2047)%Z eqn:Ea.
  - destruct (mt =? 0)%Z eqn:Eb; [|discriminate Hn].
    cbn [SFopp bits_of negb]. rewrite Z.mod_small; lia.
  - destruct (ex =? 0)%Z eqn:Ec.
    + destruct mt as [|p|p] eqn:Em; cbn [SFopp bits_of negb].
      * rewrite Z.mod_small; lia.
      * assert (Hp : (Z.pos p <? 2^52)%Z = true) by lia. rewrite Hp. rewrite Z.mod_small; lia.
      * lia.
    + destruct (mt + 2^52)%Z as [|p|p] eqn:Em; [lia| |lia].
      cbn [SFopp bits_of negb].
      assert (Hp : (Z.pos p <? 2^52)%Z = false) by lia. rewrite Hp. rewrite Z.mod_small; lia.
Qed.

Lemma f_is_nan_low : forall b, 2^63 <= b -> b < 2^64 -> f_is_nan (b - 2^63) = f_is_nan b.
Proof.
  intros b H1 H2. unfold f_is_nan, sf, of_bits.
  replace (Z.of_N (b - 2^63)) with (Z.of_N b - 2^63)%Z by lia.
  set (z := Z.of_N b). assert (Hz : (2^63 <= z < 2^64)%Z) by (unfold z; lia). clearbody z.
  assert (E : ((z - 2^63) mod 2^63 = z mod 2^63)%Z).
  { rewrite (Z.mod_small (z - 2^63)) by lia. apply Z.mod_unique with (q := 1%Z); lia. }
  rewrite E.
  destruct ((z mod 2^63 / 2^52 =? 2047)%Z).
  - destruct ((z mod 2^63) mod 2^52 =? 0)%Z; reflexivity.
  - destruct (z mod 2^63 / 2^52 =? 0)%Z.
    + destruct ((z mod 2^63) mod 2^52)%Z; reflexivity.
    + destruct ((z mod 2^63) mod 2^52 + 2^52)%Z; reflexivity.
Qed.

(* the scalars a writer can spell: Go ints, floats other than the NaNs with the sign bit set (the
   model's negation returns the canonical NaN on those), strings, booleans, nil *)
Definition scalar_ok (v : value) : Prop :=
  match v with
  | VInt z => (- 2^63 <= z < 2^63)%Z
  | VFloat b => b < 2^64 /\ (2^63 <= b -> f_is_nan b = false)
  | VBlock _ _ _ => False
  | _ => True
  end.

Lemma eval_lit_expr : forall v en, scalar_ok v -> eval (lit_expr v) en = (ROk v, en).
Proof.
  intros v en H. destruct v as [|b|z|b|s|t n fs]; try reflexivity.
  - unfold lit_expr. cbn [scalar_ok] in H.
    destruct (0 <=? z)%Z eqn:E0; [reflexivity|].
    destruct (z =? - 2^63)%Z eqn:E1.
    + assert (z = (- 2^63)%Z) by lia. subst z. reflexivity.
    + cbn [eval unop]. unfold wrap. do 3 f_equal.
      rewrite Z.opp_involutive. 
      assert (E : ((z + 2^63) mod 2^64 = z + 2^63)%Z) by (apply Z.mod_small; lia). rewrite E. lia.
  - unfold lit_expr. cbn [scalar_ok] in H. destruct H as [H1 H2].
    destruct (b <? 2^63) eqn:E0; [reflexivity|].
    assert (Hb : 2^63 <= b) by lia.
    cbn [eval unop]. rewrite f_neg_flip.
    + do 3 f_equal. lia.
    + lia.
    + rewrite f_is_nan_low by assumption. apply H2. exact Hb.
Qed.

(* what the model does on the excluded patterns: the sign is lost *)
Example neg_nan_not_spellable : f_neg (2047 * 2^52 + 1) = 2047 * 2^52 + 2^51.
Proof. vm_compute. reflexivity. Qed.

(* ---------------------------------------------------------------------------------------- *)
(* 2. blocks as statements                                                                   *)
(* ---------------------------------------------------------------------------------------- *)
(* the key under which the semantics stores a finished child block in its parent *)
Definition own_key (v : value) : bytes := match v with VBlock t n _ => block_key t n | _ => [] end.

(* well-formed: at every level the keys are pairwise distinct, a scalar field is spellable, and a
   block-valued field sits under the key the semantics derives from its type and name *)
Inductive wf_block : value -> Prop :=
| wf_blk : forall t n fs,
    NoDup (map fst fs) ->
    (forall k x, In (k, x) fs -> scalar_ok x \/ (k = own_key x /\ wf_block x)) ->
    wf_block (VBlock t n fs).

Definition item (kx : bytes * value) : stmt :=
  match kx with
  | (k, x) => match x with VBlock _ _ _ => stmt_of_block x | _ => SExpr (EAsg k (lit_expr x)) end
  end.

Lemma stmt_of_block_eq : forall t n fs, stmt_of_block (VBlock t n fs) = SDef t n (map item fs).
Proof. reflexivity. Qed.

Definition all_empty (sc : list frame) : Prop := Forall (fun f => f = []) sc.

Lemma lookup_all_empty : forall sc x, all_empty sc -> lookup_frames x sc = None.
Proof. induction 1 as [|f r Hf Hr IH]; [reflexivity|]. subst f. exact IH. Qed.
Lemma assign_all_empty : forall sc x v, all_empty sc -> assign_frames x v sc = None.
Proof. induction 1 as [|f r Hf Hr IH]; [reflexivity|]. subst f. cbn [assign_frames fields_get]. rewrite IH. reflexivity. Qed.

Lemma fields_get_none : forall k l, fields_get k l = None <-> ~ In k (map fst l).
Proof.
  intros k l. induction l as [|[k' v] r IH]; cbn [fields_get map fst In]; [tauto|].
  destruct (bytes_eqb k k') eqn:E.
  - apply bytes_eqb_eq in E. subst. split; [discriminate|]. intros H. exfalso. apply H. left. reflexivity.
  - apply bytes_eqb_neq in E. rewrite IH. split; [intros H [A|A]; [congruence|tauto] | tauto].
Qed.

Lemma fields_set_fresh : forall k v l, fields_get k l = None -> fields_set k v l = l ++ [(k, v)].
Proof.
  intros k v l. induction l as [|[k' v'] r IH]; cbn [fields_get fields_set app]; [reflexivity|].
  destruct (bytes_eqb k k'); [discriminate|]. intros H. rewrite IH by exact H. reflexivity.
Qed.

Lemma set_oblocks_twice : forall en a b, set_oblocks (set_oblocks en a) b = set_oblocks en b.
Proof. reflexivity. Qed.

(* a finished child block x lands in the open parent under its own key *)
Definition runs_nested (x : value) : Prop :=
  forall en t n acc up, all_empty (scopes en) -> oblocks en = {| ob_typ := t; ob_name := n; ob_fields := acc |} :: up ->
    fields_get (own_key x) acc = None ->
    exec (stmt_of_block x) en =
      (ROk tt, set_oblocks en ({| ob_typ := t; ob_name := n; ob_fields := acc ++ [(own_key x, x)] |} :: up)).

Definition item_ok (kx : bytes * value) : Prop :=
  scalar_ok (snd kx) \/ (fst kx = own_key (snd kx) /\ (exists t n fs, snd kx = VBlock t n fs) /\ runs_nested (snd kx)).

Lemma items_run : forall fs, Forall item_ok fs ->
  forall en t n acc up, all_empty (scopes en) ->
    oblocks en = {| ob_typ := t; ob_name := n; ob_fields := acc |} :: up ->
    NoDup (map fst (acc ++ fs)) ->
    exec_all (map item fs) en =
      (ROk tt, set_oblocks en ({| ob_typ := t; ob_name := n; ob_fields := acc ++ fs |} :: up)).
Proof.
  induction 1 as [|[k x] r Hx Hr IH]; intros en t n acc up Hsc Hob Hnd.
  - cbn [map exec_all]. rewrite app_nil_r. unfold set_oblocks. rewrite <- Hob. destruct en; reflexivity.
  - assert (Hfresh : fields_get k acc = None).
    { apply fields_get_none. rewrite map_app in Hnd. cbn [map fst] in Hnd.
      apply NoDup_remove_2 in Hnd. intros Hin. apply Hnd. apply in_or_app. left. exact Hin. }
    assert (Hnd' : NoDup (map fst ((acc ++ [(k, x)]) ++ r))) by (rewrite <- app_assoc; exact Hnd).
    cbn [map exec_all].
    assert (Hstep : exec (item (k, x)) en =
              (ROk tt, set_oblocks en ({| ob_typ := t; ob_name := n; ob_fields := acc ++ [(k, x)] |} :: up))).
    { destruct Hx as [Hs|(Hk & (t' & n' & fs' & Hb) & Hrun)]; cbn [fst snd] in *.
      - assert (Hi : item (k, x) = SExpr (EAsg k (lit_expr x))) by (destruct x; try reflexivity; destruct Hs).
        rewrite Hi. cbn [exec eval]. rewrite (lookup_all_empty _ k Hsc), Hob.
        rewrite (eval_lit_expr x en Hs). rewrite (assign_all_empty _ k x Hsc), Hob.
        cbn [ob_typ ob_name ob_fields]. rewrite (fields_set_fresh _ _ _ Hfresh). reflexivity.
      - subst k. assert (Hi : item (own_key x, x) = stmt_of_block x) by (rewrite Hb; reflexivity).
        rewrite Hi. apply Hrun; assumption. }
    rewrite Hstep.
    rewrite (IH (set_oblocks en _) t n (acc ++ [(k, x)]) up Hsc eq_refl Hnd').
    rewrite set_oblocks_twice, <- app_assoc. reflexivity.
Qed.

(* a definition whose items run: what happens when the block is closed *)
Lemma def_runs_nested : forall t n fs, Forall item_ok fs -> NoDup (map fst fs) -> runs_nested (VBlock t n fs).
Proof.
  intros t n fs Hit Hnd en pt pn acc up Hsc Hob Hfresh.
  rewrite stmt_of_block_eq, exec_def. cbv zeta.
  rewrite (items_run fs Hit _ t n [] (oblocks en)); [| constructor; [reflexivity|exact Hsc] | reflexivity | exact Hnd].
  cbn [app set_oblocks oblocks scopes ob_typ ob_name ob_fields results binding_ output warnings].
  rewrite Hob. cbn [ob_fields ob_typ ob_name]. cbn [own_key] in Hfresh. rewrite Hfresh.
  rewrite (fields_set_fresh _ _ _ Hfresh). reflexivity.
Qed.

Lemma def_runs_top : forall t n fs en, Forall item_ok fs -> NoDup (map fst fs) ->
  all_empty (scopes en) -> oblocks en = [] ->
  exec (stmt_of_block (VBlock t n fs)) en =
    (ROk tt, mkEnv (scopes en) [] (VBlock t n fs :: results en) (binding_ en) (output en) (warnings en)).
Proof.
  intros t n fs en Hit Hnd Hsc Hob.
  rewrite stmt_of_block_eq, exec_def. cbv zeta.
  rewrite (items_run fs Hit _ t n [] (oblocks en)); [| constructor; [reflexivity|exact Hsc] | reflexivity | exact Hnd].
  cbn [app set_oblocks oblocks scopes ob_typ ob_name ob_fields results binding_ output warnings].
  rewrite Hob. reflexivity.
Qed.

Lemma wf_items : forall d t n fs, (bdepth (VBlock t n fs) <= d)%nat -> wf_block (VBlock t n fs) -> Forall item_ok fs.
Proof.
  induction d as [|d IH]; intros t n fs Hd Hwf.
  - pose proof (bdepth_block_pos t n fs). lia.
  - inversion Hwf as [t0 n0 fs0 Hnd Hf]; subst. apply Forall_forall. intros [k x] Hin.
    destruct (Hf k x Hin) as [Hs|[Hk Hw]]; [left; exact Hs|right]. cbn [fst snd].
    pose proof (bdepth_in t n fs k x Hin) as Hlt.
    inversion Hw as [t' n' fs' Hnd' Hf']; subst x.
    split; [exact Hk|]. split; [eauto|].
    apply def_runs_nested; [|exact Hnd']. apply (IH t' n'); [lia|exact Hw].
Qed.

(* 3. the program of a well-formed block runs to a binding holding exactly that block: on a fresh
      key [fields_set] appends, so even the order of the fields is the written one *)
Definition env_bound (b : value) : env := mkEnv [[]] [] [b] (Some (SStruct b)) [] 0.

Theorem run_prog_of_block : forall b, wf_block b -> run_program (prog_of_block b) = (ROk tt, env_bound b).
Proof.
  intros b Hwf. inversion Hwf as [t n fs Hnd Hf]; subst b.
  unfold run_program, prog_of_block, stmts_of_block. cbn [app exec_all].
  rewrite (def_runs_top t n fs env0); [| |exact Hnd| |reflexivity].
  - cbn [exec btype env0 scopes oblocks results binding_ output warnings rev app filter].
    rewrite bytes_eqb_refl. reflexivity.
  - apply (wf_items _ t n fs (le_n _) Hwf).
  - repeat constructor.
Qed.

Corollary run_prog_of_block_binding : forall b, wf_block b ->
  exists en, run_program (prog_of_block b) = (ROk tt, en) /\ binding_ en = Some (SStruct b) /\
             results en = [b] /\ output en = [] /\ warnings en = 0.
Proof. intros b H. exists (env_bound b). rewrite (run_prog_of_block b H). repeat split. Qed.

(* ---------------------------------------------------------------------------------------- *)
(* 5. the generator accepts these trees                                                      *)
(* ---------------------------------------------------------------------------------------- *)
(* [grow c s s']: no error raised, the scope tables untouched, at most c constants added *)
Definition grow (c : N) (s s' : pst) : Prop :=
  hadError s' = hadError s /\ locals s' = locals s /\ nlocals s' = nlocals s /\ depth s' = depth s /\
  nconsts s <= nconsts s' <= nconsts s + c.

Lemma grow_refl s : grow 0 s s.
Proof. unfold grow. repeat split; lia. Qed.
Lemma grow_trans c1 c2 s s1 s2 : grow c1 s s1 -> grow c2 s1 s2 -> grow (c1 + c2) s s2.
Proof. unfold grow. intros (A1 & A2 & A3 & A4 & A5) (B1 & B2 & B3 & B4 & B5). repeat split; try congruence; lia. Qed.
Lemma grow_weaken c c' s s' : c <= c' -> grow c s s' -> grow c' s s'.
Proof. unfold grow. intros H (A1 & A2 & A3 & A4 & A5). repeat split; try assumption; lia. Qed.

Lemma grow_write b s : grow 0 s (write b s).
Proof. unfold grow, write. psimp. repeat split; lia. Qed.
Lemma grow_emit_op o s : grow 0 s (emit_op o s).
Proof. unfold grow, emit_op, write. psimp. repeat split; lia. Qed.
Lemma grow_emit_bytes bb : forall s, grow 0 s (emit_bytes bb s).
Proof.
  unfold emit_bytes. induction bb as [|b r IH]; intros s; cbn [fold_left]; [apply grow_refl|].
  change 0 with (0 + 0). eapply grow_trans; [apply grow_write | apply IH].
Qed.
Lemma grow_emit_uvarint x s : grow 0 s (emit_uvarint x s).
Proof. apply grow_emit_bytes. Qed.
Lemma grow_add_const v s : grow 1 s (snd (add_const v s)).
Proof. unfold grow, add_const. cbn [snd]. psimp. repeat split; lia. Qed.
Lemma grow_make_const v s : grow 1 s (snd (make_const v s)).
Proof.
  unfold make_const. destruct v as [ | | | |[|c r]| ]; try apply grow_add_const.
  destruct (assoc_bytes [] (identRefs s)); [cbn [snd]; apply (grow_weaken 0); [lia|apply grow_refl]|].
  pose proof (grow_add_const (VStr []) s) as G. destruct (add_const (VStr []) s) as [idx s1]. cbn [snd] in *.
  unfold grow in *. psimp. exact G.
Qed.
Lemma grow_ident_const x s : grow 1 s (snd (ident_const x s)).
Proof.
  unfold ident_const. destruct (assoc_bytes x (identRefs s)); [cbn [snd]; apply (grow_weaken 0); [lia|apply grow_refl]|].
  pose proof (grow_make_const (VStr x) s) as G. destruct (make_const (VStr x) s) as [idx s1]. cbn [snd] in *.
  unfold grow in *. psimp. exact G.
Qed.
Lemma grow_emit_const v s : grow 1 s (emit_const v s).
Proof.
  unfold emit_const. pose proof (grow_make_const v s) as G. destruct (make_const v s) as [idx s1]. cbn [snd] in G.
  change 1 with (1 + (0 + 0)). eapply grow_trans; [exact G|]. eapply grow_trans; [apply grow_emit_op|apply grow_emit_uvarint].
Qed.
Lemma grow_clit v s : grow 1 s (clit v s).
Proof.
  assert (Z0 : forall o, grow 1 s (emit_op o s)) by (intros o; apply (grow_weaken 0); [lia|apply grow_emit_op]).
  unfold clit. destruct v as [ |[|]|z| | | ]; try apply Z0; try apply grow_emit_const.
  destruct z as [|[p|p|]|]; try apply Z0; apply grow_emit_const.
Qed.

Lemma grow_lit_expr v s : grow 1 s (cexpr (lit_expr v) s).
Proof.
  assert (G0 : forall o s0, grow 0 s0 (emit_op o s0)) by (intros; apply grow_emit_op).
  destruct v as [|b|z|b|x|t n fs]; try apply grow_clit; unfold lit_expr.
  - destruct (0 <=? z)%Z; [apply grow_clit|].
    destruct (z =? - 2^63)%Z.
    + cbn [cexpr ops_of emit_ops fold_left]. change (clit (VInt 1)) with (emit_op opONE).
      change 1 with (1 + 0 + 0 + 0). repeat (eapply grow_trans; [|apply G0]). apply grow_clit.
    + cbn [cexpr]. change 1 with (1 + 0). eapply grow_trans; [apply grow_clit|apply G0].
  - destruct (b <? 2^63); [apply grow_clit|].
    cbn [cexpr]. change 1 with (1 + 0). eapply grow_trans; [apply grow_clit|apply G0].
Qed.

Lemma grow_scalar_item k x s : locals s = [] -> depth s <> 0%Z ->
  grow 2 s (cstmt (SExpr (EAsg k (lit_expr x))) s).
Proof.
  intros Hl Hd. cbn [cstmt cexpr]. rewrite Hl. cbn [resolve_local].
  assert (E : (depth s =? 0)%Z = false) by lia. rewrite E.
  pose proof (grow_ident_const k s) as G. destruct (ident_const k s) as [idx s1]. cbn [snd] in G.
  change 2 with (1 + (1 + (0 + (0 + 0)))). eapply grow_trans; [exact G|].
  eapply grow_trans; [apply grow_lit_expr|]. eapply grow_trans; [apply grow_emit_op|].
  eapply grow_trans; [apply grow_emit_uvarint|apply grow_emit_op].
Qed.

Lemma grow_sbind t sel tg s : grow 1 s (cstmt (SBind t sel tg) s).
Proof.
  cbn [cstmt]. pose proof (grow_ident_const t (emit_op opBIND s)) as G.
  destruct (ident_const t (emit_op opBIND s)) as [idx s1]. cbn [snd] in G.
  change 1 with (0 + (1 + (0 + 0))). eapply grow_trans; [apply grow_emit_op|].
  eapply grow_trans; [exact G|]. eapply grow_trans; [apply grow_emit_uvarint|apply grow_write].
Qed.

Lemma grow_sdef t n body c s : locals s = [] ->
  (forall s3, locals s3 = [] -> (depth s3 = depth s + 1)%Z -> grow c s3 (cstmts body s3)) ->
  grow (2 + c) s (cstmt (SDef t n body) s).
Proof.
  intros Hl Hbody. rewrite cstmt_def.
  pose proof (grow_ident_const t s) as G1. destruct (ident_const t s) as [ti s1]. cbn [snd] in G1.
  pose proof (grow_make_const (VStr n) s1) as G2. destruct (make_const (VStr n) s1) as [ni s2]. cbn [snd] in G2.
  cbv zeta.
  set (s2' := emit_uvarint ni (emit_uvarint ti (emit_op opDEFBLOCK s2))).
  assert (G3 : grow 2 s s2').
  { change 2 with (1 + (1 + (0 + (0 + 0)))). eapply grow_trans; [exact G1|]. eapply grow_trans; [exact G2|].
    eapply grow_trans; [apply grow_emit_op|]. eapply grow_trans; apply grow_emit_uvarint. }
  destruct G3 as (E1 & E2 & E3 & E4 & E5).
  set (s3 := begin_scope s2').
  assert (L3 : locals s3 = []) by (unfold s3, begin_scope; psimp; congruence).
  assert (D3 : (depth s3 = depth s + 1)%Z) by (unfold s3, begin_scope; psimp; congruence).
  destruct (Hbody s3 L3 D3) as (F1 & F2 & F3 & F4 & F5).
  set (s4 := cstmts body s3) in *.
  assert (E : emit_op opENDBLOCK (end_scope s4) =
              emit_op opENDBLOCK (s4 <| depth := (depth s4 - 1)%Z |> <| locals := [] |> <| nlocals := nlocals s4 - 0 |>)).
  { unfold end_scope. rewrite F2, L3. cbn [drop_locals]. unfold pop_n. cbn [N.eqb]. reflexivity. }
  rewrite E. clear E.
  assert (H3 : hadError s3 = hadError s2' /\ nlocals s3 = nlocals s2' /\ nconsts s3 = nconsts s2')
    by (unfold s3, begin_scope; psimp; repeat split).
  destruct H3 as (H31 & H32 & H33).
  unfold grow, emit_op, write. psimp.
  repeat split; try congruence; try lia.
Qed.

(* an upper bound of the constants a written block needs: type and name per block, key and literal per scalar *)
Fixpoint csize (v : value) : N :=
  match v with
  | VBlock _ _ fs =>
    2 + (fix go (l : list (bytes * value)) : N :=
           match l with [] => 0 | kx :: r => (match kx with (_, x) => csize x end) + go r end) fs
  | _ => 2
  end.
Definition csum (fs : list (bytes * value)) : N := fold_right (fun kx a => csize (snd kx) + a) 0 fs.
Lemma csize_block t n fs : csize (VBlock t n fs) = 2 + csum fs.
Proof. cbn [csize]. f_equal. induction fs as [|[k x] r IH]; [reflexivity|]. cbn [csum fold_right snd]. rewrite IH. reflexivity. Qed.

Lemma grow_stmt_of_block : forall d x, (bdepth x <= d)%nat ->
  forall s, locals s = [] -> (0 <= depth s)%Z -> grow (csize x) s (cstmt (stmt_of_block x) s).
Proof.
  assert (NB : forall x s, grow 2 s (cstmt (SEval (ELit x)) s)).
  { intros x s. cbn [cstmt cexpr]. apply (grow_weaken (1 + 0)); [lia|].
    eapply grow_trans; [apply grow_clit|apply grow_emit_op]. }
  induction d as [|d IH]; intros x Hd s Hl Hdp.
  - destruct x as [| | | | |t n fs]; try apply NB.
    pose proof (bdepth_block_pos t n fs). lia.
  - destruct x as [| | | | |t n fs]; try apply NB.
    rewrite csize_block, stmt_of_block_eq. apply grow_sdef; [exact Hl|].
    assert (Hin : forall k x, In (k, x) fs -> (bdepth x <= d)%nat).
    { intros k x Hin. pose proof (bdepth_in t n fs k x Hin). lia. }
    clear Hd. induction fs as [|[k x] r IHr]; intros s3 L3 D3.
    + apply grow_refl.
    + cbn [map csum fold_right snd]. rewrite cstmts_cons.
      assert (G : grow (csize x) s3 (cstmt (item (k, x)) s3)).
      { destruct x as [| | | | |t' n' fs']; try (apply grow_scalar_item; [exact L3|lia]).
        apply IH; [apply (Hin k); left; reflexivity|exact L3|lia]. }
      eapply grow_trans; [exact G|]. destruct G as (_ & G2 & _ & G4 & _).
      apply IHr; [intros k' x' H'; apply (Hin k'); right; exact H'|congruence|congruence].
Qed.

Lemma binds_ok_block : forall d x, (bdepth x <= d)%nat -> binds_ok (stmt_of_block x).
Proof.
  induction d as [|d IH]; intros x Hd; destruct x as [| | | | |t n fs]; try exact I.
  - pose proof (bdepth_block_pos t n fs). lia.
  - rewrite stmt_of_block_eq. apply binds_ok_def. apply Forall_forall. intros st Hin.
    apply in_map_iff in Hin. destruct Hin as ([k x] & <- & Hin).
    pose proof (bdepth_in t n fs k x Hin).
    destruct x; try exact I. apply IH. lia.
Qed.

(* the generator accepts the tree of every written block -- no well-formedness is needed for that:
   there are no variables, no jumps, and the only identifiers are field names inside a block *)
Theorem compile_prog_of_block : forall b,
  hadError (compile_program (prog_of_block b)) = false /\
  nconsts (compile_program (prog_of_block b)) <= csize b + 1 /\
  Forall binds_ok (prog_of_block b).
Proof.
  intros b. unfold compile_program, prog_of_block, stmts_of_block. cbn [app].
  unfold cstmts. cbn [fold_left].
  pose proof (grow_stmt_of_block _ b (le_n _) (init_pst []) eq_refl ltac:(cbn; lia)) as G1.
  set (s1 := cstmt (stmt_of_block b) (init_pst [])) in *.
  pose proof (grow_sbind (btype b) BSone BTstruct s1) as G2.
  set (s2 := cstmt (SBind (btype b) BSone BTstruct) s1) in *.
  pose proof (grow_trans _ _ _ _ _ G1 G2) as (A1 & A2 & A3 & A4 & A5).
  change (hadError (init_pst [])) with false in A1. change (nconsts (init_pst [])) with 0 in A5.
  change (nlocals (init_pst [])) with 0 in A3.
  rewrite A1, A3. cbn [pop_n N.eqb].
  split; [|split].
  - unfold emit_op, write. psimp. exact A1.
  - unfold emit_op, write. psimp. lia.
  - constructor; [apply (binds_ok_block _ b (le_n _))|]. constructor; [exact I|constructor].
Qed.

(* ---------------------------------------------------------------------------------------- *)
(* 5b. executing the generated code (theorem T1) yields exactly that binding                  *)
(* ---------------------------------------------------------------------------------------- *)
Definition prog_of_tree (p : list stmt) (name : bytes) (pos lfs : list N) : prog :=
  let cs := compile_program p in
  {| g_name := name; g_code := rev (code cs); g_consts := rev (consts cs); g_pos := pos; g_lfs := lfs |}.

Theorem code_of_block_runs : forall b name pos lfs, wf_block b -> csize b + 1 < 2^64 ->
  let rr := execute (prog_of_tree (prog_of_block b) name pos lfs) false false in
  hadError (compile_program (prog_of_block b)) = false /\
  (limit_res (rr_res rr) \/
   (rr_res rr = VOk /\ rr_binding rr = BStruct b /\ rr_blocks rr = [b] /\ print_lines (rr_out rr) = [] /\ rr_warn rr = [])).
Proof.
  intros b name pos lfs Hwf Hsz rr.
  destruct (compile_prog_of_block b) as (Hc & Hn & Hb). split; [exact Hc|].
  pose proof (T1_program_partial (prog_of_block b) name pos lfs Hc Hb ltac:(lia)) as T.
  cbv zeta in T. fold (prog_of_tree (prog_of_block b) name pos lfs) in T. fold rr in T.
  rewrite (run_prog_of_block b Hwf) in T. cbn [fst snd] in T.
  destruct T as [L|[R (O1 & O2 & O3 & O4)]]; [left; exact L|right].
  cbn [res_match] in R. cbn [env_bound output results binding_ warnings binding_match rev app] in O1, O2, O3, O4.
  repeat split; try assumption.
  destruct (rr_warn rr); [reflexivity|]. unfold nlen in O4. cbn [length] in O4. lia.
Qed.

(* ---------------------------------------------------------------------------------------- *)
(* 4. composing with Bind: the blocks of Proofs/ReflectProofs.blocks_of                       *)
(* ---------------------------------------------------------------------------------------- *)
(* Go scalars a writer can spell *)
Fixpoint vals_ok (v : goval) : Prop :=
  match v with
  | GVal x => scalar_ok x
  | GStruct l => (fix go (l : list goval) : Prop := match l with [] => True | x :: r => vals_ok x /\ go r end) l
  | _ => True
  end.
Lemma vals_ok_struct l : vals_ok (GStruct l) <-> Forall vals_ok l.
Proof.
  cbn [vals_ok]. induction l as [|x r IH]; [split; [constructor|exact (fun _ => I)]|].
  split; [intros [A B]; constructor; [exact A|apply IH; exact B] | intros H; inversion H; subst; split; [assumption|apply IH; assumption]].
Qed.

(* every nested block sits under the key the semantics derives from its own type and name *)
Fixpoint keys_okb (v : value) : bool :=
  match v with
  | VBlock _ _ fs =>
    (fix go (l : list (bytes * value)) : bool :=
       match l with
       | [] => true
       | kx :: r => (match kx with
                     | (k, x) => match x with VBlock t n _ => bytes_eqb k (block_key t n) && keys_okb x | _ => true end
                     end) && go r
       end) fs
  | _ => true
  end.
Lemma keys_okb_in : forall t n fs k x, keys_okb (VBlock t n fs) = true -> In (k, x) fs ->
  keys_okb x = true /\ ((exists t' n' fs', x = VBlock t' n' fs') -> k = own_key x).
Proof.
  intros t n fs k x H Hin. cbn [keys_okb] in H. induction fs as [|[k' x'] r IH]; [destruct Hin|].
  apply andb_true_iff in H. destruct H as [H1 H2]. destruct Hin as [E|Hin]; [|apply IH; assumption].
  inversion E; subst. destruct x as [| | | | |t' n' fs']; try (split; [reflexivity|intros (?&?&?&?); discriminate]).
  apply andb_true_iff in H1. destruct H1 as [A B]. split; [exact B|]. intros _. apply bytes_eqb_eq. exact A.
Qed.

Lemma blocks_of_wf : forall d tn fs l bt,
  fam d (TStruct tn fs) -> inhabits (TStruct tn fs) (GStruct l) -> vals_ok (GStruct l) ->
  keys_okb (blocks_of (TStruct tn fs) (GStruct l) bt) = true ->
  wf_block (blocks_of (TStruct tn fs) (GStruct l) bt).
Proof.
  induction d as [|d IH]; intros tn fs l bt Hfam Hinh Hv Hk; [inversion Hfam|].
  inversion Hfam as [d0 tn0 fs0 Hnd Hall]; subst.
  inversion Hinh as [| | | |tn0 fs0 l0 HF]; subst.
  rewrite Forall_forall in Hall. apply vals_ok_struct in Hv. rewrite Forall_forall in Hv.
  rewrite blocks_of_struct in *. constructor; [apply entries_keys_nodup; exact Hnd|].
  intros k x Hin. destruct (keys_okb_in _ _ _ _ _ Hk Hin) as [Hkx Hown].
  destruct (entries_in _ _ _ _ Hin) as (i & f & y & Hi & Hy & Hn & -> & ->).
  destruct (Hall f (nth_error_In _ _ Hi)) as (_ & _ & _ & _ & Hty).
  destruct (Forall2_nth _ _ _ _ _ HF Hi) as (y' & Hy' & Hinh'). rewrite Hy in Hy'. inversion Hy'; subst y'.
  pose proof (Hv y (nth_error_In _ _ Hy)) as Hvy.
  destruct Hty as [[Hn' _]|[_ [Hsc|Hf]]]; [congruence| |].
  - left. destruct (ftyp f); try discriminate; inversion Hinh'; subst; exact Hvy.
  - right. inversion Hf as [d0 tn' fs' Hnd' Hall' Ed Et]. rewrite <- Et in Hinh', Hf, Hkx, Hown.
    inversion Hinh' as [| | | |tn0 fs0 l0 HF' E1 E2]. subst y. cbn [tyname] in *.
    split; [apply Hown; rewrite blocks_of_struct; eauto|].
    apply (IH tn' fs' l0 tn'); assumption.
Qed.

(* The blocks of the C05 family are in general NOT what a BCL text can produce: a nested struct field
   `Listen Addr` is described by blocks_of as the key "listen" holding a block of type "Addr", but the
   language stores a nested `Addr { ... }` under the key "Addr" (or "Addr.name").  The written tree of
   the example value of ReflectProofs.v runs to a different block, which Bind rejects. *)
Example C05_tree_roundtrip_counterexample :
  let b := blocks_of c05_type c05_val (bs "server") in
  keys_okb b = false /\
  exists en,
    run_program (prog_of_block b) = (ROk tt, en) /\
    binding_ en = Some (SStruct
      (VBlock (bs "server") (bs "main")
         [(bs "max_conns", VInt 7); (bs "ratio", VFloat 0); (bs "debug", VBool true);
          (bs "Addr", VBlock (bs "Addr") [] [(bs "host", VStr (bs "localhost")); (bs "port", VInt 8080)])])) /\
    bind (TgtPtr c05_type GZero)
      (BdStruct (VBlock (bs "server") (bs "main")
         [(bs "max_conns", VInt 7); (bs "ratio", VFloat 0); (bs "debug", VBool true);
          (bs "Addr", VBlock (bs "Addr") [] [(bs "host", VStr (bs "localhost")); (bs "port", VInt 8080)])]))
      = BErr EMapping.
Proof.
  split; [vm_compute; reflexivity|]. eexists. split; [vm_compute; reflexivity|].
  split; vm_compute; reflexivity.
Qed.

(* the strongest statement that is true of blocks_of: add "the nested keys are the derived ones" *)
Theorem C05_tree_roundtrip_partial : forall d tn fs l bt,
  fam d (TStruct tn fs) -> (d <= 64)%nat -> inhabits (TStruct tn fs) (GStruct l) ->
  (tn = [] \/ unsnake_eq tn bt = true) ->
  vals_ok (GStruct l) ->
  keys_okb (blocks_of (TStruct tn fs) (GStruct l) bt) = true ->
  let b := blocks_of (TStruct tn fs) (GStruct l) bt in
  exists en b', run_program (prog_of_block b) = (ROk tt, en) /\
    binding_ en = Some (SStruct b') /\ veq b' b /\
    bind (TgtPtr (TStruct tn fs) GZero) (BdStruct b') = BOk (GPtrTo (GStruct l)).
Proof.
  intros d tn fs l bt Hfam Hd Hinh Htn Hv Hk b.
  pose proof (blocks_of_wf d tn fs l bt Hfam Hinh Hv Hk) as Hwf. fold b in Hwf.
  exists (env_bound b), b. split; [apply run_prog_of_block; exact Hwf|].
  split; [reflexivity|]. split; [apply veq_refl|].
  apply (C05_bind_roundtrip d); assumption.
Qed.

(* ---------------------------------------------------------------------------------------- *)
(* 4b. the slice form: several blocks of one type, `bind T:all -> slice`                      *)
(* ---------------------------------------------------------------------------------------- *)
Definition prog_of_blocks (bt : bytes) (l : list value) : list stmt :=
  map stmt_of_block l ++ [SBind bt BSall BTslice].

Lemma defs_run_top : forall l, Forall wf_block l ->
  forall sc rs bd out w, all_empty sc ->
  exec_all (map stmt_of_block l) (mkEnv sc [] rs bd out w) = (ROk tt, mkEnv sc [] (rev l ++ rs) bd out w).
Proof.
  induction 1 as [|b l Hb Hl IH]; intros sc rs bd out w Hsc; [reflexivity|].
  cbn [map exec_all]. inversion Hb as [t n fs Hnd Hf]; subst b.
  rewrite (def_runs_top t n fs); [| |exact Hnd|exact Hsc|reflexivity].
  - cbn [scopes results binding_ output warnings]. rewrite (IH sc _ bd out w Hsc).
    cbn [rev]. rewrite <- app_assoc. reflexivity.
  - apply (wf_items _ t n fs (le_n _) Hb).
Qed.

Lemma filter_all {A} (f : A -> bool) l : Forall (fun x => f x = true) l -> filter f l = l.
Proof. induction 1 as [|x l Hx Hl IH]; [reflexivity|]. cbn [filter]. rewrite Hx, IH. reflexivity. Qed.

Theorem run_prog_of_blocks : forall bt l, l <> [] -> Forall wf_block l -> Forall (fun b => btype b = bt) l ->
  run_program (prog_of_blocks bt l) = (ROk tt, mkEnv [[]] [] (rev l) (Some (SSlice l)) [] 0).
Proof.
  intros bt l Hne Hwf Hty. unfold run_program, prog_of_blocks, env0.
  assert (Happ : forall a b en, exec_all (a ++ b) en =
                   match exec_all a en with (ROk _, en1) => exec_all b en1 | other => other end).
  { induction a as [|x a IH]; intros b en; cbn [app exec_all]; [reflexivity|].
    destruct (exec x en) as [[u|e] en1]; [apply IH|reflexivity]. }
  rewrite Happ, (defs_run_top l Hwf [[]] [] None [] 0) by (repeat constructor).
  rewrite app_nil_r. cbn [exec_all exec results binding_ warnings scopes oblocks output].
  rewrite rev_involutive.
  rewrite filter_all.
  - destruct l as [|b r]; [congruence|]. reflexivity.
  - rewrite Forall_forall in *. intros b Hin. specialize (Hwf b Hin). specialize (Hty b Hin).
    inversion Hwf; subst. cbn [btype]. apply bytes_eqb_refl.
Qed.

Definition csizes (l : list value) : N := fold_right (fun b a => csize b + a) 0 l.

Theorem compile_prog_of_blocks : forall bt l,
  hadError (compile_program (prog_of_blocks bt l)) = false /\
  nconsts (compile_program (prog_of_blocks bt l)) <= csizes l + 1 /\
  Forall binds_ok (prog_of_blocks bt l).
Proof.
  intros bt l. unfold compile_program, prog_of_blocks.
  assert (G1 : forall s, locals s = [] -> (0 <= depth s)%Z -> grow (csizes l) s (cstmts (map stmt_of_block l) s)).
  { induction l as [|b r IH]; intros s Hl Hd; [apply grow_refl|].
    cbn [map csizes fold_right]. rewrite cstmts_cons.
    pose proof (grow_stmt_of_block _ b (le_n _) s Hl Hd) as G.
    eapply grow_trans; [exact G|]. destruct G as (_ & G2 & _ & G4 & _). apply IH; [congruence|lia]. }
  unfold cstmts in *. rewrite fold_left_app. cbn [fold_left].
  specialize (G1 (init_pst []) eq_refl ltac:(cbn; lia)).
  set (s1 := fold_left (fun a x => cstmt x a) (map stmt_of_block l) (init_pst [])) in *.
  pose proof (grow_sbind bt BSall BTslice s1) as G2.
  set (s2 := cstmt (SBind bt BSall BTslice) s1) in *.
  pose proof (grow_trans _ _ _ _ _ G1 G2) as (A1 & A2 & A3 & A4 & A5).
  change (hadError (init_pst [])) with false in A1. change (nconsts (init_pst [])) with 0 in A5.
  change (nlocals (init_pst [])) with 0 in A3.
  rewrite A1, A3. cbn [pop_n N.eqb].
  split; [|split].
  - unfold emit_op, write. psimp. exact A1.
  - unfold emit_op, write. psimp. lia.
  - apply Forall_app. split; [|constructor; [exact I|constructor]].
    apply Forall_forall. intros st Hin. apply in_map_iff in Hin. destruct Hin as (b & <- & _).
    apply (binds_ok_block _ b (le_n _)).
Qed.

Theorem code_of_blocks_runs : forall bt l name pos lfs,
  l <> [] -> Forall wf_block l -> Forall (fun b => btype b = bt) l -> csizes l + 1 < 2^64 ->
  let rr := execute (prog_of_tree (prog_of_blocks bt l) name pos lfs) false false in
  hadError (compile_program (prog_of_blocks bt l)) = false /\
  (limit_res (rr_res rr) \/
   (rr_res rr = VOk /\ rr_binding rr = BSlice l /\ rr_blocks rr = l /\ print_lines (rr_out rr) = [] /\ rr_warn rr = [])).
Proof.
  intros bt l name pos lfs Hne Hwf Hty Hsz rr.
  destruct (compile_prog_of_blocks bt l) as (Hc & Hn & Hb). split; [exact Hc|].
  pose proof (T1_program_partial (prog_of_blocks bt l) name pos lfs Hc Hb ltac:(lia)) as T.
  cbv zeta in T. fold (prog_of_tree (prog_of_blocks bt l) name pos lfs) in T. fold rr in T.
  rewrite (run_prog_of_blocks bt l Hne Hwf Hty) in T. cbn [fst snd] in T.
  destruct T as [L|[R (O1 & O2 & O3 & O4)]]; [left; exact L|right].
  cbn [res_match] in R. cbn [output results binding_ warnings binding_match rev app] in O1, O2, O3, O4.
  rewrite rev_involutive in O2.
  repeat split; try assumption.
  destruct (rr_warn rr); [reflexivity|]. unfold nlen in O4. cbn [length] in O4. lia.
Qed.

(* ---------------------------------------------------------------------------------------- *)
(* 6. the writer BCL can express: nested struct fields as `def <field> ["name"] { ... }`      *)
(* ---------------------------------------------------------------------------------------- *)
(* [bfam d t]: as ReflectProofs.fam, and a nested struct type is unnamed or named like its field
   (up to case and underscores): `Addr Addr`, `Listen struct{...}`, `TLS_Config TLSConfig`.
   This is forced: the key of a nested block starts with the block's type, Bind looks the FIELD up
   under that type, and copyBlock compares the type with the struct's type NAME. *)
Inductive bfam : nat -> gotype -> Prop :=
| bfam_struct : forall d tn fs,
    NoDup (map (fun f => fkey (fname_ f)) fs) ->
    Forall (fun f => fexp f = true /\ femb f = false /\ ftag f = [] /\ ~ In 46 (fname_ f) /\
                     ((is_name (fname_ f) = true /\ ftyp f = TString) \/
                      (is_name (fname_ f) = false /\
                       (scalar_ty (ftyp f) = true \/
                        (bfam d (ftyp f) /\ (tyname (ftyp f) = [] \/ unsnake_eq (tyname (ftyp f)) (fname_ f) = true)))))) fs ->
    bfam (S d) (TStruct tn fs).

Definition child_key (f : field) (c : value) : bytes :=
  match c with VBlock t n _ => block_key t n | _ => map lower (fname_ f) end.

(* the block a writer produces for value v of type t under the block type bt: scalar fields under
   their lower-cased names, a nested struct as a block whose TYPE is the lower-cased field name,
   stored under the key the language derives (type or type.name) *)
Fixpoint tree_of (t : gotype) (v : goval) (bt : bytes) {struct v} : value :=
  match v with
  | GVal y => y
  | GStruct l =>
    match t with
    | TStruct _ fs =>
      VBlock bt (name_of fs l)
        ((fix ents (fs : list field) (l : list goval) {struct l} : list (bytes * value) :=
            match l, fs with
            | x :: l', f :: fs' =>
              if is_name (fname_ f) then ents fs' l'
              else (child_key f (tree_of (ftyp f) x (map lower (fname_ f))),
                    tree_of (ftyp f) x (map lower (fname_ f))) :: ents fs' l'
            | _, _ => []
            end) fs l)
    | _ => VNil
    end
  | _ => VNil
  end.

Fixpoint tentries (fs : list field) (l : list goval) {struct l} : list (bytes * value) :=
  match l, fs with
  | x :: l', f :: fs' =>
    if is_name (fname_ f) then tentries fs' l'
    else (child_key f (tree_of (ftyp f) x (map lower (fname_ f))), tree_of (ftyp f) x (map lower (fname_ f))) :: tentries fs' l'
  | _, _ => []
  end.

Lemma tree_of_struct : forall tn fs l bt,
  tree_of (TStruct tn fs) (GStruct l) bt = VBlock bt (name_of fs l) (tentries fs l).
Proof. reflexivity. Qed.

Definition tchild (f : field) (y : goval) : value := tree_of (ftyp f) y (map lower (fname_ f)).

Lemma tentries_in : forall fs l k x, In (k, x) (tentries fs l) ->
  exists i f y, nth_error fs i = Some f /\ nth_error l i = Some y /\ is_name (fname_ f) = false /\
                x = tchild f y /\ k = child_key f x.
Proof.
  intros fs l. revert fs. induction l as [|y l IH]; intros fs k x Hin; [destruct Hin|].
  destruct fs as [|f fs]; [destruct Hin|]. cbn [tentries] in Hin.
  destruct (is_name (fname_ f)) eqn:En.
  - destruct (IH _ _ _ Hin) as (i & g & z & A & B & C). exists (S i), g, z. auto.
  - destruct Hin as [Hin|Hin].
    + inversion Hin; subst. exists 0%nat, f, y. auto.
    + destruct (IH _ _ _ Hin) as (i & g & z & A & B & C). exists (S i), g, z. auto.
Qed.

Lemma tentries_complete : forall fs l i f y,
  nth_error fs i = Some f -> nth_error l i = Some y -> is_name (fname_ f) = false ->
  In (child_key f (tchild f y), tchild f y) (tentries fs l).
Proof.
  intros fs l. revert fs. induction l as [|y0 l IH]; intros fs i f y Hf Hl Hn; [destruct i; discriminate|].
  destruct fs as [|f0 fs]; [destruct i; discriminate|]. cbn [tentries].
  destruct i as [|i]; cbn in Hf, Hl.
  - inversion Hf; inversion Hl; subst. rewrite Hn. left. reflexivity.
  - destruct (is_name (fname_ f0)); [|right]; eapply IH; eassumption.
Qed.

Lemma cut_dot_block_key : forall t n, ~ In 46 t -> cut_dot (block_key t n) = t.
Proof.
  intros t n H. unfold block_key. destruct n as [|c n]; [apply cut_dot_nodot; exact H|].
  induction t as [|a t IH]; cbn [app cut_dot]; [reflexivity|].
  destruct (N.eqb_spec a 46) as [->|Ha]; [exfalso; apply H; left; reflexivity|].
  f_equal. apply IH. intros Hin. apply H. right. exact Hin.
Qed.

(* the key of an entry, cut at the dot, is the lower-cased field name *)
Definition cut_ok (f : field) (y : goval) : Prop := cut_dot (child_key f (tchild f y)) = map lower (fname_ f).

Lemma tentries_keys_nodup : forall fs l,
  Forall2 cut_ok fs l -> NoDup (map (fun f => fkey (fname_ f)) fs) -> NoDup (map fst (tentries fs l)).
Proof.
  intros fs l HF. induction HF as [|f y fs l Hc HF IH]; intros Hnd; [constructor|].
  cbn [tentries]. cbn [map] in Hnd. apply NoDup_cons_iff in Hnd. destruct Hnd as [Hnin Hnd].
  destruct (is_name (fname_ f)); [apply IH; exact Hnd|].
  cbn [map fst]. constructor; [|apply IH; exact Hnd].
  intro Hin. apply in_map_iff in Hin. destruct Hin as ([k x] & Hk & Hin). cbn in Hk.
  destruct (tentries_in _ _ _ _ Hin) as (i & g & z & A & B & _ & Ex & Ek).
  destruct (Forall2_nth _ _ _ _ _ HF A) as (z' & Hz' & Hcg). rewrite B in Hz'. inversion Hz'; subst z'.
  apply Hnin. apply in_map_iff. exists g. split; [|eapply nth_error_In; exact A].
  unfold cut_ok in Hc, Hcg. rewrite <- Ex, <- Ek in Hcg. unfold tchild in Hc.
  rewrite <- (fkey_lower (fname_ g)), <- Hcg, Hk, Hc, fkey_lower. reflexivity.
Qed.

Definition bfield_ok (d : nat) (f : field) : Prop :=
  fexp f = true /\ femb f = false /\ ftag f = [] /\ ~ In 46 (fname_ f) /\
  ((is_name (fname_ f) = true /\ ftyp f = TString) \/
   (is_name (fname_ f) = false /\
    (scalar_ty (ftyp f) = true \/
     (bfam d (ftyp f) /\ (tyname (ftyp f) = [] \/ unsnake_eq (tyname (ftyp f)) (fname_ f) = true))))).

Lemma cut_ok_field : forall d f y, bfield_ok d f -> inhabits (ftyp f) y -> cut_ok f y.
Proof.
  intros d f y (_ & _ & _ & Hdot & Hty) Hinh. unfold cut_ok, tchild.
  assert (Hs : forall v, (forall t n fs, v <> VBlock t n fs) -> cut_dot (child_key f v) = map lower (fname_ f)).
  { intros v Hv. destruct v; try (cbn [child_key]; apply cut_dot_nodot, nodot_lower, Hdot). exfalso. eapply Hv. reflexivity. }
  destruct Hty as [[_ Ht]|[_ [Hsc|[Hf _]]]].
  - rewrite Ht in *. inversion Hinh; subst. apply Hs. intros; discriminate.
  - destruct (ftyp f); try discriminate; inversion Hinh; subst; apply Hs; intros; discriminate.
  - inversion Hf as [d0 tn' fs' Hnd' Hall' Ed Et]. rewrite <- Et in Hinh.
    inversion Hinh as [| | | |tn0 fs0 l0 HF' E1 E2]. rewrite tree_of_struct. cbn [child_key].
    apply cut_dot_block_key, nodot_lower, Hdot.
Qed.

Lemma tree_copy_roundtrip : forall d fu tn fs l bt,
  bfam d (TStruct tn fs) -> (d <= fu)%nat -> inhabits (TStruct tn fs) (GStruct l) ->
  (tn = [] \/ unsnake_eq tn bt = true) ->
  copy_block fu sorted_fields (TStruct tn fs) GZero (tree_of (TStruct tn fs) (GStruct l) bt) = BOk (GStruct l).
Proof.
  induction d as [|d IHd]; intros fu tn fs l bt Hfam Hfu Hinh Htn; [inversion Hfam|].
  destruct fu as [|fu]; [lia|]. assert (Hdfu : (d <= fu)%nat) by lia.
  inversion Hfam as [d0 tn0 fs0 Hnd Hall]; subst.
  inversion Hinh as [| | | |tn0 fs0 l0 HF]; subst.
  rewrite Forall_forall in Hall. fold (bfield_ok d) in Hall.
  rewrite tree_of_struct, copy_block_unfold, copy_body_eq.
  assert (Et : negb (is_empty tn) && negb (unsnake_eq tn bt) = false).
  { destruct Htn as [-> | ->]; [reflexivity|]. apply andb_false_r. }
  rewrite Et. clear Et.
  set (rec := copy_block fu sorted_fields).
  assert (Hflat : flat fs).
  { intros f Hin. destruct (Hall f Hin) as (_ & A & B & _). auto. }
  assert (Hlen : length fs = length l) by (eapply Forall2_len; exact HF).
  assert (Hkey : forall i j f g, nth_error fs i = Some f -> nth_error fs j = Some g ->
                                 fkey (fname_ f) = fkey (fname_ g) -> i = j).
  { intros i j f g Hi Hj E. eapply (NoDup_map_nth_inj (fun f => fkey (fname_ f))); eassumption. }
  assert (Hcut : Forall2 cut_ok fs l).
  { clear - HF Hall. induction HF as [|f y fs l Hy HF IH]; constructor.
    - apply (cut_ok_field d); [apply Hall; left; reflexivity|exact Hy].
    - apply IH. intros g Hin. apply Hall. right. exact Hin. }
  (* facts about one entry *)
  assert (Hentry : forall i f y, nth_error fs i = Some f -> nth_error l i = Some y ->
            is_name (fname_ f) = false ->
            find_field fs (child_key f (tchild f y)) = Some ([i], f) /\ fexp f = true /\
            tchild f y <> VNil /\
            leaf_cb rec (tchild f y) (ftyp f) GZero = BOk y).
  { intros i f y Hi Hy Hn.
    destruct (Hall f (nth_error_In _ _ Hi)) as (Hexp & _ & _ & Hdot & Hty).
    destruct (Forall2_nth _ _ _ _ _ HF Hi) as (y' & Hy' & Hinh'). rewrite Hy in Hy'. inversion Hy'; subst y'.
    destruct (Forall2_nth _ _ _ _ _ Hcut Hi) as (y' & Hy'' & Hc). rewrite Hy in Hy''. inversion Hy''; subst y'.
    unfold cut_ok in Hc.
    split.
    { apply find_field_flat; try assumption.
      - rewrite Hc. apply unsnake_eq_true. symmetry. apply fkey_lower.
      - intros j g Hj Hg. rewrite Hc in Hg.
        apply unsnake_eq_true in Hg. rewrite fkey_lower in Hg. eapply Hkey; eassumption. }
    split; [exact Hexp|].
    destruct Hty as [[Hn' _]|[_ [Hsc|[Hf Hnm]]]]; [congruence| |].
    - unfold tchild. destruct (ftyp f); try discriminate; inversion Hinh'; subst; cbn; split; (discriminate || reflexivity).
    - inversion Hf as [d0 tn' fs' Hnd' Hall' Ed Et]. rewrite <- Et in Hinh', Hf, Hnm. unfold tchild. rewrite <- Et.
      inversion Hinh' as [| | | |tn0 fs0 l0 HF' E1 E2]. clear Hnd' Hall' Ed d0.
      cbn [tyname] in Hnm. rewrite tree_of_struct. split; [discriminate|].
      unfold leaf_cb. rewrite <- (tree_of_struct tn' fs' l0 (map lower (fname_ f))). unfold rec. apply IHd.
      + exact Hf.
      + exact Hdfu.
      + apply inh_struct. exact HF'.
      + destruct Hnm as [E|E]; [left; exact E|right].
        apply unsnake_eq_true. apply unsnake_eq_true in E. rewrite E. symmetry. apply fkey_lower. }
  (* the loop, from any state in which the non-name slots are still zero and the name slot is done *)
  assert (Hcont : forall l0 u0, length l0 = length fs ->
            (forall i f, nth_error fs i = Some f -> is_name (fname_ f) = false ->
                         nth i l0 GZero = GZero /\ (forall q, In q u0 -> path_overlap [i] q = false)) ->
            (forall i f, nth_error fs i = Some f -> is_name (fname_ f) = true ->
                         nth i l0 GZero = nth i l GZero) ->
            fields_loop_ rec tn fs (sorted_fields (tentries fs l)) (GStruct l0, u0) = BOk (GStruct l)).
  { intros l0 u0 Hl0 Hzero Hnamed.
    destruct (flat_loop rec tn fs l (sorted_fields (tentries fs l)) l0 u0 Hl0) as (l' & Hloop & Hlen' & Hset & Hkeep).
    - eapply Permutation_NoDup; [apply Permutation_map; apply Permutation_sym; apply sorted_fields_perm|].
      apply tentries_keys_nodup; assumption.
    - intros k x Hin. apply (proj1 (sorted_fields_in _ _)) in Hin.
      destruct (tentries_in _ _ _ _ Hin) as (i & f & y & Hi & Hy & Hn & -> & ->).
      destruct (Hentry i f y Hi Hy Hn) as (A & B & C & D). destruct (Hzero i f Hi Hn) as [Z1 Z2].
      exists i, f. rewrite (nth_error_nth _ _ _ Hy). auto 10.
    - intros k x k' x' i f f' Hin Hin' Hf Hf'.
      apply (proj1 (sorted_fields_in _ _)) in Hin. apply (proj1 (sorted_fields_in _ _)) in Hin'.
      destruct (tentries_in _ _ _ _ Hin) as (a & fa & ya & Ha & Hya & Hna & -> & ->).
      destruct (tentries_in _ _ _ _ Hin') as (b & fb & yb & Hb & Hyb & Hnb & -> & ->).
      destruct (Hentry a fa ya Ha Hya Hna) as (A & _). destruct (Hentry b fb yb Hb Hyb Hnb) as (B & _).
      rewrite A in Hf. rewrite B in Hf'. inversion Hf; inversion Hf'; subst. congruence.
    - rewrite Hloop. do 2 f_equal. apply (nth_ext _ _ GZero GZero); [congruence|].
      intros j Hj. rewrite Hlen' in Hj.
      destruct (nth_error fs j) as [f|] eqn:Hfj; [|apply nth_error_None in Hfj; lia].
      destruct (nth_error l j) as [y|] eqn:Hyj; [|apply nth_error_None in Hyj; lia].
      destruct (is_name (fname_ f)) eqn:Hn.
      + rewrite Hkeep; [eapply Hnamed; eassumption|].
        intros k x g Hin Hg. apply (proj1 (sorted_fields_in _ _)) in Hin.
        destruct (tentries_in _ _ _ _ Hin) as (a & fa & ya & Ha & Hya & Hna & -> & ->).
        destruct (Hentry a fa ya Ha Hya Hna) as (A & _). rewrite A in Hg. inversion Hg; subst. congruence.
      + destruct (Hentry j f y Hfj Hyj Hn) as (A & _).
        eapply Hset; [|exact A]. apply (proj2 (sorted_fields_in _ _)). eapply tentries_complete; eassumption. }
  (* the Name step *)
  destruct (existsb (fun f => is_name (fname_ f)) fs) eqn:Ename.
  - apply existsb_exists in Ename. destruct Ename as (f0 & Hin0 & Hn0).
    apply In_nth_error in Hin0. destruct Hin0 as [i0 Hi0].
    destruct (Hall f0 (nth_error_In _ _ Hi0)) as (Hexp0 & _ & _ & _ & Hty0).
    destruct Hty0 as [[_ Hty0]|[Hc _]]; [|congruence].
    destruct (Forall2_nth _ _ _ _ _ HF Hi0) as (y0 & Hy0 & Hinh0). rewrite Hty0 in Hinh0.
    inversion Hinh0 as [| |s| |]; subst y0.
    assert (Huniq : forall j g, nth_error fs j = Some g -> is_name (fname_ g) = true -> j = i0).
    { intros j g Hj Hg. eapply Hkey; [exact Hj|exact Hi0|].
      apply unsnake_eq_true in Hg. apply unsnake_eq_true in Hn0. congruence. }
    rewrite (name_of_spec _ _ _ _ _ Hi0 Hn0 Huniq Hy0).
    assert (Hfind : find_field fs (bs "Name") = Some ([i0], f0)).
    { apply find_field_flat; try assumption. }
    assert (Hi0lt : (i0 < length fs)%nat) by (apply nth_error_Some; congruence).
    assert (Hstep : name_step rec tn fs GZero s =
                    inr (GStruct (nth_set (map (fun _ => GZero) fs) i0 (GVal (VStr s))),
                         if is_empty s then [] else [[i0]])).
    { unfold name_step. cbv zeta.
      rewrite (set_field_nonnil _ _ _ _ _ _ _ _ _ Hfind Hexp0) by discriminate.
      cbn [snd fst existsb]. rewrite andb_false_r.
      rewrite (update_path_direct' _ _ _ _ _ _ Hi0). cbn [as_struct]. rewrite nth_zeros, Hty0.
      cbn [leaf_cb assignable]. reflexivity. }
    rewrite Hstep. apply Hcont.
    + rewrite nth_set_length, map_length. reflexivity.
    + intros i f Hi Hn. assert (Hne : i0 <> i) by (intros ->; congruence). split.
      * rewrite nth_nth_set_other by exact Hne. apply nth_zeros.
      * destruct (is_empty s); [intros q []|]. intros q [<-|[]]. apply path_overlap_single. congruence.
    + intros i f Hi Hn. rewrite (Huniq i f Hi Hn).
      rewrite nth_nth_set_same by (rewrite map_length; exact Hi0lt).
      symmetry. apply nth_error_nth. exact Hy0.
  - assert (Hnone : forall g, In g fs -> is_name (fname_ g) = false).
    { intros g Hin. destruct (is_name (fname_ g)) eqn:E; [|reflexivity].
      assert (K : existsb (fun f => is_name (fname_ f)) fs = true) by (apply existsb_exists; eauto). congruence. }
    rewrite (name_of_none _ _ Hnone).
    assert (Hstep : name_step rec tn fs GZero [] = inr (GStruct (map (fun _ => GZero) fs), [])).
    { unfold name_step. cbv zeta. rewrite C15_errors_mapping; [reflexivity|].
      apply find_field_flat_none; [exact Hflat|]. intros g Hin. apply Hnone. exact Hin. }
    rewrite Hstep. apply Hcont.
    + apply map_length.
    + intros i f Hi Hn. split; [apply nth_zeros|intros q []].
    + intros i f Hi Hn. rewrite (Hnone f (nth_error_In _ _ Hi)) in Hn. discriminate.
Qed.

Theorem tree_bind_roundtrip : forall d tn fs l bt,
  bfam d (TStruct tn fs) -> (d <= 64)%nat -> inhabits (TStruct tn fs) (GStruct l) ->
  (tn = [] \/ unsnake_eq tn bt = true) ->
  bind (TgtPtr (TStruct tn fs) GZero) (BdStruct (tree_of (TStruct tn fs) (GStruct l) bt)) = BOk (GPtrTo (GStruct l)).
Proof.
  intros d tn fs l bt Hfam Hd Hinh Htn. unfold bind. cbn [copy_blocks].
  rewrite (tree_copy_roundtrip d 64 tn fs l bt Hfam Hd Hinh Htn). reflexivity.
Qed.

Lemma tree_of_wf : forall d tn fs l bt,
  bfam d (TStruct tn fs) -> inhabits (TStruct tn fs) (GStruct l) -> vals_ok (GStruct l) ->
  wf_block (tree_of (TStruct tn fs) (GStruct l) bt).
Proof.
  induction d as [|d IH]; intros tn fs l bt Hfam Hinh Hv; [inversion Hfam|].
  inversion Hfam as [d0 tn0 fs0 Hnd Hall]; subst.
  inversion Hinh as [| | | |tn0 fs0 l0 HF]; subst.
  rewrite Forall_forall in Hall. fold (bfield_ok d) in Hall.
  apply vals_ok_struct in Hv. rewrite Forall_forall in Hv.
  assert (Hcut : Forall2 cut_ok fs l).
  { clear - HF Hall. induction HF as [|f y fs l Hy HF IH]; constructor.
    - apply (cut_ok_field d); [apply Hall; left; reflexivity|exact Hy].
    - apply IH. intros g Hin. apply Hall. right. exact Hin. }
  rewrite tree_of_struct. constructor; [apply tentries_keys_nodup; assumption|].
  intros k x Hin.
  destruct (tentries_in _ _ _ _ Hin) as (i & f & y & Hi & Hy & Hn & -> & ->).
  destruct (Hall f (nth_error_In _ _ Hi)) as (_ & _ & _ & _ & Hty).
  destruct (Forall2_nth _ _ _ _ _ HF Hi) as (y' & Hy' & Hinh'). rewrite Hy in Hy'. inversion Hy'; subst y'.
  pose proof (Hv y (nth_error_In _ _ Hy)) as Hvy. unfold tchild.
  destruct Hty as [[Hn' _]|[_ [Hsc|[Hf _]]]]; [congruence| |].
  - left. destruct (ftyp f); try discriminate; inversion Hinh'; subst; exact Hvy.
  - right. inversion Hf as [d0 tn' fs' Hnd' Hall' Ed Et]. rewrite <- Et in Hinh', Hf.
    inversion Hinh' as [| | | |tn0 fs0 l0 HF' E1 E2]. subst y.
    split; [rewrite tree_of_struct; reflexivity|].
    apply (IH tn' fs' l0); assumption.
Qed.

(* ---- the roundtrip from the tree of the written text onwards ---- *)
Theorem C05_tree_roundtrip_bfam : forall d tn fs l bt,
  bfam d (TStruct tn fs) -> (d <= 64)%nat -> inhabits (TStruct tn fs) (GStruct l) ->
  (tn = [] \/ unsnake_eq tn bt = true) ->
  vals_ok (GStruct l) ->
  let b := tree_of (TStruct tn fs) (GStruct l) bt in
  exists en b', run_program (prog_of_block b) = (ROk tt, en) /\
    binding_ en = Some (SStruct b') /\ veq b' b /\
    bind (TgtPtr (TStruct tn fs) GZero) (BdStruct b') = BOk (GPtrTo (GStruct l)).
Proof.
  intros d tn fs l bt Hfam Hd Hinh Htn Hv b.
  pose proof (tree_of_wf d tn fs l bt Hfam Hinh Hv) as Hwf. fold b in Hwf.
  exists (env_bound b), b. split; [apply run_prog_of_block; exact Hwf|].
  split; [reflexivity|]. split; [apply veq_refl|].
  apply (tree_bind_roundtrip d); assumption.
Qed.

(* any block that differs from the bound one only in the order of fields binds to the same value *)
Corollary C05_tree_roundtrip_bfam_order : forall d tn fs l bt b2,
  bfam d (TStruct tn fs) -> (d <= 64)%nat -> inhabits (TStruct tn fs) (GStruct l) ->
  (tn = [] \/ unsnake_eq tn bt = true) ->
  veq b2 (tree_of (TStruct tn fs) (GStruct l) bt) ->
  bind (TgtPtr (TStruct tn fs) GZero) (BdStruct b2) = BOk (GPtrTo (GStruct l)).
Proof.
  intros d tn fs l bt b2 Hfam Hd Hinh Htn Hveq.
  rewrite (C16_bind_order_deep _ _ _ Hveq). apply (tree_bind_roundtrip d); assumption.
Qed.

(* ---- slices ---- *)
Lemma copy_block_zero : forall fu o n fs blk,
  copy_block fu o (TStruct n fs) (zero_struct fs) blk = copy_block fu o (TStruct n fs) GZero blk.
Proof. intros fu o n fs blk. destruct fu as [|fu]; [reflexivity|]. destruct blk; reflexivity. Qed.

Lemma bind_slice_of_writer : forall (w : goval -> value) tn fs vals v0,
  (forall v, In v vals -> copy_block 64 sorted_fields (TStruct tn fs) GZero (w v) = BOk v) ->
  bind (TgtPtr (TSlice (TStruct tn fs)) v0) (BdSlice (map w vals)) = BOk (GPtrTo (GSlice vals)).
Proof.
  intros w tn fs vals v0 H. unfold bind. rewrite copy_blocks_slice.
  assert (E : elems_ 64 sorted_fields (TStruct tn fs) fs (map w vals) = BOk (GSlice vals)).
  { induction vals as [|v r IH]; [reflexivity|]. cbn [map elems_].
    rewrite copy_block_zero, (H v (or_introl eq_refl)).
    fold (elems_ 64 sorted_fields (TStruct tn fs) fs (map w r)).
    rewrite IH; [reflexivity|]. intros v' Hin. apply H. right. exact Hin. }
  rewrite E. reflexivity.
Qed.

Lemma inhabits_struct_inv : forall tn fs v, inhabits (TStruct tn fs) v -> exists l, v = GStruct l.
Proof. intros tn fs v H. inversion H; subst. eauto. Qed.

Theorem C05_tree_roundtrip_slice_bfam : forall d tn fs vals bt v0,
  bfam d (TStruct tn fs) -> (d <= 64)%nat -> vals <> [] ->
  Forall (fun v => inhabits (TStruct tn fs) v /\ vals_ok v) vals ->
  (tn = [] \/ unsnake_eq tn bt = true) ->
  let bl := map (fun v => tree_of (TStruct tn fs) v bt) vals in
  exists en bl', run_program (prog_of_blocks bt bl) = (ROk tt, en) /\
    binding_ en = Some (SSlice bl') /\ Forall2 veq bl' bl /\
    bind (TgtPtr (TSlice (TStruct tn fs)) v0) (BdSlice bl') = BOk (GPtrTo (GSlice vals)).
Proof.
  intros d tn fs vals bt v0 Hfam Hd Hne Hall Htn bl. rewrite Forall_forall in Hall.
  exists (mkEnv [[]] [] (rev bl) (Some (SSlice bl)) [] 0), bl.
  split; [|split; [reflexivity|split]].
  - apply run_prog_of_blocks.
    + unfold bl. destruct vals; [congruence|discriminate].
    + apply Forall_forall. intros b Hin. apply in_map_iff in Hin. destruct Hin as (v & <- & Hin).
      destruct (Hall v Hin) as [Hi Hv]. destruct (inhabits_struct_inv _ _ _ Hi) as [l ->].
      apply (tree_of_wf d); assumption.
    + apply Forall_forall. intros b Hin. apply in_map_iff in Hin. destruct Hin as (v & <- & Hin).
      destruct (Hall v Hin) as [Hi Hv]. destruct (inhabits_struct_inv _ _ _ Hi) as [l ->]. reflexivity.
  - clear. induction bl; constructor; [apply veq_refl|assumption].
  - apply bind_slice_of_writer. intros v Hin. destruct (Hall v Hin) as [Hi Hv].
    destruct (inhabits_struct_inv _ _ _ Hi) as [l ->]. apply (tree_copy_roundtrip d); assumption.
Qed.

(* the partial theorem is not vacuous: `Addr addr` with a lower-case type name and no Name field *)
Definition c05b_addr := TStruct (bs "addr") [Field (bs "Host") true false [] TString; Field (bs "Port") true false [] TInt].
Definition c05b_type := TStruct (bs "Server")
  [Field (bs "Name") true false [] TString; Field (bs "Max_Conns") true false [] TInt; Field (bs "Addr") true false [] c05b_addr].
Definition c05b_val := GStruct [GVal (VStr (bs "main")); GVal (VInt (-7)); GStruct [GVal (VStr (bs "localhost")); GVal (VInt 8080)]].
Example C05_tree_roundtrip_partial_example :
  exists en b', run_program (prog_of_block (blocks_of c05b_type c05b_val (bs "server"))) = (ROk tt, en) /\
    binding_ en = Some (SStruct b') /\ veq b' (blocks_of c05b_type c05b_val (bs "server")) /\
    bind (TgtPtr c05b_type GZero) (BdStruct b') = BOk (GPtrTo c05b_val).
Proof.
  apply (C05_tree_roundtrip_partial 2).
  - apply fam_struct; [nodup_keys|]. fam_fields. right. split; [reflexivity|right].
    apply fam_struct; [nodup_keys|]. fam_fields.
  - lia.
  - repeat (constructor; try constructor).
  - right. vm_compute. reflexivity.
  - cbn. repeat split; lia.
  - vm_compute. reflexivity.
Qed.

(* the same for blocks_of, again only where its nested keys are the derived ones *)
Theorem C05_tree_roundtrip_slice_partial : forall d tn fs vals bt v0,
  fam d (TStruct tn fs) -> (d <= 64)%nat -> vals <> [] ->
  Forall (fun v => inhabits (TStruct tn fs) v /\ vals_ok v /\ keys_okb (blocks_of (TStruct tn fs) v bt) = true) vals ->
  (tn = [] \/ unsnake_eq tn bt = true) ->
  let bl := map (fun v => blocks_of (TStruct tn fs) v bt) vals in
  exists en bl', run_program (prog_of_blocks bt bl) = (ROk tt, en) /\
    binding_ en = Some (SSlice bl') /\ Forall2 veq bl' bl /\
    bind (TgtPtr (TSlice (TStruct tn fs)) v0) (BdSlice bl') = BOk (GPtrTo (GSlice vals)).
Proof.
  intros d tn fs vals bt v0 Hfam Hd Hne Hall Htn bl. rewrite Forall_forall in Hall.
  exists (mkEnv [[]] [] (rev bl) (Some (SSlice bl)) [] 0), bl.
  split; [|split; [reflexivity|split]].
  - apply run_prog_of_blocks.
    + unfold bl. destruct vals; [congruence|discriminate].
    + apply Forall_forall. intros b Hin. apply in_map_iff in Hin. destruct Hin as (v & <- & Hin).
      destruct (Hall v Hin) as (Hi & Hv & Hk). destruct (inhabits_struct_inv _ _ _ Hi) as [l ->].
      apply (blocks_of_wf d); assumption.
    + apply Forall_forall. intros b Hin. apply in_map_iff in Hin. destruct Hin as (v & <- & Hin).
      destruct (Hall v Hin) as (Hi & _). destruct (inhabits_struct_inv _ _ _ Hi) as [l ->]. reflexivity.
  - clear. induction bl; constructor; [apply veq_refl|assumption].
  - apply bind_slice_of_writer. intros v Hin. destruct (Hall v Hin) as (Hi & _).
    destruct (inhabits_struct_inv _ _ _ Hi) as [l ->]. apply (copy_block_roundtrip d); assumption.
Qed.

(* ---------------------------------------------------------------------------------------- *)
(* 7. down to the generated code: T1 turns the tree statements into statements about the VM  *)
(* ---------------------------------------------------------------------------------------- *)
(* The disjunct [limit_res] is T1's: the VM stops with "too many nested blocks" beyond 16 open
   blocks and with "stack overflow" beyond 1024 operand slots; T1_program_partial does not say when. *)
Theorem C05_code_roundtrip_bfam : forall d tn fs l bt name pos lfs,
  bfam d (TStruct tn fs) -> (d <= 64)%nat -> inhabits (TStruct tn fs) (GStruct l) ->
  (tn = [] \/ unsnake_eq tn bt = true) ->
  vals_ok (GStruct l) ->
  let b := tree_of (TStruct tn fs) (GStruct l) bt in
  csize b + 1 < 2^64 ->
  let rr := execute (prog_of_tree (prog_of_block b) name pos lfs) false false in
  hadError (compile_program (prog_of_block b)) = false /\
  (limit_res (rr_res rr) \/
   exists b', rr_res rr = VOk /\ rr_binding rr = BStruct b' /\ print_lines (rr_out rr) = [] /\ rr_warn rr = [] /\
     bind (TgtPtr (TStruct tn fs) GZero) (BdStruct b') = BOk (GPtrTo (GStruct l))).
Proof.
  intros d tn fs l bt name pos lfs Hfam Hd Hinh Htn Hv b Hsz rr.
  pose proof (tree_of_wf d tn fs l bt Hfam Hinh Hv) as Hwf. fold b in Hwf.
  destruct (code_of_block_runs b name pos lfs Hwf Hsz) as [Hc H]. fold rr in H. split; [exact Hc|].
  destruct H as [L|(R1 & R2 & R3 & R4 & R5)]; [left; exact L|right].
  exists b. repeat split; try assumption. apply (tree_bind_roundtrip d); assumption.
Qed.

Theorem C05_code_roundtrip_partial : forall d tn fs l bt name pos lfs,
  fam d (TStruct tn fs) -> (d <= 64)%nat -> inhabits (TStruct tn fs) (GStruct l) ->
  (tn = [] \/ unsnake_eq tn bt = true) ->
  vals_ok (GStruct l) ->
  let b := blocks_of (TStruct tn fs) (GStruct l) bt in
  keys_okb b = true ->
  csize b + 1 < 2^64 ->
  let rr := execute (prog_of_tree (prog_of_block b) name pos lfs) false false in
  hadError (compile_program (prog_of_block b)) = false /\
  (limit_res (rr_res rr) \/
   exists b', rr_res rr = VOk /\ rr_binding rr = BStruct b' /\ print_lines (rr_out rr) = [] /\ rr_warn rr = [] /\
     bind (TgtPtr (TStruct tn fs) GZero) (BdStruct b') = BOk (GPtrTo (GStruct l))).
Proof.
  intros d tn fs l bt name pos lfs Hfam Hd Hinh Htn Hv b Hk Hsz rr.
  pose proof (blocks_of_wf d tn fs l bt Hfam Hinh Hv Hk) as Hwf. fold b in Hwf.
  destruct (code_of_block_runs b name pos lfs Hwf Hsz) as [Hc H]. fold rr in H. split; [exact Hc|].
  destruct H as [L|(R1 & R2 & R3 & R4 & R5)]; [left; exact L|right].
  exists b. repeat split; try assumption. apply (C05_bind_roundtrip d); assumption.
Qed.

Theorem C05_code_roundtrip_slice_bfam : forall d tn fs vals bt v0 name pos lfs,
  bfam d (TStruct tn fs) -> (d <= 64)%nat -> vals <> [] ->
  Forall (fun v => inhabits (TStruct tn fs) v /\ vals_ok v) vals ->
  (tn = [] \/ unsnake_eq tn bt = true) ->
  let bl := map (fun v => tree_of (TStruct tn fs) v bt) vals in
  csizes bl + 1 < 2^64 ->
  let rr := execute (prog_of_tree (prog_of_blocks bt bl) name pos lfs) false false in
  hadError (compile_program (prog_of_blocks bt bl)) = false /\
  (limit_res (rr_res rr) \/
   exists bl', rr_res rr = VOk /\ rr_binding rr = BSlice bl' /\ print_lines (rr_out rr) = [] /\ rr_warn rr = [] /\
     bind (TgtPtr (TSlice (TStruct tn fs)) v0) (BdSlice bl') = BOk (GPtrTo (GSlice vals))).
Proof.
  intros d tn fs vals bt v0 name pos lfs Hfam Hd Hne Hall Htn bl Hsz rr. rewrite Forall_forall in Hall.
  assert (Hne' : bl <> []) by (unfold bl; destruct vals; [congruence|discriminate]).
  assert (Hwf : Forall wf_block bl).
  { apply Forall_forall. intros b Hin. apply in_map_iff in Hin. destruct Hin as (v & <- & Hin).
    destruct (Hall v Hin) as [Hi Hv]. destruct (inhabits_struct_inv _ _ _ Hi) as [l ->].
    apply (tree_of_wf d); assumption. }
  assert (Hty : Forall (fun b => btype b = bt) bl).
  { apply Forall_forall. intros b Hin. apply in_map_iff in Hin. destruct Hin as (v & <- & Hin).
    destruct (Hall v Hin) as [Hi Hv]. destruct (inhabits_struct_inv _ _ _ Hi) as [l ->]. reflexivity. }
  destruct (code_of_blocks_runs bt bl name pos lfs Hne' Hwf Hty Hsz) as [Hc H]. fold rr in H. split; [exact Hc|].
  destruct H as [L|(R1 & R2 & R3 & R4 & R5)]; [left; exact L|right].
  exists bl. repeat split; try assumption.
  apply bind_slice_of_writer. intros v Hin. destruct (Hall v Hin) as [Hi Hv].
  destruct (inhabits_struct_inv _ _ _ Hi) as [l ->]. apply (tree_copy_roundtrip d); assumption.
Qed.

(* ---------------------------------------------------------------------------------------- *)
(* 8. an ordinary member of bfam, run through every stage by computation                      *)
(* ---------------------------------------------------------------------------------------- *)
Definition t_listen := TStruct [] [Field (bs "Host") true false [] TString; Field (bs "Port") true false [] TInt].
Definition t_tls := TStruct (bs "TLSConfig") [Field (bs "Name") true false [] TString; Field (bs "Min_Version") true false [] TInt].
Definition t_server := TStruct (bs "Server")
  [Field (bs "Name") true false [] TString; Field (bs "Max_Conns") true false [] TInt;
   Field (bs "Ratio") true false [] TFloat64; Field (bs "Debug") true false [] TBool;
   Field (bs "Offset") true false [] TInt;
   Field (bs "Listen") true false [] t_listen; Field (bs "TLS_Config") true false [] t_tls].
(* Ratio = -0.5 (0xBFE0000000000000), Offset = -2^63 *)
Definition v_server := GStruct
  [GVal (VStr (bs "main")); GVal (VInt 7); GVal (VFloat 13826050856027422720); GVal (VBool true);
   GVal (VInt (-9223372036854775808));
   GStruct [GVal (VStr (bs "localhost")); GVal (VInt 8080)];
   GStruct [GVal (VStr (bs "edge")); GVal (VInt 12)]].

Example t_listen_bfam : bfam 1 t_listen.
Proof. apply bfam_struct; [nodup_keys|]. fam_fields. Qed.
Example t_tls_bfam : bfam 1 t_tls.
Proof. apply bfam_struct; [nodup_keys|]. fam_fields. Qed.
Example t_server_bfam : bfam 2 t_server.
Proof.
  apply bfam_struct; [nodup_keys|]. fam_fields.
  - right. split; [reflexivity|right]. split; [exact t_listen_bfam|left; reflexivity].
  - right. split; [reflexivity|right]. split; [exact t_tls_bfam|right; vm_compute; reflexivity].
Qed.
Example v_server_inhabits : inhabits t_server v_server.
Proof. repeat (constructor; try constructor). Qed.
Example v_server_vals_ok : vals_ok v_server.
Proof. cbn. repeat split; try lia; intros _; vm_compute; reflexivity. Qed.

Example C05_tree_example :
  let b := tree_of t_server v_server (bs "server") in
  b = VBlock (bs "server") (bs "main")
        [(bs "max_conns", VInt 7); (bs "ratio", VFloat 13826050856027422720); (bs "debug", VBool true);
         (bs "offset", VInt (-9223372036854775808));
         (bs "listen", VBlock (bs "listen") [] [(bs "host", VStr (bs "localhost")); (bs "port", VInt 8080)]);
         (bs "tls_config.edge", VBlock (bs "tls_config") (bs "edge") [(bs "min_version", VInt 12)])] /\
  (let r := run_program (prog_of_block b) in fst r = ROk tt /\ binding_ (snd r) = Some (SStruct b)) /\
  bind (TgtPtr t_server GZero) (BdStruct b) = BOk (GPtrTo v_server) /\
  (let rr := execute (prog_of_tree (prog_of_block b) [] [] []) false false in
   rr_res rr = VOk /\ rr_binding rr = BStruct b).
Proof. vm_compute. repeat split; reflexivity. Qed.

(* the same facts from the theorems *)
Example C05_tree_example_thm :
  exists en b', run_program (prog_of_block (tree_of t_server v_server (bs "server"))) = (ROk tt, en) /\
    binding_ en = Some (SStruct b') /\ veq b' (tree_of t_server v_server (bs "server")) /\
    bind (TgtPtr t_server GZero) (BdStruct b') = BOk (GPtrTo v_server).
Proof.
  apply (C05_tree_roundtrip_bfam 2); [exact t_server_bfam|lia|exact v_server_inhabits|right; vm_compute; reflexivity|exact v_server_vals_ok].
Qed.

Print Assumptions f_neg_flip.
Print Assumptions eval_lit_expr.
Print Assumptions run_prog_of_block.
Print Assumptions compile_prog_of_block.
Print Assumptions code_of_block_runs.
Print Assumptions C05_tree_roundtrip_counterexample.
Print Assumptions C05_tree_roundtrip_partial.
Print Assumptions C05_tree_roundtrip_slice_partial.
Print Assumptions C05_code_roundtrip_partial.
Print Assumptions tree_bind_roundtrip.
Print Assumptions C05_tree_roundtrip_bfam.
Print Assumptions C05_tree_roundtrip_slice_bfam.
Print Assumptions C05_code_roundtrip_bfam.
Print Assumptions C05_code_roundtrip_slice_bfam.
Print Assumptions C05_tree_example.
