(* T1Code.v: the compile-time side of theorem T1: what the code generator Model/Compile.v emits.

   emits s s' fr : the state s' has the code of s followed by the bytes fr (code is kept reversed);
   cgrow s s'    : the constant pool only grows;
   emono s s'    : hadError is never reset;
   wfs s         : nconsts counts the pool and every cached identifier index points at its string.
   cexpr_ext / cstmt_ext: the generator only appends (pending jump operands are rewritten inside the
   fragment the same call emitted), never resets errors, keeps the pool a prefix of the later pool. *)
From RecordUpdate Require Import RecordSet.
From Coq Require Import Lia ZifyN ZifyNat ZifyBool.
From BCL Require Import Model.Compile Proofs.EncodingProofs.
Import RecordSetNotations.
Open Scope N_scope.

Ltac psimp := cbn [set toks prev cur_ hadError hadLexFail panicMode locals nlocals depth identRefs code
                   positions ncode consts nconsts log st_tokens st_localMax st_depthMax st_ops oof ppanic].

(* ---------------------------------------------------------------------------------------- *)
(* list helpers                                                                              *)
(* ---------------------------------------------------------------------------------------- *)
Lemma nlen_app {A} (a b : list A) : nlen (a ++ b) = nlen a + nlen b.
Proof. unfold nlen. rewrite app_length. lia. Qed.
Lemma nlen_cons' {A} (x : A) l : nlen (x :: l) = nlen l + 1.
Proof. unfold nlen. cbn [length]. lia. Qed.
Lemma nlen_rev {A} (l : list A) : nlen (rev l) = nlen l.
Proof. unfold nlen. rewrite rev_length. reflexivity. Qed.

Lemma set_nth_app {A} (a : list A) x r v : set_nth (a ++ x :: r) (length a) v = a ++ v :: r.
Proof. induction a as [|y a IH]; cbn [app length set_nth]; [reflexivity|]. rewrite IH. reflexivity. Qed.
Lemma set_nth_app_S {A} (a : list A) x y r v : set_nth (a ++ x :: y :: r) (S (length a)) v = a ++ x :: v :: r.
Proof. induction a as [|z a IH]; cbn [app length set_nth]; [reflexivity|]. rewrite IH. reflexivity. Qed.

Lemma nth_opt_app_l {A} (a b : list A) i v : nth_opt a i = Some v -> nth_opt (a ++ b) i = Some v.
Proof.
  revert i. induction a as [|x a IH]; intros i H; [destruct i; discriminate H|].
  destruct i; cbn [app nth_opt] in *; [exact H|]. apply IH. exact H.
Qed.
Lemma nth_opt_app_r {A} (a b : list A) i : nth_opt (a ++ b) (length a + i) = nth_opt b i.
Proof. induction a as [|x a IH]; cbn [app length Nat.add nth_opt]; [reflexivity|]. exact IH. Qed.
Lemma nth_opt_snoc {A} (a : list A) v : nth_opt (a ++ [v]) (length a) = Some v.
Proof. rewrite <- (Nat.add_0_r (length a)), nth_opt_app_r. reflexivity. Qed.
Lemma nth_opt_lt {A} (a : list A) i v : nth_opt a i = Some v -> (i < length a)%nat.
Proof.
  revert i. induction a as [|x a IH]; intros i H; [destruct i; discriminate H|].
  destruct i; cbn [nth_opt length] in *; [lia|]. apply IH in H. lia.
Qed.

(* ---------------------------------------------------------------------------------------- *)
(* the relations                                                                             *)
(* ---------------------------------------------------------------------------------------- *)
Definition emits (s s' : pst) (fr : bytes) : Prop :=
  code s' = rev fr ++ code s /\ ncode s' = ncode s + nlen fr.
Definition cgrow (s s' : pst) : Prop := exists add, consts s' = add ++ consts s.
Definition emono (s s' : pst) : Prop := hadError s = true -> hadError s' = true.
Definition lframe (s s' : pst) : Prop :=
  locals s' = locals s /\ nlocals s' = nlocals s /\ depth s' = depth s.

Definition idents_ok (s : pst) : Prop :=
  forall name idx, assoc_bytes name (identRefs s) = Some idx ->
                   nth_opt (rev (consts s)) (N.to_nat idx) = Some (VStr name).
Definition wfs (s : pst) : Prop := nconsts s = nlen (consts s) /\ idents_ok s.

Definition ext (s s' : pst) (fr : bytes) : Prop :=
  emits s s' fr /\ cgrow s s' /\ emono s s' /\ (wfs s -> wfs s').

Lemma emits_refl s : emits s s [].
Proof. split; [reflexivity|]. cbn. lia. Qed.
Lemma emits_trans s s1 s2 f1 f2 : emits s s1 f1 -> emits s1 s2 f2 -> emits s s2 (f1 ++ f2).
Proof.
  intros [A1 A2] [B1 B2]. split.
  - rewrite B1, A1, rev_app_distr, app_assoc. reflexivity.
  - rewrite B2, A2, nlen_app. lia.
Qed.
Lemma emits_inj s s' f1 f2 : emits s s' f1 -> emits s s' f2 -> f1 = f2.
Proof.
  intros [A _] [B _]. rewrite A in B. apply app_inv_tail in B.
  rewrite <- (rev_involutive f1), B, rev_involutive. reflexivity.
Qed.
Lemma cgrow_refl s : cgrow s s. Proof. exists []. reflexivity. Qed.
Lemma cgrow_trans s s1 s2 : cgrow s s1 -> cgrow s1 s2 -> cgrow s s2.
Proof. intros [a A] [b B]. exists (b ++ a). rewrite B, A, app_assoc. reflexivity. Qed.
Lemma lframe_refl s : lframe s s. Proof. repeat split. Qed.
Lemma lframe_trans s s1 s2 : lframe s s1 -> lframe s1 s2 -> lframe s s2.
Proof. intros (A1 & A2 & A3) (B1 & B2 & B3). repeat split; congruence. Qed.
Lemma ext_refl s : ext s s [].
Proof. split; [apply emits_refl|]. split; [apply cgrow_refl|]. split; [exact (fun H => H)|exact (fun H => H)]. Qed.
Lemma ext_trans s s1 s2 f1 f2 : ext s s1 f1 -> ext s1 s2 f2 -> ext s s2 (f1 ++ f2).
Proof.
  intros (A1 & A2 & A3 & A4) (B1 & B2 & B3 & B4).
  split; [eapply emits_trans; eassumption|]. split; [eapply cgrow_trans; eassumption|].
  split; [intros H; apply B3, A3, H | intros H; apply B4, A4, H].
Qed.
Lemma ext_noerr s s' fr : ext s s' fr -> hadError s' = false -> hadError s = false.
Proof. intros (_ & _ & H & _) E. destruct (hadError s) eqn:Es; [|reflexivity]. rewrite (H Es) in E. discriminate E. Qed.

(* the pool as seen from a later pool *)
Lemma cgrow_nth s s' i v : cgrow s s' ->
  nth_opt (rev (consts s)) i = Some v -> nth_opt (rev (consts s')) i = Some v.
Proof. intros [a A] H. rewrite A, rev_app_distr. apply nth_opt_app_l. exact H. Qed.

(* ---------------------------------------------------------------------------------------- *)
(* emitting primitives                                                                       *)
(* ---------------------------------------------------------------------------------------- *)
(* a primitive that only touches code / positions / ncode / st_ops *)
Definition estep (s s' : pst) (fr : bytes) : Prop :=
  emits s s' fr /\ consts s' = consts s /\ nconsts s' = nconsts s /\ identRefs s' = identRefs s /\
  hadError s' = hadError s /\ lframe s s'.

Lemma estep_ext s s' fr : estep s s' fr -> ext s s' fr /\ lframe s s'.
Proof.
  intros (A & B & C & D & E & F). split; [|exact F]. split; [exact A|].
  split; [exists []; rewrite B; reflexivity|]. split; [unfold emono; rewrite E; exact (fun H => H)|].
  unfold wfs, idents_ok. rewrite B, C, D. exact (fun H => H).
Qed.
Lemma estep_trans s s1 s2 f1 f2 : estep s s1 f1 -> estep s1 s2 f2 -> estep s s2 (f1 ++ f2).
Proof.
  intros (A & B & C & D & E & F) (A' & B' & C' & D' & E' & F').
  split; [eapply emits_trans; eassumption|]. repeat split; try congruence.
  all: destruct F as (F1 & F2 & F3), F' as (G1 & G2 & G3); congruence.
Qed.
Lemma estep_refl s : estep s s [].
Proof. split; [apply emits_refl|]. repeat split. Qed.

Lemma estep_write b s : estep s (write b s) [b].
Proof. unfold estep, emits, lframe, write. psimp. cbn. repeat split; try lia. Qed.
Lemma estep_emit_op o s : estep s (emit_op o s) [o].
Proof. unfold estep, emits, lframe, emit_op, write. psimp. cbn. repeat split; try lia. Qed.
Lemma estep_emit_bytes bb s : estep s (emit_bytes bb s) bb.
Proof.
  revert s. induction bb as [|b bb IH]; intros s; [apply estep_refl|].
  change (emit_bytes (b :: bb) s) with (emit_bytes bb (write b s)).
  change (b :: bb) with ([b] ++ bb). eapply estep_trans; [apply estep_write | apply IH].
Qed.
Lemma estep_emit_uvarint x s : estep s (emit_uvarint x s) (uv_enc x).
Proof. apply estep_emit_bytes. Qed.
Lemma estep_emit_ops os s : estep s (emit_ops os s) os.
Proof.
  revert s. induction os as [|o os IH]; intros s; [apply estep_refl|].
  change (emit_ops (o :: os) s) with (emit_ops os (emit_op o s)).
  change (o :: os) with ([o] ++ os). eapply estep_trans; [apply estep_emit_op | apply IH].
Qed.
Lemma estep_emit_jump o s :
  estep s (snd (emit_jump o s)) [o; 255; 255] /\ fst (emit_jump o s) = ncode s + 1.
Proof.
  unfold emit_jump. cbn [fst snd]. split.
  - change [o; 255; 255] with ([o] ++ [255; 255]). eapply estep_trans; [apply estep_emit_op | apply estep_emit_bytes].
  - unfold emit_bytes, emit_op, write. cbn [fold_left]. psimp. lia.
Qed.
Lemma estep_pop_n n s :
  estep s (pop_n n s) (if n =? 0 then [] else if n =? 1 then [opPOP] else opPOPN :: uv_enc n).
Proof.
  unfold pop_n. destruct (n =? 0); [apply estep_refl|]. destruct (n =? 1); [apply estep_emit_op|].
  change (opPOPN :: uv_enc n) with ([opPOPN] ++ uv_enc n).
  eapply estep_trans; [apply estep_emit_op | apply estep_emit_uvarint].
Qed.

(* errors: only hadError / panicMode / log change *)
Definition errstep (s s' : pst) : Prop :=
  code s' = code s /\ ncode s' = ncode s /\ consts s' = consts s /\ nconsts s' = nconsts s /\
  identRefs s' = identRefs s /\ lframe s s' /\ hadError s' = true.
Lemma errstep_perr msg s : errstep s (perr msg s).
Proof. unfold errstep, lframe, perr, perror, error_at. psimp. repeat split. Qed.
Lemma errstep_ext s s' : errstep s s' -> ext s s' [] /\ lframe s s'.
Proof.
  intros (A & B & C & D & E & F & G). split; [|exact F]. split.
  - split; [rewrite A; reflexivity | rewrite B; cbn; lia].
  - split; [exists []; rewrite C; reflexivity|]. split; [intros _; exact G|].
    unfold wfs, idents_ok. rewrite C, D, E. exact (fun H => H).
Qed.

(* ---------------------------------------------------------------------------------------- *)
(* patching a jump                                                                           *)
(* ---------------------------------------------------------------------------------------- *)
Lemma patch_jump_fields o s :
  consts (patch_jump o s) = consts s /\ nconsts (patch_jump o s) = nconsts s /\
  identRefs (patch_jump o s) = identRefs s /\ lframe s (patch_jump o s) /\ ncode (patch_jump o s) = ncode s /\
  (hadError s = true -> hadError (patch_jump o s) = true).
Proof.
  unfold patch_jump, lframe. destruct (65535 <? ncode s - o - 2).
  - unfold perr, perror, error_at. psimp. repeat split.
  - psimp. repeat split. exact (fun H => H).
Qed.

Lemma patch_jump_spec s0 s f1 f2 :
  emits s0 s (f1 ++ [255; 255] ++ f2) ->
  hadError (patch_jump (ncode s0 + nlen f1) s) = false ->
  nlen f2 <= 65535 /\
  emits s0 (patch_jump (ncode s0 + nlen f1) s) (f1 ++ [nlen f2 / 256 mod 256; nlen f2 mod 256] ++ f2).
Proof.
  intros [A B] H. unfold patch_jump in *.
  rewrite !nlen_app in B. change (nlen [255; 255]) with 2 in B.
  replace (ncode s - (ncode s0 + nlen f1) - 2) with (nlen f2) in * by lia.
  destruct (65535 <? nlen f2) eqn:E.
  - unfold perr, perror, error_at in H. psimp. cbn in H. discriminate H.
  - split; [lia|]. unfold emits. psimp. split; [|rewrite B, !nlen_app; change (nlen [nlen f2 / 256 mod 256; nlen f2 mod 256]) with 2; lia].
    rewrite A. rewrite !rev_app_distr. cbn [rev app]. rewrite <- !app_assoc. cbn [app].
    replace (N.to_nat (nlen f2)) with (length (rev f2)) by (rewrite rev_length; unfold nlen; lia).
    rewrite set_nth_app, set_nth_app_S. reflexivity.
Qed.

(* ---------------------------------------------------------------------------------------- *)
(* constants                                                                                 *)
(* ---------------------------------------------------------------------------------------- *)
(* a primitive that only touches consts / nconsts / identRefs *)
Definition cstep (s s' : pst) : Prop :=
  code s' = code s /\ ncode s' = ncode s /\ hadError s' = hadError s /\ lframe s s' /\ cgrow s s' /\
  (wfs s -> wfs s').

Lemma cstep_ext s s' : cstep s s' -> ext s s' [] /\ lframe s s'.
Proof.
  intros (A & B & C & D & E & F). split; [|exact D]. split.
  - split; [rewrite A; reflexivity | rewrite B; cbn; lia].
  - split; [exact E|]. split; [unfold emono; rewrite C; exact (fun H => H) | exact F].
Qed.
Lemma cstep_refl s : cstep s s.
Proof. repeat split. apply cgrow_refl. all: destruct H; assumption. Qed.
Lemma cstep_trans s s1 s2 : cstep s s1 -> cstep s1 s2 -> cstep s s2.
Proof.
  intros (A & B & C & D & E & F) (A' & B' & C' & D' & E' & F').
  split; [congruence|]. split; [congruence|]. split; [congruence|].
  split; [eapply lframe_trans; eassumption|]. split; [eapply cgrow_trans; eassumption|]. auto.
Qed.

Lemma idents_ok_grow (s s' : pst) v :
  consts s' = v :: consts s -> identRefs s' = identRefs s -> idents_ok s -> idents_ok s'.
Proof.
  intros Hc Hi H name idx Hn. rewrite Hi in Hn. rewrite Hc. cbn [rev]. apply nth_opt_app_l. apply H. exact Hn.
Qed.

Lemma add_const_spec v s :
  cstep s (snd (add_const v s)) /\
  (wfs s -> nth_opt (rev (consts (snd (add_const v s)))) (N.to_nat (fst (add_const v s))) = Some v) /\
  identRefs (snd (add_const v s)) = identRefs s.
Proof.
  unfold add_const. cbn [fst snd]. split; [|split].
  - unfold cstep, lframe. psimp. repeat split.
    + exists [v]. reflexivity.
    + destruct H as [H _]. psimp. rewrite H, nlen_cons'. reflexivity.
    + destruct H as [_ H]. eapply idents_ok_grow; [| |exact H]; reflexivity.
  - intros [H _]. psimp. cbn [rev]. rewrite H. unfold nlen. rewrite Nat2N.id, <- rev_length. apply nth_opt_snoc.
  - reflexivity.
Qed.

Lemma assoc_cons {A} k k' (v : A) l :
  assoc_bytes k ((k', v) :: l) = if bytes_eqb k k' then Some v else assoc_bytes k l.
Proof. reflexivity. Qed.

Lemma bytes_eqb_true a b : bytes_eqb a b = true -> a = b.
Proof.
  revert b. induction a as [|x a IH]; intros [|y b] H; cbn [bytes_eqb] in H; try discriminate H; [reflexivity|].
  apply andb_prop in H. destruct H as [H1 H2]. apply N.eqb_eq in H1. apply IH in H2. subst. reflexivity.
Qed.
Lemma bytes_eqb_rfl a : bytes_eqb a a = true.
Proof. induction a as [|x a IH]; [reflexivity|]. cbn [bytes_eqb]. rewrite N.eqb_refl, IH. reflexivity. Qed.
Lemma bytes_eqb_false a b : bytes_eqb a b = false -> a <> b.
Proof. intros H E. subst. rewrite bytes_eqb_rfl in H. discriminate H. Qed.

(* registering name -> idx where the pool holds VStr name at idx *)
Lemma wfs_register (s : pst) name idx :
  wfs s -> nth_opt (rev (consts s)) (N.to_nat idx) = Some (VStr name) ->
  wfs (s <| identRefs := (name, idx) :: identRefs s |>).
Proof.
  intros [H1 H2] Hn. split; [exact H1|]. intros nm i. psimp. rewrite assoc_cons.
  destruct (bytes_eqb nm name) eqn:E.
  - intros Hi. inversion Hi; subst. apply bytes_eqb_true in E. subst. exact Hn.
  - apply H2.
Qed.

Lemma make_const_spec v s :
  cstep s (snd (make_const v s)) /\
  (wfs s -> nth_opt (rev (consts (snd (make_const v s)))) (N.to_nat (fst (make_const v s))) = Some v).
Proof.
  assert (G : forall s, cstep s (snd (add_const v s)) /\
             (wfs s -> nth_opt (rev (consts (snd (add_const v s)))) (N.to_nat (fst (add_const v s))) = Some v)).
  { intros s0. destruct (add_const_spec v s0) as (A & B & _). split; assumption. }
  unfold make_const. destruct v as [ | | | |[|c r]| ]; try apply G.
  destruct (assoc_bytes [] (identRefs s)) as [idx|] eqn:E.
  - cbn [fst snd]. split; [apply cstep_refl|]. intros [_ H]. apply H. exact E.
  - destruct (add_const_spec (VStr []) s) as (A & B & C).
    destruct (add_const (VStr []) s) as [idx s1] eqn:Ea. cbn [fst snd] in *.
    split.
    + destruct A as (A1 & A2 & A3 & (A41 & A42 & A43) & A5 & A6). unfold cstep, lframe. psimp.
      split; [exact A1|]. split; [exact A2|]. split; [exact A3|]. split; [repeat split; assumption|].
      split; [exact A5|].
      intros W. apply wfs_register; [apply A6, W | apply B, W].
    + intros W. psimp. apply B, W.
Qed.

Lemma ident_const_spec name s :
  cstep s (snd (ident_const name s)) /\
  (wfs s -> nth_opt (rev (consts (snd (ident_const name s)))) (N.to_nat (fst (ident_const name s))) = Some (VStr name)).
Proof.
  unfold ident_const. destruct (assoc_bytes name (identRefs s)) as [idx|] eqn:E.
  - cbn [fst snd]. split; [apply cstep_refl|]. intros [_ H]. apply H. exact E.
  - destruct (make_const_spec (VStr name) s) as (A & B).
    destruct (make_const (VStr name) s) as [idx s1] eqn:Ea. cbn [fst snd] in *.
    split.
    + destruct A as (A1 & A2 & A3 & (A41 & A42 & A43) & A5 & A6). unfold cstep, lframe. psimp.
      split; [exact A1|]. split; [exact A2|]. split; [exact A3|]. split; [repeat split; assumption|].
      split; [exact A5|].
      intros W. apply wfs_register; [apply A6, W | apply B, W].
    + intros W. psimp. apply B, W.
Qed.

(* ---------------------------------------------------------------------------------------- *)
(* extl: ext + the scope tables are untouched (everything an expression does)                *)
(* ---------------------------------------------------------------------------------------- *)
Definition extl (s s' : pst) (fr : bytes) : Prop := ext s s' fr /\ lframe s s'.

Lemma extl_refl s : extl s s []. Proof. split; [apply ext_refl | apply lframe_refl]. Qed.
Lemma extl_trans s s1 s2 f1 f2 : extl s s1 f1 -> extl s1 s2 f2 -> extl s s2 (f1 ++ f2).
Proof. intros [A B] [A' B']. split; [eapply ext_trans; eassumption | eapply lframe_trans; eassumption]. Qed.
Lemma extl_estep s s' fr : estep s s' fr -> extl s s' fr. Proof. apply estep_ext. Qed.
Lemma extl_cstep s s' : cstep s s' -> extl s s' []. Proof. apply cstep_ext. Qed.
Lemma extl_noerr s s' fr : extl s s' fr -> hadError s' = false -> hadError s = false.
Proof. intros [A _]. eapply ext_noerr. exact A. Qed.
Lemma extl_ncode s s' fr : extl s s' fr -> ncode s' = ncode s + nlen fr.
Proof. intros [[[_ A] _] _]. exact A. Qed.
Lemma extl_emits s s' fr : extl s s' fr -> emits s s' fr.
Proof. intros [[A _] _]. exact A. Qed.
Lemma extl_cgrow s s' fr : extl s s' fr -> cgrow s s'.
Proof. intros [[_ [A _]] _]. exact A. Qed.
Lemma extl_wfs s s' fr : extl s s' fr -> wfs s -> wfs s'.
Proof. intros [[_ [_ [_ A]]] _]. exact A. Qed.
Lemma extl_lframe s s' fr : extl s s' fr -> lframe s s'.
Proof. intros [_ A]. exact A. Qed.

Lemma extl_patch s0 s f1 f2 :
  extl s0 s (f1 ++ [255; 255] ++ f2) ->
  hadError (patch_jump (ncode s0 + nlen f1) s) = false ->
  nlen f2 <= 65535 /\
  extl s0 (patch_jump (ncode s0 + nlen f1) s) (f1 ++ [nlen f2 / 256 mod 256; nlen f2 mod 256] ++ f2).
Proof.
  intros [(A & B & C & D) L] H.
  destruct (patch_jump_spec s0 s f1 f2 A H) as [J E]. split; [exact J|].
  destruct (patch_jump_fields (ncode s0 + nlen f1) s) as (P1 & P2 & P3 & P4 & P5 & P6).
  split; [|eapply lframe_trans; eassumption].
  split; [exact E|]. split; [destruct B as [a B]; exists a; rewrite P1; exact B|].
  split; [intros X; apply P6, C, X|].
  intros W. destruct (D W) as [W1 W2]. split; [rewrite P1, P2; exact W1|].
  unfold idents_ok. rewrite P1, P3. exact W2.
Qed.

(* ---------------------------------------------------------------------------------------- *)
(* expressions only append                                                                   *)
(* ---------------------------------------------------------------------------------------- *)
Lemma perr_err msg s : hadError (perr msg s) = true.
Proof. reflexivity. Qed.

Lemma emit_const_extl v s :
  extl s (emit_const v s) (opCONST :: uv_enc (fst (make_const v s))) /\
  (wfs s -> nth_opt (rev (consts (emit_const v s))) (N.to_nat (fst (make_const v s))) = Some v).
Proof.
  unfold emit_const. destruct (make_const_spec v s) as [A B].
  destruct (make_const v s) as [idx s1]. cbn [fst snd] in *. split.
  - change (opCONST :: uv_enc idx) with ([] ++ [opCONST] ++ uv_enc idx).
    eapply extl_trans; [apply extl_cstep, A|]. apply extl_estep.
    eapply estep_trans; [apply estep_emit_op | apply estep_emit_uvarint].
  - intros W. specialize (B W).
    assert (E : consts (emit_uvarint idx (emit_op opCONST s1)) = consts s1).
    { destruct (estep_emit_uvarint idx (emit_op opCONST s1)) as (_ & E1 & _).
      destruct (estep_emit_op opCONST s1) as (_ & E2 & _). congruence. }
    rewrite E. exact B.
Qed.

Lemma clit_extl v s : exists fr, extl s (clit v s) fr.
Proof.
  assert (G : exists fr, extl s (emit_const v s) fr) by (eexists; apply emit_const_extl).
  unfold clit. destruct v as [ |[|]|z| | | ]; try exact G; try (eexists; apply extl_estep, estep_emit_op).
  destruct z as [|[p|p|]|]; try exact G; eexists; apply extl_estep, estep_emit_op.
Qed.

Lemma cexpr_extl : forall e s, hadError (cexpr e s) = false -> exists fr, extl s (cexpr e s) fr.
Proof.
  induction e as [v|x|x e IH|o a IHa b IHb|a IHa b IHb|a IHa b IHb|a IH|a IH|a IH]; intros s H; cbn [cexpr] in *.
  - apply clit_extl.
  - destruct (resolve_local (locals s) (nlocals s) x) as [idx|].
    + eexists. apply extl_estep. eapply estep_trans; [apply estep_emit_op | apply estep_emit_uvarint].
    + destruct (depth s =? 0)%Z; [rewrite perr_err in H; discriminate H|].
      destruct (ident_const_spec x s) as [A _]. destruct (ident_const x s) as [idx s1]. cbn [snd] in A.
      eexists. eapply extl_trans; [apply extl_cstep, A|]. apply extl_estep.
      eapply estep_trans; [apply estep_emit_op | apply estep_emit_uvarint].
  - destruct (resolve_local (locals s) (nlocals s) x) as [idx|].
    + assert (E : estep (cexpr e s) (emit_uvarint idx (emit_op opSETLOCAL (cexpr e s))) ([opSETLOCAL] ++ uv_enc idx))
        by (eapply estep_trans; [apply estep_emit_op | apply estep_emit_uvarint]).
      apply extl_estep in E. destruct (IH s (extl_noerr _ _ _ E H)) as [fr F].
      eexists. eapply extl_trans; eassumption.
    + destruct (depth s =? 0)%Z; [rewrite perr_err in H; discriminate H|].
      destruct (ident_const_spec x s) as [A _]. destruct (ident_const x s) as [idx s1]. cbn [snd] in A.
      assert (E : estep (cexpr e s1) (emit_uvarint idx (emit_op opSETFIELD (cexpr e s1))) ([opSETFIELD] ++ uv_enc idx))
        by (eapply estep_trans; [apply estep_emit_op | apply estep_emit_uvarint]).
      apply extl_estep in E. destruct (IH s1 (extl_noerr _ _ _ E H)) as [fr F].
      eexists. eapply extl_trans; [apply extl_cstep, A|]. eapply extl_trans; eassumption.
  - pose proof (extl_estep _ _ _ (estep_emit_ops (ops_of o) (cexpr b (cexpr a s)))) as E.
    destruct (IHb _ (extl_noerr _ _ _ E H)) as [fb Fb].
    destruct (IHa _ (extl_noerr _ _ _ Fb (extl_noerr _ _ _ E H))) as [fa Fa].
    eexists. eapply extl_trans; [exact Fa|]. eapply extl_trans; eassumption.
  - (* and *)
    destruct (estep_emit_jump opJFALSE (cexpr a s)) as [J1 J2].
    destruct (emit_jump opJFALSE (cexpr a s)) as [endJump sa]. cbn [fst snd] in *. subst endJump.
    pose proof (extl_estep _ _ _ (estep_emit_op opPOP sa)) as P.
    destruct (patch_jump_fields (ncode (cexpr a s) + 1) (cexpr b (emit_op opPOP sa))) as (_ & _ & _ & _ & _ & M).
    assert (Hb : hadError (cexpr b (emit_op opPOP sa)) = false).
    { destruct (hadError (cexpr b (emit_op opPOP sa))); [rewrite M in H by reflexivity; discriminate H|reflexivity]. }
    destruct (IHb _ Hb) as [fb Fb].
    pose proof (extl_trans _ _ _ _ _ (extl_estep _ _ _ J1) (extl_trans _ _ _ _ _ P Fb)) as F.
    change ([opJFALSE; 255; 255] ++ [opPOP] ++ fb) with ([opJFALSE] ++ [255; 255] ++ (opPOP :: fb)) in F.
    change (ncode (cexpr a s) + 1) with (ncode (cexpr a s) + nlen [opJFALSE]) in H.
    destruct (extl_patch _ _ _ _ F H) as [_ G].
    assert (Ha : hadError (cexpr a s) = false) by (eapply extl_noerr; [exact F | exact Hb]).
    destruct (IHa _ Ha) as [fa Fa].
    eexists. eapply extl_trans; [exact Fa | exact G].
  - (* or *)
    destruct (estep_emit_jump opJFALSE (cexpr a s)) as [J1 J2].
    destruct (emit_jump opJFALSE (cexpr a s)) as [midJump sa]. cbn [fst snd] in *. subst midJump.
    destruct (estep_emit_jump opJUMP sa) as [K1 K2].
    destruct (emit_jump opJUMP sa) as [endJump sb]. cbn [fst snd] in *. subst endJump.
    set (sc := patch_jump (ncode (cexpr a s) + 1) sb) in *.
    pose proof (extl_estep _ _ _ (estep_emit_op opPOP sc)) as P.
    destruct (patch_jump_fields (ncode sa + 1) (cexpr b (emit_op opPOP sc))) as (_ & _ & _ & _ & _ & M).
    assert (Hb : hadError (cexpr b (emit_op opPOP sc)) = false).
    { destruct (hadError (cexpr b (emit_op opPOP sc))); [rewrite M in H by reflexivity; discriminate H|reflexivity]. }
    destruct (IHb _ Hb) as [fb Fb].
    assert (Hc : hadError sc = false) by (eapply extl_noerr; [exact P|]; eapply extl_noerr; [exact Fb | exact Hb]).
    pose proof (extl_trans _ _ _ _ _ (extl_estep _ _ _ J1) (extl_estep _ _ _ K1)) as F1.
    change ([opJFALSE; 255; 255] ++ [opJUMP; 255; 255]) with ([opJFALSE] ++ [255; 255] ++ [opJUMP; 255; 255]) in F1.
    unfold sc in Hc. change (ncode (cexpr a s) + 1) with (ncode (cexpr a s) + nlen [opJFALSE]) in Hc.
    destruct (extl_patch _ _ _ _ F1 Hc) as [_ G1]. fold sc in G1.
    pose proof (extl_trans _ _ _ _ _ G1 (extl_trans _ _ _ _ _ P Fb)) as F2.
    change (([opJFALSE] ++ [nlen [opJUMP; 255; 255] / 256 mod 256; nlen [opJUMP; 255; 255] mod 256] ++ [opJUMP; 255; 255]) ++ [opPOP] ++ fb)
      with ([opJFALSE; 0; 3; opJUMP] ++ [255; 255] ++ (opPOP :: fb)) in F2.
    replace (ncode sa + 1) with (ncode (cexpr a s) + nlen [opJFALSE; 0; 3; opJUMP]) in *
      by (rewrite (extl_ncode _ _ _ (extl_estep _ _ _ J1)); change (nlen [opJFALSE; 255; 255]) with 3; change (nlen [opJFALSE; 0; 3; opJUMP]) with 4; lia).
    destruct (extl_patch _ _ _ _ F2 H) as [_ G].
    assert (Ha : hadError (cexpr a s) = false) by (eapply extl_noerr; [exact F2 | exact Hb]).
    destruct (IHa _ Ha) as [fa Fa].
    eexists. eapply extl_trans; [exact Fa | exact G].
  - pose proof (extl_estep _ _ _ (estep_emit_op opNOT (cexpr a s))) as E.
    destruct (IH _ (extl_noerr _ _ _ E H)) as [fa Fa]. eexists. eapply extl_trans; eassumption.
  - pose proof (extl_estep _ _ _ (estep_emit_op opNEG (cexpr a s))) as E.
    destruct (IH _ (extl_noerr _ _ _ E H)) as [fa Fa]. eexists. eapply extl_trans; eassumption.
  - pose proof (extl_estep _ _ _ (estep_emit_op opUNPLUS (cexpr a s))) as E.
    destruct (IH _ (extl_noerr _ _ _ E H)) as [fa Fa]. eexists. eapply extl_trans; eassumption.
Qed.

(* ---------------------------------------------------------------------------------------- *)
(* the shape of the code of `and` / `or`                                                     *)
(* ---------------------------------------------------------------------------------------- *)
Lemma and_struct a b s : hadError (cexpr (EAnd a b) s) = false ->
  let sa := cexpr a s in
  let s2 := emit_op opPOP (snd (emit_jump opJFALSE sa)) in
  let sb := cexpr b s2 in
  exists fa fb, extl s sa fa /\ extl sa s2 [opJFALSE; 255; 255; opPOP] /\ extl s2 sb fb /\ hadError sb = false /\
    nlen fb + 1 <= 65535 /\
    extl s (cexpr (EAnd a b) s)
         (fa ++ [opJFALSE; (nlen fb + 1) / 256 mod 256; (nlen fb + 1) mod 256; opPOP] ++ fb) /\
    consts (cexpr (EAnd a b) s) = consts sb.
Proof.
  intros H sa s2 sb. cbn [cexpr] in *.
  destruct (estep_emit_jump opJFALSE (cexpr a s)) as [J1 J2]. fold sa in J1, J2, H |- *.
  unfold s2 in *. destruct (emit_jump opJFALSE sa) as [endJump sj]. cbn [fst snd] in *. subst endJump.
  pose proof (extl_estep _ _ _ (estep_emit_op opPOP sj)) as P.
  destruct (patch_jump_fields (ncode sa + 1) (cexpr b (emit_op opPOP sj))) as (Pc & _ & _ & _ & _ & M).
  assert (Hb : hadError (cexpr b (emit_op opPOP sj)) = false).
  { destruct (hadError (cexpr b (emit_op opPOP sj))) eqn:Eb; [rewrite (M eq_refl) in H; discriminate H|reflexivity]. }
  destruct (cexpr_extl b _ Hb) as [fb Fb].
  pose proof (extl_trans _ _ _ _ _ (extl_estep _ _ _ J1) P) as F0. cbn [app] in F0.
  pose proof (extl_trans _ _ _ _ _ F0 Fb) as F.
  change ([opJFALSE; 255; 255; opPOP] ++ fb) with ([opJFALSE] ++ [255; 255] ++ (opPOP :: fb)) in F.
  change (ncode sa + 1) with (ncode sa + nlen [opJFALSE]) in H.
  destruct (extl_patch _ _ _ _ F H) as [Jb G].
  assert (Ha : hadError sa = false) by (eapply extl_noerr; [exact F | exact Hb]).
  destruct (cexpr_extl a s Ha) as [fa Fa].
  exists fa, fb. split; [exact Fa|]. split; [exact F0|]. split; [exact Fb|]. split; [exact Hb|].
  rewrite (nlen_cons' opPOP fb) in Jb, G. split; [exact Jb|]. split; [|exact Pc].
  change (ncode sa + 1) with (ncode sa + nlen [opJFALSE]).
  eapply extl_trans; [exact Fa | exact G].
Qed.

Lemma or_struct a b s : hadError (cexpr (EOr a b) s) = false ->
  let sa := cexpr a s in
  let s3 := patch_jump (ncode sa + 1) (snd (emit_jump opJUMP (snd (emit_jump opJFALSE sa)))) in
  let s4 := emit_op opPOP s3 in
  let sb := cexpr b s4 in
  exists fa fb, extl s sa fa /\ extl sa s4 [opJFALSE; 0; 3; opJUMP; 255; 255; opPOP] /\ extl s4 sb fb /\
    hadError sb = false /\ nlen fb + 1 <= 65535 /\
    extl s (cexpr (EOr a b) s)
         (fa ++ [opJFALSE; 0; 3; opJUMP; (nlen fb + 1) / 256 mod 256; (nlen fb + 1) mod 256; opPOP] ++ fb) /\
    consts (cexpr (EOr a b) s) = consts sb.
Proof.
  intros H sa s3 s4 sb. cbn [cexpr] in *.
  destruct (estep_emit_jump opJFALSE (cexpr a s)) as [J1 J2]. fold sa in J1, J2, H |- *.
  unfold s4, s3 in *. clear s3 s4. destruct (emit_jump opJFALSE sa) as [midJump sj]. cbn [fst snd] in *. subst midJump.
  destruct (estep_emit_jump opJUMP sj) as [K1 K2].
  destruct (emit_jump opJUMP sj) as [endJump sk]. cbn [fst snd] in *. subst endJump.
  set (sc := patch_jump (ncode sa + 1) sk) in *.
  pose proof (extl_estep _ _ _ (estep_emit_op opPOP sc)) as P.
  destruct (patch_jump_fields (ncode sj + 1) (cexpr b (emit_op opPOP sc))) as (Pc & _ & _ & _ & _ & M).
  assert (Hb : hadError (cexpr b (emit_op opPOP sc)) = false).
  { destruct (hadError (cexpr b (emit_op opPOP sc))) eqn:Eb; [rewrite (M eq_refl) in H; discriminate H|reflexivity]. }
  destruct (cexpr_extl b _ Hb) as [fb Fb].
  assert (Hc : hadError sc = false) by (eapply extl_noerr; [exact P|]; eapply extl_noerr; [exact Fb | exact Hb]).
  pose proof (extl_trans _ _ _ _ _ (extl_estep _ _ _ J1) (extl_estep _ _ _ K1)) as F1.
  change ([opJFALSE; 255; 255] ++ [opJUMP; 255; 255]) with ([opJFALSE] ++ [255; 255] ++ [opJUMP; 255; 255]) in F1.
  unfold sc in Hc. change (ncode sa + 1) with (ncode sa + nlen [opJFALSE]) in Hc.
  destruct (extl_patch _ _ _ _ F1 Hc) as [_ G1].
  change (ncode sa + nlen [opJFALSE]) with (ncode sa + 1) in G1. fold sc in G1.
  change ([opJFALSE] ++ [nlen [opJUMP; 255; 255] / 256 mod 256; nlen [opJUMP; 255; 255] mod 256] ++ [opJUMP; 255; 255])
    with [opJFALSE; 0; 3; opJUMP; 255; 255] in G1.
  pose proof (extl_trans _ _ _ _ _ G1 P) as F0. cbn [app] in F0.
  pose proof (extl_trans _ _ _ _ _ F0 Fb) as F2.
  change ([opJFALSE; 0; 3; opJUMP; 255; 255; opPOP] ++ fb)
    with ([opJFALSE; 0; 3; opJUMP] ++ [255; 255] ++ (opPOP :: fb)) in F2.
  assert (En : ncode sj + 1 = ncode sa + nlen [opJFALSE; 0; 3; opJUMP]).
  { rewrite (extl_ncode _ _ _ (extl_estep _ _ _ J1)). change (nlen [opJFALSE; 255; 255]) with 3.
    change (nlen [opJFALSE; 0; 3; opJUMP]) with 4. lia. }
  rewrite En in *.
  destruct (extl_patch _ _ _ _ F2 H) as [Jb G].
  assert (Ha : hadError sa = false) by (eapply extl_noerr; [exact F2 | exact Hb]).
  destruct (cexpr_extl a s Ha) as [fa Fa].
  exists fa, fb. split; [exact Fa|]. split; [exact F0|]. split; [exact Fb|]. split; [exact Hb|].
  rewrite (nlen_cons' opPOP fb) in Jb, G. split; [exact Jb|]. split; [|exact Pc].
  eapply extl_trans; [exact Fa | exact G].
Qed.
