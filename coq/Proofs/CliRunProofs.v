(* CliRunProofs.v: the command-line tool mirrors the library (Model/CliRun.v, model of cmd/bcl/main.go).

   1. exit status: 0 iff no error, 1 iff some run error, 2 iff usage error; which "model gave up"
      errors are excluded by the existing theorems
   2. without --bload/--bdump the run is exactly Api.interpret
   3. a successful --bdump only adds the written file; a failing dump target stops before Execute
   5. -d / -t / -s only observe, at tool level
   6. flag order / clusters / usage errors lifted from parse_args to cli_main
   4. --bdump then --bload executes the same program *)
From Coq Require Import Lia ZifyN ZifyNat ZifyBool List.
From BCL Require Import Model.CliRun Model.Verify.
From BCL Require Import Proofs.DumpLoadProofs Proofs.ParserInvProofs Proofs.ParserTotal
  Proofs.OptionsProofs Proofs.VerifyProofs Proofs.CompileVerifies Proofs.CliProofs.
Import ListNotations.
Open Scope N_scope.

(* ======================================================================================== *)
(* 0. the shape of cli_run: obtain the program, then run_prog                                *)
(* ======================================================================================== *)

Definition dis_lines (d : bool) (g : prog) : list (otag * bytes) :=
  if d then match disasm g with
            | Some ls => map (fun l => (ODisasm, l)) ls
            | None => [(ODisasm, bs "<disasm panic>")] end
  else [].
Definition ps_lines (s : bool) (pr : parse_result) : list (otag * bytes) :=
  if s then map (fun l => (OStats, l)) (pstats_lines (pr_stats pr)) else [].

(* everything before run_prog: either the run ends here (inl), or a program and what has been
   printed so far *)
Definition obtain (a : pargs) (w : world) : cli_result + (prog * list (otag * bytes)) :=
  match open_file w (a_file a) with
  | None => inl (fail1 [] None [] EOpen)
  | Some src =>
    if a_bload a then
      match load_bytes src with
      | Ok p => inr (prog_of_parts p, dis_lines (a_disasm a) (prog_of_parts p))
      | Err l => inl (fail1 [] None [] (ELoad l))
      | Panic _ => inl (fail1 [] None [] (EModel (bs "load panic site")))
      end
    else
      let pr := parse_whole (input_name (a_file a)) src in
      if pr_oof pr then inl (fail1 [] None [] (EModel (bs "parser out of fuel")))
      else if pr_panic pr then inl (fail1 [] None [] (EModel (bs "parser panic site")))
      else if negb (pr_ok pr) then inl (fail1 (ps_lines (a_stats a) pr) None (g_lfs (pr_prog pr)) (EParse (pr_diags pr)))
      else inr (pr_prog pr, dis_lines (a_disasm a) (pr_prog pr) ++ ps_lines (a_stats a) pr)
  end.

Lemma cli_run_obtain : forall a w,
  cli_run a w = match obtain a w with inl r => r | inr (g, o) => run_prog a w g o end.
Proof.
  intros a w. unfold cli_run, obtain, dis_lines, ps_lines.
  destruct (open_file w (a_file a)) as [src|]; [|reflexivity].
  destruct (a_bload a).
  - destruct (load_bytes src); reflexivity.
  - cbv zeta.
    destruct (pr_oof (parse_whole (input_name (a_file a)) src)); [reflexivity|].
    destruct (pr_panic (parse_whole (input_name (a_file a)) src)); [reflexivity|].
    destruct (negb (pr_ok (parse_whole (input_name (a_file a)) src))); reflexivity.
Qed.

(* the dump step of run_prog *)
Definition dump_step (a : pargs) (w : world) (g : prog) : run_err + option (bytes * bytes) :=
  if a_bdump a then
    match w_target w (a_bdumpFile a) with
    | TgCreateFails => inl EDumpCreate
    | TgWriteFails => match dump (parts_of_prog g) with
                      | Ok _ => inl EDumpWrite
                      | Err _ => inl EDumpWrite
                      | Panic _ => inl (EModel (bs "dump panic site")) end
    | TgOk => match dump (parts_of_prog g) with
              | Ok b => inr (Some (a_bdumpFile a, b))
              | Err _ => inl EDumpWrite
              | Panic _ => inl (EModel (bs "dump panic site")) end
    end
  else inr None.

(* the Execute step and the exit status *)
Definition exec_step (a : pargs) (g : prog) (out0 : list (otag * bytes)) (written : option (bytes * bytes)) : cli_result :=
  let rr := execute g (a_trace a) (a_stats a) in
  let out := out0 ++ rr_out rr in
  match rr_res rr with
  | VOk => mkCli 0 out (if a_result a then Some rr else None) written (rr_warn rr) (g_lfs g) None
  | VErr pos msg => mkCli 1 out None written (rr_warn rr) (g_lfs g) (Some (ERuntime pos msg))
  | VInternal msg => mkCli 1 out None written (rr_warn rr) (g_lfs g) (Some (EInternal msg))
  | VPanic _ => mkCli 1 out None written (rr_warn rr) (g_lfs g) (Some (EModel (bs "vm panic site")))
  end.

Lemma run_prog_steps : forall a w g out0,
  run_prog a w g out0 = match dump_step a w g with
                        | inl e => fail1 out0 None (g_lfs g) e
                        | inr written => exec_step a g out0 written end.
Proof. reflexivity. Qed.

(* ======================================================================================== *)
(* 1. exit status                                                                            *)
(* ======================================================================================== *)

Definition status_ok (r : cli_result) : Prop :=
  (cr_status r = 0 /\ cr_err r = None) \/ (cr_status r = 1 /\ exists e, cr_err r = Some e).

Lemma fail1_status_ok : forall o wr l e, status_ok (fail1 o wr l e).
Proof. intros. right. split; [reflexivity|]. eexists; reflexivity. Qed.

Lemma exec_step_status_ok : forall a g o wr, status_ok (exec_step a g o wr).
Proof.
  intros. unfold exec_step. cbv zeta.
  destruct (rr_res (execute g (a_trace a) (a_stats a))).
  - left. split; reflexivity.
  - right. split; [reflexivity|eexists; reflexivity].
  - right. split; [reflexivity|eexists; reflexivity].
  - right. split; [reflexivity|eexists; reflexivity].
Qed.

Lemma run_prog_status_ok : forall a w g o, status_ok (run_prog a w g o).
Proof.
  intros. rewrite run_prog_steps. destruct (dump_step a w g).
  - apply fail1_status_ok.
  - apply exec_step_status_ok.
Qed.

Lemma cli_run_status_ok : forall a w, status_ok (cli_run a w).
Proof.
  intros a w. rewrite cli_run_obtain. unfold obtain.
  destruct (open_file w (a_file a)) as [src|]; [|apply fail1_status_ok].
  destruct (a_bload a).
  - destruct (load_bytes src); try apply fail1_status_ok. apply run_prog_status_ok.
  - cbv zeta.
    destruct (pr_oof _); [apply fail1_status_ok|].
    destruct (pr_panic _); [apply fail1_status_ok|].
    destruct (negb _); [apply fail1_status_ok|]. apply run_prog_status_ok.
Qed.

(* status 0 exactly when run() returned no error *)
Theorem status_spec : forall a w, cr_status (cli_run a w) = 0 <-> cr_err (cli_run a w) = None.
Proof.
  intros a w. destruct (cli_run_status_ok a w) as [[H1 H2]|[H1 [e H2]]]; rewrite H1, H2; split; intros; congruence.
Qed.
Print Assumptions status_spec.

Theorem status_01 : forall a w, cr_status (cli_run a w) = 0 \/ cr_status (cli_run a w) = 1.
Proof. intros a w. destruct (cli_run_status_ok a w) as [[H _]|[H _]]; auto. Qed.
Print Assumptions status_01.

(* status 1 exactly when run() returned an error (the message of main.go is that error) *)
Theorem status_1_spec : forall a w, cr_status (cli_run a w) = 1 <-> exists e, cr_err (cli_run a w) = Some e.
Proof.
  intros a w. destruct (cli_run_status_ok a w) as [[H1 H2]|[H1 [e H2]]]; rewrite H1, H2; split.
  - discriminate.
  - intros [e H]; discriminate.
  - intros _. eexists; reflexivity.
  - reflexivity.
Qed.
Print Assumptions status_1_spec.

(* after an error nothing is reported as result, and -- except when Execute itself failed --
   the error is the last thing that happened *)
Theorem error_no_result : forall a w e, cr_err (cli_run a w) = Some e -> cr_result (cli_run a w) = None.
Proof.
  intros a w e. rewrite cli_run_obtain.
  assert (R : forall g o, cr_err (run_prog a w g o) = Some e -> cr_result (run_prog a w g o) = None).
  { intros g o. rewrite run_prog_steps. destruct (dump_step a w g); [reflexivity|].
    unfold exec_step. cbv zeta. destruct (rr_res _); cbn [cr_err cr_result]; [discriminate|reflexivity..]. }
  destruct (obtain a w) as [r|[g o]] eqn:E; [|apply R].
  revert E. unfold obtain.
  destruct (open_file w (a_file a)) as [src|]; [|intros [= <-]; reflexivity].
  destruct (a_bload a).
  - destruct (load_bytes src); intros [= <-]; reflexivity.
  - cbv zeta. destruct (pr_oof _); [intros [= <-]; reflexivity|].
    destruct (pr_panic _); [intros [= <-]; reflexivity|].
    destruct (negb _); intros [= <-]; reflexivity.
Qed.
Print Assumptions error_no_result.

(* main(): 2 exactly for usage errors *)
Theorem main_status_2 : forall argv w,
  main_status (cli_main argv w) = 2 <-> exists e, parse_args argv = inl e.
Proof.
  intros argv w. unfold cli_main. destruct (parse_args argv) as [e|a].
  - cbn [main_status]. split; [intros _; eexists; reflexivity|reflexivity].
  - split.
    + destruct (a_help a); cbn [main_status]; [discriminate|].
      destruct (status_01 a w) as [H|H]; rewrite H; discriminate.
    + intros [e H]; discriminate.
Qed.
Print Assumptions main_status_2.

Theorem main_status_1 : forall argv w,
  main_status (cli_main argv w) = 1 <->
  exists a e, parse_args argv = inr a /\ a_help a = false /\ cr_err (cli_run a w) = Some e.
Proof.
  intros argv w. unfold cli_main. destruct (parse_args argv) as [u|a].
  - cbn [main_status]. split; [discriminate|]. intros (a & e & H & _); discriminate.
  - destruct (a_help a) eqn:Hh; cbn [main_status].
    + split; [discriminate|]. intros (a' & e & [= <-] & H & _). congruence.
    + rewrite status_1_spec. split.
      * intros [e H]. exists a, e. auto.
      * intros (a' & e & [= <-] & _ & H). eexists; exact H.
Qed.
Print Assumptions main_status_1.

Theorem main_status_0 : forall argv w,
  main_status (cli_main argv w) = 0 <->
  exists a, parse_args argv = inr a /\ (a_help a = true \/ cr_err (cli_run a w) = None).
Proof.
  intros argv w. unfold cli_main. destruct (parse_args argv) as [u|a].
  - cbn [main_status]. split; [discriminate|]. intros (a & H & _); discriminate.
  - destruct (a_help a) eqn:Hh; cbn [main_status].
    + split; [|reflexivity]. intros _. exists a. auto.
    + rewrite status_spec. split.
      * intros H. exists a. auto.
      * intros (a' & [= <-] & [H|H]); congruence.
Qed.
Print Assumptions main_status_0.

Theorem main_status_range : forall argv w,
  main_status (cli_main argv w) = 0 \/ main_status (cli_main argv w) = 1 \/ main_status (cli_main argv w) = 2.
Proof.
  intros argv w. unfold cli_main. destruct (parse_args argv) as [u|a]; [auto|].
  destruct (a_help a); cbn [main_status]; [auto|]. destruct (status_01 a w); auto.
Qed.
Print Assumptions main_status_range.

(* ---------------------------------------------------------------------------------------- *)
(* 1b. the "model gave up" errors                                                            *)
(* ---------------------------------------------------------------------------------------- *)

(* the parse path never ends at the parser's model sites (parse_total), whatever the input *)
Theorem cli_parser_never_gives_up : forall a w what,
  a_bload a = false -> cr_err (cli_run a w) = Some (EModel what) ->
  what = bs "dump panic site" \/ what = bs "vm panic site".
Proof.
  intros a w what Hb. unfold cli_run.
  destruct (open_file w (a_file a)) as [src|]; [|discriminate].
  rewrite Hb. cbv zeta.
  destruct (parse_total (input_name (a_file a)) [src]) as [E1 E2].
  fold (parse_whole (input_name (a_file a)) src) in E1, E2. rewrite E1, E2.
  destruct (negb _); [discriminate|].
  rewrite run_prog_steps. destruct (dump_step _ _ _) as [e|wr] eqn:D.
  - cbn [fail1 cr_err]. intros [= ->]. revert D. unfold dump_step.
    destruct (a_bdump a); [|discriminate].
    destruct (w_target w (a_bdumpFile a)); [| discriminate |];
      destruct (dump _); intros [= <-]; auto.
  - unfold exec_step. cbv zeta. destruct (rr_res _); cbn [cr_err]; intros [= <-]; auto.
Qed.
Print Assumptions cli_parser_never_gives_up.

(* dump has no error return at all (Dump's only failures are panics) *)
Lemma dump_consts_not_err : forall vs plen e, dump_consts plen vs <> Err e.
Proof.
  induction vs as [|v vs IH]; intros plen e; cbn [dump_consts]; [discriminate|].
  match goal with |- context [value_enc ?q v] => set (pl := q) end.
  destruct (value_enc pl v) eqn:Ev; cbn.
  - specialize (IH pl). destruct (dump_consts pl vs) eqn:Ed; cbn; try discriminate.
    intros [= ->]. eapply IH; reflexivity.
  - destruct v; cbn in Ev; try discriminate. destruct (_ <? _) in Ev; discriminate.
  - discriminate.
Qed.
Lemma dump_not_err : forall p e, dump p <> Err e.
Proof.
  intros p e. unfold dump. pose proof (dump_consts_not_err (p_consts p) scratch0) as H.
  destruct (dump_consts scratch0 (p_consts p)); cbn; try discriminate. intros [= ->]. eapply H; reflexivity.
Qed.

(* what Execute can return for code the verifier accepts (C10) *)
Lemma execute_verified : forall g t s, verify g = true ->
  match rr_res (execute g t s) with
  | VOk | VErr _ _ | VPanic PExcluded => True
  | _ => False
  end.
Proof.
  intros g t s Hv. rewrite execute_unfold.
  pose proof (C10_execute g (hook g t) Hv) as H.
  destruct (run_fuel (run_bound g) g (hook g t) (init_vm g)) as [m r]. cbn [rr_res].
  destruct r as [| | |k]; auto.
Qed.

(* the size bounds under which the parser's output is known to be well-formed for Dump
   (parse_wf_partial) and to verify (parsed_verifies) *)
Definition consts_bounded (name src : bytes) : Prop :=
  ps_constants (pr_stats (parse_whole name src)) < 2^64.
Definition dump_bounded (name src : bytes) : Prop :=
  3 * nlen src < 2^64 /\ nlen name < 2^64 /\ ps_code (pr_stats (parse_whole name src)) < 2^64.

Lemma parse_whole_wf : forall name src, consts_bounded name src -> dump_bounded name src ->
  wf_parts (parts_of_prog (pr_prog (parse_whole name src))).
Proof.
  intros name src Hc (H1 & H2 & H3). unfold parse_whole. apply parse_wf_partial; auto.
  cbn [concat]. rewrite app_nil_r. exact H1.
Qed.

(* the source path: the only remaining "model gave up" outcome is the excluded repetition case *)
Theorem never_model_gives_up : forall a w src what,
  open_file w (a_file a) = Some src -> a_bload a = false ->
  consts_bounded (input_name (a_file a)) src ->
  (a_bdump a = true -> dump_bounded (input_name (a_file a)) src) ->
  cr_err (cli_run a w) = Some (EModel what) ->
  what = bs "vm panic site" /\
  pr_ok (parse_whole (input_name (a_file a)) src) = true /\
  rr_res (execute (pr_prog (parse_whole (input_name (a_file a)) src)) (a_trace a) (a_stats a)) = VPanic PExcluded.
Proof.
  intros a w src what Ho Hb Hc Hd. unfold cli_run. rewrite Ho, Hb. cbv zeta.
  set (name := input_name (a_file a)) in *.
  destruct (parse_total name [src]) as [E1 E2].
  fold (parse_whole name src) in E1, E2. rewrite E1, E2.
  destruct (pr_ok (parse_whole name src)) eqn:Hok; cbn [negb]; [|discriminate].
  pose proof (parsed_verifies name src Hok E1 E2 Hc) as Hv.
  rewrite run_prog_steps. destruct (dump_step _ _ _) as [e|wr] eqn:D.
  - cbn [fail1 cr_err]. intros [= ->]. exfalso. revert D. unfold dump_step.
    destruct (a_bdump a); [|discriminate].
    destruct (dump_total _ (parse_whole_wf name src Hc (Hd eq_refl))) as [b Eb]. rewrite Eb.
    destruct (w_target w (a_bdumpFile a)); discriminate.
  - unfold exec_step. cbv zeta.
    pose proof (execute_verified (pr_prog (parse_whole name src)) (a_trace a) (a_stats a) Hv) as He.
    destruct (rr_res _) as [| | |k]; cbn [cr_err]; intros [= <-].
    destruct k; try contradiction. auto.
Qed.
Print Assumptions never_model_gives_up.

(* with the same bounds the "internal error" exit is excluded as well *)
Theorem never_internal_error : forall a w src msg,
  open_file w (a_file a) = Some src -> a_bload a = false ->
  consts_bounded (input_name (a_file a)) src ->
  cr_err (cli_run a w) <> Some (EInternal msg).
Proof.
  intros a w src msg Ho Hb Hc. unfold cli_run. rewrite Ho, Hb. cbv zeta.
  set (name := input_name (a_file a)) in *.
  destruct (parse_total name [src]) as [E1 E2].
  fold (parse_whole name src) in E1, E2. rewrite E1, E2.
  destruct (pr_ok (parse_whole name src)) eqn:Hok; cbn [negb]; [|discriminate].
  pose proof (parsed_verifies name src Hok E1 E2 Hc) as Hv.
  rewrite run_prog_steps. destruct (dump_step _ _ _) as [e|wr] eqn:D.
  - cbn [fail1 cr_err]. intros [= ->]. revert D. unfold dump_step.
    destruct (a_bdump a); [|discriminate].
    destruct (w_target w (a_bdumpFile a)); [|discriminate|]; destruct (dump _); discriminate.
  - unfold exec_step. cbv zeta.
    pose proof (execute_verified (pr_prog (parse_whole name src)) (a_trace a) (a_stats a) Hv) as He.
    destruct (rr_res _) as [| | |k]; cbn [cr_err]; try discriminate. contradiction.
Qed.
Print Assumptions never_internal_error.

(* the --bload path: what the existing theorems give.  A loaded program is arbitrary bytecode; Execute is
   covered only if it verifies, Dump only if the loaded parts are well-formed. *)
Lemma parts_prog_parts : forall p, parts_of_prog (prog_of_parts p) = p.
Proof. intros []; reflexivity. Qed.
Lemma prog_parts_prog : forall g, prog_of_parts (parts_of_prog g) = g.
Proof. intros []; reflexivity. Qed.

Theorem never_model_gives_up_bload : forall a w src p what,
  open_file w (a_file a) = Some src -> a_bload a = true ->
  load_bytes src = Ok p -> verify (prog_of_parts p) = true ->
  (a_bdump a = true -> wf_parts p) ->
  cr_err (cli_run a w) = Some (EModel what) ->
  what = bs "vm panic site" /\
  rr_res (execute (prog_of_parts p) (a_trace a) (a_stats a)) = VPanic PExcluded.
Proof.
  intros a w src p what Ho Hb Hl Hv Hd. unfold cli_run. rewrite Ho, Hb, Hl. cbv zeta.
  rewrite run_prog_steps. destruct (dump_step _ _ _) as [e|wr] eqn:D.
  - cbn [fail1 cr_err]. intros [= ->]. exfalso. revert D. unfold dump_step.
    destruct (a_bdump a); [|discriminate]. rewrite parts_prog_parts.
    destruct (dump_total _ (Hd eq_refl)) as [b Eb]. rewrite Eb.
    destruct (w_target w (a_bdumpFile a)); discriminate.
  - unfold exec_step. cbv zeta.
    pose proof (execute_verified (prog_of_parts p) (a_trace a) (a_stats a) Hv) as He.
    destruct (rr_res _) as [| | |k]; cbn [cr_err]; intros [= <-].
    destruct k; try contradiction. auto.
Qed.
Print Assumptions never_model_gives_up_bload.

(* the hypotheses of never_model_gives_up_bload cannot be dropped: two byte files *)
Definition args_bload (f : bytes) : pargs := mkArgs f false false false false false true [] f false.
Definition world_file (f b : bytes) : world := mkWorld [] [(f, b)] (fun _ => TgOk).
(* header, empty name, no code, ONE constant with the unknown type tag 9 *)
Example bload_load_panic_site :
  cr_err (cli_run (args_bload (bs "x.bcb")) (world_file (bs "x.bcb") [252; 108; 1; 1; 0; 0; 1; 9])) =
  Some (EModel (bs "load panic site")).
Proof. vm_compute. reflexivity. Qed.
(* a file that loads, whose code (a single ADD on an empty stack) does not verify *)
Example bload_vm_panic_site :
  let b := [252; 108; 1; 1; 0; 1; opADD; 0; 1; 0; 0] in
  match load_bytes b with Ok p => verify (prog_of_parts p) = false | _ => False end /\
  cr_err (cli_run (args_bload (bs "x.bcb")) (world_file (bs "x.bcb") b)) = Some (EModel (bs "vm panic site")).
Proof. vm_compute. split; reflexivity. Qed.

(* ======================================================================================== *)
(* 2. without --bload / --bdump the tool is Api.interpret                                    *)
(* ======================================================================================== *)

Theorem run_is_interpret : forall a w src,
  open_file w (a_file a) = Some src -> a_bload a = false -> a_bdump a = false ->
  let r := cli_run a w in
  let '(pr, io) := interpret (input_name (a_file a)) src (a_disasm a) (a_trace a) (a_stats a) in
  cr_written r = None /\ cr_lfs r = g_lfs (pr_prog pr) /\
  match io with
  | IParseErr diags out =>
    cr_stdout r = out /\ cr_err r = Some (EParse diags) /\ cr_status r = 1 /\ cr_result r = None /\
    cr_warnings r = []
  | IRun out rr =>
    cr_stdout r = out /\ cr_warnings r = rr_warn rr /\
    match rr_res rr with
    | VOk => cr_status r = 0 /\ cr_err r = None /\ cr_result r = (if a_result a then Some rr else None)
    | VErr pos msg => cr_status r = 1 /\ cr_err r = Some (ERuntime pos msg) /\ cr_result r = None
    | VInternal msg => cr_status r = 1 /\ cr_err r = Some (EInternal msg) /\ cr_result r = None
    | VPanic _ => cr_status r = 1 /\ cr_err r = Some (EModel (bs "vm panic site")) /\ cr_result r = None
    end
  | IModelFail _ => False
  end.
Proof.
  intros a w src Ho Hb Hd. cbv zeta. unfold cli_run, interpret. rewrite Ho, Hb. cbv zeta.
  set (name := input_name (a_file a)).
  destruct (parse_total name [src]) as [E1 E2].
  fold (parse_whole name src) in E1, E2. rewrite E1, E2.
  destruct (negb (pr_ok (parse_whole name src))).
  - cbn [fail1 cr_written cr_lfs cr_stdout cr_err cr_status cr_result cr_warnings]. repeat split.
  - rewrite run_prog_steps. unfold dump_step. rewrite Hd. unfold exec_step. cbv zeta.
    rewrite <- app_assoc.
    destruct (rr_res (execute (pr_prog (parse_whole name src)) (a_trace a) (a_stats a)));
      cbn [cr_written cr_lfs cr_stdout cr_err cr_status cr_result cr_warnings]; repeat split.
Qed.
Print Assumptions run_is_interpret.

(* the form asked for: stdout, status class, result *)
Corollary run_is_interpret_status : forall a w src,
  open_file w (a_file a) = Some src -> a_bload a = false -> a_bdump a = false ->
  let r := cli_run a w in
  match snd (interpret (input_name (a_file a)) src (a_disasm a) (a_trace a) (a_stats a)) with
  | IParseErr diags out => cr_stdout r = out /\ cr_err r = Some (EParse diags) /\ cr_status r = 1
  | IRun out rr =>
    cr_stdout r = out /\
    (rr_res rr = VOk -> cr_status r = 0 /\ cr_result r = (if a_result a then Some rr else None)) /\
    (rr_res rr <> VOk -> cr_status r = 1 /\ cr_result r = None)
  | IModelFail _ => False
  end.
Proof.
  intros a w src Ho Hb Hd. pose proof (run_is_interpret a w src Ho Hb Hd) as H. cbv zeta in *.
  destruct (interpret _ _ _ _ _) as [pr io]. cbn [snd]. destruct H as (_ & _ & H).
  destruct io as [ds out|out rr|]; [| |exact H].
  - destruct H as (H1 & H2 & H3 & _). auto.
  - destruct H as (H1 & _ & H). split; [exact H1|].
    destruct (rr_res rr); split; intros; try congruence; destruct H as (? & ? & ?); auto.
Qed.
Print Assumptions run_is_interpret_status.

(* ======================================================================================== *)
(* 3. --bdump: a successful dump only adds the written file; a failing one stops the run     *)
(* ======================================================================================== *)

Definition no_bdump (a : pargs) : pargs :=
  mkArgs (a_file a) (a_disasm a) (a_trace a) (a_result a) (a_stats a) false (a_bload a)
         (a_bdumpFile a) (a_bloadFile a) (a_help a).
Definition with_written (r : cli_result) (x : option (bytes * bytes)) : cli_result :=
  mkCli (cr_status r) (cr_stdout r) (cr_result r) x (cr_warnings r) (cr_lfs r) (cr_err r).

Lemma obtain_no_bdump : forall a w, obtain (no_bdump a) w = obtain a w.
Proof. intros [] w. reflexivity. Qed.

Lemma cli_run_no_bdump : forall a w,
  cli_run (no_bdump a) w = match obtain a w with inl r => r | inr (g, o) => exec_step a g o None end.
Proof.
  intros a w. rewrite cli_run_obtain, obtain_no_bdump. destruct (obtain a w) as [r|[g o]]; [reflexivity|].
  destruct a; reflexivity.
Qed.

(* an error before the dump step: the flag plays no role *)
Theorem bdump_not_reached : forall a w r, obtain a w = inl r ->
  cli_run a w = r /\ cli_run (no_bdump a) w = r /\ cr_written r = None /\ cr_status r = 1.
Proof.
  intros a w r E. rewrite cli_run_no_bdump, cli_run_obtain, E. repeat split.
  - revert E. unfold obtain. destruct (open_file w (a_file a)) as [src|]; [|intros [= <-]; reflexivity].
    destruct (a_bload a).
    + destruct (load_bytes src); intros [= <-]; reflexivity.
    + cbv zeta. destruct (pr_oof _); [intros [= <-]; reflexivity|].
      destruct (pr_panic _); [intros [= <-]; reflexivity|].
      destruct (negb _); intros [= <-]; reflexivity.
  - revert E. unfold obtain. destruct (open_file w (a_file a)) as [src|]; [|intros [= <-]; reflexivity].
    destruct (a_bload a).
    + destruct (load_bytes src); intros [= <-]; reflexivity.
    + cbv zeta. destruct (pr_oof _); [intros [= <-]; reflexivity|].
      destruct (pr_panic _); [intros [= <-]; reflexivity|].
      destruct (negb _); intros [= <-]; reflexivity.
Qed.
Print Assumptions bdump_not_reached.

(* the dump succeeded: the same run, plus the file *)
Theorem bdump_ok_only_writes : forall a w g o b,
  obtain a w = inr (g, o) -> a_bdump a = true -> w_target w (a_bdumpFile a) = TgOk ->
  dump (parts_of_prog g) = Ok b ->
  cli_run a w = with_written (cli_run (no_bdump a) w) (Some (a_bdumpFile a, b)) /\
  cr_written (cli_run (no_bdump a) w) = None.
Proof.
  intros a w g o b E Hd Ht Hb. rewrite cli_run_no_bdump, cli_run_obtain, E, run_prog_steps.
  unfold dump_step. rewrite Hd, Ht, Hb. unfold exec_step, with_written. cbv zeta.
  destruct (rr_res _); split; reflexivity.
Qed.
Print Assumptions bdump_ok_only_writes.

(* on the source path, under the size bounds, the dump always succeeds when the target is fine *)
Corollary bdump_ok_only_writes_source : forall a w src,
  open_file w (a_file a) = Some src -> a_bload a = false ->
  pr_ok (parse_whole (input_name (a_file a)) src) = true ->
  consts_bounded (input_name (a_file a)) src -> dump_bounded (input_name (a_file a)) src ->
  a_bdump a = true -> w_target w (a_bdumpFile a) = TgOk ->
  exists b, dump (parts_of_prog (pr_prog (parse_whole (input_name (a_file a)) src))) = Ok b /\
            cli_run a w = with_written (cli_run (no_bdump a) w) (Some (a_bdumpFile a, b)).
Proof.
  intros a w src Ho Hb Hok Hc Hs Hd Ht.
  destruct (dump_total _ (parse_whole_wf _ src Hc Hs)) as [b Eb]. exists b. split; [exact Eb|].
  eapply bdump_ok_only_writes; eauto.
  unfold obtain. rewrite Ho, Hb. cbv zeta.
  destruct (parse_total (input_name (a_file a)) [src]) as [E1 E2].
  fold (parse_whole (input_name (a_file a)) src) in E1, E2. rewrite E1, E2, Hok. reflexivity.
Qed.
Print Assumptions bdump_ok_only_writes_source.

(* the target cannot be created / written: status 1, nothing executed (stdout is what obtaining the
   program printed: disassembly and parser statistics), nothing written, no result *)
Theorem bdump_target_fails : forall a w g o,
  obtain a w = inr (g, o) -> a_bdump a = true -> w_target w (a_bdumpFile a) <> TgOk ->
  let r := cli_run a w in
  cr_status r = 1 /\ cr_stdout r = o /\ cr_written r = None /\ cr_result r = None /\ cr_warnings r = [] /\
  match w_target w (a_bdumpFile a) with
  | TgCreateFails => cr_err r = Some EDumpCreate
  | _ => cr_err r = Some EDumpWrite \/
         (cr_err r = Some (EModel (bs "dump panic site")) /\ exists k, dump (parts_of_prog g) = Panic k)
  end.
Proof.
  intros a w g o E Hd Ht. cbv zeta. rewrite cli_run_obtain, E, run_prog_steps. unfold dump_step. rewrite Hd.
  destruct (w_target w (a_bdumpFile a)); [contradiction| |].
  - repeat split.
  - destruct (dump (parts_of_prog g)); cbn [fail1 cr_status cr_stdout cr_written cr_result cr_warnings cr_err];
      repeat split; auto. right. split; [reflexivity|eexists; reflexivity].
Qed.
Print Assumptions bdump_target_fails.

(* a dump that fails although the target is fine: only at the model's panic site (dump has no error return),
   excluded on the source path by the size bounds (never_model_gives_up) *)
Theorem bdump_ok_target_dump_fails : forall a w g o,
  obtain a w = inr (g, o) -> a_bdump a = true -> w_target w (a_bdumpFile a) = TgOk ->
  (forall b, dump (parts_of_prog g) <> Ok b) ->
  cli_run a w = fail1 o None (g_lfs g) (EModel (bs "dump panic site")).
Proof.
  intros a w g o E Hd Ht Hn. rewrite cli_run_obtain, E, run_prog_steps. unfold dump_step. rewrite Hd, Ht.
  destruct (dump (parts_of_prog g)) as [b|e|k] eqn:D; [|exfalso; eapply dump_not_err; exact D|reflexivity].
  exfalso. eapply Hn; reflexivity.
Qed.
Print Assumptions bdump_ok_target_dump_fails.

(* ======================================================================================== *)
(* 5. -d / -t / -s only observe, at tool level                                               *)
(* ======================================================================================== *)

Definition same_but_opts (a a' : pargs) : Prop :=
  a_file a = a_file a' /\ a_result a = a_result a' /\ a_bdump a = a_bdump a' /\ a_bload a = a_bload a' /\
  a_bdumpFile a = a_bdumpFile a'.

(* the printed result: equal up to the output lines and the output-only parts of the final vm *)
Definition result_agrees (x y : option run_result) : Prop :=
  match x, y with
  | None, None => True
  | Some rr, Some rr' =>
    rr_res rr = rr_res rr' /\ rr_blocks rr = rr_blocks rr' /\ rr_binding rr = rr_binding rr' /\
    rr_warn rr = rr_warn rr' /\ same_but_out (rr_vm rr) (rr_vm rr')
  | _, _ => False
  end.

Definition agree (r r' : cli_result) : Prop :=
  cr_status r = cr_status r' /\ cr_err r = cr_err r' /\ cr_written r = cr_written r' /\
  cr_warnings r = cr_warnings r' /\ cr_lfs r = cr_lfs r' /\ result_agrees (cr_result r) (cr_result r') /\
  filter is_print (cr_stdout r) = filter is_print (cr_stdout r').

Lemma dis_lines_no_print : forall d g, filter is_print (dis_lines d g) = [].
Proof. intros. unfold dis_lines. apply dis_no_print. Qed.
Lemma ps_lines_no_print : forall s pr, filter is_print (ps_lines s pr) = [].
Proof. intros. unfold ps_lines. apply pstats_no_print. Qed.

Lemma exec_step_opts : forall a a' g o o' wr,
  a_result a = a_result a' -> filter is_print o = filter is_print o' ->
  agree (exec_step a g o wr) (exec_step a' g o' wr).
Proof.
  intros a a' g o o' wr Hr Ho. unfold exec_step. cbv zeta.
  pose proof (execute_rel g (a_trace a) (a_stats a)) as H. cbv zeta in H.
  pose proof (execute_rel g (a_trace a') (a_stats a')) as H'. cbv zeta in H'.
  destruct H as (B & Bi & Wn & Rs & Sb & Pr & _). destruct H' as (B' & Bi' & Wn' & Rs' & Sb' & Pr' & _).
  set (rr := execute g (a_trace a) (a_stats a)) in *.
  set (rr' := execute g (a_trace a') (a_stats a')) in *.
  assert (Er : rr_res rr = rr_res rr') by congruence.
  assert (Ew : rr_warn rr = rr_warn rr') by congruence.
  assert (Eo : filter is_print (o ++ rr_out rr) = filter is_print (o' ++ rr_out rr'))
    by (rewrite !filter_app, Ho, Pr, Pr'; reflexivity).
  assert (Ea : result_agrees (if a_result a then Some rr else None) (if a_result a' then Some rr' else None)).
  { rewrite <- Hr. destruct (a_result a); cbn [result_agrees]; [|exact I].
    do 4 (split; [congruence|]). eapply sbo_trans; [exact Sb|apply sbo_sym; exact Sb']. }
  rewrite <- Er. unfold agree.
  destruct (rr_res rr); cbn [cr_status cr_err cr_written cr_warnings cr_lfs cr_result cr_stdout];
    (split; [reflexivity|]); (split; [reflexivity|]); (split; [reflexivity|]); (split; [exact Ew|]);
    (split; [reflexivity|]); (split; [|exact Eo]); try exact Ea; exact I.
Qed.

Lemma dump_step_opts : forall a a' w g, same_but_opts a a' -> dump_step a w g = dump_step a' w g.
Proof. intros a a' w g (_ & _ & H1 & _ & H2). unfold dump_step. rewrite H1, H2. reflexivity. Qed.

Lemma fail1_agree : forall o o' l e,
  filter is_print o = filter is_print o' -> agree (fail1 o None l e) (fail1 o' None l e).
Proof. intros. unfold agree, fail1. cbn. repeat split; auto. Qed.

Theorem options_only_observe : forall a a' w, same_but_opts a a' -> agree (cli_run a w) (cli_run a' w).
Proof.
  intros a a' w S. pose proof S as (Hf & Hr & Hd & Hb & Hdf).
  assert (R : forall g o o', filter is_print o = filter is_print o' ->
                             agree (run_prog a w g o) (run_prog a' w g o')).
  { intros g o o' Ho. rewrite !run_prog_steps, <- (dump_step_opts a a' w g S).
    destruct (dump_step a w g); [apply fail1_agree; exact Ho|apply exec_step_opts; assumption]. }
  rewrite !cli_run_obtain. unfold obtain. rewrite <- Hf, <- Hb.
  destruct (open_file w (a_file a)) as [src|]; [|apply fail1_agree; reflexivity].
  destruct (a_bload a).
  - destruct (load_bytes src); try (apply fail1_agree; reflexivity).
    apply R. rewrite !dis_lines_no_print. reflexivity.
  - cbv zeta. destruct (pr_oof _); [apply fail1_agree; reflexivity|].
    destruct (pr_panic _); [apply fail1_agree; reflexivity|].
    destruct (negb _).
    + apply fail1_agree. rewrite !ps_lines_no_print. reflexivity.
    + apply R. rewrite !filter_app, !dis_lines_no_print, !ps_lines_no_print. reflexivity.
Qed.
Print Assumptions options_only_observe.

(* without the three options stdout has only the program's own print lines ... *)
Theorem plain_stdout_only_prints : forall a w,
  a_disasm a = false -> a_trace a = false -> a_stats a = false ->
  Forall (fun e => fst e = OPrint) (cr_stdout (cli_run a w)).
Proof.
  intros a w Hd Ht Hs.
  assert (R : forall g, Forall (fun e => fst e = OPrint) (cr_stdout (run_prog a w g []))).
  { intros g. rewrite run_prog_steps. destruct (dump_step a w g); [constructor|].
    unfold exec_step. cbv zeta. rewrite Ht, Hs.
    pose proof (execute_rel g false false) as H. cbv zeta in H. destruct H as (_ & _ & _ & _ & _ & _ & H).
    destruct (rr_res _); cbn [cr_stdout app]; exact H. }
  rewrite cli_run_obtain. unfold obtain, dis_lines, ps_lines. rewrite Hd, Hs.
  destruct (open_file w (a_file a)) as [src|]; [|constructor].
  destruct (a_bload a).
  - destruct (load_bytes src); try constructor. apply R.
  - cbv zeta. destruct (pr_oof _); [constructor|]. destruct (pr_panic _); [constructor|].
    destruct (negb _); [constructor|]. apply R.
Qed.
Print Assumptions plain_stdout_only_prints.

(* ... and with them, the print lines are exactly the plain run's stdout *)
Definition plain (a : pargs) : pargs :=
  mkArgs (a_file a) false false (a_result a) false (a_bdump a) (a_bload a) (a_bdumpFile a) (a_bloadFile a) (a_help a).

Corollary options_print_lines : forall a w,
  filter is_print (cr_stdout (cli_run a w)) = cr_stdout (cli_run (plain a) w) /\
  cr_status (cli_run a w) = cr_status (cli_run (plain a) w) /\
  cr_err (cli_run a w) = cr_err (cli_run (plain a) w) /\
  cr_written (cli_run a w) = cr_written (cli_run (plain a) w).
Proof.
  intros a w. assert (S : same_but_opts a (plain a)) by (unfold same_but_opts, plain; cbn; repeat split).
  destruct (options_only_observe a (plain a) w S) as (H1 & H2 & H3 & _ & _ & _ & H7).
  split; [|split; [exact H1|split; [exact H2|exact H3]]].
  rewrite H7. apply is_print_all. apply plain_stdout_only_prints; reflexivity.
Qed.
Print Assumptions options_print_lines.

(* ======================================================================================== *)
(* 6. flag order, clusters, usage errors: from parse_args to the tool                        *)
(* ======================================================================================== *)

Lemma cli_main_congr : forall v1 v2 w, parse_args v1 = parse_args v2 -> cli_main v1 w = cli_main v2 w.
Proof. intros v1 v2 w H. unfold cli_main. rewrite H. reflexivity. Qed.

(* the boolean flags in any order, before or after the file, repeated, long or short *)
Corollary cli_flag_order : forall pre1 post1 pre2 post2 file w,
  Forall simple_flag (pre1 ++ post1) -> Forall simple_flag (pre2 ++ post2) ->
  same_flags (pre1 ++ post1) (pre2 ++ post2) -> is_file_arg file ->
  cli_main (pre1 ++ [file] ++ post1) w = cli_main (pre2 ++ [file] ++ post2) w.
Proof. intros. apply cli_main_congr, C18_flag_order_set; assumption. Qed.
Print Assumptions cli_flag_order.

(* a cluster is its letters *)
Corollary cli_cluster : forall cs more w,
  (2 <= length cs)%nat -> forallb is_lower cs = true ->
  cli_main ((45 :: cs) :: more) w = cli_main (map (fun c => [45; c]) cs ++ more) w.
Proof. intros. apply cli_main_congr, C18_cluster_gen; assumption. Qed.
Print Assumptions cli_cluster.

(* what a line of boolean flags and one file runs *)
Corollary cli_flags_file : forall pre post file w,
  Forall simple_flag (pre ++ post) -> is_file_arg file -> file <> [] ->
  cli_main (pre ++ [file] ++ post) w =
  let '(d, t, r, s) := letters (pre ++ post) in
  MRun (cli_run (mkArgs file d t r s false false [] [] false) w).
Proof.
  intros pre post file w F Hf Hne. unfold cli_main. apply Forall_app in F. destruct F as [F1 F2].
  rewrite (parse_line pre post file F1 F2 Hf).
  destruct (letters (pre ++ post)) as [[[d t] r] s]. destruct file as [|c file]; [contradiction Hne; reflexivity|].
  unfold finish, with_letters, args0. cbn. rewrite !Bool.orb_false_r. reflexivity.
Qed.
Print Assumptions cli_flags_file.

(* no file: standard input *)
Corollary cli_default_stdin : forall l w, Forall simple_flag l ->
  cli_main l w = let '(d, t, r, s) := letters l in MRun (cli_run (mkArgs [45] d t r s false false [] [] false) w).
Proof.
  intros l w F. unfold cli_main. rewrite (C18_default_stdin l F).
  destruct (letters l) as [[[d t] r] s]. reflexivity.
Qed.
Print Assumptions cli_default_stdin.

(* bare --bdump derives the target from the source name *)
Corollary cli_bdump_name : forall l1 l2 l3 f w,
  Forall simple_flag l1 -> Forall simple_flag l2 -> Forall simple_flag l3 ->
  is_file_arg (f ++ bs ".bcl") ->
  cli_main (l1 ++ bs "--bdump" :: l2 ++ (f ++ bs ".bcl") :: l3) w =
  let '(d, t, r, s) := letters (l1 ++ l2 ++ l3) in
  MRun (cli_run (mkArgs (f ++ bs ".bcl") d t r s true false (f ++ bs ".bcb") [] false) w).
Proof.
  intros l1 l2 l3 f w F1 F2 F3 Hf. unfold cli_main. rewrite (C18_bdump_name_gen l1 l2 l3 f F1 F2 F3 Hf).
  destruct (letters (l1 ++ l2 ++ l3)) as [[[d t] r] s]. reflexivity.
Qed.
Print Assumptions cli_bdump_name.

(* the usage errors of CliProofs: exit status 2, nothing runs *)
Lemma usage_status : forall argv e w, parse_args argv = inl e ->
  cli_main argv w = MUsage e /\ main_status (cli_main argv w) = 2.
Proof. intros argv e w H. unfold cli_main. rewrite H. split; reflexivity. Qed.

Corollary cli_usage_errors : forall w,
  (forall pre x more, Forall simple_flag pre ->
     x <> 104 -> x <> 100 -> x <> 116 -> x <> 114 -> x <> 115 -> x <> 45 ->
     main_status (cli_main (pre ++ [45; x] :: more) w) = 2) /\
  (forall pre c r more, Forall simple_flag pre -> c <> 61 ->
     main_status (cli_main (pre ++ (bs "--bdump" ++ c :: r) :: more) w) = 2 /\
     main_status (cli_main (pre ++ (bs "--bload" ++ c :: r) :: more) w) = 2) /\
  (forall pre c1 c2 cs more, Forall simple_flag pre -> c1 <> 45 ->
     forallb is_lower (c1 :: c2 :: cs) = false ->
     main_status (cli_main (pre ++ (45 :: c1 :: c2 :: cs) :: more) w) = 2) /\
  (forall l1 l2 l3 f1 f2, Forall simple_flag l1 -> Forall simple_flag l2 -> Forall simple_flag l3 ->
     is_file_arg f1 -> is_file_arg f2 ->
     main_status (cli_main (l1 ++ f1 :: l2 ++ f2 :: l3) w) = 2) /\
  (forall l1 l2 l3 f, Forall simple_flag l1 -> Forall simple_flag l2 -> Forall simple_flag l3 ->
     is_file_arg f -> has_suffix (bs ".bcl") f = false ->
     main_status (cli_main (l1 ++ bs "--bdump" :: l2 ++ f :: l3) w) = 2) /\
  (forall l1 l2, Forall simple_flag l1 -> Forall simple_flag l2 ->
     main_status (cli_main (l1 ++ bs "--bdump" :: l2) w) = 2) /\
  (forall l1 l2 l3 F f, Forall simple_flag l1 -> Forall simple_flag l2 -> Forall simple_flag l3 ->
     is_file_arg f -> F <> [] -> f <> [] ->
     main_status (cli_main (l1 ++ (bs "--bload=" ++ F) :: l2 ++ f :: l3) w) = 2).
Proof.
  intros w. repeat split; intros.
  - eapply usage_status, C18_err_unknown_letter; assumption.
  - eapply usage_status. apply (C18_err_bdump_malformed pre c r more); assumption.
  - eapply usage_status. apply (C18_err_bdump_malformed pre c r more); assumption.
  - eapply usage_status, C18_err_cluster; assumption.
  - eapply usage_status, C18_err_two_files; assumption.
  - eapply usage_status, C18_err_bdump_name; assumption.
  - eapply usage_status, C18_err_bdump_stdin; assumption.
  - eapply usage_status, C18_err_bload_conflict; assumption.
Qed.
Print Assumptions cli_usage_errors.

(* ======================================================================================== *)
(* 4. --bdump, then --bload of the written file                                              *)
(* ======================================================================================== *)

Lemma exec_step_written : forall a g o wr, cr_written (exec_step a g o wr) = wr.
Proof. intros. unfold exec_step. cbv zeta. destruct (rr_res _); reflexivity. Qed.

(* a source run that wrote a file got as far as Execute *)
Lemma source_run_written : forall a w src f b,
  open_file w (a_file a) = Some src -> a_bload a = false ->
  cr_written (cli_run a w) = Some (f, b) ->
  let pr := parse_whole (input_name (a_file a)) src in
  pr_ok pr = true /\ a_bdump a = true /\ w_target w (a_bdumpFile a) = TgOk /\ f = a_bdumpFile a /\
  dump (parts_of_prog (pr_prog pr)) = Ok b /\
  cli_run a w = exec_step a (pr_prog pr) (dis_lines (a_disasm a) (pr_prog pr) ++ ps_lines (a_stats a) pr)
                          (Some (f, b)).
Proof.
  intros a w src f b Ho Hb. cbv zeta. rewrite cli_run_obtain. unfold obtain. rewrite Ho, Hb. cbv zeta.
  destruct (parse_total (input_name (a_file a)) [src]) as [E1 E2].
  fold (parse_whole (input_name (a_file a)) src) in E1, E2. rewrite E1, E2.
  destruct (pr_ok (parse_whole (input_name (a_file a)) src)); cbn [negb]; [|discriminate].
  rewrite run_prog_steps.
  destruct (dump_step a w _) as [e|wr] eqn:D; [discriminate|].
  rewrite exec_step_written. intros ->. split; [reflexivity|].
  revert D. unfold dump_step. destruct (a_bdump a); [|discriminate].
  destruct (w_target w (a_bdumpFile a)); [|discriminate|];
    destruct (dump (parts_of_prog _)); try discriminate. intros [= -> ->]. auto 10.
Qed.

(* a source run that wrote (f, b); then a --bload run (any world in which f has content b) with the same
   -t, -s, -r.  The second run executes the same program: same status, error, result, warnings, line table;
   stdout differs only in what precedes Execute's output: the first run prints its disassembly (-d) and the
   PARSER statistics (-s), the second only its disassembly (-d): LoadProg has no statistics. *)
Theorem bdump_then_bload : forall a w src f b a' w',
  open_file w (a_file a) = Some src -> a_bload a = false ->
  consts_bounded (input_name (a_file a)) src -> dump_bounded (input_name (a_file a)) src ->
  cr_written (cli_run a w) = Some (f, b) ->
  a_bload a' = true -> a_bdump a' = false -> a_file a' = f -> open_file w' f = Some b ->
  a_trace a' = a_trace a -> a_stats a' = a_stats a -> a_result a' = a_result a ->
  let pr := parse_whole (input_name (a_file a)) src in
  let g := pr_prog pr in
  let rr := execute g (a_trace a) (a_stats a) in
  let r := cli_run a w in
  let r' := cli_run a' w' in
  (a_bdump a = true /\ w_target w (a_bdumpFile a) = TgOk /\ f = a_bdumpFile a /\ pr_ok pr = true /\
   dump (parts_of_prog g) = Ok b /\ load_bytes b = Ok (parts_of_prog g)) /\
  cr_stdout r = dis_lines (a_disasm a) g ++ ps_lines (a_stats a) pr ++ rr_out rr /\
  cr_stdout r' = dis_lines (a_disasm a') g ++ rr_out rr /\
  cr_status r' = cr_status r /\ cr_err r' = cr_err r /\ cr_result r' = cr_result r /\
  cr_warnings r' = cr_warnings r /\ cr_lfs r' = cr_lfs r /\ cr_written r' = None.
Proof.
  intros a w src f b a' w' Ho Hb Hc Hs Hw Hb' Hd' Hf' Ho' Ht Hst Hr. cbv zeta.
  destruct (source_run_written a w src f b Ho Hb Hw) as (Hok & H1 & H2 & H3 & H4 & ->).
  pose proof (parse_whole_wf _ src Hc Hs) as Wf.
  pose proof (load_dump_bytes _ _ Wf H4) as HL.
  split; [repeat split; assumption|].
  set (g := pr_prog (parse_whole (input_name (a_file a)) src)) in *.
  unfold cli_run. rewrite Hf', Ho', Hb', HL, prog_parts_prog. cbv zeta.
  fold (dis_lines (a_disasm a') g).
  rewrite run_prog_steps. unfold dump_step. rewrite Hd'.
  unfold exec_step. cbv zeta. rewrite Ht, Hst, Hr, <- app_assoc.
  destruct (rr_res (execute g (a_trace a) (a_stats a)));
    cbn [cr_stdout cr_status cr_err cr_result cr_warnings cr_lfs cr_written]; repeat split.
Qed.
Print Assumptions bdump_then_bload.

(* the same with any -d / -t / -s on the second run, up to what these options add *)
Corollary bdump_then_bload_any_options : forall a w src f b a' w',
  open_file w (a_file a) = Some src -> a_bload a = false ->
  consts_bounded (input_name (a_file a)) src -> dump_bounded (input_name (a_file a)) src ->
  cr_written (cli_run a w) = Some (f, b) ->
  a_bload a' = true -> a_bdump a' = false -> a_file a' = f -> open_file w' f = Some b ->
  a_result a' = a_result a ->
  let r := cli_run a w in
  let r' := cli_run a' w' in
  cr_status r' = cr_status r /\ cr_err r' = cr_err r /\ cr_warnings r' = cr_warnings r /\
  cr_lfs r' = cr_lfs r /\ result_agrees (cr_result r') (cr_result r) /\
  filter is_print (cr_stdout r') = filter is_print (cr_stdout r).
Proof.
  intros a w src f b a' w' Ho Hb Hc Hs Hw Hb' Hd' Hf' Ho' Hr. cbv zeta.
  set (a2 := mkArgs (a_file a') (a_disasm a') (a_trace a) (a_result a') (a_stats a) (a_bdump a') (a_bload a')
                    (a_bdumpFile a') (a_bloadFile a') (a_help a')).
  assert (S : same_but_opts a' a2) by (unfold same_but_opts, a2; cbn; repeat split).
  destruct (options_only_observe a' a2 w' S) as (A1 & A2 & _ & A4 & A5 & A6 & A7).
  pose proof (bdump_then_bload a w src f b a2 w' Ho Hb Hc Hs Hw Hb' Hd' Hf' Ho' eq_refl eq_refl Hr) as H.
  cbv zeta in H. destruct H as (_ & O1 & O2 & B1 & B2 & B3 & B4 & B5 & _).
  rewrite A1, A2, A4, A5, A7, B1, B2, B4, B5. do 4 (split; [reflexivity|]). split.
  - rewrite <- B3. exact A6.
  - rewrite O1, O2. rewrite !filter_app, !dis_lines_no_print, ps_lines_no_print. reflexivity.
Qed.
Print Assumptions bdump_then_bload_any_options.

(* ======================================================================================== *)
(* non-vacuity: one concrete world                                                           *)
(* ======================================================================================== *)
Definition demo_src : bytes := bs "print 1 + 2" ++ [10] ++ bs "def a { x = 3 } bind a -> struct" ++ [10].
Definition demo_world : world :=
  mkWorld [] [(bs "p.bcl", demo_src)] (fun f => if bytes_eqb f (bs "ro.bcb") then TgCreateFails else TgOk).
Definition demo_args (argv : list string) : list bytes := map bs argv.

Example demo_flag_order_and_cluster :
  cli_main (demo_args ["-s"; "p.bcl"; "-r"; "--disasm"]%string) demo_world =
  cli_main (demo_args ["-drs"; "p.bcl"]%string) demo_world /\
  main_status (cli_main (demo_args ["-drs"; "p.bcl"]%string) demo_world) = 0 /\
  main_status (cli_main (demo_args ["-x"; "p.bcl"]%string) demo_world) = 2 /\
  main_status (cli_main (demo_args ["q.bcl"]%string) demo_world) = 1 /\
  main_status (cli_main (demo_args ["--bdump=ro.bcb"; "p.bcl"]%string) demo_world) = 1.
Proof. vm_compute. repeat split. Qed.

Example demo_bdump_bload :
  match cli_main (demo_args ["--bdump"; "-r"; "p.bcl"]%string) demo_world with
  | MRun r =>
    match cr_written r with
    | Some (f, b) =>
      f = bs "p.bcb" /\ cr_status r = 0 /\
      match cli_main (demo_args ["--bload=p.bcb"; "-r"]%string) (mkWorld [] [(f, b)] (fun _ => TgOk)) with
      | MRun r' => cr_status r' = 0 /\ cr_stdout r' = cr_stdout r /\ cr_result r' = cr_result r /\
                   cr_stdout r' = [(OPrint, bs "3" ++ [10])]
      | _ => False end
    | None => False end
  | _ => False end.
Proof. vm_compute. repeat split. Qed.
