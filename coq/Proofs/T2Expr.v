(* T2Expr.v: first half of theorem T2 (the one-pass Pratt parser = grammar ; code generator).

   Part I  (sections 1-5): the "emitter view" of a parser state and, for every emitting primitive
     shared by Model/Parser.v and Model/Compile.v, congruence on that view / frame / error
     monotonicity (record EP); the token plumbing on error-free states; the simulation relation Sim.
   Part II (sections 6-8): expressions.  parse_prec / infix_loop / resolve_ident against
     pexpr / ploop followed by cexpr: one lemma by induction on the grammar's fuel covering both
     directions --
       grammar gives Some (e, r):  parser state ~ cexpr e (or both report an error)
       grammar gives None (with enough fuel):  the parser reports an error. *)
From Coq Require Import Lia ZifyN ZifyNat ZifyBool.
From RecordUpdate Require Import RecordSet.
From BCL Require Import Model.Compile Proofs.ParserInvProofs.
Import RecordSetNotations.
Open Scope N_scope.

(* ================================================================== *)
(* 1. emitter view, frame                                              *)
(* ================================================================== *)

(* what the code generator reads and writes *)
Definition ev (s : pst) :=
  (locals s, nlocals s, depth s, identRefs s, code s, ncode s, consts s, nconsts s, hadError s).
(* what it never touches unless it reports an error (or def_var panics) *)
Definition fr (s : pst) :=
  (toks s, prev s, cur_ s, hadLexFail s, panicMode s, oof s, ppanic s).

Ltac ev_inj H :=
  unfold ev in H; injection H as Hloc Hnl Hd Hir Hco Hnc Hcs Hncs Hhe.
Ltac ev_rw :=
  repeat match goal with
         | H : ?p ?s = ?p ?c |- _ => match type of s with pst => progress rewrite H end
         end.
Ltac ev_close := ev_rw; reflexivity.

Lemma ev_hadError : forall s c, ev s = ev c -> hadError s = hadError c.
Proof. intros s c H. ev_inj H. exact Hhe. Qed.
Lemma ev_depth : forall s c, ev s = ev c -> depth s = depth c.
Proof. intros s c H. ev_inj H. exact Hd. Qed.
Lemma ev_locals : forall s c, ev s = ev c -> locals s = locals c.
Proof. intros s c H. ev_inj H. exact Hloc. Qed.
Lemma ev_nlocals : forall s c, ev s = ev c -> nlocals s = nlocals c.
Proof. intros s c H. ev_inj H. exact Hnl. Qed.

Definition evc (f : pst -> pst) := forall s c, ev s = ev c -> ev (f s) = ev (f c).
Definition frc (f : pst -> pst) := forall s, hadError (f s) = false -> fr (f s) = fr s.
Definition mono (f : pst -> pst) := forall s, hadError s = true -> hadError (f s) = true.
Record EP (f : pst -> pst) : Prop := mkEP { ep_ev : evc f; ep_fr : frc f; ep_mono : mono f }.

Definition evc2 (g : pst -> N * pst) :=
  forall s c, ev s = ev c -> fst (g s) = fst (g c) /\ ev (snd (g s)) = ev (snd (g c)).
Record EP2 (g : pst -> N * pst) : Prop := mkEP2 {
  ep2_ev : evc2 g;
  ep2_fr : frc (fun s => snd (g s));
  ep2_mono : mono (fun s => snd (g s)) }.

Lemma not_true_false : forall b, (b = true -> False) -> b = false.
Proof. intros [|] H; [exfalso; auto|reflexivity]. Qed.

Lemma EP_id : EP (fun s => s).
Proof. split; intros s; auto. Qed.

Lemma EP_comp : forall f g, EP f -> EP g -> EP (fun s => f (g s)).
Proof.
  intros f g [fe ff fm] [ge gf gm]. split.
  - intros s c H. apply fe, ge, H.
  - intros s H. assert (Hg : hadError (g s) = false).
    { apply not_true_false. intros E. apply fm in E. congruence. }
    rewrite (ff _ H). apply gf, Hg.
  - intros s H. apply fm, gm, H.
Qed.

Lemma EP_bind : forall g h, EP2 g -> (forall i, EP (h i)) -> EP (fun s => h (fst (g s)) (snd (g s))).
Proof.
  intros g h [ge gf gm] Hh. split.
  - intros s c H. destruct (ge s c H) as [E1 E2]. rewrite E1. apply (ep_ev _ (Hh _)), E2.
  - intros s H. assert (Hg : hadError (snd (g s)) = false).
    { apply not_true_false. intros E. apply (ep_mono _ (Hh (fst (g s)))) in E. congruence. }
    rewrite (ep_fr _ (Hh _) _ H). apply gf, Hg.
  - intros s H. apply (ep_mono _ (Hh _)), gm, H.
Qed.

Lemma EP_if : forall (b : pst -> bool) f g, (forall s c, ev s = ev c -> b s = b c) ->
  EP f -> EP g -> EP (fun s => if b s then f s else g s).
Proof.
  intros b f g Hb [fe ff fm] [ge gf gm]. split.
  - intros s c H. rewrite (Hb s c H). destruct (b c); [apply fe|apply ge]; exact H.
  - intros s H. destruct (b s); [apply ff|apply gf]; exact H.
  - intros s H. destruct (b s); [apply fm|apply gm]; exact H.
Qed.

Lemma EP_ext : forall f g, (forall s, f s = g s) -> EP f -> EP g.
Proof.
  intros f g E [fe ff fm]. split.
  - intros s c H. rewrite <- !E. apply fe, H.
  - intros s H. rewrite <- E in *. apply ff, H.
  - intros s H. rewrite <- E. apply fm, H.
Qed.

Lemma let_pair : forall {A B C} (p : A * B) (K : A -> B -> C),
  (let '(a, b) := p in K a b) = K (fst p) (snd p).
Proof. intros A B C [a b] K. reflexivity. Qed.

(* ================================================================== *)
(* 2. the primitives                                                   *)
(* ================================================================== *)

Lemma EP_write : forall b, EP (write b).
Proof.
  intros b. split.
  - intros s c H. ev_inj H. unfold ev, write. cbn. ev_close.
  - intros s _. reflexivity.
  - intros s H. exact H.
Qed.

Lemma EP_emit_op : forall o, EP (emit_op o).
Proof.
  intros o. split.
  - intros s c H. change (ev (write o s) = ev (write o c)). apply EP_write, H.
  - intros s _. reflexivity.
  - intros s H. exact H.
Qed.

Lemma EP_emit_bytes : forall bb, EP (emit_bytes bb).
Proof.
  unfold emit_bytes. induction bb as [|b bb IH]; cbn [fold_left].
  - apply EP_id.
  - apply (EP_comp _ (write b)); [exact IH|apply EP_write].
Qed.

Lemma EP_emit_uvarint : forall x, EP (emit_uvarint x).
Proof. intros. apply EP_emit_bytes. Qed.

Lemma EP_emit_ops : forall os, EP (emit_ops os).
Proof.
  unfold emit_ops. induction os as [|o os IH]; cbn [fold_left].
  - apply EP_id.
  - apply (EP_comp _ (emit_op o)); [exact IH|apply EP_emit_op].
Qed.

Lemma EP_error_at : forall t m, EP (error_at t m).
Proof.
  intros t m. split.
  - intros s c H. ev_inj H. unfold ev, error_at. cbn. ev_close.
  - intros s H. discriminate H.
  - intros s _. reflexivity.
Qed.
(* the generator's and the parser's error sites differ in the token they quote *)
Lemma error_at_ev : forall t t' m m' s c, ev s = ev c -> ev (error_at t m s) = ev (error_at t' m' c).
Proof. intros t t' m m' s c H. ev_inj H. unfold ev, error_at. cbn. ev_close. Qed.
Lemma EP_perror : forall m, EP (perror m).
Proof.
  intros m. split.
  - intros s c H. apply error_at_ev, H.
  - intros s H. discriminate H.
  - intros s _. reflexivity.
Qed.
Lemma EP_perr : forall m, EP (perr m).
Proof. intros m. apply EP_perror. Qed.

Lemma EP2_add_const : forall v, EP2 (add_const v).
Proof.
  intros v. split.
  - intros s c H. ev_inj H. unfold ev, add_const. cbn. split; [exact Hncs|ev_close].
  - intros s _. reflexivity.
  - intros s H. exact H.
Qed.

Lemma EP_set_identRefs : forall (x : pst -> list (bytes * N)),
  (forall s c, ev s = ev c -> x s = x c) -> EP (fun s => s <| identRefs := x s |>).
Proof.
  intros x Hx. split.
  - intros s c H. pose proof (Hx s c H) as E. ev_inj H. unfold ev. cbn. rewrite E. ev_close.
  - intros s _. reflexivity.
  - intros s H. exact H.
Qed.

Lemma EP2_make_const : forall v, EP2 (make_const v).
Proof.
  intros v. unfold make_const.
  destruct v as [| | | |[|b r]|]; try apply EP2_add_const.
  split.
  - intros s c H. pose proof H as H'. ev_inj H'. rewrite Hir.
    destruct (assoc_bytes [] (identRefs c)); cbn [fst snd]; [split; [reflexivity|exact H]|].
    unfold ev, add_const. cbn. split; [exact Hncs|ev_close].
  - intros s _. destruct (assoc_bytes [] (identRefs s)); reflexivity.
  - intros s H. destruct (assoc_bytes [] (identRefs s)); exact H.
Qed.

Lemma EP2_ident_const : forall n, EP2 (ident_const n).
Proof.
  intros n. unfold ident_const. split.
  - intros s c H. pose proof H as H'. ev_inj H'. rewrite Hir.
    destruct (assoc_bytes n (identRefs c)); cbn [fst snd]; [split; [reflexivity|exact H]|].
    destruct (ep2_ev _ (EP2_make_const (VStr n)) s c H) as [E1 E2].
    destruct (make_const (VStr n) s) as [i s1], (make_const (VStr n) c) as [j c1].
    cbn [fst snd] in *. subst j. split; [reflexivity|].
    clear Hloc Hnl Hd Hir Hco Hnc Hcs Hncs Hhe. ev_inj E2. unfold ev. cbn. ev_close.
  - intros s. destruct (assoc_bytes n (identRefs s)); cbn [snd]; [reflexivity|].
    pose proof (ep2_fr _ (EP2_make_const (VStr n)) s) as E. cbv beta in E.
    destruct (make_const (VStr n) s) as [i s1]. cbn [snd] in *. exact E.
  - intros s H. destruct (assoc_bytes n (identRefs s)); cbn [snd]; [exact H|].
    pose proof (ep2_mono _ (EP2_make_const (VStr n)) s H) as E. cbv beta in E.
    destruct (make_const (VStr n) s) as [i s1]. cbn [snd] in *. exact E.
Qed.

Lemma emit_const_eq : forall v s,
  emit_const v s = emit_uvarint (fst (make_const v s)) (emit_op opCONST (snd (make_const v s))).
Proof. intros. unfold emit_const. destruct (make_const v s). reflexivity. Qed.

Lemma EP_emit_const : forall v, EP (emit_const v).
Proof.
  intros v. eapply EP_ext; [intros s; symmetry; apply emit_const_eq|].
  apply (EP_bind (make_const v) (fun i s => emit_uvarint i (emit_op opCONST s))).
  - apply EP2_make_const.
  - intros i. apply (EP_comp (emit_uvarint i) (emit_op opCONST)); [apply EP_emit_uvarint|apply EP_emit_op].
Qed.

Lemma ncode_ev : forall s c, ev s = ev c -> ncode s = ncode c.
Proof. intros s c H. ev_inj H. exact Hnc. Qed.

Lemma EP2_emit_jump : forall o, EP2 (emit_jump o).
Proof.
  intros o. unfold emit_jump. cbv zeta.
  pose proof (EP_comp (emit_bytes [255; 255]) (emit_op o) (EP_emit_bytes _) (EP_emit_op o)) as E.
  split; cbn [fst snd].
  - intros s c H. pose proof (ep_ev _ E s c H) as H1. cbv beta in H1. split; [|exact H1].
    rewrite (ncode_ev _ _ H1). reflexivity.
  - apply E.
  - apply E.
Qed.

Lemma EP_set_code : forall (x : pst -> bytes),
  (forall s c, ev s = ev c -> x s = x c) -> EP (fun s => s <| code := x s |>).
Proof.
  intros x Hx. split.
  - intros s c H. pose proof (Hx s c H) as E. ev_inj H. unfold ev. cbn. rewrite E. ev_close.
  - intros s _. reflexivity.
  - intros s H. exact H.
Qed.

Lemma EP_patch_jump : forall off, EP (patch_jump off).
Proof.
  intros off. unfold patch_jump. cbv zeta.
  apply (EP_if (fun s => 65535 <? ncode s - off - 2) (perr "jump too long")
               (fun s => s <| code := set_nth (set_nth (code s) (N.to_nat (ncode s - off - 2))
                                               ((ncode s - off - 2) mod 256))
                                      (S (N.to_nat (ncode s - off - 2))) (((ncode s - off - 2) / 256) mod 256) |>)).
  - intros s c H. ev_inj H. ev_close.
  - apply EP_perr.
  - apply EP_set_code. intros s c H. ev_inj H. ev_close.
Qed.

Lemma EP_pop_n : forall n, EP (pop_n n).
Proof.
  intros n. unfold pop_n.
  destruct (n =? 0); [apply EP_id|]. destruct (n =? 1); [apply EP_emit_op|].
  apply (EP_comp (emit_uvarint n) (emit_op opPOPN)); [apply EP_emit_uvarint|apply EP_emit_op].
Qed.

Lemma EP_begin_scope : EP begin_scope.
Proof.
  split.
  - intros s c H. ev_inj H. unfold ev, begin_scope. cbn. ev_close.
  - intros s _. reflexivity.
  - intros s H. exact H.
Qed.

Lemma end_scope_eq : forall s,
  end_scope s =
    pop_n (snd (drop_locals (locals s) (depth s - 1) 0))
      (s <| depth := (depth s - 1)%Z |> <| locals := fst (drop_locals (locals s) (depth s - 1) 0) |>
         <| nlocals := nlocals s - snd (drop_locals (locals s) (depth s - 1) 0) |>).
Proof. intros. unfold end_scope. cbv zeta. destruct (drop_locals _ _ _). reflexivity. Qed.

Lemma EP_end_scope : EP end_scope.
Proof.
  split.
  - intros s c H. rewrite !end_scope_eq. pose proof H as H'. ev_inj H'. rewrite Hloc, Hd.
    apply EP_pop_n. unfold ev. cbn. ev_close.
  - intros s H. rewrite end_scope_eq in *. rewrite (ep_fr _ (EP_pop_n _) _ H). reflexivity.
  - intros s H. rewrite end_scope_eq. apply EP_pop_n. exact H.
Qed.

Lemma EP_decl_scan : forall ls name d, EP (decl_scan ls name d).
Proof.
  induction ls as [|[nm ld] r IH]; intros name d; cbn [decl_scan]; [apply EP_id|].
  destruct (negb (ld =? -1)%Z && (ld <? d)%Z); [apply EP_id|].
  destruct (bytes_eqb name nm).
  - apply (EP_comp (decl_scan r name d) (perr _)); [apply IH|apply EP_perr].
  - apply IH.
Qed.

Lemma EP_add_local : forall name, EP (add_local name).
Proof.
  intros name. unfold add_local.
  apply (EP_if (fun s => nlocals s =? localsMaxSize) (perr "too many local variables")
               (fun s => s <| locals := (name, (-1)%Z) :: locals s |> <| nlocals := nlocals s + 1 |>
                           <| st_localMax := N.max (st_localMax s) (nlocals s + 1) |>)).
  - intros s c H. ev_inj H. ev_close.
  - apply EP_perr.
  - split.
    + intros s c H. ev_inj H. unfold ev. cbn. ev_close.
    + intros s _. reflexivity.
    + intros s H. exact H.
Qed.

Lemma EP_cdecl_var : forall name, EP (cdecl_var name).
Proof.
  intros name. unfold cdecl_var. split.
  - intros s c H. pose proof H as H'. ev_inj H'. rewrite Hloc, Hd.
    apply EP_add_local, EP_decl_scan, H.
  - intros s. apply (ep_fr _ (EP_comp (add_local name) (decl_scan (locals s) name (depth s))
                     (EP_add_local _) (EP_decl_scan _ _ _))).
  - intros s. apply (ep_mono _ (EP_comp (add_local name) (decl_scan (locals s) name (depth s))
                     (EP_add_local _) (EP_decl_scan _ _ _))).
Qed.

Lemma decl_var_eq : forall s, decl_var s = cdecl_var (tval (prev s)) s.
Proof. reflexivity. Qed.

(* def_var: frame only when there is a local *)
Lemma def_var_ev : evc def_var.
Proof.
  intros s c H. ev_inj H. unfold def_var. rewrite Hloc.
  destruct (locals c) as [|[nm z] r] eqn:E; unfold ev; cbn; rewrite ?Hloc, ?E; ev_close.
Qed.
Lemma def_var_mono : mono def_var.
Proof. intros s H. unfold def_var. destruct (locals s) as [|[nm z] r]; exact H. Qed.
Lemma def_var_fr : forall s, locals s <> [] -> fr (def_var s) = fr s.
Proof. intros s H. unfold def_var. destruct (locals s) as [|[nm z] r]; [congruence|reflexivity]. Qed.

(* literals of the generator *)
Lemma clit_int : forall z s,
  clit (VInt z) s = if (z =? 0)%Z then emit_op opZERO s
                    else if (z =? 1)%Z then emit_op opONE s else emit_const (VInt z) s.
Proof. intros [|[p|p|]|p] s; reflexivity. Qed.

Lemma EP_clit : forall v, EP (clit v).
Proof.
  intros v. destruct v as [| b | z | b | b |]; cbn [clit]; try apply EP_emit_op; try apply EP_emit_const.
  - destruct b; apply EP_emit_op.
  - eapply EP_ext; [intros s; symmetry; apply clit_int|].
    destruct (z =? 0)%Z; [apply EP_emit_op|]. destruct (z =? 1)%Z; [apply EP_emit_op|apply EP_emit_const].
Qed.

(* ================================================================== *)
(* 3. errors are never cleared (parser side: the generic preservation  *)
(*    lemma of ParserInvProofs instantiated with hadError = true)       *)
(* ================================================================== *)

Definition HE (s : pst) : Prop := hadError s = true.

Ltac he_tac L :=
  first [apply (L HE (fun _ => True) (fun _ => True)) | apply (L HE (fun _ => True)) | apply (L HE)];
  try (intros; exact I);
  try (intros; unfold HE in *; first [apply advance_hadError; assumption | reflexivity | assumption]).

Create HintDb he.

Lemma he_advance : forall s, hadError s = true -> hadError (advance s) = true.
Proof. exact advance_hadError. Qed.
Lemma he_perr : forall m s, hadError (perr m s) = true.
Proof. reflexivity. Qed.
Lemma he_perrc : forall m s, hadError (perrc m s) = true.
Proof. reflexivity. Qed.
Lemma he_perror : forall m s, hadError (perror m s) = true.
Proof. reflexivity. Qed.
Lemma he_errc : forall m s, hadError (error_at_current m s) = true.
Proof. reflexivity. Qed.
Lemma he_consume : forall t m s, hadError s = true -> hadError (consume t m s) = true.
Proof. intros t m s H. change (HE (consume t m s)). he_tac consume_pres. Qed.
Lemma he_pmatch : forall t s, hadError s = true -> hadError (snd (pmatch t s)) = true.
Proof. intros t s H. change (HE (snd (pmatch t s))). he_tac pmatch_pres. Qed.
Lemma he_match_end : forall s, hadError s = true -> hadError (snd (match_end s)) = true.
Proof. intros s H. change (HE (snd (match_end s))). he_tac match_end_pres. Qed.
Lemma he_parse_prec : forall F q s, hadError s = true -> hadError (parse_prec F q s) = true.
Proof. intros F q s H. change (HE (parse_prec F q s)). he_tac parse_prec_pres. Qed.
Lemma he_infix_loop : forall F q ca s, hadError s = true -> hadError (infix_loop F q ca s) = true.
Proof. intros F q ca s H. change (HE (infix_loop F q ca s)). he_tac infix_loop_pres. Qed.
Lemma he_resolve_ident : forall F n ca s, hadError s = true -> hadError (resolve_ident F n ca s) = true.
Proof. intros F n ca s H. change (HE (resolve_ident F n ca s)). he_tac resolve_ident_pres. Qed.
Lemma he_expr : forall F s, hadError s = true -> hadError (Parser.expr F s) = true.
Proof. intros. apply he_parse_prec. assumption. Qed.
Lemma he_var_decl : forall F s, hadError s = true -> hadError (var_decl F s) = true.
Proof. intros F s H. change (HE (var_decl F s)). he_tac var_decl_pres. Qed.
Lemma he_bind_stmt : forall s, hadError s = true -> hadError (bind_stmt s) = true.
Proof. intros s H. change (HE (bind_stmt s)). he_tac bind_stmt_pres. Qed.
Lemma he_decl : forall F s, hadError s = true -> hadError (decl F s) = true.
Proof. intros F s H. change (HE (decl F s)). he_tac decl_pres. Qed.
Lemma he_block_stmt : forall F s, hadError s = true -> hadError (block_stmt F s) = true.
Proof. intros F s H. change (HE (block_stmt F s)). he_tac block_stmt_pres. Qed.
Lemma he_block_loop : forall F s, hadError s = true -> hadError (block_loop F s) = true.
Proof. intros F s H. change (HE (block_loop F s)). he_tac block_loop_pres. Qed.
Lemma he_top_loop : forall F s, hadError s = true -> hadError (top_loop F s) = true.
Proof. intros F s H. change (HE (top_loop F s)). he_tac top_loop_pres. Qed.
Lemma he_sync : forall F s, hadError s = true -> hadError (sync F s) = true.
Proof. intros F s H. change (HE (sync F s)). he_tac sync_pres. Qed.
Lemma he_int_lit : forall s, hadError s = true -> hadError (int_lit s) = true.
Proof. intros s H. change (HE (int_lit s)). he_tac int_lit_pres. Qed.
Lemma he_float_lit : forall s, hadError s = true -> hadError (float_lit s) = true.
Proof. intros s H. change (HE (float_lit s)). he_tac float_lit_pres. Qed.
Lemma he_string_lit : forall s, hadError s = true -> hadError (string_lit s) = true.
Proof. intros s H. change (HE (string_lit s)). he_tac string_lit_pres. Qed.
Lemma he_bool_lit : forall s, hadError s = true -> hadError (bool_lit s) = true.
Proof. intros s H. change (HE (bool_lit s)). he_tac bool_lit_pres. Qed.
Lemma he_nil_lit : forall s, hadError s = true -> hadError (nil_lit s) = true.
Proof. intros s H. change (HE (nil_lit s)). he_tac nil_lit_pres. Qed.

Lemma he_EP : forall f, EP f -> forall s, hadError s = true -> hadError (f s) = true.
Proof. intros f E. apply E. Qed.
Lemma he_EP2 : forall g, EP2 g -> forall s, hadError s = true -> hadError (snd (g s)) = true.
Proof. intros g E. apply E. Qed.

Lemma he_emit_op : forall o s, hadError s = true -> hadError (emit_op o s) = true.
Proof. intros o. apply he_EP, EP_emit_op. Qed.
Lemma he_write : forall o s, hadError s = true -> hadError (write o s) = true.
Proof. intros o. apply he_EP, EP_write. Qed.
Lemma he_emit_uvarint : forall o s, hadError s = true -> hadError (emit_uvarint o s) = true.
Proof. intros o. apply he_EP, EP_emit_uvarint. Qed.
Lemma he_emit_ops : forall o s, hadError s = true -> hadError (emit_ops o s) = true.
Proof. intros o. apply he_EP, EP_emit_ops. Qed.
Lemma he_emit_const : forall o s, hadError s = true -> hadError (emit_const o s) = true.
Proof. intros o. apply he_EP, EP_emit_const. Qed.
Lemma he_patch_jump : forall o s, hadError s = true -> hadError (patch_jump o s) = true.
Proof. intros o. apply he_EP, EP_patch_jump. Qed.
Lemma he_pop_n : forall o s, hadError s = true -> hadError (pop_n o s) = true.
Proof. intros o. apply he_EP, EP_pop_n. Qed.
Lemma he_begin_scope : forall s, hadError s = true -> hadError (begin_scope s) = true.
Proof. apply he_EP, EP_begin_scope. Qed.
Lemma he_end_scope : forall s, hadError s = true -> hadError (end_scope s) = true.
Proof. apply he_EP, EP_end_scope. Qed.
Lemma he_cdecl_var : forall n s, hadError s = true -> hadError (cdecl_var n s) = true.
Proof. intros n. apply he_EP, EP_cdecl_var. Qed.
Lemma he_decl_var : forall s, hadError s = true -> hadError (decl_var s) = true.
Proof. intros s. rewrite decl_var_eq. apply he_cdecl_var. Qed.
Lemma he_def_var : forall s, hadError s = true -> hadError (def_var s) = true.
Proof. exact def_var_mono. Qed.
Lemma he_clit : forall v s, hadError s = true -> hadError (clit v s) = true.
Proof. intros v. apply he_EP, EP_clit. Qed.
Lemma he_emit_jump : forall o s, hadError s = true -> hadError (snd (emit_jump o s)) = true.
Proof. intros o. apply he_EP2, EP2_emit_jump. Qed.
Lemma he_ident_const : forall o s, hadError s = true -> hadError (snd (ident_const o s)) = true.
Proof. intros o. apply he_EP2, EP2_ident_const. Qed.
Lemma he_make_const : forall o s, hadError s = true -> hadError (snd (make_const o s)) = true.
Proof. intros o. apply he_EP2, EP2_make_const. Qed.

#[export] Hint Resolve he_advance he_perr he_perrc he_perror he_errc he_consume he_pmatch he_match_end
  he_parse_prec he_infix_loop he_resolve_ident he_expr he_var_decl he_bind_stmt he_decl he_block_stmt
  he_block_loop he_top_loop he_sync he_int_lit he_float_lit he_string_lit he_bool_lit he_nil_lit
  he_emit_op he_write he_emit_uvarint he_emit_ops he_emit_const he_patch_jump he_pop_n he_begin_scope
  he_end_scope he_cdecl_var he_decl_var he_def_var he_clit he_emit_jump he_ident_const he_make_const : he.

(* generator side *)
Lemma he_cexpr : forall e s, hadError s = true -> hadError (cexpr e s) = true.
Proof.
  induction e; intros s H; cbn [cexpr].
  - auto with he.
  - destruct (resolve_local _ _ _); [auto with he|]. destruct (depth s =? 0)%Z; [auto with he|].
    rewrite let_pair. auto with he.
  - destruct (resolve_local _ _ _); [auto with he|]. destruct (depth s =? 0)%Z; [auto with he|].
    rewrite let_pair. auto 10 with he.
  - auto with he.
  - rewrite let_pair. auto 10 with he.
  - rewrite !let_pair. auto 12 with he.
  - auto with he.
  - auto with he.
  - auto with he.
Qed.
#[export] Hint Resolve he_cexpr : he.

(* ================================================================== *)
(* 4. token plumbing on error-free states                              *)
(* ================================================================== *)

(* the grammar's remaining input, seen from a parser state *)
Definition tv (s : pst) : list token := cur_ s :: toks s.

(* ordinary tokens, then tEOF *)
Definition eshape (l : list token) : Prop :=
  exists body e, Forall normal body /\ ttyp e = tEOF /\ l = body ++ [e].

Lemma eshape_inv : forall t r, eshape (t :: r) ->
  (ttyp t = tEOF /\ r = []) \/ (normal t /\ eshape r).
Proof.
  intros t r (body & e & Fb & He & E). destruct body as [|b body].
  - cbn [app] in E. injection E as -> ->. left. split; [exact He|reflexivity].
  - cbn [app] in E. injection E as -> ->. inversion Fb as [|x y Hb Fb']; subst. right.
    split; [exact Hb|]. exists body, e. repeat split; assumption.
Qed.

Lemma eshape_hd : forall r, eshape r ->
  exists t' r', r = t' :: r' /\ ttyp t' <> tERR /\ ttyp t' <> tFAIL.
Proof.
  intros r (body & e & Fb & He & ->). destruct body as [|b body].
  - exists e, []. rewrite He. repeat split; discriminate.
  - inversion Fb as [|x y Hb Fb']; subst. exists b, (body ++ [e]). destruct Hb as (_ & H2 & H3).
    repeat split; assumption.
Qed.

Lemma normal_not_eof : forall t, normal t -> ttyp t <> tEOF.
Proof. intros t H. apply H. Qed.

Definition good (s : pst) : Prop :=
  hadLexFail s = false /\ panicMode s = false /\ oof s = false /\ ppanic s = false /\ eshape (tv s).

Lemma fr_good : forall s s', fr s' = fr s -> good s -> good s' /\ tv s' = tv s /\ prev s' = prev s.
Proof.
  intros s s' H (G1 & G2 & G3 & G4 & G5). unfold fr in H. injection H as H1 H2 H3 H4 H5 H6 H7.
  unfold good, tv in *. rewrite H1, H2, H3, H4, H5, H6, H7. repeat split; assumption.
Qed.

Lemma advance_loop_prev : forall ts s, prev (advance_loop ts s) = prev s.
Proof.
  induction ts as [|t r IH]; intros s.
  - reflexivity.
  - rewrite advance_loop_cons. destruct (tok_eqb (ttyp t) tERR).
    + rewrite IH. destruct (error_at_fields t (lexerr_msg (terr t)) (adv_tok t s)) as (_ & E & _).
      unfold error_at_current. 
      destruct (error_at_fields (cur_ (adv_tok t s)) (lexerr_msg (terr t)) (adv_tok t s)) as (_ & -> & _).
      apply adv_tok_fields.
    + destruct (set_toks_fields r (adv_tok t s)) as (_ & -> & _). apply adv_tok_fields.
Qed.

Lemma advance_prev : forall s, prev (advance s) = cur_ s.
Proof. intros s. unfold advance. rewrite advance_loop_prev. reflexivity. Qed.

Lemma advance_cons : forall s t' r', toks s = t' :: r' -> ttyp t' <> tERR -> ttyp t' <> tFAIL ->
  ev (advance s) = ev s /\ tv (advance s) = t' :: r' /\
  hadLexFail (advance s) = hadLexFail s /\ panicMode (advance s) = panicMode s /\
  oof (advance s) = oof s /\ ppanic (advance s) = ppanic s.
Proof.
  intros s t' r' E H1 H2. unfold advance. rewrite E, advance_loop_cons.
  apply tok_eqb_neq in H1, H2. rewrite H1. unfold adv_tok. cbv zeta. rewrite H2.
  repeat split.
Qed.

Lemma advance_nil : forall s, toks s = [] ->
  ev (advance s) = ev s /\ tv (advance s) = tv s /\
  hadLexFail (advance s) = hadLexFail s /\ panicMode (advance s) = panicMode s /\
  oof (advance s) = oof s /\ ppanic (advance s) = ppanic s.
Proof.
  intros s E. unfold advance. rewrite E, advance_loop_nil. unfold tv. cbn. rewrite E. repeat split.
Qed.

(* one step over an ordinary token *)
Lemma advance_good : forall s t r, good s -> tv s = t :: r -> ttyp t <> tEOF ->
  ev (advance s) = ev s /\ good (advance s) /\ tv (advance s) = r /\ prev (advance s) = t.
Proof.
  intros s t r (G1 & G2 & G3 & G4 & G5) E Ht. rewrite E in G5.
  destruct (eshape_inv _ _ G5) as [[H _]|[_ Hr]]; [contradiction|].
  destruct (eshape_hd _ Hr) as (t' & r' & -> & N1 & N2).
  unfold tv in E. injection E as Ec Et.
  destruct (advance_cons s t' r' Et N1 N2) as (A1 & A2 & A3 & A4 & A5 & A6).
  split; [exact A1|]. split.
  - unfold good. rewrite A2, A3, A4, A5, A6. repeat split; assumption.
  - split; [exact A2|]. rewrite advance_prev. exact Ec.
Qed.

(* at the end of the input advance does not move *)
Lemma advance_good_eof : forall s t r, good s -> tv s = t :: r -> ttyp t = tEOF ->
  ev (advance s) = ev s /\ good (advance s) /\ tv (advance s) = tv s /\ r = [].
Proof.
  intros s t r (G1 & G2 & G3 & G4 & G5) E Ht. pose proof G5 as G5'. rewrite E in G5'.
  destruct (eshape_inv _ _ G5') as [[_ ->]|[Hn _]]; [|apply normal_not_eof in Hn; contradiction].
  unfold tv in E. injection E as Ec Et.
  destruct (advance_nil s Et) as (A1 & A2 & A3 & A4 & A5 & A6).
  split; [exact A1|]. split; [|split; [exact A2|reflexivity]].
  unfold good. rewrite A2, A3, A4, A5, A6. repeat split; assumption.
Qed.

Lemma check_tv : forall k s t r, tv s = t :: r -> check k s = tok_eqb (ttyp t) k.
Proof. intros k s t r E. unfold tv in E. injection E as <- _. reflexivity. Qed.
Lemma check_hd : forall k s r, tv s = r -> check k s = tok_eqb (hd_typ r) k.
Proof. intros k s r <-. reflexivity. Qed.
Lemma pmatch_true : forall k s, check k s = true -> pmatch k s = (true, advance s).
Proof. intros k s H. unfold pmatch. rewrite H. reflexivity. Qed.
Lemma pmatch_false : forall k s, check k s = false -> pmatch k s = (false, s).
Proof. intros k s H. unfold pmatch. rewrite H. reflexivity. Qed.
Lemma consume_true : forall k m s, check k s = true -> consume k m s = advance s.
Proof. intros k m s H. unfold consume. rewrite H. reflexivity. Qed.
Lemma consume_false : forall k m s, check k s = false -> consume k m s = perrc m s.
Proof. intros k m s H. unfold consume. rewrite H. reflexivity. Qed.

(* ================================================================== *)
(* 5. the simulation relation                                          *)
(* ================================================================== *)

(* parser state s and generator state c after the same piece of input, r = what is left:
   either both have reported an error, or they agree on everything the generator looks at *)
Definition Sim (r : list token) (s c : pst) : Prop :=
  (hadError c = true /\ hadError s = true) \/
  (hadError c = false /\ ev s = ev c /\ good s /\ tv s = r).

Lemma Sim_good : forall r s c, hadError c = false -> ev s = ev c -> good s -> tv s = r -> Sim r s c.
Proof. intros r s c H1 H2 H3 H4. right. exact (conj H1 (conj H2 (conj H3 H4))). Qed.

Lemma Sim_prim : forall f r s c, EP f -> Sim r s c -> Sim r (f s) (f c).
Proof.
  intros f r s c [fe ff fm] [[Hc Hs]|(Hc & Hev & Hg & Htv)].
  - left. split; apply fm; assumption.
  - pose proof (fe s c Hev) as E. destruct (hadError (f c)) eqn:Hfc.
    + left. split; [exact Hfc|]. rewrite (ev_hadError _ _ E). exact Hfc.
    + assert (Hfs : hadError (f s) = false) by (rewrite (ev_hadError _ _ E); exact Hfc).
      destruct (fr_good _ _ (ff s Hfs) Hg) as (G & T & _).
      apply Sim_good; [exact Hfc|exact E|exact G|congruence].
Qed.

(* the same primitive with an argument that is only known to agree on error-free states *)
Lemma Sim_prim_arg : forall {A} (f : A -> pst -> pst) a a' r s c, (forall x, EP (f x)) ->
  (hadError c = false -> a = a') -> Sim r s c -> Sim r (f a s) (f a' c).
Proof.
  intros A f a a' r s c Hf Ha HS. destruct HS as [[Hc Hs]|(Hc & Hev & Hg & Htv)].
  - left. split; apply Hf; assumption.
  - rewrite (Ha Hc). apply Sim_prim; [apply Hf|]. apply Sim_good; assumption.
Qed.

Lemma Sim_prim2 : forall g r s c, EP2 g -> Sim r s c ->
  Sim r (snd (g s)) (snd (g c)) /\ (hadError c = false -> fst (g s) = fst (g c)).
Proof.
  intros g r s c [ge gf gm] HS. split.
  - apply (Sim_prim (fun s => snd (g s))); [|exact HS]. split; [|exact gf|exact gm].
    intros s1 c1 H. apply ge, H.
  - intros Hc. destruct HS as [[Hc' _]|(_ & Hev & _)]; [congruence|]. apply ge, Hev.
Qed.

Lemma Sim_hadError : forall r s c, Sim r s c -> hadError s = hadError c.
Proof.
  intros r s c [[Hc Hs]|(Hc & Hev & _)]; [congruence|]. apply ev_hadError, Hev.
Qed.

(* the parser moves over one ordinary token; the generator does nothing *)
Lemma Sim_advance : forall t r s c, Sim (t :: r) s c -> ttyp t <> tEOF -> Sim r (advance s) c.
Proof.
  intros t r s c [[Hc Hs]|(Hc & Hev & Hg & Htv)] Ht.
  - left. split; [exact Hc|apply he_advance, Hs].
  - destruct (advance_good s t r Hg Htv Ht) as (A1 & A2 & A3 & _).
    apply Sim_good; [exact Hc|congruence|exact A2|exact A3].
Qed.

(* pmatch / consume against the head of the remaining input *)
Lemma Sim_pmatch_yes : forall k t r s c, Sim (t :: r) s c -> ttyp t = k -> k <> tEOF ->
  Sim r (snd (pmatch k s)) c /\ (hadError c = false -> fst (pmatch k s) = true).
Proof.
  intros k t r s c HS Ht Hk. split.
  - destruct HS as [[Hc Hs]|(Hc & Hev & Hg & Htv)].
    + left. split; [exact Hc|apply he_pmatch, Hs].
    + rewrite pmatch_true by (rewrite (check_tv _ _ _ _ Htv), Ht; apply tok_eqb_eq; reflexivity).
      cbn [snd]. apply (Sim_advance t); [|congruence]. apply Sim_good; assumption.
  - intros Hc. destruct HS as [[Hc' _]|(_ & Hev & Hg & Htv)]; [congruence|].
    rewrite pmatch_true by (rewrite (check_tv _ _ _ _ Htv), Ht; apply tok_eqb_eq; reflexivity).
    reflexivity.
Qed.

Lemma Sim_pmatch_no : forall k r s c, Sim r s c -> tok_eqb (hd_typ r) k = false ->
  Sim r (snd (pmatch k s)) c /\ (hadError c = false -> fst (pmatch k s) = false).
Proof.
  intros k r s c HS Hk. split.
  - destruct HS as [[Hc Hs]|(Hc & Hev & Hg & Htv)].
    + left. split; [exact Hc|apply he_pmatch, Hs].
    + rewrite pmatch_false by (rewrite (check_hd _ _ _ Htv); exact Hk).
      apply Sim_good; assumption.
  - intros Hc. destruct HS as [[Hc' _]|(_ & Hev & Hg & Htv)]; [congruence|].
    rewrite pmatch_false by (rewrite (check_hd _ _ _ Htv); exact Hk). reflexivity.
Qed.

Lemma Sim_consume_yes : forall k m t r s c, Sim (t :: r) s c -> ttyp t = k -> k <> tEOF ->
  Sim r (consume k m s) c.
Proof.
  intros k m t r s c HS Ht Hk. destruct HS as [[Hc Hs]|(Hc & Hev & Hg & Htv)].
  - left. split; [exact Hc|apply he_consume, Hs].
  - rewrite consume_true by (rewrite (check_tv _ _ _ _ Htv), Ht; apply tok_eqb_eq; reflexivity).
    apply (Sim_advance t); [|congruence]. apply Sim_good; assumption.
Qed.

Lemma Sim_consume_no : forall k m r s c, Sim r s c -> tok_eqb (hd_typ r) k = false ->
  hadError (consume k m s) = true.
Proof.
  intros k m r s c HS Hk. destruct HS as [[Hc Hs]|(Hc & Hev & Hg & Htv)].
  - apply he_consume, Hs.
  - rewrite consume_false by (rewrite (check_hd _ _ _ Htv); exact Hk). reflexivity.
Qed.

(* what remains is never empty on an error-free state *)
Lemma Sim_nonempty : forall r s c, Sim r s c -> hadError c = false -> r <> [].
Proof.
  intros r s c [[Hc _]|(_ & _ & _ & Htv)] H; [congruence|]. rewrite <- Htv. discriminate.
Qed.

(* ====================================================================== *)
(* Part II: expressions                                                     *)
(* ====================================================================== *)

(* ================================================================== *)
(* 6. the grammar consumes input                                       *)
(* ================================================================== *)

Definition suf (r ts : list token) : Prop := exists pre, ts = pre ++ r.
Definition ssuf (r ts : list token) : Prop := suf r ts /\ (length r < length ts)%nat.

Lemma suf_refl : forall ts, suf ts ts.
Proof. intros. exists []. reflexivity. Qed.
Lemma suf_cons : forall t r ts, suf r ts -> suf r (t :: ts).
Proof. intros t r ts [pre ->]. exists (t :: pre). reflexivity. Qed.
Lemma suf_trans : forall a b c, suf a b -> suf b c -> suf a c.
Proof. intros a b c [p ->] [q ->]. exists (q ++ p). rewrite app_assoc. reflexivity. Qed.
Lemma suf_len : forall r ts, suf r ts -> (length r <= length ts)%nat.
Proof. intros r ts [pre ->]. rewrite app_length. lia. Qed.
Lemma suf_tl : forall r, suf (tl r) r.
Proof. intros [|x r]; [apply suf_refl|apply suf_cons, suf_refl]. Qed.
Lemma ssuf_cons : forall t r ts, suf r ts -> ssuf r (t :: ts).
Proof. intros t r ts H. split; [apply suf_cons, H|]. apply suf_len in H. cbn [length]. lia. Qed.
Lemma ssuf_suf : forall r ts, ssuf r ts -> suf r ts.
Proof. intros r ts H. apply H. Qed.
Lemma ssuf_suf_trans : forall a b c, ssuf a b -> suf b c -> ssuf a c.
Proof.
  intros a b c [H1 H2] H3. split; [eapply suf_trans; eassumption|]. apply suf_len in H3. lia.
Qed.
Lemma suf_ssuf_trans : forall a b c, suf a b -> ssuf b c -> ssuf a c.
Proof.
  intros a b c H1 [H2 H3]. split; [eapply suf_trans; eassumption|]. apply suf_len in H1. lia.
Qed.
Lemma suf_skip_semi : forall r, suf (skip_semi r) r.
Proof.
  intros [|x r]; [apply suf_refl|]. cbn [skip_semi].
  destruct (tok_eqb (ttyp x) tSEMICOLON); [apply suf_cons, suf_refl|apply suf_refl].
Qed.

Definition ppre (f : nat) (q : nat) (ts : list token) : option (expr * list token) :=
  let can_assign := (q <=? lvl_assign)%nat in
  match ts with
  | [] => None
  | t :: r =>
    match ttyp t with
    | tINT => match parse_int (tval t) with inr z => Some (ELit (VInt z), r) | inl _ => None end
    | tFLOAT => match parse_float (tval t) with inr b => Some (ELit (VFloat b), r) | inl _ => None end
    | tSTR => match unquote (tval t) with Some s => Some (ELit (VStr s), r) | None => None end
    | tTRUE => Some (ELit (VBool true), r)
    | tFALSE => Some (ELit (VBool false), r)
    | tNIL => Some (ELit VNil, r)
    | tIDENT =>
      if can_assign && tok_eqb (hd_typ r) tEQ then
        match pexpr f lvl_assign (tl r) with
        | Some (e, r') => Some (EAsg (tval t) e, r')
        | None => None
        end
      else Some (EId (tval t), r)
    | tLPAREN =>
      match pexpr f lvl_assign r with
      | Some (e, r') => match r' with
                        | c :: r'' => if tok_eqb (ttyp c) tRPAREN then Some (e, r'') else None
                        | [] => None end
      | None => None
      end
    | tMINUS => match pexpr f lvl_unary r with Some (e, r') => Some (ENeg e, r') | None => None end
    | tPLUS => match pexpr f lvl_unary r with Some (e, r') => Some (EPos e, r') | None => None end
    | tNOT => match pexpr f lvl_not r with Some (e, r') => Some (ENot e, r') | None => None end
    | _ => None
    end
  end.

Lemma pexpr_S : forall f q ts,
  pexpr (S f) q ts =
    match ppre f q ts with
    | None => None
    | Some (e0, r0) =>
      match ploop f q e0 r0 with
      | Some (e, r) => if (q <=? lvl_assign)%nat && tok_eqb (hd_typ r) tEQ then None else Some (e, r)
      | None => None
      end
    end.
Proof. reflexivity. Qed.

Lemma ploop_S : forall f q lhs ts,
  ploop (S f) q lhs ts =
    let t := hd_typ ts in
    if (0 <? infix_lvl t)%nat && (q <=? infix_lvl t)%nat then
      match t with
      | tAND => match pexpr f lvl_and (tl ts) with
                | Some (rhs, r) => ploop f q (EAnd lhs rhs) r | None => None end
      | tOR => match pexpr f lvl_or (tl ts) with
               | Some (rhs, r) => ploop f q (EOr lhs rhs) r | None => None end
      | _ => match binop_of t with
             | Some (o, l) => match pexpr f (S l) (tl ts) with
                              | Some (rhs, r) => ploop f q (EBin o lhs rhs) r | None => None end
             | None => None
             end
      end
    else Some (lhs, ts).
Proof. reflexivity. Qed.

Lemma ppre_suf : forall f,
  (forall q ts e r, pexpr f q ts = Some (e, r) -> ssuf r ts) ->
  forall q ts e r, ppre f q ts = Some (e, r) -> ssuf r ts.
Proof.
  intros f IH q ts e r H. unfold ppre in H. destruct ts as [|t ts]; [discriminate|].
  destruct (ttyp t); try discriminate.
  - destruct (parse_int _); [discriminate|]. injection H as _ <-. apply ssuf_cons, suf_refl.
  - destruct (parse_float _); [discriminate|]. injection H as _ <-. apply ssuf_cons, suf_refl.
  - destruct (unquote _); [|discriminate]. injection H as _ <-. apply ssuf_cons, suf_refl.
  - destruct (_ && _).
    + destruct (pexpr f lvl_assign (tl ts)) as [[e1 r1]|] eqn:E; [|discriminate]. injection H as _ <-.
      apply ssuf_cons. eapply suf_trans; [apply ssuf_suf, (IH _ _ _ _ E)|apply suf_tl].
    + injection H as _ <-. apply ssuf_cons, suf_refl.
  - injection H as _ <-. apply ssuf_cons, suf_refl.
  - injection H as _ <-. apply ssuf_cons, suf_refl.
  - injection H as _ <-. apply ssuf_cons, suf_refl.
  - destruct (pexpr f lvl_assign ts) as [[e1 r1]|] eqn:E; [|discriminate].
    destruct r1 as [|x r1]; [discriminate|]. destruct (tok_eqb _ _); [|discriminate]. injection H as _ <-.
    apply ssuf_cons. eapply suf_trans; [|apply ssuf_suf, (IH _ _ _ _ E)]. apply suf_cons, suf_refl.
  - destruct (pexpr f lvl_not ts) as [[e1 r1]|] eqn:E; [|discriminate]. injection H as _ <-.
    apply ssuf_cons, ssuf_suf, (IH _ _ _ _ E).
  - destruct (pexpr f lvl_unary ts) as [[e1 r1]|] eqn:E; [|discriminate]. injection H as _ <-.
    apply ssuf_cons, ssuf_suf, (IH _ _ _ _ E).
  - destruct (pexpr f lvl_unary ts) as [[e1 r1]|] eqn:E; [|discriminate]. injection H as _ <-.
    apply ssuf_cons, ssuf_suf, (IH _ _ _ _ E).
Qed.

Ltac each_bino tac :=
  first [tac OAdd | tac OSub | tac OMul | tac ODiv | tac OEq | tac ONe | tac OLt | tac OLe | tac OGt | tac OGe].

Lemma expr_suf : forall f,
  (forall q ts e r, pexpr f q ts = Some (e, r) -> ssuf r ts) /\
  (forall q l ts e r, ploop f q l ts = Some (e, r) -> suf r ts).
Proof.
  induction f as [|f [IHp IHl]]; [split; intros; discriminate|]. split.
  - intros q ts e r H. rewrite pexpr_S in H.
    destruct (ppre f q ts) as [[e0 r0]|] eqn:E0; [|discriminate].
    destruct (ploop f q e0 r0) as [[e1 r1]|] eqn:E1; [|discriminate].
    destruct (_ && _); [discriminate|]. injection H as _ <-.
    eapply suf_ssuf_trans; [apply (IHl _ _ _ _ _ E1)|apply (ppre_suf f IHp _ _ _ _ E0)].
  - intros q l ts e r H. rewrite ploop_S in H. cbv zeta in H.
    destruct (_ && _); [|injection H as _ <-; apply suf_refl].
    assert (X : forall q' l', match pexpr f q' (tl ts) with
                             | Some (rhs, r1) => ploop f q (l' rhs) r1 | None => None end = Some (e, r) ->
                             suf r ts).
    { intros q' l' H'. destruct (pexpr f q' (tl ts)) as [[rhs r1]|] eqn:E; [|discriminate].
      eapply suf_trans; [apply (IHl _ _ _ _ _ H')|].
      eapply suf_trans; [apply ssuf_suf, (IHp _ _ _ _ E)|apply suf_tl]. }
    destruct (hd_typ ts); cbn [binop_of] in H; try discriminate;
      first [ each_bino ltac:(fun o => apply (X _ (fun rhs => EBin o l rhs) H))
            | apply (X _ (fun rhs => EAnd l rhs) H)
            | apply (X _ (fun rhs => EOr l rhs) H)].
Qed.

Lemma pexpr_ssuf : forall f q ts e r, pexpr f q ts = Some (e, r) -> ssuf r ts.
Proof. intros f. apply (expr_suf f). Qed.
Lemma ploop_suf : forall f q l ts e r, ploop f q l ts = Some (e, r) -> suf r ts.
Proof. intros f. apply (expr_suf f). Qed.

(* an error in the left operand stays in the tree the loop builds around it *)
Lemma ploop_err : forall f q l ts e r c, ploop f q l ts = Some (e, r) ->
  hadError (cexpr l c) = true -> hadError (cexpr e c) = true.
Proof.
  induction f as [|f IH]; intros q l ts e r c H He; [discriminate|].
  rewrite ploop_S in H. cbv zeta in H.
  destruct (_ && _); [|injection H as <- _; exact He].
  assert (X : forall q' l', (forall rhs, hadError (cexpr (l' rhs) c) = true) ->
             match pexpr f q' (tl ts) with
             | Some (rhs, r1) => ploop f q (l' rhs) r1 | None => None end = Some (e, r) ->
             hadError (cexpr e c) = true).
  { intros q' l' Hl H'. destruct (pexpr f q' (tl ts)) as [[rhs r1]|] eqn:E; [|discriminate].
    apply (IH _ _ _ _ _ _ H'), Hl. }
  destruct (hd_typ ts); cbn [binop_of] in H; try discriminate;
    first [ each_bino ltac:(fun o => eapply (X _ (fun rhs => EBin o l rhs)); [|exact H])
          | eapply (X _ (fun rhs => EAnd l rhs)); [|exact H]
          | eapply (X _ (fun rhs => EOr l rhs)); [|exact H]];
    intros rhs; cbn [cexpr]; rewrite ?let_pair; auto 12 with he.
Qed.

(* ================================================================== *)
(* 7. the parser's expression functions in named pieces                *)
(* ================================================================== *)

Definition asg_check (ca : bool) (s2 : pst) : pst :=
  if ca then let '(m, s3) := pmatch tEQ s2 in if m then perr "invalid assignment target" s3 else s3
  else s2.

Definition prefix_act (f : nat) (pf : prefix_fn) (ca : bool) (s : pst) : pst :=
  match pf with
  | PFparens => consume tRPAREN "expected ')' after expression" (parse_prec f precAssign s)
  | PFunary =>
      let opType := ttyp (prev s) in
      let s' := parse_prec f precUnary s in
      match opType with tMINUS => emit_op opNEG s' | tPLUS => emit_op opUNPLUS s' | _ => s' end
  | PFboolNot =>
      let opType := ttyp (prev s) in
      let s' := parse_prec f precNot s in
      match opType with tNOT => emit_op opNOT s' | _ => s' end
  | PFidentRef => resolve_ident f (tval (prev s)) ca s
  | PFstringLit => string_lit s
  | PFintLit => int_lit s
  | PFfloatLit => float_lit s
  | PFboolLit => bool_lit s
  | PFnilLit => nil_lit s
  | PFnil => s
  end.

Definition is_nil (pf : prefix_fn) : bool := match pf with PFnil => true | _ => false end.

Lemma parse_prec_S' : forall f prec s0,
  parse_prec (S f) prec s0 =
    if is_nil (rule_prefix (ttyp (cur_ s0))) then perr "expected expression" (advance s0)
    else asg_check (prec <=? precAssign)
           (infix_loop f prec (prec <=? precAssign)
              (prefix_act f (rule_prefix (ttyp (cur_ s0))) (prec <=? precAssign) (advance s0))).
Proof.
  intros. rewrite parse_prec_S. cbv zeta. rewrite <- (advance_prev s0).
  destruct (rule_prefix (ttyp (prev (advance s0)))); reflexivity.
Qed.

Definition ri_finish (f : nat) (ca : bool) (setOp getOp idx : N) (st : pst) : pst :=
  let '(m, st1) := if ca then pmatch tEQ st else (false, st) in
  if m then emit_uvarint idx (emit_op setOp (parse_prec f precAssign st1))
  else emit_uvarint idx (emit_op getOp st1).

Lemma resolve_ident_S' : forall f name ca s,
  resolve_ident (S f) name ca s =
    match resolve_local (locals s) (nlocals s) name with
    | Some idx => ri_finish f ca opSETLOCAL opGETLOCAL idx s
    | None =>
      if (depth s =? 0)%Z then perr "undefined variable" s
      else ri_finish f ca opSETFIELD opGETFIELD (fst (ident_const name s)) (snd (ident_const name s))
    end.
Proof.
  intros. rewrite resolve_ident_S. cbv zeta. destruct (resolve_local _ _ _); [reflexivity|].
  destruct (depth s =? 0)%Z; [reflexivity|]. destruct (ident_const name s). reflexivity.
Qed.

Definition infix_act (f : nat) (s1 : pst) : pst :=
  let opType := ttyp (prev s1) in
  match rule_infix opType with
  | IFbinary => emit_ops (binary_ops opType) (parse_prec f (rule_prec opType + 1) s1)
  | IFboolAnd =>
      patch_jump (fst (emit_jump opJFALSE s1))
        (parse_prec f precAnd (emit_op opPOP (snd (emit_jump opJFALSE s1))))
  | IFboolOr =>
      patch_jump (fst (emit_jump opJUMP (snd (emit_jump opJFALSE s1))))
        (parse_prec f precOr
           (emit_op opPOP (patch_jump (fst (emit_jump opJFALSE s1))
                             (snd (emit_jump opJUMP (snd (emit_jump opJFALSE s1)))))))
  | IFnil => s1 <| ppanic := true |>
  end.

Definition infix_next (f : nat) (prec : N) (ca : bool) (s2 : pst) : pst :=
  if ppanic s2 then s2 else infix_loop f prec ca s2.

Lemma infix_loop_S' : forall f prec ca s,
  infix_loop (S f) prec ca s =
    if prec <=? rule_prec (ttyp (cur_ s)) then infix_next f prec ca (infix_act f (advance s)) else s.
Proof.
  intros. rewrite infix_loop_S. cbv zeta. destruct (prec <=? _); [|reflexivity].
  unfold infix_next, infix_act. cbv zeta.
  destruct (rule_infix _); reflexivity.
Qed.

Lemma he_asg_check : forall ca s, hadError s = true -> hadError (asg_check ca s) = true.
Proof.
  intros ca s H. unfold asg_check. destruct ca; [|exact H]. rewrite let_pair.
  destruct (fst (pmatch tEQ s)); auto with he.
Qed.
Lemma he_infix_next : forall f q ca s, hadError s = true -> hadError (infix_next f q ca s) = true.
Proof. intros f q ca s H. unfold infix_next. destruct (ppanic s); auto with he. Qed.
#[export] Hint Resolve he_asg_check he_infix_next : he.

(* levels *)
Lemma ca_eq : forall q, (N.of_nat q <=? precAssign) = (q <=? lvl_assign)%nat.
Proof.
  intros q. unfold precAssign, lvl_assign.
  destruct (N.leb_spec (N.of_nat q) 1), (Nat.leb_spec q 1); try reflexivity; lia.
Qed.

Lemma rule_prec_lvl : forall k, rule_prec k = N.of_nat (infix_lvl k).
Proof. intros k. destruct k; reflexivity. Qed.

Lemma loop_cond_eq : forall q k, (1 <= q)%nat ->
  (N.of_nat q <=? rule_prec k) = ((0 <? infix_lvl k)%nat && (q <=? infix_lvl k)%nat).
Proof.
  intros q k Hq. rewrite rule_prec_lvl.
  destruct (N.leb_spec (N.of_nat q) (N.of_nat (infix_lvl k))), (Nat.ltb_spec 0 (infix_lvl k)),
    (Nat.leb_spec q (infix_lvl k)); cbn [andb]; try reflexivity; lia.
Qed.

Lemma asg_check_ok : forall ca r s c, Sim r s c -> ca && tok_eqb (hd_typ r) tEQ = false ->
  Sim r (asg_check ca s) c.
Proof.
  intros ca r s c HS H. unfold asg_check. destruct ca; [|exact HS]. cbn [andb] in H.
  rewrite let_pair. destruct (Sim_pmatch_no tEQ r s c HS H) as [H1 H2].
  destruct HS as [[Hc Hs]|(Hc & Hev & Hg & Htv)].
  - left. split; [exact Hc|]. destruct (fst (pmatch tEQ s)); auto with he.
  - rewrite (H2 Hc). exact H1.
Qed.

Lemma asg_check_fail : forall ca r s c, Sim r s c -> ca && tok_eqb (hd_typ r) tEQ = true ->
  hadError (asg_check ca s) = true.
Proof.
  intros ca r s c HS H. apply andb_prop in H. destruct H as [-> H]. unfold asg_check.
  rewrite let_pair. destruct HS as [[Hc Hs]|(Hc & Hev & Hg & Htv)].
  - destruct (fst (pmatch tEQ s)); auto with he.
  - rewrite pmatch_true by (rewrite (check_hd _ _ _ Htv); exact H). reflexivity.
Qed.

(* ================================================================== *)
(* 8. the simulation for expressions                                   *)
(* ================================================================== *)

Definition ExprOK (f : nat) : Prop :=
  forall F q s c r0, (2 * f <= F)%nat -> (1 <= q)%nat -> Sim r0 s c ->
  match pexpr f q r0 with
  | Some (e, r) => Sim r (parse_prec F (N.of_nat q) s) (cexpr e c)
  | None => (length r0 < f)%nat -> hadError (parse_prec F (N.of_nat q) s) = true
  end.

Definition LoopOK (f : nat) : Prop :=
  forall F q ca s c0 lhs r0, (2 * f <= F)%nat -> (1 <= q)%nat -> Sim r0 s (cexpr lhs c0) ->
  match ploop f q lhs r0 with
  | Some (e, r) => Sim r (infix_loop F (N.of_nat q) ca s) (cexpr e c0)
  | None => (length r0 < f)%nat -> hadError (infix_loop F (N.of_nat q) ca s) = true
  end.

Lemma he_ri_finish : forall F ca a b i s, hadError s = true -> hadError (ri_finish F ca a b i s) = true.
Proof.
  intros F ca a b i s H. unfold ri_finish. rewrite let_pair.
  destruct ca; cbn [fst snd]; [destruct (fst (pmatch tEQ s))|]; auto 10 with he.
Qed.
Lemma he_prefix_act : forall F pf ca s, hadError s = true -> hadError (prefix_act F pf ca s) = true.
Proof.
  intros F pf ca s H. destruct pf; cbn [prefix_act]; cbv zeta; auto with he.
  - destruct (ttyp (prev s)); auto with he.
  - destruct (ttyp (prev s)); auto with he.
Qed.
Lemma he_infix_act : forall F s, hadError s = true -> hadError (infix_act F s) = true.
Proof.
  intros F s H. unfold infix_act. cbv zeta. destruct (rule_infix _); auto 14 with he.
Qed.
#[export] Hint Resolve he_ri_finish he_prefix_act he_infix_act : he.

Lemma tl_len : forall {A} (l : list A) n, (length l < n)%nat -> (length (tl l) < n)%nat.
Proof. intros A [|x l] n H; cbn [tl length] in *; lia. Qed.

Lemma ri_finish_ok : forall f, ExprOK f ->
  forall F ca setOp getOp idx idx' r s1 c1, (2 * f <= F)%nat ->
  Sim r s1 c1 -> (hadError c1 = false -> idx = idx') ->
  if ca && tok_eqb (hd_typ r) tEQ then
    match pexpr f lvl_assign (tl r) with
    | Some (e1, r1) => Sim r1 (ri_finish F ca setOp getOp idx s1)
                             (emit_uvarint idx' (emit_op setOp (cexpr e1 c1)))
    | None => (length (tl r) < f)%nat -> hadError (ri_finish F ca setOp getOp idx s1) = true
    end
  else Sim r (ri_finish F ca setOp getOp idx s1) (emit_uvarint idx' (emit_op getOp c1)).
Proof.
  intros f IH F ca setOp getOp idx idx' r s1 c1 HF HS Hidx.
  destruct HS as [[Hc Hs]|(Hc & Hev & Hg & Htv)].
  { destruct (ca && _); [destruct (pexpr _ _ _) as [[e1 r1]|]|];
      [left; split; auto 10 with he|intros _; auto with he|left; split; auto 10 with he]. }
  rewrite <- (Hidx Hc). clear Hidx idx'.
  assert (HS : Sim r s1 c1) by (apply Sim_good; assumption).
  unfold ri_finish. destruct ca; cbn [andb].
  - rewrite let_pair. destruct (tok_eqb (hd_typ r) tEQ) eqn:Heq.
    + destruct r as [|x r']; [cbn in Heq; discriminate|]. cbn [hd_typ tl] in *.
      apply tok_eqb_eq in Heq.
      destruct (Sim_pmatch_yes tEQ x r' s1 c1 HS Heq ltac:(discriminate)) as [H1 H2].
      rewrite (H2 Hc).
      pose proof (IH F lvl_assign _ c1 r' HF (le_n 1) H1) as IH1.
      destruct (pexpr f lvl_assign r') as [[e1 r1]|].
      * apply (Sim_prim (emit_uvarint idx)); [apply EP_emit_uvarint|].
        apply (Sim_prim (emit_op setOp)); [apply EP_emit_op|]. exact IH1.
      * intros Hlen. apply he_emit_uvarint, he_emit_op, IH1, Hlen.
    + destruct (Sim_pmatch_no tEQ r s1 c1 HS Heq) as [H1 H2]. rewrite (H2 Hc).
      apply (Sim_prim (emit_uvarint idx)); [apply EP_emit_uvarint|].
      apply (Sim_prim (emit_op getOp)); [apply EP_emit_op|]. exact H1.
  - apply (Sim_prim (emit_uvarint idx)); [apply EP_emit_uvarint|].
    apply (Sim_prim (emit_op getOp)); [apply EP_emit_op|]. exact HS.
Qed.

Lemma prefix_ok : forall f, ExprOK f ->
  forall F q s0 c t r, (2 * f + 1 <= F)%nat ->
  hadError c = false -> ev s0 = ev c -> good s0 -> tv s0 = t :: r ->
  match ppre f q (t :: r) with
  | Some (e0, r1) =>
      is_nil (rule_prefix (ttyp t)) = false /\
      Sim r1 (prefix_act F (rule_prefix (ttyp t)) (q <=? lvl_assign)%nat (advance s0)) (cexpr e0 c)
  | None => (length r < f)%nat ->
      is_nil (rule_prefix (ttyp t)) = true \/
      hadError (prefix_act F (rule_prefix (ttyp t)) (q <=? lvl_assign)%nat (advance s0)) = true
  end.
Proof.
  intros f IH F q s0 c t r HF Hc Hev Hg Htv.
  unfold ppre. cbv zeta.
  destruct (ttyp t) eqn:Ht; try (intros _; left; reflexivity);
    (destruct (advance_good s0 t r Hg Htv ltac:(rewrite Ht; discriminate)) as (A1 & A2 & A3 & A4);
     assert (HS : Sim r (advance s0) c) by (apply Sim_good; [exact Hc|congruence|exact A2|exact A3]));
    cbn [rule_prefix rule fst snd prefix_act].
  - (* tINT *)
    unfold int_lit. rewrite A4. destruct (parse_int (tval t)) as [er|z].
    + intros _. right. reflexivity.
    + split; [reflexivity|]. cbn [cexpr]. rewrite clit_int.
      destruct (z =? 0)%Z; [apply Sim_prim; [apply EP_emit_op|exact HS]|].
      destruct (z =? 1)%Z; [apply Sim_prim; [apply EP_emit_op|exact HS]|].
      apply Sim_prim; [apply EP_emit_const|exact HS].
  - (* tFLOAT *)
    unfold float_lit. rewrite A4. destruct (parse_float (tval t)) as [er|b].
    + intros _. right. reflexivity.
    + split; [reflexivity|]. cbn [cexpr clit]. apply Sim_prim; [apply EP_emit_const|exact HS].
  - (* tSTR *)
    unfold string_lit. rewrite A4. destruct (unquote (tval t)) as [v|].
    + split; [reflexivity|]. cbn [cexpr clit]. apply Sim_prim; [apply EP_emit_const|exact HS].
    + intros _. right. reflexivity.
  - (* tIDENT *)
    destruct F as [|F']; [lia|]. rewrite resolve_ident_S'. rewrite A4.
    assert (Hev' : ev (advance s0) = ev c) by congruence.
    rewrite (ev_locals _ _ Hev'), (ev_nlocals _ _ Hev'), (ev_depth _ _ Hev').
    destruct (resolve_local (locals c) (nlocals c) (tval t)) as [idx|] eqn:Hrl.
    + pose proof (ri_finish_ok f IH F' (q <=? lvl_assign)%nat opSETLOCAL opGETLOCAL idx idx r _ c
                    ltac:(lia) HS (fun _ => eq_refl)) as HR.
      destruct (_ && _).
      * destruct (pexpr f lvl_assign (tl r)) as [[e1 r1]|].
        -- split; [reflexivity|]. cbn [cexpr]. rewrite Hrl. exact HR.
        -- intros Hlen. right. apply HR, tl_len, Hlen.
      * split; [reflexivity|]. cbn [cexpr]. rewrite Hrl. exact HR.
    + destruct (depth c =? 0)%Z eqn:Hd.
      * destruct (_ && _); [destruct (pexpr f lvl_assign (tl r)) as [[e1 r1]|]|];
          [split; [reflexivity|]; cbn [cexpr]; rewrite Hrl, Hd; left; split; reflexivity
          |intros _; right; reflexivity
          |split; [reflexivity|]; cbn [cexpr]; rewrite Hrl, Hd; left; split; reflexivity].
      * destruct (Sim_prim2 (ident_const (tval t)) r _ c (EP2_ident_const _) HS) as [HS2 Hidx].
        pose proof (ri_finish_ok f IH F' (q <=? lvl_assign)%nat opSETFIELD opGETFIELD _ _ r _ _
                      ltac:(lia) HS2 (fun _ => Hidx Hc)) as HR.
        destruct (_ && _).
        -- destruct (pexpr f lvl_assign (tl r)) as [[e1 r1]|].
           ++ split; [reflexivity|]. cbn [cexpr]. rewrite Hrl, Hd, let_pair. exact HR.
           ++ intros Hlen. right. apply HR, tl_len, Hlen.
        -- split; [reflexivity|]. cbn [cexpr]. rewrite Hrl, Hd, let_pair. exact HR.
  - (* tTRUE *)
    split; [reflexivity|]. unfold bool_lit. rewrite A4, Ht. cbn [cexpr clit].
    apply Sim_prim; [apply EP_emit_op|exact HS].
  - (* tFALSE *)
    split; [reflexivity|]. unfold bool_lit. rewrite A4, Ht. cbn [cexpr clit].
    apply Sim_prim; [apply EP_emit_op|exact HS].
  - (* tNIL *)
    split; [reflexivity|]. unfold nil_lit. rewrite A4, Ht. cbn [cexpr clit].
    apply Sim_prim; [apply EP_emit_op|exact HS].
  - (* tLPAREN *)
    pose proof (IH F lvl_assign _ c r ltac:(lia) (le_n 1) HS) as IH1.
    change (N.of_nat lvl_assign) with precAssign in IH1.
    destruct (pexpr f lvl_assign r) as [[e1 r1]|].
    + destruct r1 as [|x r1'].
      * intros _. right. apply (Sim_consume_no _ _ _ _ _ IH1). reflexivity.
      * destruct (tok_eqb (ttyp x) tRPAREN) eqn:Hx.
        -- split; [reflexivity|]. apply tok_eqb_eq in Hx.
           apply (Sim_consume_yes _ _ x); [exact IH1|exact Hx|discriminate].
        -- intros _. right. apply (Sim_consume_no _ _ _ _ _ IH1). exact Hx.
    + intros Hlen. right. apply he_consume, IH1, Hlen.
  - (* tNOT *)
    cbv zeta. rewrite A4, Ht.
    pose proof (IH F lvl_not _ c r ltac:(lia) ltac:(unfold lvl_not; lia) HS) as IH1.
    change (N.of_nat lvl_not) with precNot in IH1.
    destruct (pexpr f lvl_not r) as [[e1 r1]|].
    + split; [reflexivity|]. cbn [cexpr]. apply Sim_prim; [apply EP_emit_op|exact IH1].
    + intros Hlen. right. apply he_emit_op, IH1, Hlen.
  - (* tPLUS *)
    cbv zeta. rewrite A4, Ht.
    pose proof (IH F lvl_unary _ c r ltac:(lia) ltac:(unfold lvl_unary; lia) HS) as IH1.
    change (N.of_nat lvl_unary) with precUnary in IH1.
    destruct (pexpr f lvl_unary r) as [[e1 r1]|].
    + split; [reflexivity|]. cbn [cexpr]. apply Sim_prim; [apply EP_emit_op|exact IH1].
    + intros Hlen. right. apply he_emit_op, IH1, Hlen.
  - (* tMINUS *)
    cbv zeta. rewrite A4, Ht.
    pose proof (IH F lvl_unary _ c r ltac:(lia) ltac:(unfold lvl_unary; lia) HS) as IH1.
    change (N.of_nat lvl_unary) with precUnary in IH1.
    destruct (pexpr f lvl_unary r) as [[e1 r1]|].
    + split; [reflexivity|]. cbn [cexpr]. apply Sim_prim; [apply EP_emit_op|exact IH1].
    + intros Hlen. right. apply he_emit_op, IH1, Hlen.
Qed.

(* the infix part *)
Inductive loop_kind := LKand | LKor | LKbin (o : bino) (l : nat) | LKnone.
Definition loop_kind_of (t : tok) : loop_kind :=
  match t with
  | tAND => LKand | tOR => LKor
  | _ => match binop_of t with Some (o, l) => LKbin o l | None => LKnone end
  end.

Lemma ploop_S' : forall f q lhs ts,
  ploop (S f) q lhs ts =
    if (0 <? infix_lvl (hd_typ ts))%nat && (q <=? infix_lvl (hd_typ ts))%nat then
      match loop_kind_of (hd_typ ts) with
      | LKand => match pexpr f lvl_and (tl ts) with
                 | Some (rhs, r) => ploop f q (EAnd lhs rhs) r | None => None end
      | LKor => match pexpr f lvl_or (tl ts) with
                | Some (rhs, r) => ploop f q (EOr lhs rhs) r | None => None end
      | LKbin o l => match pexpr f (S l) (tl ts) with
                     | Some (rhs, r) => ploop f q (EBin o lhs rhs) r | None => None end
      | LKnone => None
      end
    else Some (lhs, ts).
Proof. intros. rewrite ploop_S. cbv zeta. destruct (hd_typ ts); reflexivity. Qed.

Lemma lk_bin : forall k o l, loop_kind_of k = LKbin o l ->
  rule_infix k = IFbinary /\ binary_ops k = ops_of o /\ rule_prec k + 1 = N.of_nat (S l) /\ k <> tEOF.
Proof.
  intros k o l H. destruct k; try discriminate H; injection H as <- <-;
    (split; [reflexivity|split; [reflexivity|split; [reflexivity|discriminate]]]).
Qed.
Lemma lk_and : forall k, loop_kind_of k = LKand -> k = tAND.
Proof. intros k H. destruct k; try discriminate H; reflexivity. Qed.
Lemma lk_or : forall k, loop_kind_of k = LKor -> k = tOR.
Proof. intros k H. destruct k; try discriminate H; reflexivity. Qed.
Lemma lk_none : forall k, loop_kind_of k = LKnone -> infix_lvl k = 0%nat.
Proof. intros k H. destruct k; try discriminate H; reflexivity. Qed.

Lemma emit_jump_he : forall o c, hadError (snd (emit_jump o c)) = hadError c.
Proof. reflexivity. Qed.

Lemma loop_next_ok : forall f, LoopOK f ->
  forall F q ca s c0 lhs r0, (2 * f <= F)%nat -> (1 <= q)%nat -> Sim r0 s (cexpr lhs c0) ->
  match ploop f q lhs r0 with
  | Some (e, r) => Sim r (infix_next F (N.of_nat q) ca s) (cexpr e c0)
  | None => (length r0 < f)%nat -> hadError (infix_next F (N.of_nat q) ca s) = true
  end.
Proof.
  intros f IHl F q ca s c0 lhs r0 HF Hq HS.
  destruct HS as [[Hc Hs]|(Hc & Hev & Hg & Htv)].
  - destruct (ploop f q lhs r0) as [[e r]|] eqn:E.
    + left. split; [eapply ploop_err; eassumption|auto with he].
    + intros _. auto with he.
  - unfold infix_next. pose proof Hg as (_ & _ & _ & Hpp & _). rewrite Hpp.
    apply IHl; [exact HF|exact Hq|apply Sim_good; assumption].
Qed.

(* the recursive call of the loop, with the fuel bound of the enclosing call *)
Lemma loop_finish : forall f, LoopOK f ->
  forall F q ca s2 c0 lhs' r1 q' rhs t (r : list token), (2 * f <= F)%nat -> (1 <= q)%nat ->
  Sim r1 s2 (cexpr lhs' c0) -> pexpr f q' r = Some (rhs, r1) ->
  match ploop f q lhs' r1 with
  | Some (e, r2) => Sim r2 (infix_next F (N.of_nat q) ca s2) (cexpr e c0)
  | None => (length (t :: r) < S f)%nat -> hadError (infix_next F (N.of_nat q) ca s2) = true
  end.
Proof.
  intros f IHl F q ca s2 c0 lhs' r1 q' rhs t r HF Hq HS E.
  pose proof (loop_next_ok f IHl F q ca s2 c0 lhs' r1 HF Hq HS) as HN.
  destruct (ploop f q lhs' r1) as [[e r2]|]; [exact HN|]. intros Hlen. apply HN.
  destruct (pexpr_ssuf _ _ _ _ _ E) as [_ Hl]. cbn [length] in Hlen. lia.
Qed.

Lemma loop_step : forall f, ExprOK f -> LoopOK f -> LoopOK (S f).
Proof.
  intros f IHp IHl F q ca s c0 lhs r0 HF Hq HS.
  destruct HS as [[Hc Hs]|(Hc & Hev & Hg & Htv)].
  { destruct (ploop (S f) q lhs r0) as [[e r]|] eqn:E.
    - left. split; [eapply ploop_err; eassumption|auto with he].
    - intros _. auto with he. }
  unfold tv in Htv. subst r0. destruct F as [|F1]; [lia|].
  rewrite ploop_S', infix_loop_S'. cbn [hd_typ tl]. rewrite (loop_cond_eq q _ Hq).
  destruct (_ && _) eqn:Hcond; [|apply Sim_good; [exact Hc|exact Hev|exact Hg|reflexivity]].
  destruct (loop_kind_of (ttyp (cur_ s))) as [| |o l|] eqn:HK.
  - (* and *)
    apply lk_and in HK.
    destruct (advance_good s _ _ Hg eq_refl ltac:(rewrite HK; discriminate)) as (A1 & A2 & A3 & A4).
    assert (HS1 : Sim (toks s) (advance s) (cexpr lhs c0))
      by (apply Sim_good; [exact Hc|congruence|exact A2|exact A3]).
    unfold infix_act. cbv zeta. rewrite A4, HK. cbn [rule_infix rule fst snd].
    destruct (Sim_prim2 (emit_jump opJFALSE) _ _ _ (EP2_emit_jump _) HS1) as [HSa Hoff].
    rewrite (Hoff Hc).
    pose proof (IHp F1 lvl_and _ _ _ ltac:(lia) ltac:(unfold lvl_and; lia)
                  (Sim_prim (emit_op opPOP) _ _ _ (EP_emit_op _) HSa)) as IH1.
    change (N.of_nat lvl_and) with precAnd in IH1.
    destruct (pexpr f lvl_and (toks s)) as [[rhs r1]|] eqn:E1.
    + eapply loop_finish; [exact IHl|lia|exact Hq| |exact E1]. cbn [cexpr]. rewrite let_pair.
      apply Sim_prim; [apply EP_patch_jump|exact IH1].
    + intros Hlen. apply he_infix_next, he_patch_jump, IH1. cbn [length] in Hlen. lia.
  - (* or *)
    apply lk_or in HK.
    destruct (advance_good s _ _ Hg eq_refl ltac:(rewrite HK; discriminate)) as (A1 & A2 & A3 & A4).
    assert (HS1 : Sim (toks s) (advance s) (cexpr lhs c0))
      by (apply Sim_good; [exact Hc|congruence|exact A2|exact A3]).
    unfold infix_act. cbv zeta. rewrite A4, HK. cbn [rule_infix rule fst snd].
    destruct (Sim_prim2 (emit_jump opJFALSE) _ _ _ (EP2_emit_jump _) HS1) as [HSa Hoff].
    rewrite (Hoff Hc).
    destruct (Sim_prim2 (emit_jump opJUMP) _ _ _ (EP2_emit_jump _) HSa) as [HSb Hoff2].
    rewrite (Hoff2 ltac:(rewrite emit_jump_he; exact Hc)).
    pose proof (IHp F1 lvl_or _ _ _ ltac:(lia) ltac:(unfold lvl_or; lia)
                  (Sim_prim (emit_op opPOP) _ _ _ (EP_emit_op _)
                     (Sim_prim (patch_jump (fst (emit_jump opJFALSE (cexpr lhs c0)))) _ _ _
                                  (EP_patch_jump _) HSb))) as IH1.
    change (N.of_nat lvl_or) with precOr in IH1.
    destruct (pexpr f lvl_or (toks s)) as [[rhs r1]|] eqn:E1.
    + eapply loop_finish; [exact IHl|lia|exact Hq| |exact E1]. cbn [cexpr]. rewrite !let_pair.
      apply Sim_prim; [apply EP_patch_jump|exact IH1].
    + intros Hlen. apply he_infix_next, he_patch_jump, IH1. cbn [length] in Hlen. lia.
  - (* binary *)
    destruct (lk_bin _ _ _ HK) as (Hri & Hbo & Hrp & Hne).
    destruct (advance_good s _ _ Hg eq_refl Hne) as (A1 & A2 & A3 & A4).
    assert (HS1 : Sim (toks s) (advance s) (cexpr lhs c0))
      by (apply Sim_good; [exact Hc|congruence|exact A2|exact A3]).
    unfold infix_act. cbv zeta. rewrite A4, Hri, Hbo, Hrp.
    pose proof (IHp F1 (S l) _ _ _ ltac:(lia) ltac:(lia) HS1) as IH1.
    destruct (pexpr f (S l) (toks s)) as [[rhs r1]|] eqn:E1.
    + eapply loop_finish; [exact IHl|lia|exact Hq| |exact E1]. cbn [cexpr].
      apply Sim_prim; [apply EP_emit_ops|exact IH1].
    + intros Hlen. apply he_infix_next, he_emit_ops, IH1. cbn [length] in Hlen. lia.
  - (* not an operator: the loop condition is false *)
    apply lk_none in HK. rewrite HK in Hcond. discriminate Hcond.
Qed.

Lemma expr_step : forall f, ExprOK f -> LoopOK f -> ExprOK (S f).
Proof.
  intros f IHp IHl F q s c r0 HF Hq HS.
  destruct HS as [[Hc Hs]|(Hc & Hev & Hg & Htv)].
  { destruct (pexpr (S f) q r0) as [[e r]|]; [left; split; auto with he|intros _; auto with he]. }
  unfold tv in Htv. subst r0. destruct F as [|F1]; [lia|].
  rewrite pexpr_S, parse_prec_S', ca_eq.
  pose proof (prefix_ok f IHp F1 q s c (cur_ s) (toks s) ltac:(lia) Hc Hev Hg eq_refl) as HP.
  destruct (ppre f q (cur_ s :: toks s)) as [[e0 r1]|] eqn:Epre.
  - destruct HP as [Hnn HS1]. rewrite Hnn.
    pose proof (IHl F1 q (q <=? lvl_assign)%nat _ c e0 r1 ltac:(lia) Hq HS1) as HL.
    destruct (ploop f q e0 r1) as [[e r2]|].
    + destruct ((q <=? lvl_assign)%nat && tok_eqb (hd_typ r2) tEQ) eqn:Hca.
      * intros _. eapply asg_check_fail; eassumption.
      * apply asg_check_ok; assumption.
    + intros Hlen. apply he_asg_check, HL.
      destruct (ppre_suf f (pexpr_ssuf f) _ _ _ _ Epre) as [_ Hl]. lia.
  - intros Hlen. destruct (HP ltac:(cbn [length] in Hlen; lia)) as [Hn|He].
    + rewrite Hn. reflexivity.
    + destruct (is_nil _); [reflexivity|]. apply he_asg_check, he_infix_loop, He.
Qed.

Theorem expr_ok : forall f, ExprOK f /\ LoopOK f.
Proof.
  induction f as [|f [IHp IHl]].
  - split.
    + intros F q s c r0 _ _ _. cbn [pexpr]. lia.
    + intros F q ca s c0 lhs r0 _ _ _. cbn [ploop]. lia.
  - split; [apply expr_step|apply loop_step]; assumption.
Qed.

Lemma pexpr_ok : forall f, ExprOK f.
Proof. intros f. apply expr_ok. Qed.
Print Assumptions expr_ok.
